module verif

go 1.23

require (
	github.com/Masterminds/semver v1.5.0
	github.com/nyaruka/gocommon v1.59.3
	github.com/nyaruka/goflow v0.0.0
	github.com/shopspring/decimal v1.4.0
)

require (
	github.com/antlr4-go/antlr/v4 v4.13.1 // indirect
	github.com/blevesearch/segment v0.9.1 // indirect
	github.com/buger/jsonparser v1.1.1 // indirect
	github.com/gabriel-vasile/mimetype v1.4.7 // indirect
	github.com/go-chi/chi/v5 v5.1.0 // indirect
	github.com/go-playground/locales v0.14.1 // indirect
	github.com/go-playground/universal-translator v0.18.1 // indirect
	github.com/go-playground/validator/v10 v10.23.0 // indirect
	github.com/google/uuid v1.6.0 // indirect
	github.com/gorilla/websocket v1.5.3 // indirect
	github.com/leodido/go-urn v1.4.0 // indirect
	github.com/nyaruka/null/v2 v2.0.3 // indirect
	github.com/nyaruka/phonenumbers v1.4.3 // indirect
	golang.org/x/crypto v0.29.0 // indirect
	golang.org/x/exp v0.0.0-20241108190413-2d47ceb2692f // indirect
	golang.org/x/net v0.31.0 // indirect
	golang.org/x/sys v0.27.0 // indirect
	golang.org/x/text v0.20.0 // indirect
	google.golang.org/protobuf v1.35.2 // indirect
)

replace github.com/nyaruka/goflow => /repo
