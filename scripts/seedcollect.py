#!/usr/bin/env python3
"""Copies confirmed seeded changes from /tmp/seed/<P>/_seeded/* into /verif/seeded/<id>/ (patch.diff, demonstration, meta.json)."""
import json, os, glob, shutil, sys
n = 0
for vd in sorted(glob.glob('/tmp/seed/*/_seeded/*/verified.json')):
    d = os.path.dirname(vd)
    v = json.load(open(vd))
    if not v.get('confirmed'):
        continue
    sid = os.path.basename(d)
    out = os.path.join('/verif/seeded', sid)
    os.makedirs(out, exist_ok=True)
    meta = json.load(open(os.path.join(d, 'meta.json')))
    shutil.copy(os.path.join(d, 'patch.diff'), out)
    demos = glob.glob(os.path.join(d, '*_test.go')) + glob.glob(os.path.join(d, '*.go'))
    for f in set(demos):
        shutil.copy(f, os.path.join(out, os.path.basename(f) + '.txt'))  # .txt so that `go build ./...` in /verif ignores it
    old = {}
    if os.path.exists(os.path.join(out, 'meta.json')):
        old = json.load(open(os.path.join(out, 'meta.json')))
    m = {
        "id": sid, "property": meta.get("property"), "title": meta.get("title"), "breaks": meta.get("breaks"), "needs": meta.get("needs"),
        "files": meta.get("files"), "demo": meta.get("demo"),
        "demo_note": "demonstration file(s) stored with a .txt suffix; copy to the package directory named in 'demo' without the suffix",
        "confirmed_by_us": {k: v.get(k) for k in ["demo_passes_without_change", "patch_applies", "compiles", "demo_fails_with_change", "suite_passes"]},
        "what_we_ran": "scripts/seedcheck.py: in a scratch worktree at /repo's HEAD: demo on the clean tree (pass), git apply patch, go build ./..., demo (fail), pinned suite vs BASELINE.json (all stable tests pass); then ./check <ID> quick with VERIF_REPO pointing at the patched scratch worktree; worktree cleaned afterwards",
        "detection": v.get("checks"),
        "detected": v.get("detected"),
        "history": old.get("history", []),
    }
    if old and old.get("detected") is not None and old.get("detected") != v.get("detected"):
        m["history"].append({"detected_before": old.get("detected"), "detection_before": old.get("detection")})
    json.dump(m, open(os.path.join(out, 'meta.json'), 'w'), indent=1)
    n += 1
print(n, "seeded changes collected")
