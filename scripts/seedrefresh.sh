#!/bin/bash
# Refreshes the detection results of every kept seeded change against the current checks (demonstration re-run, suite not
# re-run): one job per property in parallel, each in its own scratch worktree /tmp/seed/<P>.
# usage: scripts/seedrefresh.sh [P...]   -> /tmp/seed/refresh-<P>.txt
cd "$(dirname "$0")/.."
PS="${*:-C01 C02 C03 C04 C05 C06 C07 C08 C09 C10 C11 C12 C13 C14 C15 C16 C17 C18 C19 C20}"
for P in $PS; do
  ( for d in /tmp/seed/$P/_seeded/$P-*; do
      python3 scripts/seedcheck.py /tmp/seed/$P $d --no-suite $SEEDARGS 2>&1 | python3 -c "
import json,sys
try: d=json.load(sys.stdin)
except Exception as e: print('$d unparseable', e); sys.exit()
print('$d'.split('/')[-1], 'confirmed=%s detected=%s' % (d.get('confirmed'), d.get('detected')), {k:d.get(k) for k in ['demo_passes_without_change','patch_applies','compiles','demo_fails_with_change','suite_passes']} if not d.get('confirmed') else '', [(k, v['detected']) for k,v in (d.get('checks') or {}).items()])"
    done > /tmp/seed/refresh-$P.txt 2>&1 ) &
done
wait
cat /tmp/seed/refresh-*.txt | grep -v "confirmed=True detected=True" | head -40
