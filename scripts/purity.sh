#!/bin/bash
# Aid: runs a check twice (fresh processes, different map hash seeds) and compares the fingerprints of all cases.
# A difference means a case is not a pure function of (seed, property, index) — a defect of the harness.
# usage: scripts/purity.sh [quick|thorough] ID...
cd "$(dirname "$0")/.."
TIER="$1"; shift
for ID in "$@"; do
  for k in 1 2; do
    rm -rf .work/purity-$ID-$k; 
    VERIF_KEEP_WORK=1 ./check $ID $TIER > .work/purity-$ID-$k.log 2>&1
    D=$(ls -dt .work/$ID-$TIER-* | head -1)
    cat $D/*.fp 2>/dev/null > .work/purity-$ID-$k.fps
    rm -rf "$D"
  done
  python3 - "$ID" <<'PY'
import sys
ID=sys.argv[1]
def fps(k):
    b=open(f'.work/purity-{ID}-{k}.fps','rb').read()
    return set(b[i:i+8] for i in range(0,len(b)-7,8))
a,b=fps(1),fps(2)
print(ID, 'pure' if a==b else 'IMPURE', len(a), 'fingerprints;', len(a^b), 'differ')
PY
done
