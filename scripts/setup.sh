#!/bin/bash
# Offline setup after a fresh restore: builds the checker once (warms the Go build cache).
set -e
cd "$(dirname "$0")/.."
export GOFLAGS=-mod=mod GOPROXY=off GOSUMDB=off GOTOOLCHAIN=local
mkdir -p .build .work evidence replays
cp /repo/go.sum go.sum
go build -tags verif -o .build/vcheck ./cmd/vcheck
go build -race -tags verif -o .build/vcheck-race ./cmd/vcheck
echo setup ok
