#!/bin/bash
# Offline setup after a fresh restore: builds the checker once (warms the Go build cache).
set -e
cd "$(dirname "$0")/.."
export GOFLAGS=-mod=mod GOPROXY=off GOSUMDB=off GOTOOLCHAIN=local
mkdir -p .build .work evidence replays
cp /repo/go.sum go.sum
for m in vcprops vc07 vc11 vc13 vc14 vc16 vc17 vc19 vc20; do
  go build -tags verif -o .build/$m ./cmd/$m
done
go build -race -tags verif -o .build/vcheck-race ./cmd/vcprops
echo setup ok
