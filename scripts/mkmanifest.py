#!/usr/bin/env python3
"""Regenerates /verif/MANIFEST.json from the table below (kept in one place so it is always valid)."""
import json, subprocess, os

ROOT = os.path.dirname(os.path.dirname(os.path.abspath(__file__)))

# id -> (technique, level text, level note, design ref)
CLAIMED = {
 "C04": ("crash/hang sanitizer: child-process workers + recover() + two-stage watchdog over generated calls",
         "Runtime monitoring: every registered function and router test is called with boundary argument tuples (thorough: exhaustively for arity<=3 over a 24-value pool), and hostile/grammar-derived templates and webhook-style JSON numbers are evaluated through Template/TemplateValue/Expression in child processes; a panic, runtime fatal error or a confirmed stage-2 timeout is a violation. Held on the executions observed only.",
         "Trusts: Go's recover()/process exit status for crash detection; the size estimator that keeps generated inputs result-bounded (<=1MB); wall-clock stage-2 budget (60 s alone) as the bounded-progress restatement of 'always returns'.",
         "DESIGN.md §4 C04"),
}

NOT_YET = {}

def main():
    props = [json.loads(l) for l in open(os.path.join(ROOT, "properties.jsonl"))]
    checks = []
    na = []
    for p in props:
        pid = p["id"]
        if pid in CLAIMED:
            tech, text, note, ref = CLAIMED[pid]
            checks.append({
                "property_id": pid,
                "quick_cmd": f"./check {pid} quick",
                "thorough_cmd": f"./check {pid} thorough",
                "evidence_file": f"/verif/evidence/{pid}.json",
                "replay_cmd_template": f"./check {pid} quick --replay {{path}}",
                "engine": "vcheck",
                "level_claimed": {"category": "exploration", "text": text, "design_ref": ref},
                "level_note": note,
                "technique": tech,
            })
        else:
            na.append({"property_id": pid, "reason": NOT_YET.get(pid, "check not built yet (runtime monitoring applies; see DESIGN.md §4) — not claimed until its monitor exists and is silent on the unchanged tree")})
    try:
        commits = subprocess.check_output(["git", "-C", "/repo", "log", "--format=%H %s", "d2d4c7c..HEAD"], text=True).strip().splitlines()
    except Exception:
        commits = []
    hook_commits = [c.split()[0] for c in commits if c.split(" ", 1)[1].startswith("verif:")]
    m = {
        "version": 1,
        "setup_cmd": "./scripts/setup.sh",
        "hooks": {
            "guard": "verif",
            "enable": "go build -tags verif (all checker builds use the tag; see ./check)",
            "baseline_off_cmd": "./scripts/baseline.sh",
            "source_commits": hook_commits,
            "add_only": True,
        },
        "engines": [{"name": "vcheck", "path": "/verif/cmd/vcheck", "serves_properties": sorted(CLAIMED), "kind_free_text": "Go orchestrator + child-process workers: generators, scenario driver, runtime monitors, race-detector rounds; rebuilt from /repo's working tree on every invocation"}],
        "checks": checks,
        "not_applicable": na,
        "notes": "Technique family: runtime monitoring and sanitizers. Every verdict is 'held on the executions observed'. Exit 0 held / 1 VIOLATION / 2 INCONCLUSIVE. Known findings: /verif/known_findings.json. VERIF_SEED selects the generated case list.",
    }
    json.dump(m, open(os.path.join(ROOT, "MANIFEST.json"), "w"), indent=1)
    print("MANIFEST.json:", len(checks), "checks,", len(na), "not claimed")

if __name__ == "__main__":
    main()
