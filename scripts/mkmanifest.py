#!/usr/bin/env python3
"""Regenerates /verif/MANIFEST.json from the table below (kept in one place so it is always valid)."""
import json, subprocess, os

ROOT = os.path.dirname(os.path.dirname(os.path.abspath(__file__)))

# id -> (technique, level text, level note, design ref)
CLAIMED = {
 "C04": ("crash/hang sanitizer: child-process workers + recover() + two-stage watchdog over generated calls",
         "Runtime monitoring: every registered function and router test is called with boundary argument tuples (thorough: exhaustively for arity<=3 over a 24-value pool), and hostile/grammar-derived templates and webhook-style JSON numbers are evaluated through Template/TemplateValue/Expression in child processes; a panic, runtime fatal error or a confirmed stage-2 timeout is a violation. Held on the executions observed only.",
         "Trusts: Go's recover()/process exit status for crash detection; the size estimator that keeps generated inputs result-bounded (<=1MB); wall-clock stage-2 budget (60 s alone) as the bounded-progress restatement of 'always returns'.",
         "DESIGN.md §4 C04"),
}

CLAIMED.update({
 "C01": ("invariant walker over the live session after every engine call of generated + directed scenarios",
         "Runtime monitoring: generated flow graphs (cycles, self/mutually entering sub-flows, terminal enters, empty flows), contacts, triggers and resume histories are executed by the real engine under virtual clock/UUID/random sources; after every NewSession/Resume that returns err==nil a walker checks every clause of the statement on the live session (kept alive or re-read from JSON at seeded waits). Held on the executions observed only.",
         "Trusts: the public accessors (Session.Runs, Run.Path/Events, Flow.GetNode, Sprint.Events) as the observation boundary; event identity (same Go objects in run and sprint lists).",
         "DESIGN.md §4 C01"),
 "C03": ("offline replay checker over the recorded sprint log + differential check of modifiers.Apply applied twice",
         "Runtime monitoring: an independent replay model applies the contact events of every sprint to the contact JSON before and must reproduce the contact JSON after (engine part); every modifier type is applied twice to generated contacts and 'modified' <=> contact changed <=> change event, replay, and second application is a no-op are checked (direct part). Held on the executions observed only.",
         "Trusts: json.Marshal(contact) as the contact's observable state; groups compared as a set, URNs as an ordered list; both applications of a modifier are made at the same clock instant.",
         "DESIGN.md §4 C03"),
 "C05": ("crash/hang sanitizer (recover + virtual-clock step budget + stage-2 wall clock) and limit monitors over the sprint log",
         "Runtime monitoring: loop-heavy generated graphs and directed adversarial flows are run under boundary engine options with long multi-byte inputs; panics, exceeding the logical step budget of the virtual clock, a confirmed 60 s stage-2 timeout, more new steps than MaxStepsPerSprint, limit failures that do not fail the session, too many accepted resumes and over-long / invalid UTF-8 texts in events, results and the contact are violations. Held on the executions observed only.",
         "Trusts: dates.Now() is called at least once per created step (virtual-time watchdog); wall clock only in the stage-2 confirmation (margin >= 10^4 over the normal cost).",
         "DESIGN.md §4 C05"),
 "C06": ("invariant hook on the live contact after every engine call and every modifiers.Apply; oracles = the real query evaluator and an independent reference evaluator over the contact JSON",
         "Runtime monitoring: for generated query-based groups over every queryable property and contacts with right or wrong stored membership, after every engine call and every directly applied modifier membership of every query group must equal (active && query matches), a contact that became non-active is in no static group, and the net group delta equals the net effect of the contact_groups_changed events. Held on the executions observed only.",
         "Trusts: Group.CheckQueryBasedMembership / contactql.EvaluateQuery as first oracle (their own consistency is C15) and, for the query forms it models (numbers, calendar days, presence, text, URN any/all semantics, tickets, name ~ by words, location fields by level, AND/OR), a ~300-line reference evaluator written from the documentation; membership accepted if it matches under the session environment or the merged (contact timezone) environment.",
         "DESIGN.md §4 C06"),
})

CLAIMED.update({
 "C02": ("differential monitor over restart masks (live session vs ReadSession(marshal) at chosen waits) + marshal/read/marshal fixed point",
         "Runtime monitoring: each generated history is executed from identical clock/UUID/random sources under different restart masks (quick: all-ones + seeded masks; thorough: all 2^k masks for k<=6 calls, else all-ones, single-restart and sampled masks; histories of up to 120 resumes) and the per-sprint events, segments and session JSON must be byte-equal to the execution that keeps the session alive; at every hand-back marshal(read(marshal(s)))==marshal(s). Held on the executions observed only.",
         "Trusts: generator never references @webhook/@legacy_extra after a wait (the statement's exemptions); source state is restored after every ReadSession so only Resume consumes clock/UUID ticks.",
         "DESIGN.md §4 C02"),
 "C10": ("differential monitor (session JSON before/after rejected resumes, history with injected rejected resumes vs clean history) + fault enumeration over the asset store",
         "Runtime monitoring: at every reachable state every resume type is tried; a resume rejected with an engine error must leave the live and the re-read session JSON unchanged and produce no events, and the history with all rejected resumes injected must equal the clean history; at every wait the session is restored against 13 kinds of faulted assets / options / corrupted JSON and resumed: never a panic or Go error, impossible resumption => failed session with failure event. Held on the executions observed only.",
         "Trusts: json.Marshal(session) as the session's observable state; faults that make the changed definition itself unloadable are skipped; for 'changed but still resumable' faults only no-panic is demanded.",
         "DESIGN.md §4 C10"),
})

CLAIMED.update({
 "C11": ("round-trip / metamorphic oracle over generated expression texts (print, re-parse, evaluate in 8 contexts; refactor identity and rename)",
         "Runtime monitoring: for every generated expression text the real parser accepts, Parse(e).String() must parse, be a fixed point after one round and evaluate like e (types.Equals / both errors) in 8 random contexts; refactor.Template with identity transformations keeps the value; ContextRefRename(a->b.c) keeps the value in the renamed context and touches only the renamed references. Held on the executions observed only.",
         "Trusts: types.Equals and the evaluator as comparison base; error messages are not compared; lambdas compared by behaviour on probe tuples.",
         "DESIGN.md §4 C11"),
 "C12": ("round-trip oracle over generated strings through the real template scanner, lexer and evaluator, with goflow's own literal printer",
         "Runtime monitoring: body text passes through Template unchanged modulo @@; every generated string written with goflow's literal printer evaluates to itself alone, next to other literals, as function argument and as index key, through Template and through Expression; scanner tokens for body+@(E)+body are exactly [BODY, EXPRESSION, BODY]. Held on the executions observed only.",
         "Trusts: types.XText.Describe() as 'the' literal printer (the anchors' reading of 'can be written as a quoted, escaped literal'); strings are valid UTF-8 without NUL.",
         "DESIGN.md §4 C12"),
 "C13": ("round-trip oracles over generated numbers, instants (24 zones x 12 environment formats), JSON documents, '=' pairs and field values",
         "Runtime monitoring: ToXNumber(ToXText(n))==n; ISO/JSON and every environment date/time format of datetimes, dates and times parse back to the same value at the rendered precision; json(parse_json(doc)) is JSON-equivalent to doc; '=' agrees with Render equality; field values survive the contact JSON and re-parse to their typed parts. Held on the executions observed only.",
         "Trusts: encoding/json (UseNumber) and math/big for equivalence; locale left at default; over-long field texts (cut after parsing) are observed, not judged.",
         "DESIGN.md §4 C13"),
 "C14": ("round-trip and injection oracles over grammar-derived query texts and programmatic trees, with goflow's own printers and escaping",
         "Runtime monitoring: every accepted query's String() re-parses to a structurally identical tree (4 configurations: with/without resolver x redaction policy); programmatic trees with hostile values survive Stringify+ParseQuery; a value substituted with ContactQueryEscaping at any position of a multi-condition template becomes exactly one literal. Held on the executions observed only.",
         "Trusts: the public accessors of contactql nodes for structural comparison. Engine level: contact_query templates are evaluated through Evaluator.Template(…, ContactQueryEscaping) over contexts with values of every type, and through start_session / send_broadcast in real flows; the evaluated query must equal the template's skeleton with one literal per expression.",
         "DESIGN.md §4 C14"),
 "C15": ("crash sanitizer + metamorphic oracles (AND/OR compositionality, Simplify, presence, trichotomy, independent calendar-day reference) over generated queries x contacts",
         "Runtime monitoring: EvaluateQuery never panics; eval(a AND b)==eval(a)&&eval(b) and likewise for OR, n-ary and nested forms evaluated through their own text; Simplify keeps the result; = \"\" / != \"\" test absence/presence; for present number/date values exactly one of <,=,> holds with <=,>=,!= consistent; date results equal an independent calendar-day comparison. Held on the executions observed only.",
         "Trusts: time.In(tz).Date() as the calendar-day reference; contacts built through flows.ReadContact plus a hand-written Queryable.",
         "DESIGN.md §4 C15"),
 "C16": ("translation-validation style oracles over down-converted and seed definitions + fault enumeration over every JSON path of every seed definition",
         "Runtime monitoring: generated current-version flows down-converted to 13.0..13.5, legacy flows assembled from the repository's library and every definition file in the repository are migrated: output loads, flow/node/exit identities kept, idempotent, current version untouched byte-for-byte, stepwise == one-go, 13.3 template rewrites preserve values, read/marshal/read round trip; every JSON path of the seed definitions x 23 fault kinds and raw bytes: migrate/read return (value or error), never panic. Held on the executions observed only.",
         "Trusts: definition.ReadFlow as acceptance test; the down-conversion (inverse migrations) in the harness; evidence level stays exploration with fault counters as extra keys.",
         "DESIGN.md §4 C16"),
 "C17": ("reference-model oracle: generator-side legacy AST + reference evaluator vs real MigrateTemplate + Evaluator.Template",
         "Runtime monitoring: legacy templates are generated from the harness's own legacy AST (49 migratable functions at every nesting position under every operator), migrated by the real code, and the migrated template must parse, keep text outside expressions and evaluate to the value a reference evaluator gives the legacy tree on the same operands; mismatches are classified by a parenthesisation repair experiment. Held on the executions observed only.",
         "Trusts: the reference evaluator's Excel semantics on a deliberately restricted, unambiguous domain (small integers, short ASCII strings, terminating divisions).",
         "DESIGN.md §4 C17"),
})

CLAIMED.update({
 "C07": ("reference-model oracle: independent reference router evaluated on the run's context vs the exit / stored result the engine produced",
         "Runtime monitoring: dedicated scenarios (wait -> router under test -> one sink per exit, also entered from a parent flow) over all registered tests, 0-6 cases, erroring cases, duplicate categories, shared exits, localized / expression arguments, all resume kinds and planted random draws; every step that left a node must have taken the exit of the category chosen by an independent reference router, and the stored result must carry that category's name, the match (operand for default) and the operand as input (modulo MaxResultChars). Held on the executions observed only.",
         "Trusts: Evaluator.TemplateValue and the registered test functions inside the reference router; the clock is frozen per engine call so router and reference see the same instant.",
         "DESIGN.md §4 C07"),
 "C08": ("differential monitor: every case 8x in-process and across 3 passes of fresh processes (ascending, descending, one process per case), digests compared; canaries over process globals and shared singleton values",
         "Runtime monitoring: scenarios biased to map-order-sensitive features plus pure calls (Inspect, MigrateToLatest, Clone with fixed mapping, ContactQuery.String, template results) are executed repeatedly from identical clock/UUID/random sources; any byte difference between repetitions in one process, between fresh processes (different map hash seeds) or depending on what ran before (order / process-global contamination) is a violation. Held on the executions observed only.",
         "Trusts: Go's per-iteration map randomisation to expose order dependence (a 2-key site agrees 8 times with probability 2^-7; cases are many); SHA-256 digests.",
         "DESIGN.md §4 C08"),
 "C09": ("Go race detector over rounds of N goroutines on cold shared assets in many short-lived processes + concurrent-vs-solo transcript equality + canaries + cold-load conservation (UUID draws of concurrent vs solo first use)",
         "Runtime monitoring / sanitizer: the checker is rebuilt with -race; each round builds fresh shared SessionAssets (flows stored at spec 13.0 so lazy migration runs on first use) and releases N in {2..32} goroutines from a barrier under GOMAXPROCS in {1,2,4,8,16}, each running a seeded script (start, marshal, read, resume, inspect, extract, change language, evaluate, query, modifiers) with per-goroutine lock-free clock/UUID sources that inject yields; oracles: zero race reports, every goroutine's transcript byte-equal to its solo run, process globals, shared singleton values and shared assets unchanged, and (cold-load clause) N goroutines asking fresh assets for the same legacy definitions at once draw from one shared counting UUID source exactly what one goroutine draws. Held on the interleavings observed only.",
         "Trusts: the race detector (happens-before; reports only races that occur in the observed executions); harness takes no lock between the start barrier and the end of a script (in every second round all goroutines line up once more after their first operation, so that lazily built state is first used by all of them at the same moment); rand()/random routers excluded (global lock in the random package).",
         "DESIGN.md §4 C09"),
 "C18": ("reference-model oracle: reference language chain vs msg_created / category_localized / router behaviour over the configuration grid",
         "Runtime monitoring: the grid contact language x allowed-language lists x base language x translation state per (language, item, property) is executed (thorough: the complete grid of 177120 points, exhaustive for that sub-space) and text, attachments, quick replies, the language part of the locale, category_localized and routing with localized arguments must equal what the documented fallback chain prescribes. Held on the executions observed only.",
         "Trusts: plain (expression-free) texts so expected values are exact; where the statement is silent (empty message, dropped attachments) behaviour is counted, not judged.",
         "DESIGN.md §4 C18"),
 "C19": ("differential monitor: twin sessions differing only in URN path/display under redaction; full context walk, generated templates and masked events compared; control under policy none",
         "Runtime monitoring: for generated and directed scenarios twin sessions are run whose contacts/messages/parent summaries differ only in URN path and display; under policy urns the complete walk of every run's context (text, Format, JSON), 12-24 generated templates per run and the flows' own events (raw-URN hand-back fields masked) must be identical, unnamed contacts are shown by id and URN-valued ContactQL conditions are rejected; under policy none the same walk must differ. Held on the executions observed only.",
         "Trusts: the event fields masked as raw-URN hand-back (msg.urn, contact_urns_changed.urns, ...) are not expression outputs; URN query groups are neutralised because assets load under a default environment.",
         "DESIGN.md §4 C19"),
 "C20": ("offline checker over the recorded sprint log against Flow.Inspect(): stored results, exits taken out of waits and fixed asset references of executed actions/templates",
         "Runtime monitoring: for every run of every generated and directed execution, every stored result's key (and category when fixed) must be declared by the inspection, every exit through which a resume left a wait must be a waiting exit, and every fixed reference of an executed action and every global/field named by a template of a visited node (base language and the language used) must be a dependency, using an independent reference model of which properties hold references. Held on the executions observed only.",
         "Trusts: the harness's own per-action table of reference-holding properties and template scanner; which templates a run evaluated is observed through the one guarded hook (flows/runs/observe_verif.go, build tag verif) and, independently, derived from visited nodes plus the definition.",
         "DESIGN.md §4 C20"),
})

NOT_YET = {}

def main():
    props = [json.loads(l) for l in open(os.path.join(ROOT, "properties.jsonl"))]
    checks = []
    na = []
    for p in props:
        pid = p["id"]
        if pid in CLAIMED:
            tech, text, note, ref = CLAIMED[pid]
            checks.append({
                "property_id": pid,
                "quick_cmd": f"./check {pid} quick",
                "thorough_cmd": f"./check {pid} thorough",
                "evidence_file": f"/verif/evidence/{pid}.json",
                "replay_cmd_template": f"./check {pid} quick --replay {{path}}",
                "engine": "vcheck",
                "level_claimed": {"category": "exploration", "text": text, "design_ref": ref},
                "level_note": note,
                "technique": tech,
            })
        else:
            na.append({"property_id": pid, "reason": NOT_YET.get(pid, "check not built yet (runtime monitoring applies; see DESIGN.md §4) — not claimed until its monitor exists and is silent on the unchanged tree")})
    try:
        commits = subprocess.check_output(["git", "-C", "/repo", "log", "--format=%H %s", "d2d4c7c..HEAD"], text=True).strip().splitlines()
    except Exception:
        commits = []
    hook_commits = [c.split()[0] for c in commits if c.split(" ", 1)[1].startswith("verif:")]
    m = {
        "version": 1,
        "setup_cmd": "./scripts/setup.sh",
        "hooks": {
            "guard": "verif",
            "enable": "go build -tags verif (all checker builds use the tag; see ./check). One hook: flows/runs/observe_verif.go (template observer used by C20); with the tag off flows/runs/observe_noverif.go makes it a no-op",
            "baseline_off_cmd": "./scripts/baseline.sh",
            "source_commits": hook_commits,
            "add_only": True,
        },
        "engines": [{"name": "vcheck", "path": "/verif/cmd (one main per package group: vcprops, vc07, vc11, vc13, vc14, vc16, vc17, vc19, vc20; vcheck imports all)", "serves_properties": sorted(CLAIMED), "kind_free_text": "Go orchestrator + child-process workers: generators, scenario driver, runtime monitors, race-detector rounds; rebuilt from /repo's working tree on every invocation"}],
        "checks": checks,
        "not_applicable": na,
        "notes": "Technique family: runtime monitoring and sanitizers. Every verdict is 'held on the executions observed'. Exit 0 held / 1 VIOLATION / 2 INCONCLUSIVE. Known findings: /verif/known_findings.json. VERIF_SEED selects the generated case list.",
    }
    json.dump(m, open(os.path.join(ROOT, "MANIFEST.json"), "w"), indent=1)
    print("MANIFEST.json:", len(checks), "checks,", len(na), "not claimed")

if __name__ == "__main__":
    main()
