#!/usr/bin/env python3
"""Regenerates the table of seeded changes in DESIGN.md (between the SEEDED-TABLE markers) from seeded/*/meta.json."""
import json, glob, os, re
rows = []
MISSED = json.load(open('/verif/seeded/missed_first.json')) if os.path.exists('/verif/seeded/missed_first.json') else {}
for f in sorted(glob.glob('/verif/seeded/*/meta.json')):
    m = json.load(open(f))
    det = m.get('detection') or {}
    sigs = []
    for k, v in det.items():
        for s in v.get('signatures', [])[:2]:
            sigs.append(s.replace('signature: ', ''))
    hist = m.get('history') or []
    note = ''
    if m['id'] in MISSED:
        note = ('' if 'before the first run' in MISSED[m['id']] or 'not valid' in MISSED[m['id']] else 'missed at first; ') + MISSED[m['id']]
    elif m.get('missed_first'):
        note = 'missed at first; ' + m['missed_first']
    elif hist and hist[0].get('detected_before') is False:
        note = 'missed at first; caught after strengthening'
    status = 'caught' if m.get('detected') else 'NOT caught'
    own = [k for k, v in det.items() if k.startswith(m['property'] + '/') and v.get('detected')]
    others = sorted(set(k.split('/')[0] for k, v in det.items() if not k.startswith(m['property'] + '/') and v.get('detected')))
    if m.get('detected') and not own and others:
        status = 'caught by ' + ', '.join(others) + ' (not by ' + m['property'] + ')'
    title = (m.get('title') or '').replace('|', '/')
    if len(title) > 110: title = title[:107] + '…'
    sig = '; '.join(sigs[:2]).replace('|', '¦')
    if len(sig) > 150: sig = sig[:147] + '…'
    rows.append(f"| {m['id']} | {title} | {status} | {sig} | {note} |")
table = "| id | seeded change | caught (quick, seed 1) | first signatures | note |\n|---|---|---|---|---|\n" + "\n".join(rows)
p = '/verif/DESIGN.md'
s = open(p).read()
start, end = '<!-- SEEDED-TABLE-START -->', '<!-- SEEDED-TABLE-END -->'
if start in s:
    s = s[:s.index(start) + len(start)] + "\n" + table + "\n" + s[s.index(end):]
    open(p, 'w').write(s)
print(len(rows), 'rows;', sum('NOT caught' in r for r in rows), 'not caught')
