#!/bin/bash
# usage: seedall.sh C05 [extra seedcheck args]  -- verifies and tests every seeded change of a property
P=$1; shift
for d in /tmp/seed/$P/_seeded/$P-*; do
  python3 /verif/scripts/seedcheck.py /tmp/seed/$P $d "$@" 2>&1 | python3 -c "
import json,sys
try:
    d=json.load(sys.stdin)
except Exception as e:
    print('unparseable', e); sys.exit()
print('==', '$d'.split('/')[-1], '|', d.get('title'))
print('   confirmed=%s (clean-pass=%s patched-fail=%s compiles=%s suite=%s) detected=%s %s' % (d.get('confirmed'), d.get('demo_passes_without_change'), d.get('demo_fails_with_change'), d.get('compiles'), d.get('suite_passes'), d.get('detected'), d.get('error') or ''))
for k,v in (d.get('checks') or {}).items(): print('   ', k, v['detected'], v['signatures'][:3])
"
done
