#!/bin/bash
# Measures which statements of nyaruka/goflow the checks' workloads execute (Go's binary coverage, go build -cover).
# Not a check and not evidence: an aid for finding code that no workload drives.
# usage: scripts/coverage.sh [quick|thorough] [ID...]   -> .work/coverage/<ID>.func.txt, .work/coverage/all.func.txt
set -u
cd "$(dirname "$0")/.."
export GOFLAGS= GOPROXY=off GOSUMDB=off GOTOOLCHAIN=local
TIER="${1:-quick}"; shift || true
IDS="${*:-C01 C02 C03 C04 C05 C06 C07 C08 C10 C11 C12 C13 C14 C15 C16 C17 C18 C19 C20}"
OUT="$PWD/.work/coverage"; rm -rf "$OUT"; mkdir -p "$OUT/bin"
cp /repo/go.sum go.sum
# workspace mode makes /repo a main module too, which is what makes go build -cover instrument it (-coverpkg on a
# replaced dependency module emits nothing with this toolchain)
printf 'go 1.23\n\nuse (\n\t%s\n\t/repo\n)\n' "$PWD" > "$OUT/go.work"
export GOWORK="$OUT/go.work"
for M in vcprops vc07 vc11 vc13 vc14 vc16 vc17 vc19 vc20; do
  go build -tags verif -cover -o "$OUT/bin/$M" "./cmd/$M" || exit 3
done
for ID in $IDS; do
  case "$ID" in C07|C18) M=vc07;; C11|C12) M=vc11;; C13) M=vc13;; C14|C15) M=vc14;; C16) M=vc16;; C17) M=vc17;; C19) M=vc19;; C20) M=vc20;; *) M=vcprops;; esac
  mkdir -p "$OUT/$ID.d" "$OUT/ev"
  GOCOVERDIR="$OUT/$ID.d" VERIF_EVIDENCE_DIR="$OUT/ev" VERIF_ROOT="$PWD" "$OUT/bin/$M" run "$ID" "$TIER" 2>&1 | tail -1
  go tool covdata textfmt -i="$OUT/$ID.d" -o "$OUT/$ID.cov" 2>/dev/null
  grep -v "^verif/" "$OUT/$ID.cov" > "$OUT/$ID.cov.tmp"; mv "$OUT/$ID.cov.tmp" "$OUT/$ID.cov"
  (cd /repo && GOWORK=off GOFLAGS=-mod=mod go tool cover -func="$OUT/$ID.cov" > "$OUT/$ID.func.txt" 2>/dev/null)
  rm -rf "$OUT/$ID.d.keep"; 
done
DIRS=$(ls -d "$OUT"/*.d | paste -sd, -)
go tool covdata textfmt -i="$DIRS" -o "$OUT/all.cov"
grep -v "^verif/" "$OUT/all.cov" > "$OUT/all.cov.tmp"; mv "$OUT/all.cov.tmp" "$OUT/all.cov"
(cd /repo && GOWORK=off GOFLAGS=-mod=mod go tool cover -func="$OUT/all.cov" > "$OUT/all.func.txt")
tail -1 "$OUT/all.func.txt"
