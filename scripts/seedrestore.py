#!/usr/bin/env python3
"""Puts the kept seeded changes (/verif/seeded/<id>) back into the scratch layout /tmp/seed/<P>/_seeded/<id> that
seedcheck.py / seedrefresh.sh work on (demonstrations lose their .txt suffix; verified.json carries the earlier suite verdict)."""
import json, os, glob, shutil, sys
n = 0
for d in sorted(glob.glob('/verif/seeded/C*-*')):
    sid = os.path.basename(d); P = sid.split('-')[0]
    out = '/tmp/seed/%s/_seeded/%s' % (P, sid)
    if not os.path.isdir('/tmp/seed/%s' % P) or os.path.exists(out): continue
    os.makedirs(out)
    shutil.copy(os.path.join(d, 'patch.diff'), out)
    for f in glob.glob(os.path.join(d, '*.go.txt')):
        shutil.copy(f, os.path.join(out, os.path.basename(f)[:-4]))
    m = json.load(open(os.path.join(d, 'meta.json')))
    json.dump({k: m.get(k) for k in ['property', 'title', 'breaks', 'needs', 'files', 'demo']}, open(os.path.join(out, 'meta.json'), 'w'), indent=1)
    v = dict(m.get('confirmed_by_us') or {}); v['confirmed'] = all(v.values()) if v else False
    v['checks'] = m.get('detection'); v['detected'] = m.get('detected')
    json.dump(v, open(os.path.join(out, 'verified.json'), 'w'), indent=1)
    n += 1
print(n, 'restored')
