#!/usr/bin/env python3
"""Confirms a seeded change (patch + demonstration) in its scratch worktree and runs our checks against it.

usage: seedcheck.py <worktree> <seeded-dir> [--checks C05,C01] [--tier quick] [--seeds 1]

Steps (all in the scratch worktree, never in /repo, except the final check run which applies the patch to /repo
and undoes it straight afterwards, as the brief prescribes):
 1. clean worktree; copy demo test; run it           -> must PASS (no change)
 2. apply patch; build; run demo                      -> must FAIL
 3. run the pinned suite on the patched worktree      -> stable tests must pass
 4. clean the worktree again
 5. git -C /repo apply patch; ./check <ID> quick ...; git -C /repo checkout -- .
Writes <seeded-dir>/verified.json
"""
import json, os, re, subprocess, sys, glob, shutil

ENV = dict(os.environ, GOFLAGS="-mod=mod", GOPROXY="off", GOSUMDB="off", GOTOOLCHAIN="local")

def sh(cmd, cwd=None, timeout=3600):
    p = subprocess.run(cmd, shell=True, cwd=cwd, env=ENV, capture_output=True, text=True, errors='replace', timeout=timeout)
    return p.returncode, p.stdout + p.stderr

def main():
    wt, sd = sys.argv[1], sys.argv[2]
    args = sys.argv[3:]
    def opt(name, default):
        return args[args.index(name) + 1] if name in args else default
    meta = json.load(open(os.path.join(sd, "meta.json")))
    prop = meta["property"]
    checks = opt("--checks", prop).split(",")
    if "--checks" not in args:
        # a change that an earlier run gave to other properties' checks as well keeps being given to them
        try:
            pv = json.load(open(os.path.join(sd, "verified.json")))
            for k in (pv.get("checks") or {}):
                if k.split("/")[0] not in checks: checks.append(k.split("/")[0])
        except Exception: pass
    tier = opt("--tier", "quick")
    seeds = opt("--seeds", "1").split(",")
    patch = os.path.join(sd, "patch.diff")
    demos = [f for f in glob.glob(os.path.join(sd, "*_test.go"))]
    demo_text = meta.get("demo", "") if isinstance(meta.get("demo"), str) else json.dumps(meta.get("demo"))
    out = {"property": prop, "title": meta.get("title"), "needs": meta.get("needs")}
    dest = opt("--dest", None)
    run = opt("--run", None)
    if demos and not dest:
        m = re.search(r"cp\s+\S*" + re.escape(os.path.basename(demos[0])) + r"\s+(\S+)", demo_text)
        if m:
            dest = m.group(1).rstrip("/")
    if not run:
        m = re.search(r"-run\s+'?\"?([A-Za-z0-9_^$|]+)", demo_text)
        if m:
            run = m.group(1)
    if not demos or not dest:
        out["error"] = "cannot work out the demonstration automatically (dest=%s run=%s demos=%s)" % (dest, run, demos)
        json.dump(out, open(os.path.join(sd, "verified.json"), "w"), indent=1)
        print(json.dumps(out, indent=1)); return 2
    if dest.startswith(wt):
        dest = dest[len(wt):].lstrip("/")
    destname = None
    if dest.endswith(".go"):
        dest, destname = os.path.dirname(dest), os.path.basename(dest)
    clean = "git checkout -q -- . && git clean -fdq -e _seeded"
    sh(clean, wt)
    rc, head = sh("git -C /repo rev-parse HEAD")
    sh("git checkout -q --detach %s" % head.strip(), wt)
    def run_demo():
        for d in demos:
            shutil.copy(d, os.path.join(wt, dest, destname or os.path.basename(d)))
        race = "-race " if re.search(r"go test[^#\n]*\s-race\b", demo_text) else ""
        cmd = "go test -mod=mod -vet=off -count=1 %s./%s/ %s 2>&1 | tail -30" % (race, dest, ("-run '%s'" % run) if run else "")
        rc, o = sh(cmd + "; exit ${PIPESTATUS[0]}", wt)
        ok = ("\nok " in "\n" + o or o.startswith("ok ")) and "FAIL" not in o
        return ok, o[-1500:]
    ok_clean, o1 = run_demo()
    out["demo_passes_without_change"] = ok_clean
    sh(clean, wt)
    rc, o = sh("git apply %s" % patch, wt)
    out["patch_applies"] = rc == 0
    rc, o = sh("go build ./... 2>&1 | tail -5", wt)
    out["compiles"] = rc == 0 and o.strip() == ""
    ok_patched, o2 = run_demo()
    out["demo_fails_with_change"] = not ok_patched
    for d in demos:
        try: os.remove(os.path.join(wt, dest, destname or os.path.basename(d)))
        except OSError: pass
    # suite on the patched tree (--no-suite: a refresh of the detection results only; the earlier verdict on the suite is kept,
    # which is sound as long as neither the patch nor the pinned tests changed)
    prev = {}
    try: prev = json.load(open(os.path.join(sd, "verified.json")))
    except Exception: pass
    nosuite = "--no-suite" in args and prev.get("suite_passes") is True
    # suite on the patched tree
    # the suite's test HTTP servers bind fixed ports, so two suites cannot run at once on this machine
    rc, o = (0, "[]") if nosuite else sh("exec 8>/tmp/.seedsuite.lock; flock 8; for i in 1 2 3 4 5 6; do ss -ltn | grep -q ':4999[0-9]' || break; sleep 20; done; go test -mod=mod -json -vet=off -count=1 -timeout 25m ./... 2>/dev/null > /tmp/seedsuite.$$.json; python3 - /tmp/seedsuite.$$.json <<'PY'\nimport json,sys\npassed=set()\nfor l in open(sys.argv[1]):\n    try: e=json.loads(l)\n    except Exception: continue\n    t=e.get('Test')\n    if t and '/' not in t and e.get('Action')=='pass': passed.add(e['Package']+'::'+t)\nbase=json.load(open('/root/.vp/BASELINE.json'))['stable_pass']\nmissing=[b for b in base if b not in passed]\nprint(json.dumps(missing))\nPY\nrm -f /tmp/seedsuite.$$.json", wt)
    try:
        missing = json.loads(o.strip().splitlines()[-1])
    except Exception:
        missing = ["<suite output unparseable: %s>" % o[-300:]]
    # utils/po::TestLibrary shells out to msgmerge (gettext); where that binary is absent the test fails on the untouched
    # tree as well, so it says nothing about the change
    if shutil.which("msgmerge") is None:
        missing = [m for m in missing if m != "github.com/nyaruka/goflow/utils/po::TestLibrary"]
        out["suite_note"] = "utils/po::TestLibrary not judged: msgmerge is not installed in this sandbox and the test fails on the untouched tree too"
    out["suite_passes"] = missing == []
    out["suite_not_passing"] = missing[:10]
    out["confirmed"] = bool(out["demo_passes_without_change"] and out["patch_applies"] and out["compiles"] and out["demo_fails_with_change"] and out["suite_passes"])
    # our checks against it: the patched scratch worktree is given to ./check as VERIF_REPO (equivalent to applying the
    # patch to /repo and undoing it afterwards, but /repo is never touched, so several of these can run side by side)
    res = {}
    if out["confirmed"] or "--force" in args:
        for chk in checks:
            for seed in seeds:
                rc, o = sh("VERIF_REPO=%s VERIF_SEED=%s timeout 1500 ./check %s %s 2>&1 | grep -v '^  cases' | cut -c1-300 | tail -25" % (wt, seed, chk, tier), "/verif", timeout=7200)
                viol = [l for l in o.splitlines() if l.startswith("VIOLATION")]
                sigs = [l.strip() for l in o.splitlines() if l.strip().startswith("signature:")]
                res["%s/%s/seed%s" % (chk, tier, seed)] = {"detected": len(viol) > 0, "violations": len(viol), "signatures": sigs[:6], "tail": o.splitlines()[-1:] }
    sh(clean, wt)
    out["checks"] = res
    out["detected"] = any(v["detected"] for v in res.values())
    json.dump(out, open(os.path.join(sd, "verified.json"), "w"), indent=1)
    print(json.dumps(out, indent=1))
    return 0

if __name__ == "__main__":
    sys.exit(main())
