#!/bin/bash
# Runs the repository's pinned test suite with the verif guard OFF and compares with BASELINE.json.
# exit 0 iff every test in stable_pass passes.
export GOFLAGS=-mod=mod GOPROXY=off GOSUMDB=off GOTOOLCHAIN=local
cd /repo || exit 2
OUT=$(mktemp)
go test -mod=mod -json -vet=off -count=1 -timeout 25m ./... > "$OUT" 2>/dev/null
python3 - "$OUT" <<'PY'
import json,sys
passed=set(); failed=set()
for l in open(sys.argv[1]):
    try: e=json.loads(l)
    except Exception: continue
    t=e.get('Test')
    if not t or '/' in t: continue
    k=e['Package']+'::'+t
    if e.get('Action')=='pass': passed.add(k)
    elif e.get('Action')=='fail': failed.add(k)
base=json.load(open('/root/.vp/BASELINE.json'))['stable_pass']
missing=[b for b in base if b not in passed]
# utils/po::TestLibrary shells out to msgmerge (gettext); where that binary is absent it fails on the untouched tree too
import shutil
if shutil.which('msgmerge') is None and 'github.com/nyaruka/goflow/utils/po::TestLibrary' in missing:
    missing.remove('github.com/nyaruka/goflow/utils/po::TestLibrary'); print('  not judged (msgmerge is not installed here): utils/po::TestLibrary')
print(f"passed={len(passed)} failed={len(failed)} baseline={len(base)} baseline_not_passing={len(missing)}")
for m in missing: print("  NOT PASSING:",m)
for f in sorted(failed): print("  failed:",f)
sys.exit(1 if missing else 0)
PY
RC=$?
rm -f "$OUT"
exit $RC
