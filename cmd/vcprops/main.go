// vcheck: orchestrator ("run") and child worker ("worker") for the runtime-monitoring checks.
package main

import (
	"fmt"
	"os"
	"strconv"

	"verif/internal/fw"
	_ "verif/internal/props"
)

func seed() int64 {
	if v := os.Getenv("VERIF_SEED"); v != "" {
		if n, err := strconv.ParseInt(v, 10, 64); err == nil {
			return n
		}
	}
	return 1
}

func main() {
	if len(os.Args) < 2 {
		fmt.Println("usage: vcheck run <ID> quick|thorough [--replay file] | vcheck worker … | vcheck list")
		os.Exit(2)
	}
	switch os.Args[1] {
	case "list":
		for _, id := range fw.IDs() {
			fmt.Println(id)
		}
	case "run":
		if len(os.Args) < 4 {
			fmt.Println("usage: vcheck run <ID> quick|thorough [--replay file]")
			os.Exit(2)
		}
		p := fw.Lookup(os.Args[2])
		if p == nil {
			fmt.Printf("INCONCLUSIVE property=%s reason=no-such-check\n", os.Args[2])
			os.Exit(2)
		}
		tier := os.Args[3]
		if tier != "quick" && tier != "thorough" {
			fmt.Println("tier must be quick or thorough")
			os.Exit(2)
		}
		if len(os.Args) >= 6 && os.Args[4] == "--replay" {
			os.Exit(fw.Replay(p, os.Args[5]))
		}
		o := fw.NewOrchestrator(p, tier, seed())
		if cr, ok := p.(fw.CustomRunner); ok {
			cr.RunCustom(o)
		} else {
			o.RunStandard()
		}
		os.Exit(o.Finish())
	case "worker":
		// worker <ID> <tier> <seed> <from> <to> <outprefix> <caseTimeoutS>
		if len(os.Args) < 9 {
			os.Exit(4)
		}
		p := fw.Lookup(os.Args[2])
		if p == nil {
			os.Exit(4)
		}
		sd, _ := strconv.ParseInt(os.Args[4], 10, 64)
		from, _ := strconv.Atoi(os.Args[5])
		to, _ := strconv.Atoi(os.Args[6])
		tmo, _ := strconv.Atoi(os.Args[8])
		os.Exit(fw.RunWorker(p, os.Args[3], sd, from, to, os.Args[7], tmo))
	default:
		if h, ok := extraCommands[os.Args[1]]; ok {
			os.Exit(h(os.Args[2:]))
		}
		fmt.Println("unknown command", os.Args[1])
		os.Exit(2)
	}
}

// extraCommands lets property packages add sub-commands (C08/C09 child modes).
var extraCommands = fw.ExtraCommands
