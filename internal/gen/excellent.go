package gen

import (
	"sort"
	"strconv"
	"strings"

	"github.com/nyaruka/goflow/excellent/functions"
	"github.com/nyaruka/goflow/flows/routers/cases"

	"verif/internal/fw"
)

// NonDeterministic functions are excluded wherever two evaluations are compared.
var NonDeterministic = map[string]bool{"rand": true, "rand_between": true, "now": true, "today": true}

// FunctionNames returns all registered function names (functions + router tests), sorted.
func FunctionNames() []string {
	seen := map[string]bool{}
	for k := range functions.XFUNCTIONS {
		seen[k] = true
	}
	for k := range cases.XTESTS {
		seen[k] = true
	}
	out := make([]string, 0, len(seen))
	for k := range seen {
		out = append(out, k)
	}
	sort.Strings(out)
	return out
}

// ExprOpts steers the expression text generator.
type ExprOpts struct {
	Deterministic bool     // exclude rand/now/today
	NoErrorsBias  bool     // prefer well-typed sub-expressions (more evaluations reach function bodies)
	Roots         []string // context roots that exist
	MaxDepth      int
	Hostile       bool // random case/whitespace/redundant parens, unknown names, wrong arity
	NoLambda      bool
	PlainStrings  bool // avoid backslash / quote heavy literals (they are C12's business)
}

var numLits = []string{"0", "1", "2", "3", "10", "0.5", "1.50", "007", "2147483647", "2147483648", "99999999999999999999", "0.000001", "12345678901234567890.123456789", "100", "7",
	"1" + strings.Repeat("0", 64), "0." + strings.Repeat("0", 70) + "1", strings.Repeat("9", 100), strings.Repeat("1234567890", 13) + "." + strings.Repeat("5", 40), strings.Repeat("0", 80) + "7", "-1"}
var smallInts = []string{"0", "1", "2", "3", "4", "5", "8", "-1", "-2", "10", "30"}

// known context paths of the standard test context (see Context in context.go)
var ctxPaths = []string{
	"foo", "bar", "zed", "missing", "arr", "arr[0]", "arr[1]", "arr[-1]", "arr[10]", "arr.0", "obj", "obj.a", "obj.b", "obj.b.c", "obj[\"a\"]",
	"contact", "contact.name", "contact.first_name", "contact.language", "contact.fields", "contact.fields.age", "contact.fields.joined",
	"contact.fields.state", "contact.urns", "contact.urns[0]", "contact.groups", "results", "results.q1", "results.q1.value", "results.q1.category",
	"results.q1.input", "results.q1.extra", "results.q1.extra.n", "input", "input.text", "input.attachments", "nums", "nums.1", "nums[\"2\"]",
	"dflt", "dflt.x", "fn", "words", "dt", "d", "t", "numtext", "empty", "nul", "big", "neg", "flag", "CONTACT.Name", "Results.Q1.Value",
}

type exprGen struct {
	r    *fw.Rand
	o    ExprOpts
	fns  []string
	vars []string // lambda params in scope
}

// Expr returns random Excellent3 expression text.
func Expr(r *fw.Rand, o ExprOpts) string {
	if o.MaxDepth == 0 {
		o.MaxDepth = 4
	}
	g := &exprGen{r: r, o: o}
	for _, f := range FunctionNames() {
		if o.Deterministic && NonDeterministic[f] {
			continue
		}
		g.fns = append(g.fns, f)
	}
	return g.expr(o.MaxDepth)
}

func (g *exprGen) ws() string {
	if !g.o.Hostile {
		return " "
	}
	return fw.Pick(g.r, []string{"", " ", " ", "  ", "\t", "\n"})
}

func (g *exprGen) caseMix(s string) string {
	if !g.o.Hostile || !g.r.Chance(0.2) {
		return s
	}
	var b strings.Builder
	for _, c := range s {
		if g.r.Bool() {
			b.WriteString(strings.ToUpper(string(c)))
		} else {
			b.WriteString(string(c))
		}
	}
	return b.String()
}

func (g *exprGen) strLit() string {
	var s string
	if g.o.PlainStrings {
		s = fw.Pick(g.r, []string{"", "a", "hello world", "Hello", "1", "1.5", "2020-01-01", "10:30", "é", "日本語", "😀", "x y z", "red", "true", "a,b", "tel:+12065551212", "eng"})
	} else {
		s = AnyString(g.r)
	}
	// the TEXT rule and strconv.Quote agree except for a trailing backslash (C12's finding); avoid it here
	if strings.HasSuffix(s, `\`) {
		s += "x"
	}
	if len(s) > 120 {
		s = s[:120]
		for !isValidUTF8Prefix(s) {
			s = s[:len(s)-1]
		}
	}
	return strconv.Quote(s)
}

func isValidUTF8Prefix(s string) bool {
	return strings.ToValidUTF8(s, "") == s
}

func (g *exprGen) leaf() string {
	switch g.r.Intn(12) {
	case 0, 1, 2:
		return fw.Pick(g.r, numLits[:len(numLits)-1])
	case 3, 4:
		return g.strLit()
	case 5:
		return g.caseMix(fw.Pick(g.r, []string{"true", "false", "null"}))
	case 6:
		if len(g.vars) > 0 {
			return fw.Pick(g.r, g.vars)
		}
		fallthrough
	default:
		return g.caseMixPath(fw.Pick(g.r, ctxPaths))
	}
}

func (g *exprGen) caseMixPath(p string) string {
	if g.o.Hostile && g.r.Chance(0.1) {
		return strings.ToUpper(p[:1]) + p[1:]
	}
	return p
}

func (g *exprGen) expr(d int) string {
	if d <= 0 {
		return g.leaf()
	}
	w := g.ws
	switch g.r.Weighted([]int{18, 6, 5, 8, 10, 6, 5, 6, 30, 6, 4, 3}) {
	case 0:
		return g.leaf()
	case 1: // negation
		return "-" + w() + g.expr(d-1)
	case 2: // exponent: right operand is always a small integer (result-size amplifier; a fractional exponent costs ~n^3.3 in
		// the digits of the base — 170 digits take seconds — so those are probed with small bases in C04's directed corpus)
		return g.expr(d-1) + w() + "^" + w() + fw.Pick(g.r, []string{"0", "1", "2", "3", "-1", "-2", "10", "(1+1)", "zed"})
	case 3:
		return g.expr(d-1) + w() + fw.Pick(g.r, []string{"*", "/"}) + w() + g.expr(d-1)
	case 4:
		return g.expr(d-1) + w() + fw.Pick(g.r, []string{"+", "-"}) + w() + g.expr(d-1)
	case 5:
		return g.expr(d-1) + w() + fw.Pick(g.r, []string{"<=", "<", ">=", ">"}) + w() + g.expr(d-1)
	case 6:
		return g.expr(d-1) + w() + fw.Pick(g.r, []string{"=", "!="}) + w() + g.expr(d-1)
	case 7:
		return g.expr(d-1) + w() + "&" + w() + g.expr(d-1)
	case 8:
		return g.call(d)
	case 9:
		return "(" + w() + g.expr(d-1) + w() + ")"
	case 10: // lookup on a sub-expression
		base := "(" + g.expr(d-1) + ")"
		switch g.r.Intn(4) {
		case 0:
			return base + "." + fw.Pick(g.r, []string{"a", "0", "1", "value", "name", "x", "__default__"})
		case 1:
			return base + "[" + g.expr(d-1) + "]"
		case 2:
			return base + "[" + fw.Pick(g.r, smallInts) + "]"
		default:
			return base + "(" + g.expr(d-1) + ")"
		}
	default:
		if g.o.NoLambda {
			return g.leaf()
		}
		return g.lambda(d)
	}
}

func (g *exprGen) lambda(d int) string {
	n := g.r.Range(1, 2)
	names := []string{"x", "y"}[:n]
	saved := g.vars
	g.vars = append(append([]string{}, g.vars...), names...)
	body := g.expr(d - 1)
	g.vars = saved
	return "(" + strings.Join(names, ",") + ") => " + body
}

// arity table: a guess of the valid arities for each function so that most calls reach the body
var arities = map[string][]int{
	"array": {0, 1, 3}, "object": {0, 2, 4}, "and": {1, 2, 3}, "or": {1, 2, 3}, "max": {1, 2, 3}, "min": {1, 2, 3}, "mean": {1, 2, 3},
	"if": {3}, "rand": {0}, "now": {0}, "today": {0}, "split": {1, 2}, "trim": {1, 2}, "trim_left": {1, 2}, "trim_right": {1, 2},
	"word": {2, 3}, "word_count": {1, 2}, "word_slice": {2, 3, 4}, "field": {3}, "text_slice": {2, 3, 4}, "regex_match": {2, 3},
	"text_compare": {2}, "repeat": {2}, "replace": {3, 4}, "round": {1, 2}, "round_up": {1, 2}, "round_down": {1, 2}, "mod": {2},
	"rand_between": {2}, "parse_datetime": {2, 3}, "datetime_diff": {3}, "datetime_add": {3}, "replace_time": {2}, "date_from_parts": {3},
	"parse_time": {2}, "time_from_parts": {3}, "contains": {2}, "join": {2}, "concat": {2}, "filter": {2}, "format_date": {1, 2},
	"format_datetime": {1, 2, 3}, "format_time": {1, 2}, "format_number": {1, 2, 3}, "default": {2}, "legacy_add": {2}, "extract": {2},
	"extract_object": {2, 3}, "foreach": {2, 3}, "foreach_value": {2, 3}, "has_only_text": {2}, "has_phrase": {2}, "has_only_phrase": {2},
	"has_any_word": {2}, "has_all_words": {2}, "has_beginning": {2}, "has_pattern": {2}, "has_number_between": {3}, "has_number_lt": {2},
	"has_number_lte": {2}, "has_number_eq": {2}, "has_number_gte": {2}, "has_number_gt": {2}, "has_date_lt": {2}, "has_date_eq": {2},
	"has_date_gt": {2}, "has_phone": {1, 2}, "has_group": {2, 3}, "has_category": {2, 3}, "has_intent": {3}, "has_top_intent": {3},
	"has_district": {1, 2}, "has_ward": {1, 2, 3},
}

func (g *exprGen) call(d int) string {
	name := fw.Pick(g.r, g.fns)
	if g.o.Hostile && g.r.Chance(0.03) {
		name = fw.Pick(g.r, []string{"nofunc", "foo", "contact", "obj.a", "arr[0]"})
	}
	ar := 1
	if a, ok := arities[name]; ok {
		ar = fw.Pick(g.r, a)
	}
	if g.o.Hostile && g.r.Chance(0.1) {
		ar = g.r.Intn(5)
	}
	args := make([]string, ar)
	for i := range args {
		args[i] = g.arg(name, i, d-1)
	}
	return g.caseMix(name) + "(" + strings.Join(args, ","+g.ws()) + ")"
}

// arg generates an argument, with a bias towards the kind of value the function wants,
// and keeps result-size amplifiers small.
func (g *exprGen) arg(fn string, i int, d int) string {
	switch {
	case fn == "repeat" && i == 1:
		return fw.Pick(g.r, []string{"0", "1", "2", "3", "8", "-1", "zed"}) // never a context number (foo can be 1234567.891: a 12 MB result)
	case (fn == "foreach" || fn == "foreach_value" || fn == "filter") && i == 1:
		if g.r.Chance(0.6) {
			return fw.Pick(g.r, []string{"upper", "text", "number", "json", "(x) => x", "(x) => x & \"!\"", "(x) => x > 1", "(x, y) => x & y", "text_length", "is_error", "has_text", "(x) => x.value", "(x) => -x"})
		}
	case fn == "extract" || fn == "extract_object":
		if i == 0 && g.r.Chance(0.7) {
			return fw.Pick(g.r, []string{"contact", "results.q1", "obj", "contact.fields", "obj.b"})
		} else if i > 0 && g.r.Chance(0.7) {
			return strconv.Quote(fw.Pick(g.r, []string{"name", "a", "b.c", "value", "fields.age", "missing", ""}))
		}
	case strings.HasPrefix(fn, "format_date") || fn == "format_time" || fn == "parse_datetime" || fn == "parse_time":
		if i == 1 && g.r.Chance(0.7) {
			return strconv.Quote(fw.Pick(g.r, []string{"YYYY-MM-DD", "DD-MM-YYYY tt:mm", "YYYY-MM-DDTtt:mm:ssZ", "hh:mm aa", "M/D/YY", "EEEE, MMMM D", "tt:mm:ss.fffffffff", "YYYY", "QQ", "", "Z ZZZ"}))
		}
		if i == 2 && g.r.Chance(0.7) {
			return strconv.Quote(fw.Pick(g.r, []string{"UTC", "America/Guayaquil", "Asia/Kolkata", "Nowhere/Land", ""}))
		}
		if i == 0 && g.r.Chance(0.6) {
			return fw.Pick(g.r, []string{"dt", "d", "t", "contact.fields.joined", "\"2020-02-30\"", "\"1977-06-23T15:34:00.000000Z\"", "\"10:30\"", "\"0001-01-01T00:00:00Z\"", "\"9999-12-31T23:59:59.999999Z\""})
		}
	case fn == "datetime_add" || fn == "datetime_diff":
		if i == 2 && g.r.Chance(0.8) {
			return strconv.Quote(fw.Pick(g.r, []string{"Y", "M", "W", "D", "h", "m", "s", "x", ""}))
		}
		if i == 0 || (fn == "datetime_diff" && i == 1) {
			if g.r.Chance(0.6) {
				return fw.Pick(g.r, []string{"dt", "d", "\"2020-01-31T10:00:00Z\"", "\"0001-01-01T00:00:00Z\"", "\"9999-12-31T23:59:59Z\""})
			}
		}
		if fn == "datetime_add" && i == 1 && g.r.Chance(0.7) {
			return fw.Pick(g.r, []string{"0", "1", "-1", "12", "100000", "-100000", "2147483647", "-2147483648", "9999", "-9999"})
		}
	case fn == "has_group" && i == 0, fn == "has_category" && i == 0, fn == "has_intent" && i == 0, fn == "has_top_intent" && i == 0:
		if g.r.Chance(0.7) {
			return fw.Pick(g.r, []string{"contact.groups", "results.q1", "obj", "contact", "results.intent", "results.intent", "results.intent"})
		}
	case (fn == "has_intent" || fn == "has_top_intent") && i == 1:
		if g.r.Chance(0.8) {
			return strconv.Quote(fw.Pick(g.r, ClassificationNames))
		}
	case (fn == "has_intent" || fn == "has_top_intent") && i == 2:
		if g.r.Chance(0.8) {
			return fw.Pick(g.r, []string{"0", "0.1", "0.4", "0.9", "1", "-1"})
		}
	case fn == "keys" || fn == "json" || fn == "count":
		if g.r.Chance(0.5) {
			return fw.Pick(g.r, []string{"obj", "contact", "arr", "results", "nums", "dflt", "contact.fields", "words"})
		}
	case fn == "parse_json":
		if g.r.Chance(0.7) {
			return strconv.Quote(fw.Pick(g.r, JSONDocs))
		}
	case fn == "join" || fn == "reverse" || fn == "sort" || fn == "sum" || fn == "unique" || fn == "concat" || fn == "contains":
		if i == 0 && g.r.Chance(0.6) {
			return fw.Pick(g.r, []string{"arr", "words", "array(3, 1, 2)", "array()", "array(\"b\", \"a\")", "contact.urns", "nums", "array(1, \"x\", null)"})
		}
	case fn == "round" || fn == "round_up" || fn == "round_down" || fn == "format_number" || fn == "char" || fn == "word" || fn == "word_slice" || fn == "text_slice" || fn == "field":
		if i >= 1 && g.r.Chance(0.7) {
			return fw.Pick(g.r, smallInts)
		}
	}
	return g.expr(d)
}

// JSONDocs are small JSON documents used in parse_json positions.
var JSONDocs = []string{
	`{}`, `[]`, `null`, `1`, `"x"`, `{"a":1,"b":{"c":[1,2,{"d":null}]}}`, `[1,"two",3.0,true,null,[],{}]`,
	`{"a":1,"A":2}`, `{"a":1,"a":2}`, `{"":1}`, `{"1":"x","2":"y"}`, `{"n":1e2,"m":1E-2,"big":12345678901234567890,"neg":-0}`,
	`{"s":"é😀\n\"\\"}`, ` {"ws" : [ 1 , 2 ] } `, `{"__default__":"d","x":1}`, `[[[[[[1]]]]]]`, `{"a":{"a":{"a":{"a":1}}}}`,
	`{`, `[1,`, `nul`, ``, `{"a":}`, `"unterminated`, `1.0`, `1.50`, `-0.0`, `1e400`, `[1e-400]`, `{"k":"v"} trailing`,
}

// Template wraps expressions into template text with surrounding body text.
func Template(r *fw.Rand, o ExprOpts) string {
	n := r.Range(1, 3)
	var b strings.Builder
	for i := 0; i < n; i++ {
		if r.Chance(0.5) {
			b.WriteString(fw.Pick(r, []string{"Hi ", "a@b.com ", "@@x ", "(", ") ", "\"", "é ", "\n", "100% ", "@ ", "@. "}))
		}
		switch r.Intn(5) {
		case 0:
			b.WriteString("@" + strings.Split(fw.Pick(r, ctxPaths), "[")[0])
		default:
			b.WriteString("@(" + Expr(r, o) + ")")
		}
		if r.Chance(0.3) {
			b.WriteString(fw.Pick(r, []string{" bye", ".", "!", " @", ")"}))
		}
	}
	return b.String()
}


// CallsOfEveryFunction returns, for every registered function and router test, k templates that call it with literal
// arguments of the usual kinds (texts, dates, numbers, units, formats, arrays, functions, contact values) in its usual
// arities — for workloads that want every function body run (concurrently, in a real run context), not hostile input.
func CallsOfEveryFunction(r *fw.Rand, k int) []string {
	lits := []string{`"Hello wORLD é"`, `"yes no"`, `"2020-02-29T10:30:00.000000Z"`, `"2020-02-29"`, `"10:30"`, `2`, `1.5`, `0`, `"D"`, `"YYYY-MM-DD"`, `"tt:mm"`, `array("b", "a", "b")`, `array(3, 1, 2)`,
		`contact.name`, `contact.groups`, `contact`, `results`, `"Kigali"`, `"Gasabo"`, `"Gisozi"`, `"Kigali City"`, `"tel:+12065551212"`, `"+12065551212"`, `(x) => x`, `upper`, `"{\"a\":1}"`, `"a,b,c"`, `","`, `"image/jpeg:http://x.io/a.jpg"`, `"bob@nyaruka.com"`, `" "`, `"UTC"`, `"(\\w+)"`}
	var out []string
	for _, fn := range FunctionNames() {
		if NonDeterministic[fn] {
			continue
		}
		for j := 0; j < k; j++ {
			ar := 1
			if a, ok := arities[fn]; ok {
				ar = fw.Pick(r, a)
			}
			args := make([]string, ar)
			for i := range args {
				args[i] = fw.Pick(r, lits)
				switch {
				case fn == "repeat" && i == 1:
					args[i] = "3"
				case (fn == "foreach" || fn == "foreach_value" || fn == "filter") && i == 0:
					args[i] = fw.Pick(r, []string{`array("b", "a", "b")`, `contact.groups`, `results`, `contact`})
				case (fn == "foreach" || fn == "foreach_value" || fn == "filter") && i == 1:
					args[i] = fw.Pick(r, []string{`(x) => x`, `upper`, `(x) => title(x)`})
				case (fn == "has_ward" || fn == "has_district") && i > 0:
					args[i] = fw.Pick(r, []string{`"Kigali City"`, `"Gasabo"`, `"Kigali"`, `"Nyarugenge"`})
				}
			}
			out = append(out, "@("+fn+"("+strings.Join(args, ", ")+"))")
		}
	}
	return out
}
