// Package gen holds the seeded generators shared by the property checks.
package gen

import (
	"strings"

	"verif/internal/fw"
)

// StringPool is appendix A.1 of DESIGN.md.
var StringPool = []string{
	"", "a", "hello world", " x ", "Hello World", "1", "1.5", "-3", "007", "1e5",
	"2020-01-01", "01-02-2020 10:30", "31-12-99", "10:30", "12:00 am", "true", "FALSE",
	"null", "é", "日本語", "😀", `a"b`, `a""b`, `a\b`, `a\`, `\`, `\\`, `a\"`, "(", ")",
	")(", "@", "@@", "@(1)", "@contact", "bob@nyaruka.com", "x OR y", `" OR name != "`,
	"AND", "has", "\n", "\t", "\u0001", " ", "+12065551212", "tel:+12065551212",
	"image/jpeg:http://x.io/a.jpg", "Kigali", "yes", "NO", "red blue", "it's", "50%", "a,b;c",
	// times at and beyond the edges of the clock, fractions longer than nanoseconds
	"24:00", "0:00", "23:59:60", "10:30:61", "10:30:15.1234567891", "12:00:00.000000001 pm", "25:00",
	// characters whose upper/lower case has a different UTF-8 length or rune count, case-folding oddities
	"Ⱥ", "ȺȾ", "ⱥⱦ", "İstanbul", "ǅ", "ſ", "K", "ẞ", "ŉ", "ﬁ", "Ǆ", "ΐ", "Σίσυφος", "ǰ",
}

var hostileAlphabet = []string{
	"@", "(", ")", `"`, `\`, ".", ",", "&", "[", "]", " ", " ", "a", "b", "x", "1", "2", "0", "-", "+", "*", "/", "^",
	"=", "!", "<", ">", "=>", "contact", "fields", "results", "input", "text", "upper", "if", "true", "null",
	"\n", "\t", "é", "日", "😀", "\u0001", "_", ":", "{", "}", "'", "%", "#", "$",
	"5", "9", "٣", "Ⱥ", "İ", "pm", "@5", "@٣", "@_", "@é", ".5", "1e5", "\u00a0", "\u2028",
}

// LongString returns a string of n runes with a 4-byte rune at position pos (if pos < n).
func LongString(n, pos int) string {
	var b strings.Builder
	for i := 0; i < n; i++ {
		if i == pos {
			b.WriteRune('😀')
		} else {
			b.WriteByte(byte('a' + i%26))
		}
	}
	return b.String()
}

// HostileString is a random valid-UTF-8 string over the hostile alphabet.
func HostileString(r *fw.Rand, maxTokens int) string {
	n := r.Intn(maxTokens + 1)
	var b strings.Builder
	for i := 0; i < n; i++ {
		b.WriteString(fw.Pick(r, hostileAlphabet))
	}
	return b.String()
}

// AnyString picks from the pool or builds a random hostile string; never contains NUL.
func AnyString(r *fw.Rand) string {
	switch r.Intn(10) {
	case 0, 1, 2, 3, 4, 5:
		return fw.Pick(r, StringPool)
	case 6:
		return fw.Pick(r, StringPool) + fw.Pick(r, StringPool)
	case 7:
		return LongString(r.Range(1, 80), r.Intn(80))
	default:
		return HostileString(r, 12)
	}
}

// LiteralString is biased to characters that matter for quoting/escaping (C12, C14).
func LiteralString(r *fw.Rand) string {
	alpha := []string{`"`, `\`, `\\`, "(", ")", "@", "@@", "\n", "\r", "\t", "\u0001", "\u007f", " ", "😀", "é", "a", "b", " ", "'", "OR", "AND", "=", "!", "~", "<", ">", ",", "n", "t", "u", "0041", "x", " ", "\\n", `\"`}
	switch r.Intn(8) {
	case 0:
		return fw.Pick(r, StringPool)
	case 1:
		// trailing backslash runs
		return fw.Pick(r, []string{"a", "", "x y", `"`}) + strings.Repeat(`\`, r.Range(1, 4))
	default:
		n := r.Range(0, 10)
		var b strings.Builder
		for i := 0; i < n; i++ {
			b.WriteString(fw.Pick(r, alpha))
		}
		return b.String()
	}
}


// clusters are user-perceived characters made of several code points: a base with combining marks, emoji with skin
// tone modifiers, emoji joined by zero-width joiners, conjuncts of Indic scripts, flags.
var clusters = []string{"e\u0301", "a\u0308\u0323", "👍🏽", "👨\u200d👩\u200d👧\u200d👦", "कि", "क्ष", "กำ", "🇷🇼", "o\u0302\u0301", "\u200d", "\u0301", "x", "ب\u064e", "🏳️\u200d🌈", "1\ufe0f\u20e3"}

// ClusterString returns a text of about n code points made of such clusters, so that a cut at a code point limit
// falls inside a cluster (between a base and its marks, before a modifier, before or after a joiner).
func ClusterString(r *fw.Rand, n int) string {
	var b strings.Builder
	count := 0
	one := ""
	if r.Chance(0.3) {
		one = fw.Pick(r, clusters) // "zalgo" / joiner chains: one kind only
	}
	for count < n {
		c := one
		if c == "" {
			c = fw.Pick(r, clusters)
		}
		b.WriteString(c)
		count += len([]rune(c))
	}
	return b.String()
}
