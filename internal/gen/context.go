package gen

import (
	"strconv"
	"strings"
	"time"

	"github.com/nyaruka/gocommon/dates"
	"github.com/nyaruka/goflow/assets/static"
	"github.com/nyaruka/goflow/envs"
	"github.com/nyaruka/goflow/excellent/functions"
	"github.com/nyaruka/goflow/excellent/types"
	"github.com/nyaruka/goflow/flows"
	"github.com/shopspring/decimal"

	"verif/internal/fw"
)

func dec(s string) *types.XNumber { return types.NewXNumber(decimal.RequireFromString(s)) }

var zoneNames = []string{"UTC", "America/Guayaquil", "Asia/Kolkata", "Europe/London", "America/New_York", "Australia/Lord_Howe", "Pacific/Kiritimati", "Africa/Kigali"}

// Zone loads one of a fixed list of zones (UTC if the tz database lacks it).
func Zone(r *fw.Rand) *time.Location {
	loc, err := time.LoadLocation(fw.Pick(r, zoneNames))
	if err != nil {
		return time.UTC
	}
	return loc
}

var DateFormats = []envs.DateFormat{envs.DateFormatYearMonthDay, envs.DateFormatMonthDayYear, envs.DateFormatDayMonthYear}
var TimeFormats = []envs.TimeFormat{envs.TimeFormatHourMinute, envs.TimeFormatHourMinuteAmPm, envs.TimeFormatHourMinuteSecond, envs.TimeFormatHourMinuteSecondAmPm}

// Env builds a random environment (programmatically — no ReadEnvironment, which is C09 material).
func Env(r *fw.Rand) envs.Environment {
	b := envs.NewBuilder().WithDateFormat(fw.Pick(r, DateFormats)).WithTimeFormat(fw.Pick(r, TimeFormats)).WithTimezone(Zone(r))
	if r.Chance(0.3) {
		b = b.WithNumberFormat(&envs.NumberFormat{DecimalSymbol: ",", DigitGroupingSymbol: "."})
	}
	if r.Chance(0.5) {
		b = b.WithDefaultCountry("US")
	}
	if r.Chance(0.5) {
		b = b.WithAllowedLanguages("eng", "spa")
	}
	if r.Chance(0.2) {
		b = b.WithRedactionPolicy(envs.RedactionPolicyURNs)
	}
	if r.Chance(0.3) {
		b = b.WithInputCollation(envs.CollationArabicVariants)
	}
	env := b.Build()
	if r.Chance(0.5) {
		env = LocationEnv(env)
	}
	return env
}

const locationsJSON = `[{"name":"Rwanda","aliases":["Ruanda"],"children":[
 {"name":"Kigali City","aliases":["Kigali","Kigari","Capital","D"],"children":[{"name":"Gasabo","aliases":["Central","12"],"children":[{"name":"Gisozi","aliases":["Hill"]},{"name":"Ndera","aliases":["Hill"]}]},{"name":"Nyarugenge","aliases":["Central"],"children":[]}]},
 {"name":"Eastern Province","aliases":["Capital","hello World"],"children":[{"name":"Gatsibo","aliases":["Central"],"children":[{"name":"Kageyo","aliases":["12","D"]}]}]}]}]`

// LocationEnv wraps env with a location resolver over a small hierarchy in which several locations of one level share
// an alias and some aliases are texts of the value pool.
func LocationEnv(env envs.Environment) envs.Environment {
	src, err := static.NewSource([]byte(`{"locations":` + locationsJSON + `}`))
	if err != nil {
		panic(err)
	}
	hs, err := src.Locations()
	if err != nil {
		panic(err)
	}
	return flows.NewAssetsEnvironment(env, flows.NewLocationAssets(hs))
}

// Context builds the standard evaluation context whose paths are listed in ctxPaths.
// Values vary with r; no two keys of one object differ only in case.
func Context(r *fw.Rand) *types.XObject {
	str := func() types.XValue {
		return types.NewXText(fw.Pick(r, []string{"", "a", "Hello World", "12", "1.5", "2020-01-01", "x y z", "é", "red"}))
	}
	num := func() types.XValue {
		return dec(fw.Pick(r, []string{"0", "1", "2", "3", "-1", "0.5", "10", "23", "1.50", "100", "1234567.891"}))
	}
	dt := time.Date(r.Range(1990, 2030), time.Month(r.Range(1, 12)), r.Range(1, 28), r.Intn(24), r.Intn(60), r.Intn(60), r.Intn(1000)*1000000, Zone(r))
	contact := types.NewXObject(map[string]types.XValue{
		"__default__": types.NewXText("Ryan Lewis"),
		"name":        types.NewXText(fw.Pick(r, []string{"Ryan Lewis", "", "Bob", "日本語 😀"})),
		"first_name":  types.NewXText("Ryan"),
		"language":    types.NewXText(fw.Pick(r, []string{"eng", "spa", ""})),
		"fields": types.NewXObject(map[string]types.XValue{
			"age":    num(),
			"joined": types.NewXDateTime(dt),
			"state":  types.NewXText("Rwanda > Kigali City"),
		}),
		"urns":   types.NewXArray(types.NewXText("tel:+12065551212"), types.NewXText("twitterid:54784326227#nyaruka"), types.NewXText("mailto:foo@bar.com")),
		"groups": types.NewXArray(types.NewXObject(map[string]types.XValue{"uuid": types.NewXText("b7cf0d83-f1c9-411c-96fd-c511a4cfa86d"), "name": types.NewXText("Testers")})),
	})
	q1 := types.NewXObject(map[string]types.XValue{
		"__default__": types.NewXText("red"),
		"name":        types.NewXText("Q1"),
		"value":       str(),
		"category":    types.NewXText(fw.Pick(r, []string{"Red", "Other", ""})),
		"categories":  types.NewXArray(types.NewXText("Red")),
		"input":       str(),
		"extra":       types.NewXObject(map[string]types.XValue{"n": num(), "s": str()}),
		// a result object without these two is not accepted as a result by the router tests that take one
		"node_uuid":  types.NewXText("f3b9a1c2-5d64-4e0f-8a77-0c1d2e3f4a5b"),
		"created_on": types.NewXDateTime(dt),
	})
	intent := types.NewXObject(map[string]types.XValue{
		"name": types.NewXText("Intent"), "value": types.NewXText("book_flight"), "category": types.NewXText("Success"),
		"extra":     types.JSONToXValue([]byte(ClassificationJSON(r))),
		"node_uuid": types.NewXText("f3b9a1c2-5d64-4e0f-8a77-0c1d2e3f4a5b"), "created_on": types.NewXDateTime(dt),
	})
	m := map[string]types.XValue{
		"foo":     num(),
		"bar":     str(),
		"zed":     types.NewXBoolean(r.Bool()),
		"arr":     types.NewXArray(num(), str(), nil, types.NewXArray(num(), str()), types.NewXObject(map[string]types.XValue{"a": num()})),
		"obj":     types.NewXObject(map[string]types.XValue{"a": num(), "b": types.NewXObject(map[string]types.XValue{"c": str()})}),
		"contact": contact,
		"results": types.NewXObject(map[string]types.XValue{"q1": q1, "intent": intent}),
		"input": types.NewXObject(map[string]types.XValue{
			"__default__": types.NewXText("hi there"),
			"text":        str(),
			"attachments": types.NewXArray(types.NewXText("image/jpeg:http://s3.amazon.com/bucket/test.jpg")),
		}),
		"nums":    types.NewXObject(map[string]types.XValue{"1": str(), "2": num()}),
		"dflt":    types.NewXObject(map[string]types.XValue{"__default__": num(), "x": str()}),
		"fn":      functions.XFUNCTIONS["upper"],
		"words":   types.NewXArray(types.NewXText("b"), types.NewXText("a"), types.NewXText("c"), types.NewXText("a")),
		"dt":      types.NewXDateTime(dt),
		"d":       types.NewXDate(dates.ExtractDate(dt)),
		"t":       types.NewXTime(dates.ExtractTimeOfDay(dt)),
		"numtext": types.NewXText(fw.Pick(r, []string{"12", "1.5", "-3", "abc", "1e3"})),
		"empty":   types.XTextEmpty,
		"nul":     nil,
		"big":     dec("12345678901234567890.123456789"),
		"neg":     dec("-7.25"),
		"flag":    types.XBooleanTrue,
	}
	if r.Chance(0.3) {
		m["webhook"] = types.JSONToXValue([]byte(fw.Pick(r, JSONDocs[:17])))
	}
	return types.NewXObject(m)
}

// ValuePool is the 24-value boundary pool used for (exhaustive) direct calls.
// It is rebuilt for every use so no case can see another case's lazily initialised values.
func ValuePool() []types.XValue {
	minDT := time.Date(1, 1, 1, 0, 0, 0, 0, time.UTC)
	maxDT := time.Date(9999, 12, 31, 23, 59, 59, 999999999, time.UTC)
	return []types.XValue{
		nil,
		types.NewXErrorf("boom"),
		types.XTextEmpty,
		types.NewXText("hello World"),
		types.NewXText(strings.Repeat("日本語😀 ab ", 40)),
		types.NewXText("12"),
		types.NewXText("2020-02-30 25:61"),
		types.NewXText("D"),
		dec("0"),
		dec("1"),
		dec("-1"),
		dec("2147483647"),
		dec("2147483648"),
		dec("-2147483649"),
		dec("1e30"),
		dec("0.000000000000000000000000000001"),
		dec("1234567890123456789012345678901234567890.5"),
		types.XBooleanTrue,
		types.NewXDateTime(minDT),
		types.NewXDateTime(maxDT),
		types.NewXDate(dates.NewDate(2020, 2, 29)),
		types.NewXTime(dates.NewTimeOfDay(23, 59, 59, 999999999)),
		types.NewXArray(dec("3"), types.NewXText("x"), nil, types.NewXArray()),
		types.NewXObject(map[string]types.XValue{"__default__": types.NewXText("dflt"), "name": types.NewXText("Bob"), "value": types.NewXText("v"), "category": types.NewXText("Cat"), "extra": types.JSONToXValue([]byte(`{"intents":[{"name":"x","confidence":0.5}],"a":[1,{"b":null}]}`)),
			"node_uuid": types.NewXText("f3b9a1c2-5d64-4e0f-8a77-0c1d2e3f4a5b"), "created_on": types.NewXDateTime(time.Date(2020, 2, 29, 12, 0, 0, 0, time.UTC))}),
	}
}

// ExtraValues are further values sampled (not enumerated) in direct calls.
func ExtraValues() []types.XValue {
	return []types.XValue{
		functions.XFUNCTIONS["upper"],
		types.NewXFunction("", func(env envs.Environment, args ...types.XValue) types.XValue { return types.NewXArray(args...) }),
		types.XArrayEmpty, types.XObjectEmpty,
		types.NewXText(" "), types.NewXText("Y"), types.NewXText("h"), types.NewXText("YYYY-MM-DD"), types.NewXText("tt:mm"), types.NewXText("UTC"),
		types.NewXText("10:30"), types.NewXText("2:15 pm"), types.NewXText("at 23:59:59.5"), types.NewXText("tt:mm:ss"), types.NewXText("h:mm aa"), types.NewXText("s"), types.NewXText("M"),
		types.NewXText("Kigali"), types.NewXText("I live in Gasabo, kigali"), types.NewXText("Rwanda > Kigali City"), types.NewXText("Rwanda > Kigali City > Gasabo"), types.NewXText("Capital"), types.NewXText("Central"), types.NewXText("Hill"),
		types.NewXText("+12065551212"), types.NewXText("tel:+12065551212"), types.NewXText("image/jpeg:http://x.io/a.jpg"), types.NewXText("(["), types.NewXText("a*"),
		types.NewXText(`{"a":[1,2,{"b":null}]}`), types.NewXText("-0"), types.NewXText("1e5"), types.NewXText("٣"),
		types.NewXText("Ⱥ"), types.NewXText("ȺȾ"), types.NewXText("ⱥⱦ"), types.NewXText("İstanbul"), types.NewXText("ſ"), types.NewXText("ŉ"), types.NewXText("ẞ"), types.NewXText("ǅ"),
		types.NewXText(strings.Repeat("9", 100)), types.NewXText("1" + strings.Repeat("0", 64)),
		dec("0.5"), dec("-0.5"), dec("3"), dec("9"), dec("10"), dec("100"), dec("65"), dec("1114112"), dec("55296"), dec("9223372036854775807"), dec("9223372036854775808"), dec("-9223372036854775809"),
		dec("253402300800"), dec("-62135596801"), dec("1e-7"),
		types.XBooleanFalse,
		types.JSONToXValue([]byte(`{"a":1,"b":[1,2,3],"c":{"d":"e"}}`)),
		types.JSONToXValue([]byte(`[1,"x",null,[2],{"k":"v"}]`)),
		types.NewXLazyArray(func() []types.XValue { return []types.XValue{types.NewXText("lazy")} }),
		// arrays whose items are all of one type (sort, min/max-like functions compare neighbours), with and without nils
		types.NewXArray(types.XBooleanTrue, types.XBooleanFalse, types.XBooleanTrue),
		types.NewXArray(types.NewXDate(dates.NewDate(2020, 2, 29)), types.NewXDate(dates.NewDate(1, 1, 1)), types.NewXDate(dates.NewDate(9999, 12, 31))),
		types.NewXArray(types.NewXDateTime(time.Date(2020, 2, 29, 12, 0, 0, 0, time.UTC)), types.NewXDateTime(time.Date(2020, 2, 29, 7, 0, 0, 0, time.FixedZone("", -5*3600))), types.NewXDateTime(time.Date(1, 1, 1, 0, 0, 0, 0, time.UTC))),
		types.NewXArray(types.NewXTime(dates.NewTimeOfDay(23, 59, 59, 999999999)), types.NewXTime(dates.NewTimeOfDay(0, 0, 0, 0)), types.NewXTime(dates.NewTimeOfDay(12, 0, 0, 0))),
		types.NewXArray(dec("3"), dec("-1"), dec("1e30"), dec("3.0")),
		types.NewXArray(types.NewXText("b"), types.NewXText("B"), types.NewXText(""), types.NewXText("é")),
		types.NewXArray(nil, nil),
		types.NewXArray(nil, dec("1"), nil),
		types.NewXArray(dec("1"), nil, dec("0")),
		types.NewXArray(types.NewXArray(dec("2")), types.NewXArray(dec("1"))),
		types.NewXArray(types.NewXObject(map[string]types.XValue{"a": dec("2")}), types.NewXObject(map[string]types.XValue{"a": dec("1")})),
		types.NewXArray(types.NewXErrorf("boom"), types.NewXErrorf("bang")),
		types.NewXArray(functions.XFUNCTIONS["upper"], functions.XFUNCTIONS["lower"]),
		types.NewXObject(map[string]types.XValue{"uuid": types.NewXText("b7cf0d83-f1c9-411c-96fd-c511a4cfa86d"), "name": types.NewXText("Testers")}),
		types.NewXArray(types.NewXObject(map[string]types.XValue{"uuid": types.NewXText("b7cf0d83-f1c9-411c-96fd-c511a4cfa86d"), "name": types.NewXText("Testers")})),
	}
}

// ClassificationNames are the intent names used by generated classifications and by generated has_intent calls.
var ClassificationNames = []string{"book_flight", "book_hotel", "", "x", "Book_Flight"}

// ClassificationJSON is the JSON a classifier result keeps in its extra: mostly well-formed with every legal
// emptiness (no intents, no entities, an entity without candidates, missing members), sometimes of the wrong shape.
func ClassificationJSON(r *fw.Rand) string {
	confidence := func() string {
		return fw.Pick(r, []string{"0.5", "0.25", "1", "1.0", "0", "0.9", "0.4000000001", "-1", "2", "1e-30", "null", `"0.5"`})
	}
	intent := func() string {
		switch r.Intn(10) {
		case 0:
			return `{}`
		case 1:
			return `{"name":` + strconv.Quote(fw.Pick(r, ClassificationNames)) + `}`
		case 2:
			return fw.Pick(r, []string{`null`, `"book_flight"`, `1`, `[]`})
		default:
			return `{"name":` + strconv.Quote(fw.Pick(r, ClassificationNames)) + `,"confidence":` + confidence() + `}`
		}
	}
	candidate := func() string {
		switch r.Intn(8) {
		case 0:
			return `{}`
		case 1:
			return fw.Pick(r, []string{`null`, `"Quito"`, `1`, `{"value":null}`, `{"value":1}`})
		default:
			return `{"value":` + strconv.Quote(fw.Pick(r, []string{"Quito", "", "May 21", "日本語"})) + `,"confidence":` + confidence() + `}`
		}
	}
	list := func(item func() string, weights ...int) string {
		n := r.Weighted(weights)
		parts := make([]string, n)
		for i := range parts {
			parts[i] = item()
		}
		return "[" + strings.Join(parts, ",") + "]"
	}
	var members []string
	switch r.Intn(12) {
	case 0: // no intents member
	case 1:
		members = append(members, `"intents":`+fw.Pick(r, []string{`null`, `{}`, `"x"`, `1`}))
	default:
		members = append(members, `"intents":`+list(intent, 2, 4, 4, 2))
	}
	switch r.Intn(12) {
	case 0: // no entities member
	case 1:
		members = append(members, `"entities":`+fw.Pick(r, []string{`null`, `[]`, `"x"`, `{"location":null}`, `{"location":"Quito"}`, `{"location":{}}`}))
	default:
		n := r.Weighted([]int{2, 4, 3, 1})
		ents := make([]string, n)
		for i := range ents {
			ents[i] = strconv.Quote([]string{"location", "date", "", "Location 2"}[i]) + ":" + list(candidate, 3, 4, 2)
		}
		members = append(members, `"entities":{`+strings.Join(ents, ",")+`}`)
	}
	if r.Chance(0.2) {
		members = append(members, `"other":[1,{"b":null}]`)
	}
	return "{" + strings.Join(members, ",") + "}"
}

// ClassificationResult is a result-shaped object whose extra is a generated classification.
func ClassificationResult(r *fw.Rand) *types.XObject {
	m := map[string]types.XValue{
		"__default__": types.NewXText("book_flight"),
		"name":        types.NewXText("Intent"), "value": types.NewXText("book_flight"), "category": types.NewXText(fw.Pick(r, []string{"Success", "Skipped", "Failure"})),
		"node_uuid": types.NewXText("f3b9a1c2-5d64-4e0f-8a77-0c1d2e3f4a5b"), "created_on": types.NewXDateTime(time.Date(2020, 2, 29, 12, 0, 0, 0, time.UTC)),
	}
	switch r.Intn(10) {
	case 0: // no extra at all
	case 1:
		m["extra"] = fw.Pick(r, []types.XValue{nil, types.XTextEmpty, types.XArrayEmpty, types.XObjectEmpty, types.NewXText(ClassificationJSON(r))})
	default:
		m["extra"] = types.JSONToXValue([]byte(ClassificationJSON(r)))
	}
	return types.NewXObject(m)
}
