package gen

import (
	"encoding/json"
	"fmt"
	"sort"
	"strings"
	"time"

	"verif/internal/fw"
)

// M is a JSON object under construction.
type M = map[string]any

// UUID4 returns a syntactically valid v4 UUID drawn from r.
func UUID4(r *fw.Rand) string {
	a, b := r.U64(), r.U64()
	return fmt.Sprintf("%08x-%04x-4%03x-%x%03x-%012x", uint32(a>>32), uint16(a>>16), uint16(a)&0xfff, 8+(b>>62), uint16(b>>48)&0xfff, b&0xffffffffffff)
}

// Options are the engine options of a scenario (0 = engine default).
type Options struct {
	MaxSteps         int  `json:"max_steps,omitempty"`
	MaxResumes       int  `json:"max_resumes,omitempty"`
	MaxTemplateChars int  `json:"max_template_chars,omitempty"`
	MaxFieldChars    int  `json:"max_field_chars,omitempty"`
	MaxResultChars   int  `json:"max_result_chars,omitempty"`
	Set              bool `json:"set,omitempty"` // false: engine defaults
}

// Scenario is one generated workload: assets (incl. flows), a trigger, a resume history, engine options.
type Scenario struct {
	Assets  M        `json:"assets"`
	Trigger M        `json:"trigger"`
	Resumes []M      `json:"resumes"`
	Options Options  `json:"options"`
	Notes   []string `json:"notes,omitempty"` // features planted by the generator
	Webhook string   `json:"webhook_body,omitempty"`
	Reread  bool     `json:"reread,omitempty"`       // directed scenarios: persist and re-read the session at every wait
	Coarse  int      `json:"coarse_clock,omitempty"` // > 1: the clock advances only with every n-th read (limited resolution)
}

func (s *Scenario) AssetsJSON() []byte  { b, _ := json.Marshal(s.Assets); return b }
func (s *Scenario) TriggerJSON() []byte { b, _ := json.Marshal(s.Trigger); return b }
func (s *Scenario) Fingerprint() string {
	b, _ := json.Marshal([]any{s.Assets, s.Trigger, s.Resumes, s.Options})
	return string(b)
}
func (s *Scenario) Flows() []M {
	var out []M
	for _, f := range s.Assets["flows"].([]any) {
		out = append(out, f.(M))
	}
	return out
}

// ScenOpts biases the scenario generator.
type ScenOpts struct {
	FlowType       string // "" = random
	LoopHeavy      bool   // C01/C05: cycles, self loops, recursion
	ContactChanges bool   // C03/C06: many contact-modifying actions
	QueryGroups    bool   // many query-based groups
	Localized      bool   // translations in several languages
	NoRandom       bool   // no random routers / rand() (C09)
	NoWebhookCtx   bool   // templates never reference @webhook / @legacy_extra (C02)
	SmallOptions   bool   // C05: boundary engine options
	LongTexts      bool   // texts beyond the limits with multi-byte chars at the cut
	History        bool   // long histories: templates that read the run's history, a resume limit within reach of the resumes
	Deterministic  bool   // only deterministic functions in templates
	MaxNodes       int
	MaxResumes     int
	Batch          bool    // allow batch triggers
	URNPolicy      string  // "" random; "urns"/"none" force redaction policy
	NoHostileTpl   bool    // only well-formed templates
	OldSpec        bool    // store flows at spec 13.0 so that lazy migration runs
	RefreshP       float64 // probability that a resume carries a refreshed contact / environment (0 = default)
	EnvSensitive   bool    // plant templates whose value depends on the environment
	InvalidP       float64 // probability that one flow gets a structural invalidity the loader must reject (discarded on correct code)
}

type scenGen struct {
	r     *fw.Rand
	o     ScenOpts
	s     *Scenario
	ftype string

	fields      []M
	groups      []M // all groups
	static      []M
	qgroups     []M
	labels      []M
	channels    []M
	globals     []M
	topics      []M
	users       []M
	tpls        []M
	classifiers []M
	optins      []M
	resthooks   []M
	flowRefs    []M
	langs       []string // flow localization languages
	baseLang    string
	resultNames []string
}

var langCodes = []string{"eng", "spa", "fra", "kin"}

func ref(m M) M {
	out := M{"name": m["name"]}
	if u, ok := m["uuid"]; ok {
		out["uuid"] = u
	}
	return out
}

// aref is the reference an action holds to an asset: usually the asset's own, now and then a stale one as in a flow
// imported from another workspace — the name of an existing asset under a UUID the assets do not have.
func (g *scenGen) aref(m M) M {
	out := ref(m)
	if _, ok := out["uuid"]; ok && g.r.Chance(0.06) {
		out["uuid"] = UUID4(g.r)
		g.note("stale-reference")
	}
	return out
}

// Gen builds a scenario from r.
func Scen(r *fw.Rand, o ScenOpts) *Scenario {
	g := &scenGen{r: r, o: o, s: &Scenario{}}
	if o.MaxNodes == 0 {
		o.MaxNodes = 6
		g.o.MaxNodes = 6
	}
	if o.MaxResumes == 0 {
		g.o.MaxResumes = 6
	}
	g.ftype = o.FlowType
	if g.ftype == "" {
		g.ftype = []string{"messaging", "messaging", "messaging", "messaging_background", "messaging_offline", "voice"}[r.Intn(6)]
	}
	g.assets()
	g.flows()
	g.trigger()
	g.resumes()
	g.options()
	return g.s
}

func (g *scenGen) note(s string) { g.s.Notes = append(g.s.Notes, s) }

var queryPool = []string{
	`age > 18`, `age <= 18`, `age = 23`, `age != ""`, `age = ""`, `gender = "male"`, `gender != "male"`, `gender ~ "ma"`, `gender = ""`,
	`name ~ "bob"`, `name = "Bob"`, `name != ""`, `name = ""`, `name ~ "Алексей"`, `name ~ "Иваненко"`, `name ~ "Александра"`, `name ~ "عبدالرحمن"`, `name ~ "smithsonite"`, `name ~ "longnamexyz"`, `name ~ "smith bob"`, `name ~ "élo"`, `language = "eng"`, `language != "eng"`, `language = ""`,
	`tel ~ "1206"`, `tel = "+12065551212"`, `tel != ""`, `tel = ""`, `twitter != ""`, `urn ~ "1206"`, `urn = ""`, `urn != ""`,
	`joined > "2018-01-01"`, `joined <= "2018-01-01"`, `joined = "2017-12-02"`, `joined != ""`, `state = "Kigali City"`, `state != ""`,
	`district = "Gasabo"`, `ward = "Gisozi"`, `state = "Gasabo"`, `state != "Kigali City"`, `state = ""`, `district != ""`, `district = ""`, `ward != ""`, `ward = ""`, `district = "Kigali City"`, `ward != "Gisozi"`, `last_seen_on != ""`, `last_seen_on = ""`, `last_seen_on > "2018-01-01"`, `tickets > 0`, `tickets = 0`,
	`created_on > "2018-01-01"`, `created_on < "2018-01-01"`, `created_on = "2018-06-20"`, `nick = "bobby"`, `nick ~ "bob"`, `nick != ""`,
	`age > 10 AND age < 30`, `age > 18 OR gender = "male"`, `name ~ "bob" AND (language = "eng" OR tickets > 0)`, `gender = "male" AND tel != ""`,
	`tel != "+12065551212"`, `urn != "+12065551212"`, `twitter != "bobby"`, `language != "spa"`, `tel != "+250788123123" AND tel != ""`, `created_on = "2018-01-01"`, `joined = "2018-01-01"`, `last_seen_on = "2018-01-01"`, `joined < "2018-01-01"`, `created_on >= "2018-06-20"`,
	`last_seen_on != "" AND age != ""`, `(age = "" OR age < 5) AND name != ""`, `joined > "2018-01-01" OR last_seen_on > "2018-01-01"`,
}

func (g *scenGen) assets() {
	r := g.r
	a := M{}
	g.channels = []M{
		{"uuid": UUID4(r), "name": "Android", "address": "+17036975131", "schemes": []string{"tel"}, "roles": []string{"send", "receive", "call", "answer"}, "country": "US"},
		{"uuid": UUID4(r), "name": "Twitter", "address": "nyaruka", "schemes": []string{"twitter", "twitterid"}, "roles": []string{"send", "receive"}},
		{"uuid": UUID4(r), "name": "Facebook", "address": "2353263", "schemes": []string{"facebook"}, "roles": []string{"send", "receive"}, "features": []string{"optins"}},
	}
	if r.Chance(0.2) {
		g.channels = g.channels[:r.Intn(3)]
	}
	// channels that cannot send, or only send, or serve a number range: what "the channel a contact is reached on" has to skip
	if r.Chance(0.35) {
		g.channels = append(g.channels, M{"uuid": UUID4(r), "name": "Shortcode", "address": "2020", "schemes": []string{"tel"}, "roles": []string{"receive"}, "country": "RW"})
	}
	if r.Chance(0.35) {
		g.channels = append(g.channels, M{"uuid": UUID4(r), "name": "Bulk", "address": "+250788000000", "schemes": []string{"tel"}, "roles": []string{"send"}, "country": "RW", "match_prefixes": []string{"+25078", "+120", "+121"}})
	}
	if r.Chance(0.15) {
		g.channels = append(g.channels, M{"uuid": UUID4(r), "name": "Local Only", "address": "+12065550000", "schemes": []string{"tel"}, "roles": []string{"send", "receive"}, "country": "US", "allow_international": false})
	}
	allFields := []M{
		{"uuid": UUID4(r), "key": "gender", "name": "Gender", "type": "text"},
		{"uuid": UUID4(r), "key": "age", "name": "Age", "type": "number"},
		{"uuid": UUID4(r), "key": "joined", "name": "Joined", "type": "datetime"},
		{"uuid": UUID4(r), "key": "state", "name": "State", "type": "state"},
		{"uuid": UUID4(r), "key": "district", "name": "District", "type": "district"},
		{"uuid": UUID4(r), "key": "ward", "name": "Ward", "type": "ward"},
		{"uuid": UUID4(r), "key": "nick", "name": "Nick Name", "type": "text"},
	}
	g.fields = allFields
	if r.Chance(0.15) {
		g.fields = allFields[:r.Intn(len(allFields))]
	}
	g.static = []M{{"uuid": UUID4(r), "name": "Testers"}, {"uuid": UUID4(r), "name": "Customers"}, {"uuid": UUID4(r), "name": "VIP"}}
	g.static = g.static[:r.Range(0, 3)]
	nq := r.Range(0, 3)
	if g.o.QueryGroups {
		nq = r.Range(2, 6)
		if r.Chance(0.12) {
			nq = r.Range(20, 45) // a workspace with many query-based groups: one contact change moves the contact into / out of several at once
		}
	}
	for i := 0; i < nq; i++ {
		q := fw.Pick(r, queryPool)
		// a query group over a field that does not exist would not load: keep only queries over present fields
		ok := true
		for _, f := range allFields {
			k := f["key"].(string)
			if strings.Contains(q, k) && !g.hasField(k) {
				ok = false
			}
		}
		if !ok {
			continue
		}
		g.qgroups = append(g.qgroups, M{"uuid": UUID4(r), "name": fmt.Sprintf("Q%d %s", i, strings.NewReplacer(`"`, "", "~", "has", "<", "lt", ">", "gt", "=", "eq", "!", "n", "(", "", ")", "").Replace(q)), "query": q})
	}
	g.groups = append(append([]M{}, g.static...), g.qgroups...)
	g.labels = []M{{"uuid": UUID4(r), "name": "Spam"}, {"uuid": UUID4(r), "name": "Important"}}
	g.globals = []M{{"key": "org_name", "name": "Org Name", "value": "Nyaruka"}, {"key": "limit", "name": "Limit", "value": "18"}}
	g.topics = []M{{"uuid": UUID4(r), "name": "Weather"}, {"uuid": UUID4(r), "name": "Computers"}}
	g.users = []M{{"email": "bob@nyaruka.com", "name": "Bob"}, {"email": "jim@nyaruka.com", "name": "Jim"}}
	g.classifiers = []M{{"uuid": UUID4(r), "name": "Booking", "type": "wit", "intents": []string{"book_flight", "book_hotel"}}}
	g.optins = []M{{"uuid": UUID4(r), "name": "Jokes"}}
	g.resthooks = []M{{"slug": "new-registration", "subscribers": []string{"http://localhost/?cmd=success"}}}
	// a template with every kind of component: media header, texts, and the three kinds of buttons (which become quick
	// replies of the preview), several placeholders per component
	promoComps := func(lang string) []M {
		return []M{
			{"name": "header", "type": "header/image", "content": "{{1}}", "variables": M{"1": 0}},
			{"name": "body", "type": "body/text", "content": "[" + lang + "] {{1}} and {{2}} and again {{1}}", "variables": M{"1": 1, "2": 2}},
			{"name": "footer", "type": "footer/text", "content": "bye {{1}}", "variables": M{"1": 2}},
			{"name": "button.0", "type": "button/quick_reply", "content": "{{1}}", "variables": M{"1": 3}},
			{"name": "button.1", "type": "button/url", "content": "http://example.com/?ref={{1}}&again={{2}}", "variables": M{"1": 4, "2": 1}},
			{"name": "button.2", "type": "button/phone_number", "content": "+12065551212", "variables": M{}},
		}
	}
	promoVars := []M{{"type": "image"}, {"type": "text"}, {"type": "text"}, {"type": "text"}, {"type": "text"}}
	g.tpls = []M{{
		"uuid": UUID4(r), "name": "promo",
		"translations": []M{
			{"channel": ref(g.chanOr(0)), "locale": "eng-US", "components": promoComps("eng"), "variables": promoVars},
			{"channel": ref(g.chanOr(1)), "locale": "eng", "components": promoComps("eng"), "variables": promoVars},
			{"channel": ref(g.chanOr(0)), "locale": "spa", "components": promoComps("spa"), "variables": promoVars},
		},
	}, {
		"uuid": UUID4(r), "name": "affirmation",
		"translations": []M{
			{"channel": ref(g.chanOr(0)), "locale": "eng", "components": []M{{"name": "body", "type": "body/text", "content": "Hi {{1}}, are you still {{2}}?", "variables": M{"1": 0, "2": 1}}}, "variables": []M{{"type": "text"}, {"type": "text"}}},
			{"channel": ref(g.chanOr(0)), "locale": "spa", "components": []M{{"name": "body", "type": "body/text", "content": "Hola {{1}}, tienes {{2}}?", "variables": M{"1": 0, "2": 1}}}, "variables": []M{{"type": "text"}, {"type": "text"}}},
		},
	}}
	a["channels"] = g.channels
	a["fields"] = g.fields
	a["groups"] = g.groups
	a["labels"] = g.labels
	a["globals"] = g.globals
	a["topics"] = g.topics
	a["users"] = g.users
	a["classifiers"] = g.classifiers
	a["optins"] = g.optins
	a["resthooks"] = g.resthooks
	a["templates"] = g.tpls
	// several locations of one level answer to the same name or alias (the first in asset order is the one used),
	// and a location may list its own name as an alias
	a["locations"] = []M{{"name": "Rwanda", "aliases": []string{"Ruanda"}, "children": []M{
		{"name": "Kigali City", "aliases": []string{"Kigali", "Kigari", "Capital", "Kigali City"}, "children": []M{
			{"name": "Gasabo", "aliases": []string{"Central"}, "children": []M{{"name": "Gisozi", "aliases": []string{"Hill"}}, {"name": "Ndera", "aliases": []string{"Hill"}}}},
			{"name": "Nyarugenge", "aliases": []string{"Central", "Kigali"}, "children": []M{{"name": "Gisozi"}}},
		}},
		{"name": "Eastern Province", "aliases": []string{"Capital", "East"}, "children": []M{{"name": "Gatsibo", "aliases": []string{"Central"}, "children": []M{{"name": "Kageyo", "aliases": []string{"Hill"}}}}}},
		{"name": "Northern Province", "aliases": []string{"Capital", "Kigali"}, "children": []M{}},
		{"name": "Southern Province", "aliases": []string{"capital"}, "children": []M{}},
	}}}
	g.s.Assets = a
}

func (g *scenGen) chanOr(i int) M {
	if len(g.channels) > i {
		return g.channels[i]
	}
	return M{"uuid": "57f1078f-88aa-46f4-a59a-948a5739c03d", "name": "Gone"}
}

func (g *scenGen) hasField(k string) bool {
	for _, f := range g.fields {
		if f["key"] == k {
			return true
		}
	}
	return false
}

// ---------------------------------------------------------------------------------------
// templates inside flows

var safeTemplates = []string{
	"Hi @contact.name", "Hello @contact", "You are @fields.age years old", "@(upper(contact.first_name))", "Welcome to @globals.org_name",
	"@results", "Result: @results.q1.value / @results.q1.category", "@(default(results.color.category_localized, \"none\"))", "You said @input.text", "@input",
	"@(count(contact.groups)) groups", "@(join(foreach(contact.groups, (g) => g.name), \",\"))", "@contact.language @contact.status @contact.timezone",
	"@(format_urn(urns.tel))", "@contact.urn", "@(text_length(input.text))", "@run.flow.name @run.status", "@(json(run.results))", "@parent.results", "@(default(parent.contact.name, \"no parent\"))",
	"@child.results", "@(default(child.status, \"nochild\"))", "@trigger.type @trigger.params", "@(if(fields.age > globals.limit, \"adult\", \"minor\"))", "@fields.joined", "@(format_date(fields.joined))",
	"@fields.state", "@(format_location(fields.state))", "@fields", "@(contact.fields.nick & \"!\")", "a@b.com and @@twitter", "@(1 / 0)", "@(missing.thing)", "@contact.nope", "@(\"unterminated",
	"@(contact.created_on)", "@(datetime_diff(contact.created_on, contact.last_seen_on, \"D\"))", "@contact.last_seen_on", "@(contact.tickets)", "@ticket.topic.name", "@resume.type", "@node.visit_count",
	"@(repeat(\"ab😀\", 30))", "@(json(contact))", "@(json(input))", "@(object(\"a\", results))", "@urns", "@(urn_parts(contact.urn).path)", "@(title(contact.name) & \" \" & lower(contact.name))",
	// context values that are deprecated: reading one logs a warning
	"@(results.q1.categories[0])", "@results.q1.values", "@(results.q1.categories_localized)", "@(results.color.categories[0]) @(results.color.values)", "@(default(results.q1.categories, \"none\"))",
	"@results.q1", "@results.q1.input", "@(results.q1.extra)", "@results.intent.extra", "@(has_text(input.text).match)", "@run.path", "@(count(run.path))", "@run.created_on", "@run.exited_on",
}

var webhookTemplates = []string{"@webhook", "@webhook.json", "@(json(webhook))", "@webhook.status", "@legacy_extra", "@(default(webhook.json.results[0].state, \"x\"))", "@results.webhook.extra",
	"@(webhook.json.vip)", "@(webhook.json[0])", "@trigger.params.vip", "@(trigger.params.blocked)", "@(trigger.params.flags[0])", "@(if(trigger.params.vip, \"vip\", \"std\"))", "@(default(webhook.json, \"nothing\"))"}

// what a run remembers of its past: every step, every result, every visit of the node it is at
var historyTemplates = []string{"@node.visit_count", "visits: @node.visit_count steps: @(count(run.path))", "@(count(run.path))", "@run.path", "@(json(run.path))", "@(run.path[0])", "@(count(results)) @results",
	"@(json(run.results))", "@(count(parent.results)) @(default(parent.run.path, \"np\"))", "@(default(child.run.path, \"nc\")) @child.results", "@run.created_on @run.modified_on", "@(if(node.visit_count > 20, \"many\", \"few\"))"}

var envSensitiveTemplates = []string{
	"@(format_datetime(contact.created_on)) @(format_number(1234.5))", "@fields.joined @(format_date(fields.joined))", "@(format_time(contact.created_on)) @(1234.5)", "@(format(contact.created_on)) @(format(1234567.891))",
	"@(format_datetime(\"2018-03-04T00:00:00Z\")) @(text(1.5))", "@(datetime(\"01-02-2018 10:30\"))", "@(format_number(fields.age, 2))", "@(default(contact.language, \"none\")) @(format_date(\"2018-01-02\"))", "@(tz(contact.created_on))",
}

func (g *scenGen) tpl() string {
	r := g.r
	if g.o.EnvSensitive && r.Chance(0.35) {
		return fw.Pick(r, envSensitiveTemplates)
	}
	if !g.o.NoWebhookCtx && r.Chance(0.08) {
		return fw.Pick(r, webhookTemplates)
	}
	if g.o.History && r.Chance(0.3) {
		return fw.Pick(r, historyTemplates)
	}
	switch r.Intn(20) {
	case 0:
		if g.o.NoHostileTpl {
			return fw.Pick(r, safeTemplates)
		}
		return Template(r, ExprOpts{Deterministic: true, Hostile: true, MaxDepth: 2, PlainStrings: true})
	case 1:
		if g.o.LongTexts {
			if r.Chance(0.3) {
				return ClusterString(r, fw.Pick(r, []int{1, 2, 3, 5, 63, 64, 65, 639, 640, 641, 700}))
			}
			return LongString(fw.Pick(r, []int{63, 64, 65, 639, 640, 641, 700}), fw.Pick(r, []int{62, 63, 64, 638, 639, 640}))
		}
		return "plain text " + fw.Pick(r, StringPool[:20])
	case 2:
		if g.o.Deterministic || g.o.NoRandom {
			return fw.Pick(r, safeTemplates)
		}
		return fw.Pick(r, []string{"@(rand_between(1, 10))", "@(now())", "@(today())", "@(rand())"})
	case 3:
		if g.o.LongTexts {
			return "@(repeat(\"日本😀x\", " + fw.Pick(r, []string{"20", "200", "3000"}) + "))"
		}
		return fw.Pick(r, safeTemplates)
	default:
		return fw.Pick(r, safeTemplates)
	}
}

// ---------------------------------------------------------------------------------------
// flows

type nodeSpec struct {
	uuid  string
	exits []string // exit uuids
}

var resultNamePool = []string{"Q1", "Color", "Age Result", "webhook", "Intent", "2Factor", "Ticket", "Airtime", "q1"}

func (g *scenGen) flows() {
	r := g.r
	nf := r.Range(1, 4)
	g.baseLang = fw.Pick(r, langCodes)
	nl := r.Intn(2)
	if g.o.Localized {
		nl = r.Range(1, 3)
	}
	for _, l := range langCodes {
		if l != g.baseLang && len(g.langs) < nl {
			g.langs = append(g.langs, l)
		}
	}
	for i := 0; i < nf; i++ {
		g.flowRefs = append(g.flowRefs, M{"uuid": UUID4(r), "name": fmt.Sprintf("Flow %d", i)})
	}
	var fl []any
	for i := 0; i < nf; i++ {
		ft := g.ftype
		if r.Chance(0.05) {
			ft = fw.Pick(r, []string{"messaging", "voice", "messaging_background"})
		}
		fl = append(fl, g.flow(i, ft))
	}
	g.s.Assets["flows"] = fl
}

func (g *scenGen) flow(idx int, ftype string) M {
	r := g.r
	nn := r.Range(0, g.o.MaxNodes)
	if idx == 0 && nn == 0 && r.Chance(0.8) {
		nn = r.Range(1, g.o.MaxNodes)
	}
	nodes := make([]nodeSpec, nn)
	for i := range nodes {
		nodes[i].uuid = UUID4(r)
	}
	loc := M{}
	for _, l := range g.langs {
		loc[l] = M{}
	}
	var nodeJSON []any
	for i := range nodes {
		nodeJSON = append(nodeJSON, g.node(i, nodes, ftype, idx, loc))
	}
	if g.o.InvalidP > 0 && len(nodeJSON) > 0 && r.Chance(g.o.InvalidP) {
		g.plantInvalid(nodeJSON, ftype)
		g.note("planted-invalid-definition")
	}
	spec := "13.6.1"
	f := M{
		"uuid": g.flowRefs[idx]["uuid"], "name": g.flowRefs[idx]["name"], "spec_version": spec, "language": g.baseLang, "type": ftype,
		"revision": r.Intn(50), "expire_after_minutes": fw.Pick(r, []int{0, 5, 720}), "nodes": nodeJSON, "localization": loc,
	}
	if nodeJSON == nil {
		f["nodes"] = []any{}
	}
	return f
}

// plantInvalid makes the definition structurally invalid in one way; a loader that accepts it is broken, and what the
// engine then does with it (a step leaving by an exit of another node, …) is visible to the monitors.
func (g *scenGen) plantInvalid(nodes []any, ftype string) {
	r := g.r
	n := nodes[r.Intn(len(nodes))].(M)
	other := nodes[r.Intn(len(nodes))].(M)
	rt, _ := n["router"].(M)
	switch r.Intn(6) {
	case 0: // a category whose exit belongs to another node
		if rt != nil && other["uuid"] != n["uuid"] {
			cats := rt["categories"].([]any)
			oe := other["exits"].([]any)
			cats[r.Intn(len(cats))].(M)["exit_uuid"] = oe[r.Intn(len(oe))].(M)["uuid"]
			return
		}
		fallthrough
	case 1: // an exit that leads nowhere known
		ex := n["exits"].([]any)
		ex[r.Intn(len(ex))].(M)["destination_uuid"] = UUID4(r)
	case 2: // default category that is not a category
		if rt != nil && rt["type"] == "switch" {
			rt["default_category_uuid"] = UUID4(r)
			return
		}
		fallthrough
	case 3: // timeout category that is not a category
		if rt != nil {
			if w, ok := rt["wait"].(M); ok && w["type"] == "msg" {
				w["timeout"] = M{"seconds": 60, "category_uuid": UUID4(r)}
				return
			}
		}
		fallthrough
	case 4: // a case pointing at a category that does not exist
		if rt != nil {
			if cs, ok := rt["cases"].([]any); ok && len(cs) > 0 {
				cs[r.Intn(len(cs))].(M)["category_uuid"] = UUID4(r)
				return
			}
		}
		fallthrough
	default: // two nodes with the same UUID
		if other["uuid"] != n["uuid"] {
			other["uuid"] = n["uuid"]
		} else {
			ex := n["exits"].([]any)
			ex[0].(M)["destination_uuid"] = UUID4(r)
		}
	}
}

func (g *scenGen) dest(i int, nodes []nodeSpec) any {
	r := g.r
	n := len(nodes)
	if g.o.LoopHeavy {
		switch r.Intn(10) {
		case 0, 1:
			return nodes[i].uuid // self loop
		case 2, 3:
			return nodes[r.Intn(n)].uuid // anywhere incl. back edges
		case 4:
			return nil
		}
	} else {
		switch r.Intn(20) {
		case 0:
			return nodes[i].uuid
		case 1, 2:
			return nodes[r.Intn(n)].uuid
		case 3, 4:
			return nil
		}
	}
	if i+1 < n {
		return nodes[r.Range(i+1, min(n-1, i+2))].uuid
	}
	return nil
}

func (g *scenGen) exit(i int, nodes []nodeSpec) (string, M) {
	u := UUID4(g.r)
	e := M{"uuid": u}
	if d := g.dest(i, nodes); d != nil {
		e["destination_uuid"] = d
	}
	return u, e
}

func (g *scenGen) translate(loc M, uuid, prop string, base []string, gen func() string) {
	r := g.r
	for _, l := range g.langs {
		if !r.Chance(0.6) {
			continue
		}
		var tr []string
		switch r.Intn(8) {
		case 0:
			tr = []string{}
		case 1:
			tr = []string{""}
		case 2: // shorter
			for k := 0; k+1 < len(base); k++ {
				tr = append(tr, "["+l+"] "+gen())
			}
			if tr == nil {
				tr = []string{}
			}
		case 3: // longer
			for k := 0; k < len(base)+1; k++ {
				tr = append(tr, "["+l+"] "+gen())
			}
		default:
			for k := 0; k < len(base); k++ {
				tr = append(tr, "["+l+"] "+gen())
			}
			if tr == nil {
				tr = []string{}
			}
		}
		lm := loc[l].(M)
		im, ok := lm[uuid].(M)
		if !ok {
			im = M{}
			lm[uuid] = im
		}
		im[prop] = tr
	}
}

func (g *scenGen) resultName() string {
	n := fw.Pick(g.r, resultNamePool)
	return n
}

func (g *scenGen) node(i int, nodes []nodeSpec, ftype string, flowIdx int, loc M) M {
	r := g.r
	n := M{"uuid": nodes[i].uuid}
	na := r.Weighted([]int{25, 40, 25, 10})
	var acts []any
	for k := 0; k < na; k++ {
		if a := g.action(ftype, flowIdx, loc); a != nil {
			acts = append(acts, a)
		}
	}
	if acts != nil {
		n["actions"] = acts
	}
	var exits []any
	kind := r.Weighted([]int{45, 45, 10})
	if g.o.NoRandom && kind == 2 {
		kind = 1
	}
	switch kind {
	case 0: // no router
		ne := 1
		if r.Chance(0.1) {
			ne = 2
		}
		for k := 0; k < ne; k++ {
			_, e := g.exit(i, nodes)
			exits = append(exits, e)
		}
	default:
		ncat := r.Range(1, 4)
		cats := make([]M, ncat)
		var catJSON []any
		for k := 0; k < ncat; k++ {
			eu, e := g.exit(i, nodes)
			exits = append(exits, e)
			name := fw.Pick(r, []string{"Yes", "No", "Other", "Red", "Blue", "All Responses", "Success", "Failure", "Has Text", ""})
			if r.Chance(0.1) && k > 0 {
				name = cats[0]["name"].(string) // duplicate category names
			}
			cats[k] = M{"uuid": UUID4(r), "name": name, "exit_uuid": eu}
			if r.Chance(0.15) && k > 0 {
				cats[k]["exit_uuid"] = cats[0]["exit_uuid"] // shared exit
			}
			catJSON = append(catJSON, cats[k])
			g.translate(loc, cats[k]["uuid"].(string), "name", []string{name}, func() string {
				if g.o.LongTexts && r.Chance(0.4) {
					// a translation is not bound by the length limit of the name it translates
					return LongString(fw.Pick(r, []int{35, 36, 37, 64, 65, 640, 641}), fw.Pick(r, []int{34, 35, 36, 63, 64, 639, 640}))
				}
				return fw.Pick(r, []string{"Si", "Non", "Autre", "Rouge", " ", "A\nB", "\"q\""})
			})
		}
		router := M{"categories": catJSON}
		if r.Chance(0.6) {
			router["result_name"] = g.resultName()
		}
		if kind == 2 {
			router["type"] = "random"
		} else {
			router["type"] = "switch"
			router["operand"] = fw.Pick(r, []string{"@input.text", "@input.text", "@input", "@fields.age", "@contact.name", "@results.q1.value", "@(lower(input.text))", "@contact.groups", "@child.status", "@results.webhook.category", "@(1/0)", "@results.intent", g.tpl()})
			if r.Chance(0.85) {
				router["default_category_uuid"] = cats[r.Intn(ncat)]["uuid"]
			}
			nc := r.Range(0, 4)
			var cs []any
			for k := 0; k < nc; k++ {
				c := g.routerCase(cats, loc)
				cs = append(cs, c)
			}
			if cs == nil {
				cs = []any{}
			}
			router["cases"] = cs
		}
		// waits
		wantWait := r.Chance(0.5)
		if ftype == "messaging_background" {
			wantWait = false
		}
		if wantWait {
			w := M{"type": "msg"}
			if ftype == "voice" && r.Chance(0.3) {
				w = M{"type": "dial", "phone": fw.Pick(r, []string{"+12065551212", "@contact.urn", "bogus", "@fields.nick"})}
				if r.Chance(0.5) {
					w["dial_limit_seconds"] = 30
				}
			} else {
				if r.Chance(0.4) {
					w["timeout"] = M{"seconds": fw.Pick(r, []int{60, 600}), "category_uuid": cats[r.Intn(ncat)]["uuid"]}
				}
				if r.Chance(0.2) {
					w["hint"] = fw.Pick(r, []M{{"type": "image"}, {"type": "audio"}, {"type": "digits", "count": 1}, {"type": "location"}})
				}
			}
			router["wait"] = w
		}
		n["router"] = router
	}
	n["exits"] = exits
	return n
}

type testSpec struct {
	name string
	args []func(r *fw.Rand) string
}

func pickS(xs ...string) func(r *fw.Rand) string {
	return func(r *fw.Rand) string { return fw.Pick(r, xs) }
}

var caseTests = []testSpec{
	{"has_any_word", []func(*fw.Rand) string{pickS("yes yeah", "red blue", "no", "hi there", "@globals.org_name", "@(1/0)")}},
	{"has_all_words", []func(*fw.Rand) string{pickS("yes", "red blue", "hi there")}},
	{"has_phrase", []func(*fw.Rand) string{pickS("hi there", "red", "")}},
	{"has_only_phrase", []func(*fw.Rand) string{pickS("yes", "hi there", "RED")}},
	{"has_only_text", []func(*fw.Rand) string{pickS("yes", "Yes", "red")}},
	{"has_beginning", []func(*fw.Rand) string{pickS("hi", "y", "re")}},
	{"has_text", nil},
	{"has_pattern", []func(*fw.Rand) string{pickS(`\d+`, `^y`, `(`, `(?i)red`, `@fields.nick`)}},
	{"has_number", nil},
	{"has_number_between", []func(*fw.Rand) string{pickS("1", "10", "@fields.age", "x"), pickS("20", "5", "@globals.limit", "")}},
	{"has_number_lt", []func(*fw.Rand) string{pickS("18", "@globals.limit", "x")}},
	{"has_number_lte", []func(*fw.Rand) string{pickS("18", "23")}},
	{"has_number_eq", []func(*fw.Rand) string{pickS("23", "1", "@fields.age")}},
	{"has_number_gte", []func(*fw.Rand) string{pickS("18", "23")}},
	{"has_number_gt", []func(*fw.Rand) string{pickS("18", "0", "@(1/0)")}},
	{"has_date", nil},
	{"has_date_lt", []func(*fw.Rand) string{pickS("2020-01-01", "@fields.joined", "x")}},
	{"has_date_eq", []func(*fw.Rand) string{pickS("2020-01-01", "@(today())")}},
	{"has_date_gt", []func(*fw.Rand) string{pickS("2000-01-01", "@fields.joined")}},
	{"has_time", nil},
	{"has_phone", []func(*fw.Rand) string{pickS("US", "RW", "")}},
	{"has_email", nil},
	{"has_group", []func(*fw.Rand) string{pickS("@GROUP0", "@GROUP1", "d7ff4872-9238-452f-9d38-2f558fea89e0"), pickS("Testers", "Whatever")}},
	{"has_category", []func(*fw.Rand) string{pickS("Yes", "Red", "Success", "Other"), pickS("No", "Blue")}},
	{"has_intent", []func(*fw.Rand) string{pickS("book_flight", "book_hotel", "x"), pickS("0.4", "0.9", "x")}},
	{"has_top_intent", []func(*fw.Rand) string{pickS("book_flight", "book_hotel"), pickS("0.4", "0.9")}},
	{"has_state", nil},
	{"has_district", []func(*fw.Rand) string{pickS("Kigali City", "Kigali", "Nowhere", "@fields.state", "Capital")}},
	{"has_ward", []func(*fw.Rand) string{pickS("Gasabo", "Nyarugenge", "Central"), pickS("Kigali City", "Kigali", "Capital")}},
	{"has_error", nil},
	{"has_value", nil},
}

func (g *scenGen) routerCase(cats []M, loc M) M {
	r := g.r
	t := fw.Pick(r, caseTests)
	var args []string
	for _, a := range t.args {
		v := a(r)
		if strings.HasPrefix(v, "@GROUP") {
			if len(g.groups) > 0 {
				v = fw.Pick(r, g.groups)["uuid"].(string)
			} else {
				v = "d7ff4872-9238-452f-9d38-2f558fea89e0"
			}
		}
		args = append(args, v)
	}
	if r.Chance(0.05) && len(args) > 0 {
		args = args[:len(args)-1] // wrong arity → error at route time
	}
	c := M{"uuid": UUID4(r), "type": t.name, "category_uuid": fw.Pick(r, cats)["uuid"]}
	if args != nil {
		c["arguments"] = args
		g.translate(loc, c["uuid"].(string), "arguments", args, func() string { return fw.Pick(r, []string{"si", "oui", "rouge", "18", "2020-01-01", "hi there"}) })
	}
	return c
}

func (g *scenGen) allowed(ftype string, class string) bool {
	switch class {
	case "universal":
		return true
	case "interactive":
		return ftype != "messaging_background"
	case "online":
		return ftype != "messaging_offline"
	case "voice":
		return ftype == "voice"
	}
	return false
}

func (g *scenGen) groupRefs(n int, allowQuery bool) []any {
	r := g.r
	var out []any
	pool := g.static
	if allowQuery {
		pool = g.groups
	}
	for i := 0; i < n; i++ {
		switch {
		case r.Chance(0.1):
			out = append(out, M{"uuid": UUID4(r), "name": "Gone Group"}) // missing asset
		case r.Chance(0.1):
			out = append(out, M{"name_match": fw.Pick(r, []string{"Testers", "@contact.fields.nick", "@(\"Cust\" & \"omers\")", "Nope"})})
		case len(pool) > 0:
			out = append(out, g.aref(fw.Pick(r, pool)))
		}
	}
	if out == nil {
		out = []any{}
	}
	return out
}

func (g *scenGen) action(ftype string, flowIdx int, loc M) M {
	r := g.r
	type ad struct {
		name  string
		class string
		w     int
	}
	cw := 3
	if g.o.ContactChanges {
		cw = 12
	}
	lw := 4
	if g.o.LoopHeavy {
		lw = 14
	}
	defs := []ad{
		{"send_msg", "universal", 20}, {"set_run_result", "universal", 10}, {"set_contact_name", "universal", cw}, {"set_contact_language", "universal", cw},
		{"set_contact_field", "universal", cw + 2}, {"set_contact_status", "universal", cw}, {"set_contact_timezone", "universal", cw}, {"set_contact_channel", "online", cw},
		{"add_contact_groups", "universal", cw}, {"remove_contact_groups", "universal", cw}, {"add_contact_urn", "universal", cw}, {"add_input_labels", "interactive", 2},
		{"open_ticket", "online", cw}, {"enter_flow", "universal", lw}, {"call_webhook", "online", 4}, {"call_resthook", "online", 2}, {"call_classifier", "online", 2},
		{"transfer_airtime", "online", 2}, {"send_email", "online", 2}, {"send_broadcast", "online", 2}, {"start_session", "online", 2}, {"request_optin", "online", 1},
		{"say_msg", "voice", 8}, {"play_audio", "voice", 4},
	}
	var ws []int
	for _, d := range defs {
		if g.allowed(ftype, d.class) {
			ws = append(ws, d.w)
		} else {
			ws = append(ws, 0)
		}
	}
	d := defs[r.Weighted(ws)]
	u := UUID4(r)
	a := M{"uuid": u, "type": d.name}
	switch d.name {
	case "send_msg":
		text := g.tpl()
		if text == "" {
			text = "hi"
		}
		a["text"] = text
		g.translate(loc, u, "text", []string{text}, g.tpl)
		if r.Chance(0.3) {
			atts := []string{fw.Pick(r, []string{"image/jpeg:http://x.io/a.jpg", "audio/mp3:http://x.io/@(contact.name).mp3", "image:@fields.nick"})}
			if r.Chance(0.3) {
				atts = append(atts, "video/mp4:http://x.io/b.mp4")
			}
			if g.o.LongTexts && r.Chance(0.5) {
				atts = append(atts, "image/jpeg:http://x.io/"+LongString(fw.Pick(r, []int{2020, 2030, 2100}), 2000)+".jpg")
			}
			a["attachments"] = atts
			g.translate(loc, u, "attachments", atts, func() string { return "image/jpeg:http://x.io/tr.jpg" })
		}
		if r.Chance(0.3) {
			qrs := []string{"Yes", fw.Pick(r, []string{"No", "@contact.name", "", "@(1/0)"})}
			if g.o.LongTexts && r.Chance(0.5) {
				qrs = append(qrs, LongString(fw.Pick(r, []int{63, 64, 65, 100}), 63), ClusterString(r, fw.Pick(r, []int{63, 64, 65, 66})))
			}
			if r.Chance(0.3) {
				// the very template of the text again: whatever evaluating it logs (errors, warnings) is logged twice in a row
				qrs = append(qrs, text, text)
			}
			a["quick_replies"] = qrs
			g.translate(loc, u, "quick_replies", qrs, func() string { return fw.Pick(r, []string{"Si", "Non", "@contact.name"}) })
		}
		if r.Chance(0.15) {
			a["all_urns"] = true
		}
		if r.Chance(0.15) {
			a["template"] = g.aref(fw.Pick(r, g.tpls))
			tv := []string{g.tpl(), "@fields.age"}
			if r.Chance(0.6) {
				// 0-6 values: media, texts that contain a placeholder themselves, texts beyond the quick reply length
				vals := []func() string{g.tpl, func() string {
					return fw.Pick(r, []string{"image/jpeg:http://x.io/a.jpg", "@fields.age", "{{2}}", "{{1}} {{2}}", "@contact.name", "", "x", "video/mp4:http://x.io/v.mp4",
						LongString(fw.Pick(r, []int{63, 64, 65, 70, 640}), fw.Pick(r, []int{62, 63, 64})), ClusterString(r, fw.Pick(r, []int{63, 64, 65, 66}))})
				}}
				tv = tv[:0]
				for i := r.Range(0, 6); i > 0; i-- {
					tv = append(tv, fw.Pick(r, vals)())
				}
			}
			a["template_variables"] = tv
			g.translate(loc, u, "template_variables", tv, g.tpl)
		}
		if r.Chance(0.1) {
			a["topic"] = fw.Pick(r, []string{"event", "account", "purchase", "agent"})
		}
	case "set_run_result":
		a["name"] = g.resultName()
		a["value"] = g.tpl()
		if r.Chance(0.6) {
			cat := fw.Pick(r, []string{"Red", "Blue", "Yes", "Other"})
			a["category"] = cat
			g.translate(loc, u, "category", []string{cat}, func() string { return fw.Pick(r, []string{"Rouge", "Bleu"}) })
		}
	case "set_contact_name":
		a["name"] = fw.Pick(r, []string{"Bob", "@input.text", "@(upper(contact.name))", "", g.tpl(), "  Bob  ", "bob smith"})
	case "set_contact_language":
		a["language"] = fw.Pick(r, []string{"eng", "spa", "fra", "", "@input.text", "xx", "english", "@(1/0)"})
	case "set_contact_field":
		f := M{"key": "age", "name": "Age"}
		if len(g.fields) > 0 && r.Chance(0.9) {
			ff := fw.Pick(r, g.fields)
			f = M{"key": ff["key"], "name": ff["name"]}
		} else if r.Chance(0.5) {
			f = M{"key": "gone", "name": "Gone"}
		}
		a["field"] = f
		a["value"] = fw.Pick(r, []string{"", "23", "17", "male", "female", "bobby", "@input.text", "@(fields.age + 1)", "2018-05-05", "2017-12-02T10:00:00Z", "Kigali City", "Kigali", "Gasabo", "Gisozi", "Rwanda > Kigali City", "@(1/0)", g.tpl(), "  23  ", "23.0", "abc 23 def", "Capital", "Central", "Hill",
			"Rwanda > Kigali City > Gasabo", "Rwanda > Kigali City > Gasabo > Gisozi", "Rwanda", "Rwanda > Eastern Province > Gatsibo"})
	case "set_contact_status":
		a["status"] = fw.Pick(r, []string{"active", "blocked", "stopped", "archived"})
	case "set_contact_timezone":
		a["timezone"] = fw.Pick(r, []string{"Africa/Kigali", "America/Guayaquil", "", "Nowhere/Land", "@input.text", "UTC", "Asia/Kolkata"})
	case "set_contact_channel":
		if r.Chance(0.85) {
			a["channel"] = g.aref(g.chanOr(r.Intn(3)))
		} else {
			a["channel"] = nil
		}
	case "add_contact_groups":
		a["groups"] = g.groupRefs(r.Range(1, 3), r.Chance(0.1))
	case "remove_contact_groups":
		if r.Chance(0.25) {
			a["all_groups"] = true
			a["groups"] = []any{}
		} else {
			a["groups"] = g.groupRefs(r.Range(1, 3), r.Chance(0.1))
		}
	case "add_contact_urn":
		a["scheme"] = fw.Pick(r, []string{"tel", "tel", "twitter", "mailto", "facebook"})
		a["path"] = fw.Pick(r, []string{"+12065551212", "+12065559999", "@input.text", "bob", "foo@bar.com", "12065551212", "@(1/0)", "  +1 206 555 1212 ", "@fields.nick"})
	case "add_input_labels":
		a["labels"] = []any{g.aref(fw.Pick(r, g.labels))}
		if r.Chance(0.2) {
			a["labels"] = []any{M{"name_match": "@(\"Sp\" & \"am\")"}, M{"uuid": UUID4(r), "name": "Gone"}}
		}
	case "open_ticket":
		if r.Chance(0.7) {
			a["topic"] = g.aref(fw.Pick(r, g.topics))
		}
		a["body"] = g.tpl()
		if r.Chance(0.5) {
			us := fw.Pick(r, g.users)
			a["assignee"] = M{"email": us["email"], "name": us["name"]}
		}
		a["result_name"] = g.resultName()
	case "enter_flow":
		var fr M
		switch {
		case r.Chance(0.08):
			fr = M{"uuid": UUID4(r), "name": "Missing Flow"}
		case g.o.LoopHeavy && r.Chance(0.3):
			fr = g.flowRefs[flowIdx] // self entering
		default:
			fr = fw.Pick(r, g.flowRefs)
		}
		a["flow"] = fr
		if r.Chance(0.25) {
			a["terminal"] = true
		}
	case "call_webhook":
		a["method"] = fw.Pick(r, []string{"GET", "POST"})
		a["url"] = fw.Pick(r, []string{"http://localhost/?cmd=success", "http://localhost/?cmd=unavailable", "http://localhost/?cmd=badjson", "http://localhost/@(1/0)", "http://localhost/?x=@contact.name",
			// not a URL the engine will call: no scheme, no host, other scheme, longer than 2048 characters, white space
			"localhost/?cmd=success", "http://", "ftp://localhost/x", "mailto:bob@nyaruka.com", "http://localhost/?q=" + strings.Repeat("x", 2040), " ", "@contact.nope", "http://local host/",
			// bodies that are a bare JSON value rather than an object
			"http://localhost/?cmd=true", "http://localhost/?cmd=false", "http://localhost/?cmd=null", "http://localhost/?cmd=number", "http://localhost/?cmd=string", "http://localhost/?cmd=array", "http://localhost/?cmd=flags", "http://localhost/?cmd=empty", "http://localhost/?cmd=hugeexp", "http://localhost/?cmd=nested"})
		if r.Chance(0.5) {
			a["headers"] = M{"Accept": "application/json", "X-Name": "@contact.name", "X-Age": "@fields.age"}
		}
		if r.Chance(0.4) {
			a["body"] = fw.Pick(r, []string{"{\"name\": @(json(contact.name))}", "@(json(results))", "x"})
		}
		if r.Chance(0.8) {
			a["result_name"] = fw.Pick(r, []string{"webhook", g.resultName()})
		}
	case "call_resthook":
		a["resthook"] = fw.Pick(r, []string{"new-registration", "gone-hook"})
		if r.Chance(0.7) {
			a["result_name"] = g.resultName()
		}
	case "call_classifier":
		if r.Chance(0.9) {
			a["classifier"] = g.aref(g.classifiers[0])
		} else {
			a["classifier"] = M{"uuid": UUID4(r), "name": "Gone"}
		}
		a["input"] = fw.Pick(r, []string{"@input.text", "book a flight", "@(1/0)", "" + g.tpl()})
		if a["input"] == "" {
			a["input"] = "x"
		}
		a["result_name"] = fw.Pick(r, []string{"Intent", g.resultName()})
	case "transfer_airtime":
		a["amounts"] = fw.Pick(r, []M{{"RWF": 500, "USD": 0.5}, {"USD": 1}})
		a["result_name"] = g.resultName()
	case "send_email":
		a["addresses"] = []string{fw.Pick(r, []string{"bob@nyaruka.com", "@contact.urns.mailto", "@(1/0)", "  "})}
		a["subject"] = fw.Pick(r, []string{"Hi @contact.name", "Hi there", "Hi @(1/0)", "@contact.nope", " @(\"\") "})
		a["body"] = fw.Pick(r, []string{"Body " + g.tpl(), "Body " + g.tpl(), "@contact.nope", " @(\"\") ", g.tpl()})
		g.translate(loc, u, "subject", []string{"x"}, func() string { return "Sujet @contact.name" })
	case "send_broadcast":
		a["text"] = "B: " + g.tpl()
		g.translate(loc, u, "text", []string{"x"}, g.tpl)
		a["groups"] = g.groupRefs(r.Range(0, 2), true)
		if r.Chance(0.4) {
			a["contact_query"] = fw.Pick(r, []string{"name = @input.text", "age > @fields.age", "gender = \"@contact.fields.gender\"", "name = @contact.name OR tel = @urns.tel"})
		}
		g.recipients(a)
	case "start_session":
		a["flow"] = fw.Pick(r, g.flowRefs)
		if r.Chance(0.5) {
			a["groups"] = g.groupRefs(r.Range(0, 2), true)
		}
		if r.Chance(0.4) {
			a["contact_query"] = fw.Pick(r, []string{"name = @input.text", "age > @fields.age", "name = @contact.name"})
		}
		if r.Chance(0.3) {
			a["create_contact"] = true
		}
		g.recipients(a)
		a["exclusions"] = M{}
		if r.Chance(0.3) {
			a["exclusions"] = M{"in_a_flow": true}
		}
	case "request_optin":
		a["optin"] = g.aref(g.optins[0])
	case "say_msg":
		a["text"] = g.tpl()
		if a["text"] == "" {
			a["text"] = "hello"
		}
		g.translate(loc, u, "text", []string{"x"}, g.tpl)
		if r.Chance(0.3) {
			a["audio_url"] = "http://x.io/a.mp3"
		}
	case "play_audio":
		a["audio_url"] = fw.Pick(r, []string{"http://x.io/a.mp3", "@fields.nick", "http://x.io/@(contact.name).mp3"})
		g.translate(loc, u, "audio_url", []string{"x"}, func() string { return "http://x.io/tr.mp3" })
	}
	return a
}

// ---------------------------------------------------------------------------------------
// contact, trigger, resumes

func (g *scenGen) urnList() []string {
	r := g.r
	pool := []string{"tel:+12065551212", "tel:+250788123123", "twitterid:54784326227#nyaruka", "mailto:foo@bar.com", "facebook:1122334455", "twitter:bobby", "tel:+12065551212?channel=" + g.chanOr(0)["uuid"].(string), "tel:+12065553434?id=3&priority=10"}
	n := r.Range(0, 4)
	var out []string
	seen := map[string]bool{}
	for i := 0; i < n; i++ {
		u := fw.Pick(r, pool)
		key := strings.Split(u, "?")[0]
		if !seen[key] {
			seen[key] = true
			out = append(out, u)
		}
	}
	return out
}

// Contact builds a contact JSON object.
func (g *scenGen) contact() M {
	r := g.r
	c := M{"uuid": UUID4(r), "id": r.Range(1, 99999), "created_on": fw.Pick(r, []string{"2018-06-20T11:40:30.123456789Z", "2017-12-31T23:59:59.999999Z", "2018-01-01T00:00:00Z", "2010-01-01T05:00:00+02:00"})}
	if r.Chance(0.8) {
		c["name"] = fw.Pick(r, []string{"Ryan Lewis", "Bob", "bob smith", "日本語 😀", LongString(20, 10),
			// names whose words agree with a queried word in the first bytes but not in the first characters, or in the first 8
			// characters only (name ~ matches on the first 8 characters of each word)
			"Александр Иванов", "Алексей Иваненко", "عبدالله", "Bob Smithsonian", "Élodie Durand Smith", "Bobby Longnamehere"})
	}
	if r.Chance(0.7) {
		c["language"] = fw.Pick(r, []string{"eng", "spa", "fra", "kin", "zzz"})
	}
	if r.Chance(0.5) {
		c["timezone"] = fw.Pick(r, []string{"America/Guayaquil", "Africa/Kigali", "Asia/Kolkata", "Pacific/Kiritimati"})
	}
	st := fw.Pick(r, []string{"active", "active", "active", "active", "active", "blocked", "stopped", "archived"})
	if r.Chance(0.7) {
		c["status"] = st
	}
	if r.Chance(0.5) {
		c["last_seen_on"] = fw.Pick(r, []string{"2018-06-21T10:00:00Z", "2017-12-31T22:00:00-03:00", "2018-01-01T00:00:00.000001Z"})
	}
	if u := g.urnList(); len(u) > 0 {
		c["urns"] = u
	}
	// stored group membership: right, wrong or empty
	var gs []any
	for _, gr := range g.groups {
		if r.Chance(0.4) {
			gs = append(gs, ref(gr))
		}
	}
	if r.Chance(0.05) {
		gs = append(gs, M{"uuid": UUID4(r), "name": "Gone"})
	}
	if gs != nil {
		c["groups"] = gs
	}
	fields := M{}
	for _, f := range g.fields {
		if !r.Chance(0.55) {
			continue
		}
		switch f["type"] {
		case "text":
			fields[f["key"].(string)] = M{"text": fw.Pick(r, []string{"male", "female", "bobby", "Male", "x"})}
		case "number":
			n := fw.Pick(r, []string{"23", "18", "17.999", "0", "-5", "18.0"})
			fields[f["key"].(string)] = M{"text": n, "number": json.Number(n)}
		case "datetime":
			d := fw.Pick(r, []string{"2017-12-02T00:00:00-02:00", "2018-01-01T00:00:00Z", "2017-12-31T23:59:59.999999-05:00", "2018-01-02T04:30:00+05:30"})
			fields[f["key"].(string)] = M{"text": d, "datetime": d}
		// a location value holds the location of the field's own level and, when it was given as a path, deeper or shallower ones
		case "state":
			fields[f["key"].(string)] = fw.Pick(r, []M{{"text": "Kigali", "state": "Rwanda > Kigali City"}, {"text": "Rwanda > Kigali City > Gasabo", "state": "Rwanda > Kigali City", "district": "Rwanda > Kigali City > Gasabo"},
				{"text": "Eastern Province", "state": "Rwanda > Eastern Province"}, {"text": "nowhere"}})
		case "district":
			fields[f["key"].(string)] = fw.Pick(r, []M{{"text": "Gasabo", "district": "Rwanda > Kigali City > Gasabo"}, {"text": "Rwanda > Kigali City", "state": "Rwanda > Kigali City"},
				{"text": "Gisozi", "state": "Rwanda > Kigali City", "district": "Rwanda > Kigali City > Gasabo", "ward": "Rwanda > Kigali City > Gasabo > Gisozi"}})
		case "ward":
			fields[f["key"].(string)] = fw.Pick(r, []M{{"text": "Gisozi", "ward": "Rwanda > Kigali City > Gasabo > Gisozi"}, {"text": "Rwanda > Kigali City", "state": "Rwanda > Kigali City"},
				{"text": "Gisozi", "state": "Rwanda > Kigali City", "district": "Rwanda > Kigali City > Gasabo", "ward": "Rwanda > Kigali City > Gasabo > Gisozi"}})
		}
	}
	if len(fields) > 0 {
		c["fields"] = fields
	}
	if r.Chance(0.25) {
		t := M{"uuid": UUID4(r)}
		if r.Chance(0.8) {
			t["topic"] = ref(fw.Pick(r, g.topics))
		} else {
			t["topic"] = nil
		}
		if r.Chance(0.4) {
			us := fw.Pick(r, g.users)
			t["assignee"] = M{"email": us["email"], "name": us["name"]}
		}
		c["ticket"] = t
	}
	return c
}

func (g *scenGen) env() M {
	r := g.r
	e := M{
		"date_format": fw.Pick(r, []string{"YYYY-MM-DD", "MM-DD-YYYY", "DD-MM-YYYY"}),
		"time_format": fw.Pick(r, []string{"tt:mm", "h:mm aa", "tt:mm:ss", "h:mm:ss aa"}),
		"timezone":    fw.Pick(r, []string{"UTC", "America/Guayaquil", "Africa/Kigali", "Asia/Kolkata", "America/New_York"}),
	}
	switch r.Intn(4) {
	case 0:
	case 1:
		e["allowed_languages"] = []string{g.baseLang}
	default:
		al := []string{}
		for _, l := range langCodes {
			if r.Chance(0.5) {
				al = append(al, l)
			}
		}
		fw.Shuffle(r, al)
		e["allowed_languages"] = al
	}
	if r.Chance(0.6) {
		e["default_country"] = fw.Pick(r, []string{"US", "RW"})
	}
	pol := g.o.URNPolicy
	if pol == "" && r.Chance(0.2) {
		pol = "urns"
	}
	if pol != "" {
		e["redaction_policy"] = pol
	}
	if r.Chance(0.15) {
		e["number_format"] = fw.Pick(r, []M{{"decimal_symbol": ",", "digit_grouping_symbol": "."}, {"decimal_symbol": ",", "digit_grouping_symbol": " "}, {"decimal_symbol": ".", "digit_grouping_symbol": " "}, {"decimal_symbol": ",", "digit_grouping_symbol": "."}})
	}
	if r.Chance(0.2) {
		e["input_collation"] = fw.Pick(r, []string{"default", "confusables", "arabic_variants"})
	}
	return e
}

var msgTexts = []string{"hi there", "yes", "no", "red", "23", "17", "I am 23 years old", "2020-01-01", "tomorrow at 10:30", "+12065551212", "foo@bar.com", "Kigali", "book a flight", "", "YES please", "blue red", "  yes  ", "日本語", "😀", "1.234,50", "1 234,50", "1,234.50", "I have 1.234,5 cows", "Capital", "Central", "Hill", "capital", "Kigali"}

func (g *scenGen) msg(urnsOfContact []string) M {
	r := g.r
	text := fw.Pick(r, msgTexts)
	if g.o.LongTexts && r.Chance(0.3) {
		text = LongString(fw.Pick(r, []int{640, 641, 1000, 10001}), fw.Pick(r, []int{639, 640, 9999}))
		if r.Chance(0.35) {
			// input whose code points come in clusters: whatever is cut from it (result value / input, field value) is cut inside one
			text = ClusterString(r, fw.Pick(r, []int{1, 2, 3, 4, 6, 10, 640, 641, 645, 3000}))
		}
	} else if r.Chance(0.1) {
		text = AnyString(r)
	}
	m := M{"uuid": UUID4(r), "text": text}
	if len(urnsOfContact) > 0 && r.Chance(0.8) {
		m["urn"] = strings.Split(fw.Pick(r, urnsOfContact), "?")[0]
	} else if r.Chance(0.5) {
		m["urn"] = "tel:+12065557777"
	}
	if r.Chance(0.6) {
		m["channel"] = ref(g.chanOr(r.Intn(3)))
	}
	if r.Chance(0.25) {
		m["attachments"] = []string{fw.Pick(r, []string{"image/jpeg:http://s3.amazon.com/bucket/test.jpg", "audio/mp3:http://s3.amazon.com/bucket/test.mp3", "geo:1.2,3.4"})}
	}
	return m
}

func (g *scenGen) trigger() {
	r := g.r
	c := g.contact()
	var urnsOf []string
	if u, ok := c["urns"].([]string); ok {
		urnsOf = u
	}
	t := M{"flow": g.flowRefs[0], "contact": c, "triggered_on": fw.Pick(r, []string{"2018-07-01T10:00:00.123456789Z", "2018-01-01T00:00:00Z", "2020-02-29T23:59:59.999999999+02:00"})}
	kind := r.Weighted([]int{40, 35, 15, 10})
	switch kind {
	case 0:
		t["type"] = "manual"
		if r.Chance(0.3) {
			us := fw.Pick(r, g.users)
			t["user"] = M{"email": us["email"], "name": us["name"]}
		}
		if r.Chance(0.3) {
			t["origin"] = fw.Pick(r, []string{"ui", "api"})
		}
	case 1:
		t["type"] = "msg"
		t["msg"] = g.msg(urnsOf)
		if r.Chance(0.4) {
			t["keyword_match"] = M{"type": fw.Pick(r, []string{"first_word", "only_word"}), "keyword": "start"}
		}
	case 2:
		t["type"] = "flow_action"
		pc := g.contact()
		t["run_summary"] = M{
			"uuid": UUID4(r), "flow": M{"uuid": fw.Pick(r, g.flowRefs)["uuid"], "name": "Parent"}, "contact": pc, "status": "active",
			"results": M{"role": M{"name": "Role", "value": "reporter", "category": "Reporter", "node_uuid": UUID4(r), "input": "a reporter", "created_on": "2000-01-01T00:00:00Z"}},
		}
		if r.Chance(0.5) {
			// how deep this session is in a chain of sessions starting sessions: both sides of the limit start_session enforces
			anc := fw.Pick(r, []int{1, 2, 3, 4, 5, 6, 50})
			t["history"] = M{"parent_uuid": UUID4(r), "ancestors": anc, "ancestors_since_input": fw.Pick(r, []int{0, 1, 2, 4, 5, 6, anc})}
		}
	default:
		t["type"] = fw.Pick(r, []string{"campaign", "channel", "ticket", "optin"})
		switch t["type"] {
		case "campaign":
			t["event"] = M{"uuid": UUID4(r), "campaign": M{"uuid": UUID4(r), "name": "Reminders"}}
		case "channel":
			t["event"] = M{"type": fw.Pick(r, []string{"new_conversation", "referral"}), "channel": ref(g.chanOr(0))}
		case "ticket":
			t["event"] = M{"type": "closed", "ticket": M{"uuid": UUID4(r), "topic": ref(g.topics[0])}}
		case "optin":
			t["event"] = M{"type": "started", "optin": ref(g.optins[0])}
		}
	}
	// every trigger type can carry what the base trigger carries: the session-chain history, a user, an origin
	if _, has := t["history"]; !has && r.Chance(0.2) {
		anc := fw.Pick(r, []int{1, 2, 3, 4, 5, 6, 50})
		t["history"] = M{"parent_uuid": UUID4(r), "ancestors": anc, "ancestors_since_input": fw.Pick(r, []int{0, 1, 2, 4, 5, 6, anc})}
	}
	if t["type"] == "manual" && r.Chance(0.2) {
		t["user"] = M{"email": "bob@nyaruka.com", "name": "Bob"}
		t["origin"] = fw.Pick(r, []string{"ui", "api"})
	}
	if r.Chance(0.75) {
		t["environment"] = g.env()
	}
	if r.Chance(0.4) {
		t["params"] = fw.Pick(r, []M{{"source": "website", "address": M{"state": "WA"}}, {"n": 1}, {}, {"vip": true, "blocked": false, "ref": nil}, {"flags": []any{true, false}, "vip": false}})
	}
	if g.o.Batch && r.Chance(0.3) {
		t["batch"] = true
	}
	if g.ftype == "voice" && r.Chance(0.8) {
		t["call"] = M{"uuid": UUID4(r), "channel": ref(g.chanOr(0)), "urn": "tel:+12065551212"}
	}
	g.s.Trigger = t
}

func (g *scenGen) resumes() {
	r := g.r
	n := r.Range(0, g.o.MaxResumes)
	c := g.s.Trigger["contact"].(M)
	var urnsOf []string
	if u, ok := c["urns"].([]string); ok {
		urnsOf = u
	}
	for i := 0; i < n; i++ {
		res := M{"resumed_on": time.Date(2018, 7, 2+i, r.Intn(24), r.Intn(60), 0, 500000000, time.UTC).Format("2006-01-02T15:04:05.0Z")}
		weights := []int{70, 12, 10, 8}
		if g.ftype == "voice" {
			weights = []int{50, 10, 10, 30}
		}
		switch r.Weighted(weights) {
		case 0:
			res["type"] = "msg"
			res["msg"] = g.msg(urnsOf)
		case 1:
			res["type"] = "wait_timeout"
		case 2:
			res["type"] = "run_expiration"
		default:
			res["type"] = "dial"
			res["dial"] = M{"status": fw.Pick(r, []string{"answered", "no_answer", "busy", "failed"}), "duration": r.Intn(100)}
		}
		pc, pe := 0.12, 0.1
		if g.o.RefreshP > 0 {
			pc, pe = g.o.RefreshP, g.o.RefreshP
		}
		if r.Chance(pc) {
			res["contact"] = g.contactRefresh(c)
		}
		if r.Chance(pe) {
			res["environment"] = g.env()
		}
		g.s.Resumes = append(g.s.Resumes, res)
	}
}

// contactRefresh builds a refreshed contact (same UUID, different attributes).
func (g *scenGen) contactRefresh(orig M) M {
	r := g.r
	if r.Chance(0.35) {
		// the session's contact as it is at that moment (resolved by the driver) with exactly one attribute changed
		return M{"__session_contact__": fw.Pick(r, []string{"identical", "ticket-assignee", "ticket-unassign", "ticket-topic", "ticket-close", "name", "language", "last-seen", "urn-display", "urn-reorder", "field-text", "timezone", "id"})}
	}
	if r.Chance(0.5) {
		// a minimal refresh: the contact as it was given in the trigger with exactly ONE attribute changed (a refresh that
		// differs from the session contact in a single, easily overlooked attribute must still be announced)
		b, _ := json.Marshal(orig)
		var c M
		json.Unmarshal(b, &c)
		switch r.Intn(12) {
		case 0:
			c["name"] = fmt.Sprint(c["name"]) + " Jr"
		case 1:
			c["language"] = Pick2(r, []string{"eng", "spa", "fra"}, fmt.Sprint(c["language"]))
		case 2:
			c["timezone"] = Pick2(r, []string{"Africa/Kigali", "Asia/Kolkata", "America/Guayaquil"}, fmt.Sprint(c["timezone"]))
		case 3:
			c["status"] = Pick2(r, []string{"active", "blocked", "stopped", "archived"}, fmt.Sprint(c["status"]))
		case 4:
			f, _ := c["fields"].(map[string]any)
			if f == nil {
				f = map[string]any{}
			}
			f["nick"] = map[string]any{"text": "refreshed"}
			c["fields"] = f
		case 5:
			if f, ok := c["fields"].(map[string]any); ok {
				// drop one field value; which one is decided by r over the sorted keys (a scenario is a pure function of its case)
				keys := make([]string, 0, len(f))
				for k := range f {
					keys = append(keys, k)
				}
				sort.Strings(keys)
				if len(keys) > 0 {
					delete(f, keys[r.Intn(len(keys))])
				}
			}
		case 6:
			us, _ := c["urns"].([]any)
			c["urns"] = append(us, "tel:+12065550101")
		case 7:
			if us, ok := c["urns"].([]any); ok && len(us) > 1 {
				us[0], us[len(us)-1] = us[len(us)-1], us[0]
			} else if len(us) == 1 {
				c["urns"] = []any{fmt.Sprint(us[0]) + "#Display"}
			}
		case 8:
			// ticket: same UUID, another assignee / topic; or closed; or newly opened
			if t, ok := c["ticket"].(map[string]any); ok {
				switch r.Intn(3) {
				case 0:
					t["assignee"] = map[string]any{"email": "jim@nyaruka.com", "name": "Jim"}
					if a, ok := t["assignee"].(map[string]any); ok && orig["ticket"] != nil {
						if oa, ok := orig["ticket"].(M)["assignee"].(M); ok && oa["email"] == a["email"] {
							delete(t, "assignee")
						}
					}
				case 1:
					t["topic"] = ref(g.topics[1])
					if ot, ok := orig["ticket"].(M)["topic"].(M); ok && ot["uuid"] == g.topics[1]["uuid"] {
						t["topic"] = ref(g.topics[0])
					}
				default:
					delete(c, "ticket")
				}
			} else {
				c["ticket"] = map[string]any{"uuid": UUID4(r), "topic": ref(g.topics[0])}
			}
		case 9:
			c["last_seen_on"] = "2018-06-22T09:00:00Z"
		case 10:
			gs, _ := c["groups"].([]any)
			if len(gs) > 0 {
				c["groups"] = gs[1:]
			} else if len(g.static) > 0 {
				c["groups"] = []any{ref(g.static[0])}
			}
		default:
			c["id"] = r.Range(100000, 200000)
		}
		return c
	}
	c := g.contact()
	c["uuid"] = orig["uuid"]
	c["id"] = orig["id"]
	c["created_on"] = orig["created_on"]
	return c
}

// Pick2 picks an element of xs different from not.
func Pick2(r *fw.Rand, xs []string, not string) string {
	for i := 0; i < 8; i++ {
		if x := fw.Pick(r, xs); x != not {
			return x
		}
	}
	return xs[0]
}

func (g *scenGen) options() {
	r := g.r
	if g.o.History && !g.o.SmallOptions {
		// engine defaults except for a resume limit that the scenario's resumes can reach
		g.s.Options = Options{Set: true, MaxSteps: 100, MaxResumes: fw.Pick(r, []int{8, 20, 40, 500}), MaxTemplateChars: 10000, MaxFieldChars: 640, MaxResultChars: 640}
		return
	}
	if !g.o.SmallOptions || r.Chance(0.2) {
		return
	}
	g.s.Options = Options{
		Set:              true,
		MaxSteps:         fw.Pick(r, []int{0, 1, 2, 3, 5, 10, 100}),
		MaxResumes:       fw.Pick(r, []int{0, 1, 2, 5, 500}),
		MaxTemplateChars: fw.Pick(r, []int{0, 1, 2, 3, 4, 10, 100, 10000}),
		MaxFieldChars:    fw.Pick(r, []int{0, 1, 2, 5, 640}),
		MaxResultChars:   fw.Pick(r, []int{0, 1, 2, 5, 640}),
	}
}

// recipients fills the fixed and evaluated recipient lists of send_broadcast / start_session: lists of every small
// length (the engine appends the evaluated recipients to copies of the fixed lists).
func (g *scenGen) recipients(a M) {
	r := g.r
	if r.Chance(0.4) {
		n := r.Weighted([]int{0, 4, 2, 3, 1, 2, 1, 1})
		urns := make([]string, n)
		for i := range urns {
			urns[i] = fmt.Sprintf("tel:+1206555%04d", i)
		}
		a["urns"] = urns
	}
	if r.Chance(0.4) {
		n := r.Weighted([]int{0, 4, 2, 3, 1, 2, 1, 1})
		cs := make([]M, n)
		for i := range cs {
			cs[i] = M{"uuid": UUID4(r), "name": fmt.Sprintf("Eve %d", i)}
		}
		a["contacts"] = cs
	}
	if r.Chance(0.4) {
		n := r.Weighted([]int{0, 5, 3, 1})
		vars := make([]string, n)
		for i := range vars {
			vars[i] = fw.Pick(r, []string{"@contact.uuid", "Testers", "@input.text", "+12065551111", "@contact.urns.tel", "@(\"tel:+1\" & text(contact.id + 2065550000))", "@contact.name", "@fields.age"})
		}
		a["legacy_vars"] = vars
	}
}
