package gen

import (
	"fmt"
	"time"

	"verif/internal/fw"
)

// LoopScen builds one scenario of the "long history" family: a flow that comes back to the same wait again and again
// (a retry loop, a menu, a survey that repeats), driven by many resumes. What varies: the kind of wait (message with or
// without timeout, dial), the work done per round (messages that read the run's history, results that are overwritten,
// contact changes, a child flow with or without a wait of its own), whether and when the loop is left, and the engine's
// resume limit relative to the number of resumes. Sizes are chosen so that paths pass 100 and 250 steps, waits pass the
// resume limit, and results / events accumulate — the things a persisted session has to carry in full.
func LoopScen(r *fw.Rand) *Scenario {
	d := D{}
	voice := r.Chance(0.3)
	ftype := "messaging"
	if voice {
		ftype = "voice"
	}
	dial := voice && r.Chance(0.6)
	withChild := r.Chance(0.3)
	childWaits := withChild && r.Chance(0.5)

	tpl := func() string {
		if r.Chance(0.6) {
			return fw.Pick(r, historyTemplates)
		}
		return fw.Pick(r, safeTemplates)
	}
	say := func(name string) M {
		if voice {
			return d.Action(name, "say_msg", M{"text": "Round " + tpl()})
		}
		return d.SendMsg(name, "Round "+tpl())
	}

	// body nodes b0..b(k-1), each leading to the next, the last one back to the wait (or to the leave-check)
	k := r.Range(1, 5)
	var nodes []M
	backTo := "wait"
	leaveAfter := fw.Pick(r, []int{0, 0, 5, 30, 101, 150})
	if leaveAfter > 0 {
		backTo = "check"
	}
	for i := 0; i < k; i++ {
		name := fmt.Sprintf("b%d", i)
		next := fmt.Sprintf("b%d", i+1)
		if i == k-1 {
			next = backTo
		}
		var acts []any
		for j := 0; j < r.Range(0, 2); j++ {
			an := fmt.Sprintf("%s:a%d", name, j)
			switch r.Intn(7) {
			case 0, 1:
				acts = append(acts, say(an))
			case 2:
				acts = append(acts, d.Action(an, "set_run_result", M{"name": fw.Pick(r, []string{"Color", "Attempt", "Last Answer"}), "value": fw.Pick(r, []string{"@input.text", "@node.visit_count", "red", "@(count(run.path))"}), "category": fw.Pick(r, []string{"Red", "", "Other"})}))
			case 3:
				acts = append(acts, d.Action(an, "set_contact_field", M{"field": M{"key": fw.Pick(r, []string{"nick", "age", "gender"}), "name": "F"}, "value": fw.Pick(r, []string{"@input.text", "@node.visit_count", "@(fields.age + 1)", ""})}))
			case 4:
				acts = append(acts, d.Action(an, fw.Pick(r, []string{"add_contact_groups", "remove_contact_groups"}), M{"groups": []M{{"uuid": NamedUUID("group:customers"), "name": "Customers"}}}))
			case 5:
				acts = append(acts, d.Action(an, "set_contact_name", M{"name": fw.Pick(r, []string{"Bob @node.visit_count", "@input.text", "Bob Smith"})}))
			case 6:
				if !voice {
					acts = append(acts, d.Action(an, "add_input_labels", M{"labels": []M{{"uuid": NamedUUID("label:spam"), "name": "Spam"}}}))
				} else {
					acts = append(acts, say(an))
				}
			}
		}
		if withChild && i == 0 {
			acts = append(acts, d.Enter(name+":enter", "Child", false))
			cats := []M{d.Cat("Complete", name+":done"), d.Cat("Expired", name+":exp")}
			nodes = append(nodes, d.Node(name, acts, d.Switch("@child.status", cats, cats[1], []M{{"type": "has_only_text", "arguments": []string{"completed"}, "category_uuid": cats[0]["uuid"]}}, nil, ""),
				d.Exit(name+":done", next), d.Exit(name+":exp", next)))
			continue
		}
		if acts == nil {
			acts = []any{}
		}
		nodes = append(nodes, d.Node(name, acts, nil, d.Exit(name+":x", next)))
	}

	// the wait
	var wait M
	if dial {
		dc := d.Cat("Any", "wait:any")
		wait = d.Node("wait", []any{say("wait:say")}, d.Switch("@resume.dial.status", []M{dc}, dc, nil, M{"type": "dial", "phone": fw.Pick(r, []string{"+12065551212", "@contact.urn"})}, fw.Pick(r, []string{"Dial", ""})), d.Exit("wait:any", "b0"))
	} else {
		var to *string
		if r.Chance(0.4) {
			s := fw.Pick(r, []string{"b0", "wait"})
			to = &s
		}
		wait = d.WaitNode("wait", "b0", to)
		if r.Chance(0.3) {
			delete(wait["router"].(M), "result_name")
		}
	}
	all := append([]M{wait}, nodes...)
	if leaveAfter > 0 {
		stay, leave := d.Cat("Stay", "check:stay"), d.Cat("Leave", "check:leave")
		all = append(all, d.Node("check", nil, d.Switch("@node.visit_count", []M{leave, stay}, stay, []M{{"type": "has_number_gte", "arguments": []string{fmt.Sprint(leaveAfter)}, "category_uuid": leave["uuid"]}}, nil, ""),
			d.Exit("check:stay", "wait"), d.Exit("check:leave", "bye")), d.Node("bye", []any{say("bye:say")}, nil, d.Exit("bye:x", "")))
	}
	flows := []M{d.Flow("Loop", ftype, all...)}
	if withChild {
		if childWaits && r.Chance(0.4) {
			// a menu that enters itself after every answer: runs of one flow stacked on each other under a run of another flow
			// (the loop flow); an answer of "no" — or an expiration — unwinds them
			leave, again := d.Cat("Leave", "c1:leave"), d.Cat("Again", "c1:again")
			wnode := d.Node("c1", nil, d.Switch("@input.text", []M{leave, again}, again, []M{{"type": "has_any_word", "arguments": []string{"no wrong"}, "category_uuid": leave["uuid"]}}, M{"type": "msg"}, "Menu"),
				d.Exit("c1:leave", ""), d.Exit("c1:again", "c2"))
			flows = append(flows, d.Flow("Child", ftype, d.Node("c0", []any{say("c0:say")}, nil, d.Exit("c0:x", "c1")), wnode,
				d.Node("c2", []any{d.Enter("c2:enter", "Child", r.Chance(0.2))}, nil, d.Exit("c2:x", fw.Pick(r, []string{"", "c1"})))))
		} else if childWaits {
			flows = append(flows, d.Flow("Child", ftype, d.Node("c0", []any{say("c0:say")}, nil, d.Exit("c0:x", "c1")), d.WaitNode("c1", "", nil)))
		} else {
			flows = append(flows, d.Flow("Child", ftype, d.Node("c0", []any{say("c0:say"), d.Action("c0:r", "set_run_result", M{"name": "Child Round", "value": "@parent.results", "category": "X"})}, nil, d.Exit("c0:x", ""))))
		}
	}

	// resumes: mostly the type the wait accepts, with a few that it rejects
	n := []int{5, 15, 40, 70, 120}[r.Weighted([]int{3, 3, 3, 2, 1})]
	var rs []M
	for i := 0; i < n; i++ {
		on := time.Date(2018, 7, 2, 10, 0, 0, 500000000, time.UTC).Add(time.Duration(i) * 7 * time.Hour).Format("2006-01-02T15:04:05.0Z")
		var res M
		kind := r.Weighted([]int{80, 8, 6, 6})
		if dial && kind == 0 {
			kind = 3
		} else if !dial && kind == 3 {
			kind = 0
		}
		switch kind {
		case 0:
			res = d.MsgResume(i, fw.Pick(r, []string{"yes", "no", "wrong", "23", "Bob", "", "a longer answer than the others"}))
			res["msg"].(M)["uuid"] = NamedUUID(fmt.Sprint("msg:loop:", i))
		case 1:
			res = M{"type": "wait_timeout"}
		case 2:
			res = M{"type": "run_expiration"}
		default:
			res = M{"type": "dial", "dial": M{"status": fw.Pick(r, []string{"answered", "no_answer", "busy", "failed"}), "duration": r.Intn(100)}}
		}
		res["resumed_on"] = on
		rs = append(rs, res)
	}
	t := d.Manual("Loop", nil)
	if voice {
		t["call"] = M{"uuid": NamedUUID("call"), "channel": M{"uuid": NamedUUID("chan:android"), "name": "Android"}, "urn": "tel:+12065551212"}
	}
	s := &Scenario{Assets: d.BaseAssets(flows...), Trigger: t, Resumes: rs, Notes: []string{"loop-family"}}
	if r.Chance(0.6) {
		s.Options = Options{Set: true, MaxSteps: 100, MaxResumes: fw.Pick(r, []int{n - 1, n, n + 1, 10, n / 2, 500}), MaxTemplateChars: 10000, MaxFieldChars: 640, MaxResultChars: 640}
		if s.Options.MaxResumes < 1 {
			s.Options.MaxResumes = 1
		}
	}
	return s
}
