package gen

import (
	"fmt"

	"verif/internal/fw"
)

// NamedUUID derives a stable v4-shaped UUID from a name (directed corpus).
func NamedUUID(name string) string {
	r := fw.NewRand(7, "named:"+name, 0)
	return UUID4(r)
}

// D is a tiny DSL for hand-built scenarios.
type D struct{}

func (D) Exit(name, dest string) M {
	e := M{"uuid": NamedUUID("exit:" + name)}
	if dest != "" {
		e["destination_uuid"] = NamedUUID("node:" + dest)
	}
	return e
}

func (D) Node(name string, actions []any, router M, exits ...M) M {
	n := M{"uuid": NamedUUID("node:" + name)}
	if actions != nil {
		n["actions"] = actions
	}
	if router != nil {
		n["router"] = router
	}
	var ex []any
	for _, e := range exits {
		ex = append(ex, e)
	}
	n["exits"] = ex
	return n
}

func (D) Action(name, typ string, kv M) M {
	a := M{"uuid": NamedUUID("action:" + name), "type": typ}
	for k, v := range kv {
		a[k] = v
	}
	return a
}

func (d D) Enter(name, flow string, terminal bool) M {
	a := d.Action(name, "enter_flow", M{"flow": M{"uuid": NamedUUID("flow:" + flow), "name": flow}})
	if terminal {
		a["terminal"] = true
	}
	return a
}

func (d D) SendMsg(name, text string) M { return d.Action(name, "send_msg", M{"text": text}) }

// Cat builds a category bound to an exit name.
func (D) Cat(name, exit string) M {
	return M{"uuid": NamedUUID("cat:" + name + ":" + exit), "name": name, "exit_uuid": NamedUUID("exit:" + exit)}
}

// Switch builds a switch router. cases: each M{"type", "arguments", "category_uuid"} gets a uuid.
func (D) Switch(operand string, cats []M, defaultCat M, cases []M, wait M, resultName string) M {
	var cj []any
	for _, c := range cats {
		cj = append(cj, c)
	}
	cs := []any{}
	for i, c := range cases {
		if _, ok := c["uuid"]; !ok {
			c["uuid"] = NamedUUID(fmt.Sprintf("case:%s:%d:%v", operand, i, c["category_uuid"]))
		}
		cs = append(cs, c)
	}
	r := M{"type": "switch", "operand": operand, "categories": cj, "cases": cs}
	if defaultCat != nil {
		r["default_category_uuid"] = defaultCat["uuid"]
	}
	if wait != nil {
		r["wait"] = wait
	}
	if resultName != "" {
		r["result_name"] = resultName
	}
	return r
}

// WaitNode: a node that waits for a message and continues to dest through one "All" category.
func (d D) WaitNode(name, dest string, timeoutDest *string) M {
	all := d.Cat("All Responses", name+":all")
	cats := []M{all}
	exits := []M{d.Exit(name+":all", dest)}
	wait := M{"type": "msg"}
	if timeoutDest != nil {
		to := d.Cat("No Response", name+":timeout")
		cats = append(cats, to)
		exits = append(exits, d.Exit(name+":timeout", *timeoutDest))
		wait["timeout"] = M{"seconds": 60, "category_uuid": to["uuid"]}
	}
	return d.Node(name, nil, d.Switch("@input.text", cats, all, nil, wait, "Response "+name), exits...)
}

func (D) Flow(name, ftype string, nodes ...M) M {
	var nj []any
	for _, n := range nodes {
		nj = append(nj, n)
	}
	if nj == nil {
		nj = []any{}
	}
	return M{"uuid": NamedUUID("flow:" + name), "name": name, "spec_version": "13.6.1", "language": "eng", "type": ftype, "nodes": nj, "localization": M{}}
}

// BaseAssets: a small fixed asset set for directed scenarios (flows are added by the caller).
func (D) BaseAssets(flows ...M) M {
	var fj []any
	for _, f := range flows {
		fj = append(fj, f)
	}
	return M{
		"flows":    fj,
		"channels": []M{{"uuid": NamedUUID("chan:android"), "name": "Android", "address": "+17036975131", "schemes": []string{"tel"}, "roles": []string{"send", "receive", "call", "answer"}, "country": "US"}},
		"fields": []M{
			{"uuid": NamedUUID("field:gender"), "key": "gender", "name": "Gender", "type": "text"},
			{"uuid": NamedUUID("field:age"), "key": "age", "name": "Age", "type": "number"},
			{"uuid": NamedUUID("field:joined"), "key": "joined", "name": "Joined", "type": "datetime"},
			{"uuid": NamedUUID("field:nick"), "key": "nick", "name": "Nick Name", "type": "text"},
			{"uuid": NamedUUID("field:state"), "key": "state", "name": "State", "type": "state"},
		},
		"groups": []M{
			{"uuid": NamedUUID("group:testers"), "name": "Testers"},
			{"uuid": NamedUUID("group:customers"), "name": "Customers"},
			{"uuid": NamedUUID("group:adults"), "name": "Adults", "query": "age >= 18"},
			{"uuid": NamedUUID("group:seen"), "name": "Seen", "query": `last_seen_on != ""`},
			{"uuid": NamedUUID("group:ticketed"), "name": "Ticketed", "query": "tickets > 0"},
			{"uuid": NamedUUID("group:bobs"), "name": "Bobs", "query": `name ~ "bob"`},
			{"uuid": NamedUUID("group:tel"), "name": "With Tel", "query": `tel != ""`},
			{"uuid": NamedUUID("group:eng"), "name": "English", "query": `language = "eng"`},
		},
		"labels":      []M{{"uuid": NamedUUID("label:spam"), "name": "Spam"}},
		"globals":     []M{{"key": "org_name", "name": "Org Name", "value": "Nyaruka"}, {"key": "limit", "name": "Limit", "value": "18"}},
		"topics":      []M{{"uuid": NamedUUID("topic:weather"), "name": "Weather"}},
		"users":       []M{{"email": "bob@nyaruka.com", "name": "Bob"}},
		"classifiers": []M{{"uuid": NamedUUID("classifier:booking"), "name": "Booking", "type": "wit", "intents": []string{"book_flight", "book_hotel"}}},
		"resthooks":   []M{{"slug": "new-registration", "subscribers": []string{"http://localhost/?cmd=success"}}},
		"optins":      []M{{"uuid": NamedUUID("optin:jokes"), "name": "Jokes"}},
		"locations":   []M{{"name": "Rwanda", "children": []M{{"name": "Kigali City", "aliases": []string{"Kigali"}, "children": []M{{"name": "Gasabo", "children": []M{{"name": "Gisozi"}}}}}}}},
	}
}

func (D) Contact() M {
	return M{
		"uuid": NamedUUID("contact:bob"), "id": 1234, "name": "Bob Smith", "language": "eng", "status": "active",
		"created_on": "2018-06-20T11:40:30.123456789Z", "urns": []string{"tel:+12065551212", "twitterid:54784326227#nyaruka"},
		"fields": M{"age": M{"text": "23", "number": 23}, "gender": M{"text": "male"}},
		"groups": []M{{"uuid": NamedUUID("group:testers"), "name": "Testers"}},
	}
}

func (d D) Manual(flow string, contact M) M {
	if contact == nil {
		contact = d.Contact()
	}
	return M{"type": "manual", "flow": M{"uuid": NamedUUID("flow:" + flow), "name": flow}, "contact": contact, "triggered_on": "2018-07-01T10:00:00.123456789Z",
		"environment": M{"date_format": "YYYY-MM-DD", "time_format": "tt:mm", "timezone": "UTC", "allowed_languages": []string{"eng", "spa"}, "default_country": "US"}}
}

func (d D) MsgTrigger(flow string, contact M, text string) M {
	t := d.Manual(flow, contact)
	t["type"] = "msg"
	t["msg"] = M{"uuid": NamedUUID("msg:trigger"), "text": text, "urn": "tel:+12065551212", "channel": M{"uuid": NamedUUID("chan:android"), "name": "Android"}}
	return t
}

func (D) MsgResume(i int, text string) M {
	return M{"type": "msg", "resumed_on": fmt.Sprintf("2018-07-%02dT10:00:00.5Z", 2+i), "msg": M{"uuid": NamedUUID(fmt.Sprintf("msg:resume:%d", i)), "text": text, "urn": "tel:+12065551212", "channel": M{"uuid": NamedUUID("chan:android"), "name": "Android"}}}
}

func (D) Timeout(i int) M {
	return M{"type": "wait_timeout", "resumed_on": fmt.Sprintf("2018-07-%02dT10:00:00.5Z", 2+i)}
}

func (D) Expiration(i int) M {
	return M{"type": "run_expiration", "resumed_on": fmt.Sprintf("2018-07-%02dT10:00:00.5Z", 2+i)}
}

func (D) Dial(i int, status string) M {
	return M{"type": "dial", "resumed_on": fmt.Sprintf("2018-07-%02dT10:00:00.5Z", 2+i), "dial": M{"status": status, "duration": 5}}
}
