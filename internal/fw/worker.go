package fw

import (
	"bufio"
	"encoding/binary"
	"encoding/json"
	"fmt"
	"os"
	"runtime"
	"runtime/debug"
	"sort"
	"strings"
	"sync"
	"time"
)

// Summary is what a worker reports for the cases it finished.
type Summary struct {
	Evaluations  int64               `json:"evaluations"`
	Discarded    int64               `json:"discarded"`
	NonTrivial   int64               `json:"nontrivial"`
	Counters     map[string]int64    `json:"counters"`
	Sets         map[string][]string `json:"sets"`
	Samples      []any               `json:"samples"`
	DiscardWhy   map[string]int64    `json:"discard_why"`
	Inconclusive []string            `json:"inconclusive"`
}

type violationLine struct {
	Case      string `json:"case"`
	Index     int    `json:"index"`
	Signature string `json:"signature"`
	What      string `json:"what"`
	Witness   any    `json:"witness"`
}

const maxSetSize = 5000

// PanicSignature reduces a recovered panic + stack to a coarse signature:
// innermost goflow (or dependency) function + panic kind.
func PanicSignature(entry string, rec any, stack string) string {
	return fmt.Sprintf("panic|%s|%s|%s", entry, InnermostFrame(stack), PanicKind(fmt.Sprint(rec)))
}

// PanicKind strips the variable parts of a panic message.
func PanicKind(msg string) string {
	switch {
	case strings.Contains(msg, "nil pointer dereference"):
		return "nil-deref"
	case strings.Contains(msg, "index out of range"):
		return "index"
	case strings.Contains(msg, "slice bounds out of range"):
		return "slice-bounds"
	case strings.Contains(msg, "interface conversion"):
		return "type-assertion"
	case strings.Contains(msg, "nil map"):
		return "nil-map"
	case strings.Contains(msg, "stack overflow"):
		return "stack-overflow"
	}
	// strip digits and quoted parts
	var b strings.Builder
	inq := false
	for _, r := range msg {
		if r == '"' || r == '\'' {
			inq = !inq
			continue
		}
		if inq || (r >= '0' && r <= '9') {
			continue
		}
		b.WriteRune(r)
		if b.Len() > 60 {
			break
		}
	}
	return strings.TrimSpace(b.String())
}

// InnermostFrame returns the first function in the stack (after the panic machinery)
// that belongs to goflow or one of its non-std dependencies, without line numbers.
func InnermostFrame(stack string) string {
	lines := strings.Split(stack, "\n")
	for _, l := range lines {
		l = strings.TrimSpace(l)
		if l == "" || strings.HasPrefix(l, "/") || strings.HasPrefix(l, "goroutine ") || strings.HasPrefix(l, "panic(") || strings.HasPrefix(l, "created by") {
			continue
		}
		if strings.HasPrefix(l, "runtime.") || strings.HasPrefix(l, "runtime/") || strings.HasPrefix(l, "verif/") || strings.HasPrefix(l, "main.") || strings.HasPrefix(l, "reflect.") {
			continue
		}
		if strings.Contains(l, "github.com/") || strings.Contains(l, "golang.org/") {
			// cut the argument list
			if i := strings.LastIndex(l, "("); i > 0 {
				l = l[:i]
			}
			l = strings.TrimPrefix(l, "github.com/nyaruka/goflow/")
			return l
		}
	}
	return "?"
}

var detail atomicString

type atomicString struct {
	mu sync.Mutex
	s  string
}

// SetDetail records what the current case is doing right now (e.g. the call being made), so that a
// watchdog kill or a fatal crash can name it. Cheap enough to call before every call under test.
func SetDetail(s string) {
	detail.mu.Lock()
	detail.s = s
	detail.mu.Unlock()
}

func getDetail() string {
	detail.mu.Lock()
	defer detail.mu.Unlock()
	return detail.s
}

// RunWorker runs cases [from,to) of a property in this process.
// Journal format (one line each, written unbuffered): "B <index>", "E <index>",
// "V <json>", "H <index>" (watchdog), "M <index>" (memory guard), "S <json>" (summary, last).
func RunWorker(p Property, tier string, seed int64, from, to int, outPrefix string, caseTimeoutS int) int {
	cases := Cases(p, tier, seed)
	if to > len(cases) {
		to = len(cases)
	}
	jf, err := os.Create(outPrefix + ".journal")
	if err != nil {
		fmt.Fprintln(os.Stderr, "worker: cannot create journal:", err)
		return 4
	}
	defer jf.Close()

	if wi, ok := p.(WorkerInit); ok {
		wi.WorkerInit(tier, seed)
	}

	var mu sync.Mutex // guards sum, fps and the journal's summary section
	sum := &Summary{Counters: map[string]int64{}, Sets: map[string][]string{}, DiscardWhy: map[string]int64{}}
	setIdx := map[string]map[string]bool{}
	var fps []uint64

	writeSummary := func() {
		b, _ := json.Marshal(sum)
		jf.WriteString("S " + string(b) + "\n")
		ff, err := os.Create(outPrefix + ".fp")
		if err == nil {
			w := bufio.NewWriter(ff)
			buf := make([]byte, 8)
			for _, f := range fps {
				binary.LittleEndian.PutUint64(buf, f)
				w.Write(buf)
			}
			w.Flush()
			ff.Close()
		}
	}

	// watchdog: per-case wall clock + heap guard
	var curIdx = -1
	var curStart time.Time
	var wmu sync.Mutex
	forcedTimeout := caseTimeoutS > 0
	if caseTimeoutS <= 0 {
		caseTimeoutS = p.CaseTimeoutS()
	}
	done := make(chan struct{})
	go func() {
		t := time.NewTicker(250 * time.Millisecond)
		defer t.Stop()
		var ms runtime.MemStats
		n := 0
		for {
			select {
			case <-done:
				return
			case <-t.C:
			}
			wmu.Lock()
			idx, st := curIdx, curStart
			wmu.Unlock()
			if idx < 0 {
				continue
			}
			n++
			tag := ""
			limit := caseTimeoutS
			if ct, ok := p.(CaseTimeouts); ok && !forcedTimeout {
				if s1, _ := ct.CaseTimeouts(cases[idx]); s1 > 0 {
					limit = s1
				}
			}
			if time.Since(st) > time.Duration(limit)*time.Second {
				tag = "H"
			} else if n%4 == 0 {
				runtime.ReadMemStats(&ms)
				if ms.HeapAlloc > 6<<30 {
					tag = "M"
				}
			}
			if tag != "" {
				mu.Lock()
				buf := make([]byte, 1<<20)
				buf = buf[:runtime.Stack(buf, true)]
				os.WriteFile(outPrefix+".hangstack", buf, 0o644)
				db, _ := json.Marshal(getDetail())
				jf.WriteString(fmt.Sprintf("%s %d %s\n", tag, idx, db))
				writeSummary()
				os.Exit(3)
			}
		}
	}()

	reverse := os.Getenv("VERIF_ORDER") == "reverse"
	for k := from; k < to; k++ {
		i := k
		if reverse {
			i = to - 1 - (k - from)
		}
		c := cases[i]
		jf.WriteString(fmt.Sprintf("B %d\n", i))
		SetDetail("")
		wmu.Lock()
		curIdx, curStart = i, time.Now()
		wmu.Unlock()

		res := runOne(p, c)

		wmu.Lock()
		curIdx = -1
		wmu.Unlock()

		mu.Lock()
		for _, v := range res.Violations {
			b, _ := json.Marshal(violationLine{Case: c.ID(), Index: i, Signature: v.Signature, What: v.What, Witness: v.Witness})
			jf.WriteString("V " + string(b) + "\n")
		}
		if res.Digest != "" {
			jf.WriteString(fmt.Sprintf("D %d %s\n", i, res.Digest))
		}
		if res.Discarded != "" {
			sum.Discarded++
			sum.DiscardWhy[res.Discarded]++
		} else {
			sum.Evaluations++
		}
		if res.Inconclusive != "" && len(sum.Inconclusive) < 20 {
			sum.Inconclusive = append(sum.Inconclusive, c.ID()+": "+res.Inconclusive)
		}
		for k, v := range res.Counters {
			sum.Counters[k] += v
		}
		for k, vs := range res.Sets {
			m := setIdx[k]
			if m == nil {
				m = map[string]bool{}
				setIdx[k] = m
			}
			for _, v := range vs {
				if !m[v] && len(m) < maxSetSize {
					m[v] = true
					sum.Sets[k] = append(sum.Sets[k], v)
				}
			}
		}
		if res.NonTrivial && res.Discarded == "" {
			sum.NonTrivial++
			fps = append(fps, Hash64(res.Fingerprint))
			if res.Sample != nil && len(sum.Samples) < 3 {
				sum.Samples = append(sum.Samples, res.Sample)
			}
		}
		jf.WriteString(fmt.Sprintf("E %d %d\n", i, time.Since(curStart).Milliseconds()))
		mu.Unlock()
	}
	close(done)
	mu.Lock()
	for k := range sum.Sets {
		sort.Strings(sum.Sets[k])
	}
	writeSummary()
	mu.Unlock()
	return 0
}

func runOne(p Property, c Case) (res Result) {
	defer func() {
		if rec := recover(); rec != nil {
			st := string(debug.Stack())
			if InnermostFrame(st) == "?" {
				// no frame of the code under test: a bug in the harness, not a verdict
				res.Inconclusive = fmt.Sprintf("harness panic: %v\n%s", rec, trimStack(st))
				return
			}
			res.Violate(PanicSignature("harness:"+p.ID(), rec, st),
				fmt.Sprintf("panic escaped to the case boundary: %v", rec),
				map[string]any{"case": c.ID(), "panic": fmt.Sprint(rec), "stack": trimStack(st)})
		}
	}()
	// aid for measuring what the generated part of a check catches on its own (seeded changes); never set by ./check
	if c.Directed != "" && os.Getenv("VERIF_SKIP_DIRECTED") != "" {
		return Result{Discarded: "skipped: VERIF_SKIP_DIRECTED"}
	}
	return p.Run(c)
}

func trimStack(s string) string {
	if len(s) > 4000 {
		return s[:4000] + "…"
	}
	return s
}

// TrimStack is exported for property code.
func TrimStack(s string) string { return trimStack(s) }
