// Package fw is the plumbing shared by all property checks: case lists derived from
// VERIF_SEED, child-process workers with a BEGIN journal, crash / hang attribution,
// aggregation into evidence files, known-finding matching and VIOLATION lines.
package fw

import (
	"encoding/json"
	"fmt"
	"hash/fnv"
	"sort"
)

// Case identifies one case of a property: either a directed (hand-built) case or the
// i-th generated case. The case content is a pure function of (seed, property, Index).
type Case struct {
	Index    int    // index into the full list (directed first, then generated)
	Directed string // name of the directed case, or ""
	Gen      int    // generated index (valid when Directed == "")
	Seed     int64
	Tier     string
}

func (c Case) ID() string {
	if c.Directed != "" {
		return "d:" + c.Directed
	}
	return fmt.Sprintf("g:%d", c.Gen)
}

// Violation is one refutation of a property observed on one case.
type Violation struct {
	Signature string `json:"signature"` // coarse identity of the defect, matched against known_findings.json
	What      string `json:"what"`      // one line for humans
	Witness   any    `json:"witness"`   // everything needed to understand / re-run
}

// Result is what running one case yields.
type Result struct {
	Fingerprint  string              // canonical description of the case (hashed for distinctness)
	NonTrivial   bool                // by the property's stated rule
	Counters     map[string]int64    // summed over cases (clause counters, event histograms, …)
	Sets         map[string][]string // unioned over cases (distinct shapes seen, …); reported as counts
	Violations   []Violation
	Digest       string // optional: digest of the case's outputs; collected per case index by the orchestrator (C08)
	Sample       any    // written to the evidence for the first few non-trivial cases
	Discarded    string // non-empty: the generator's case could not be used (reason), not evaluated
	Inconclusive string // non-empty: case could not be decided (reason)
}

func (r *Result) Count(key string, n int64) {
	if r.Counters == nil {
		r.Counters = map[string]int64{}
	}
	r.Counters[key] += n
}

func (r *Result) Seen(set, val string) {
	if r.Sets == nil {
		r.Sets = map[string][]string{}
	}
	for _, v := range r.Sets[set] {
		if v == val {
			return
		}
	}
	r.Sets[set] = append(r.Sets[set], val)
}

func (r *Result) Violate(sig, what string, witness any) {
	// one violation per signature per case is enough
	for _, v := range r.Violations {
		if v.Signature == sig {
			return
		}
	}
	r.Violations = append(r.Violations, Violation{Signature: sig, What: what, Witness: witness})
}

// Property is implemented once per property id.
type Property interface {
	ID() string
	// Rule describes the generator and the non-triviality rule (goes into the evidence).
	Rule() string
	// Directed lists the names of the directed corpus (seed independent).
	Directed() []string
	// NumGenerated is the fixed number of generated cases of a tier.
	NumGenerated(tier string) int
	// BatchSize is the number of cases one child process runs.
	BatchSize(tier string) int
	// CaseTimeoutS is the per-case wall-clock watchdog (seconds) inside a batch.
	CaseTimeoutS() int
	// Run executes one case in the worker process.
	Run(c Case) Result
}

// Optional interfaces ------------------------------------------------------------------

// HangPolicy says what a confirmed (stage 2) timeout of a case means. Properties that
// state termination (C04, C05) return a violation signature; for the others a timeout is
// inconclusive.
type HangPolicy interface {
	// HangSignature is given the case (and the detail the case last published through SetDetail)
	// and returns signature + description for a confirmed hang.
	HangSignature(c Case, detail string) (sig, what string, witness any)
}

// CaseTimeouts overrides the watchdog budgets (seconds) for individual cases:
// stage 1 inside the batch, stage 2 alone. 0 = default.
type CaseTimeouts interface {
	CaseTimeouts(c Case) (stage1, stage2 int)
}

// CrashPolicy: signature for a child that died while running a case (fatal error outside recover).
type CrashPolicy interface {
	CrashSignature(c Case, stderrTail string) (sig, what string, witness any)
}

// Floors lists counters that must be non-zero on a run for it to be conclusive.
type Floors interface {
	Floors(tier string) []string
}

// WorkerInit lets a property prepare process-wide state in the child before the first case.
type WorkerInit interface {
	WorkerInit(tier string, seed int64)
}

// CustomRunner replaces the standard orchestration (C08, C09 need several processes per case).
type CustomRunner interface {
	RunCustom(o *Orchestrator) // fills o.agg itself through o.Merge / o.Violation
}

// Extra evidence keys supplied by a property after the run (e.g. exhaustive flag).
type ExtraEvidence interface {
	ExtraEvidence(tier string, counters map[string]int64) map[string]any
}

// Levels ---------------------------------------------------------------------------------

type Leveler interface{ Level() string }

// Registry -------------------------------------------------------------------------------

var registry = map[string]Property{}

func Register(p Property) { registry[p.ID()] = p }

func Lookup(id string) Property { return registry[id] }

func IDs() []string {
	ids := make([]string, 0, len(registry))
	for id := range registry {
		ids = append(ids, id)
	}
	sort.Strings(ids)
	return ids
}

// Helpers --------------------------------------------------------------------------------

func Hash64(s string) uint64 {
	h := fnv.New64a()
	h.Write([]byte(s))
	return h.Sum64()
}

func JSON(v any) string {
	b, err := json.Marshal(v)
	if err != nil {
		return fmt.Sprintf("<unmarshalable: %s>", err)
	}
	return string(b)
}

// Cases builds the full, ordered case list of a property for a tier and seed.
func Cases(p Property, tier string, seed int64) []Case {
	var cs []Case
	for _, d := range p.Directed() {
		cs = append(cs, Case{Index: len(cs), Directed: d, Seed: seed, Tier: tier})
	}
	n := p.NumGenerated(tier)
	for i := 0; i < n; i++ {
		cs = append(cs, Case{Index: len(cs), Gen: i, Seed: seed, Tier: tier})
	}
	return cs
}

// ExtraCommands are additional vcheck sub-commands registered by properties that need
// their own child-process modes (C08 fresh-process digests, C09 race rounds).
var ExtraCommands = map[string]func(args []string) int{}
