package fw

// Rand is a splitmix64 stream. Every case derives its own stream from
// (VERIF_SEED, property id, case index), so case content never depends on batching,
// ordering or time.
type Rand struct{ s uint64 }

func NewRand(seed int64, prop string, index int) *Rand {
	r := &Rand{s: uint64(seed)*0x9E3779B97F4A7C15 ^ Hash64(prop) ^ (uint64(index)+1)*0xBF58476D1CE4E5B9}
	r.U64()
	r.U64()
	return r
}

// Fork derives an independent stream (for sub-generators) without disturbing callers' sequences much.
func (r *Rand) Fork(tag string) *Rand {
	n := &Rand{s: r.U64() ^ Hash64(tag)}
	n.U64()
	return n
}

func (r *Rand) U64() uint64 {
	r.s += 0x9E3779B97F4A7C15
	z := r.s
	z = (z ^ (z >> 30)) * 0xBF58476D1CE4E5B9
	z = (z ^ (z >> 27)) * 0x94D049BB133111EB
	return z ^ (z >> 31)
}

// Intn returns a value in [0,n). n <= 0 gives 0.
func (r *Rand) Intn(n int) int {
	if n <= 0 {
		return 0
	}
	return int(r.U64() % uint64(n))
}

// Range returns a value in [lo,hi].
func (r *Rand) Range(lo, hi int) int {
	if hi <= lo {
		return lo
	}
	return lo + r.Intn(hi-lo+1)
}

func (r *Rand) Bool() bool { return r.U64()&1 == 1 }

// Chance returns true with probability p.
func (r *Rand) Chance(p float64) bool {
	return float64(r.U64()>>11)/float64(1<<53) < p
}

func (r *Rand) Float() float64 { return float64(r.U64()>>11) / float64(1<<53) }

func Pick[T any](r *Rand, xs []T) T {
	if len(xs) == 0 {
		var z T
		return z
	}
	return xs[r.Intn(len(xs))]
}

// Weighted picks an index according to integer weights.
func (r *Rand) Weighted(ws []int) int {
	t := 0
	for _, w := range ws {
		t += w
	}
	if t <= 0 {
		return 0
	}
	x := r.Intn(t)
	for i, w := range ws {
		if x < w {
			return i
		}
		x -= w
	}
	return len(ws) - 1
}

func Shuffle[T any](r *Rand, xs []T) {
	for i := len(xs) - 1; i > 0; i-- {
		j := r.Intn(i + 1)
		xs[i], xs[j] = xs[j], xs[i]
	}
}
