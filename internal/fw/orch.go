package fw

import (
	"bufio"
	"crypto/sha256"
	"encoding/binary"
	"encoding/hex"
	"encoding/json"
	"fmt"
	"io"
	"os"
	"os/exec"
	"path/filepath"
	"sort"
	"strconv"
	"strings"
	"sync"
	"syscall"
	"time"
)

// KnownFinding is one entry of known_findings.json (committed, never written at run time).
type KnownFinding struct {
	ID        string `json:"id"`
	Property  string `json:"property"`
	Status    string `json:"status"` // "known" | "fixed"
	Signature string `json:"signature"`
	WhatFails string `json:"what_fails"`
	Witness   any    `json:"witness,omitempty"`
	Note      string `json:"note,omitempty"`
	Commit    string `json:"commit,omitempty"`
}

type foundViolation struct {
	violationLine
	Count int
}

// Orchestrator runs one property check and aggregates what the workers observed.
type Orchestrator struct {
	P        Property
	Tier     string
	Seed     int64
	Root     string // /verif
	WorkDir  string
	Exe      string
	Parallel int
	Start    time.Time

	mu            sync.Mutex
	Sum           Summary
	setIdx        map[string]map[string]bool
	fps           map[uint64]struct{}
	violations    map[string]*foundViolation // by signature
	inconclusive  []string
	children      int
	crashed       int
	stage1        int
	stage2        int
	Extra         map[string]any
	Digests       map[int]string // per case index, from the workers' "D" lines
	ChildEnv      []string       // extra environment for the children of the next RunStandard
	BatchOverride int            // if > 0, overrides the property's batch size
}

func Root() string {
	if r := os.Getenv("VERIF_ROOT"); r != "" {
		return r
	}
	return "/verif"
}

func NewOrchestrator(p Property, tier string, seed int64) *Orchestrator {
	exe, _ := os.Executable()
	root := Root()
	wd := filepath.Join(root, ".work", fmt.Sprintf("%s-%s-%d-%d", p.ID(), tier, seed, os.Getpid()))
	os.MkdirAll(wd, 0o755)
	par := 16
	if v := os.Getenv("VERIF_PARALLEL"); v != "" {
		if n, err := strconv.Atoi(v); err == nil && n > 0 {
			par = n
		}
	}
	return &Orchestrator{P: p, Tier: tier, Seed: seed, Root: root, WorkDir: wd, Exe: exe, Parallel: par, Start: time.Now(),
		Sum:    Summary{Counters: map[string]int64{}, Sets: map[string][]string{}, DiscardWhy: map[string]int64{}},
		setIdx: map[string]map[string]bool{}, fps: map[uint64]struct{}{}, violations: map[string]*foundViolation{}, Extra: map[string]any{}}
}

// Merge folds a worker summary (and its fingerprint file) into the aggregate.
func (o *Orchestrator) Merge(s *Summary, fpFile string) {
	o.mu.Lock()
	defer o.mu.Unlock()
	o.Sum.Evaluations += s.Evaluations
	o.Sum.Discarded += s.Discarded
	o.Sum.NonTrivial += s.NonTrivial
	for k, v := range s.Counters {
		o.Sum.Counters[k] += v
	}
	for k, v := range s.DiscardWhy {
		o.Sum.DiscardWhy[k] += v
	}
	for k, vs := range s.Sets {
		m := o.setIdx[k]
		if m == nil {
			m = map[string]bool{}
			o.setIdx[k] = m
		}
		for _, v := range vs {
			if !m[v] && len(m) < 4*maxSetSize {
				m[v] = true
			}
		}
	}
	for _, smp := range s.Samples {
		if len(o.Sum.Samples) < 4 {
			o.Sum.Samples = append(o.Sum.Samples, smp)
		}
	}
	o.inconclusive = append(o.inconclusive, s.Inconclusive...)
	if fpFile != "" {
		if f, err := os.Open(fpFile); err == nil {
			r := bufio.NewReader(f)
			buf := make([]byte, 8)
			for {
				if _, err := io.ReadFull(r, buf); err != nil {
					break
				}
				o.fps[binary.LittleEndian.Uint64(buf)] = struct{}{}
			}
			f.Close()
		}
	}
}

// AddFingerprint registers a distinct non-trivial case directly (custom runners).
func (o *Orchestrator) AddFingerprint(fp string) {
	o.mu.Lock()
	o.fps[Hash64(fp)] = struct{}{}
	o.mu.Unlock()
}

func (o *Orchestrator) Violation(caseID string, index int, sig, what string, witness any) {
	o.mu.Lock()
	defer o.mu.Unlock()
	if v, ok := o.violations[sig]; ok {
		v.Count++
		return
	}
	o.violations[sig] = &foundViolation{violationLine: violationLine{Case: caseID, Index: index, Signature: sig, What: what, Witness: witness}, Count: 1}
}

func (o *Orchestrator) Inconclusive(reason string) {
	o.mu.Lock()
	o.inconclusive = append(o.inconclusive, reason)
	o.mu.Unlock()
}

type span struct{ from, to int }

type journalInfo struct {
	lastBegun  int
	lastEnded  int
	hang       int
	mem        int
	detail     string
	summary    *Summary
	violations []violationLine
	digests    map[int]string
}

func readJournal(path string) *journalInfo {
	ji := &journalInfo{lastBegun: -1, lastEnded: -1, hang: -1, mem: -1, digests: map[int]string{}}
	f, err := os.Open(path)
	if err != nil {
		return ji
	}
	defer f.Close()
	r := bufio.NewReaderSize(f, 1<<20)
	for {
		line, err := r.ReadString('\n')
		if len(line) > 2 && line[len(line)-1] == '\n' {
			body := line[2 : len(line)-1]
			switch line[0] {
			case 'B':
				ji.lastBegun, _ = strconv.Atoi(body)
			case 'E':
				num, _, _ := strings.Cut(body, " ")
				ji.lastEnded, _ = strconv.Atoi(num)
			case 'H', 'M':
				num, rest, _ := strings.Cut(body, " ")
				n, _ := strconv.Atoi(num)
				if line[0] == 'H' {
					ji.hang = n
				} else {
					ji.mem = n
				}
				json.Unmarshal([]byte(rest), &ji.detail)
			case 'D':
				num, rest, _ := strings.Cut(body, " ")
				n, _ := strconv.Atoi(num)
				ji.digests[n] = rest
			case 'V':
				var v violationLine
				if json.Unmarshal([]byte(body), &v) == nil {
					ji.violations = append(ji.violations, v)
				}
			case 'S':
				var s Summary
				if json.Unmarshal([]byte(body), &s) == nil {
					ji.summary = &s
				}
			}
		}
		if err != nil {
			break
		}
	}
	return ji
}

// runChild runs one worker over [from,to) and returns its journal info and exit state.
func (o *Orchestrator) runChild(from, to int, timeoutS int, tag string) (*journalInfo, string, bool) {
	o.mu.Lock()
	o.children++
	n := o.children
	o.mu.Unlock()
	prefix := filepath.Join(o.WorkDir, fmt.Sprintf("w%05d%s", n, tag))
	args := []string{"worker", o.P.ID(), o.Tier, strconv.FormatInt(o.Seed, 10), strconv.Itoa(from), strconv.Itoa(to), prefix, strconv.Itoa(timeoutS)}
	cmd := exec.Command(o.Exe, args...)
	errf, _ := os.Create(prefix + ".stderr")
	outf, _ := os.Create(prefix + ".stdout")
	cmd.Stdout, cmd.Stderr = outf, errf
	cmd.Env = append(append(os.Environ(), "GOTRACEBACK=all"), o.ChildEnv...)
	err := cmd.Start()
	if err != nil {
		return &journalInfo{lastBegun: -1, lastEnded: -1, hang: -1, mem: -1}, prefix, false
	}
	// outer wall-clock guard: generous; child has its own per-case watchdog
	doneCh := make(chan error, 1)
	go func() { doneCh <- cmd.Wait() }()
	limit := time.Duration(3600) * time.Second
	select {
	case err = <-doneCh:
	case <-time.After(limit):
		cmd.Process.Signal(syscall.SIGQUIT)
		select {
		case err = <-doneCh:
		case <-time.After(10 * time.Second):
			cmd.Process.Kill()
			err = <-doneCh
		}
	}
	errf.Close()
	outf.Close()
	ji := readJournal(prefix + ".journal")
	return ji, prefix, err == nil
}

func tailFile(path string, n int) string {
	b, err := os.ReadFile(path)
	if err != nil {
		return ""
	}
	if len(b) > n {
		b = b[len(b)-n:]
	}
	return string(b)
}

func headFile(path string, n int) string {
	b, err := os.ReadFile(path)
	if err != nil {
		return ""
	}
	if len(b) > n {
		b = b[:n]
	}
	return string(b)
}

// RunStandard: batches → children; crash / hang attribution; stage-2 confirmation of hangs.
func (o *Orchestrator) RunStandard() {
	cases := Cases(o.P, o.Tier, o.Seed)
	bs := o.P.BatchSize(o.Tier)
	if o.BatchOverride > 0 {
		bs = o.BatchOverride
	}
	if bs <= 0 {
		bs = 1000
	}
	var queue []span
	for i := 0; i < len(cases); i += bs {
		j := i + bs
		if j > len(cases) {
			j = len(cases)
		}
		queue = append(queue, span{i, j})
	}
	var qmu sync.Mutex
	var hangs []int
	aborted := 0
	const maxHangsBeforeAbort = 8
	pop := func() (span, bool) {
		qmu.Lock()
		defer qmu.Unlock()
		if len(queue) == 0 {
			return span{}, false
		}
		s := queue[0]
		queue = queue[1:]
		return s, true
	}
	push := func(s span) {
		if s.to > s.from {
			qmu.Lock()
			queue = append(queue, s)
			qmu.Unlock()
		}
	}
	var wg sync.WaitGroup
	var active int
	var amu sync.Mutex
	for w := 0; w < o.Parallel; w++ {
		wg.Add(1)
		go func() {
			defer wg.Done()
			for {
				qmu.Lock()
				tooManyHangs := len(hangs) >= maxHangsBeforeAbort
				qmu.Unlock()
				if tooManyHangs {
					// fail fast: a change that makes many cases hang would otherwise cost a full watchdog cycle per case
					qmu.Lock()
					if len(queue) > 0 {
						aborted += len(queue)
						queue = nil
					}
					qmu.Unlock()
					return
				}
				sp, ok := pop()
				if !ok {
					// another worker may still push re-queued spans
					amu.Lock()
					a := active
					amu.Unlock()
					if a == 0 {
						return
					}
					time.Sleep(50 * time.Millisecond)
					continue
				}
				amu.Lock()
				active++
				amu.Unlock()
				ji, prefix, okExit := o.runChild(sp.from, sp.to, 0, "")
				for _, v := range ji.violations {
					o.Violation(v.Case, v.Index, v.Signature, v.What, v.Witness)
				}
				o.mu.Lock()
				if o.Digests == nil {
					o.Digests = map[int]string{}
				}
				for k, v := range ji.digests {
					o.Digests[k] = v
				}
				o.mu.Unlock()
				switch {
				case okExit && ji.summary != nil:
					o.Merge(ji.summary, prefix+".fp")
				case ji.hang >= 0 || ji.mem >= 0:
					idx := ji.hang
					if idx < 0 {
						idx = ji.mem
					}
					if ji.summary != nil {
						o.Merge(ji.summary, prefix+".fp")
					}
					o.mu.Lock()
					o.stage1++
					o.mu.Unlock()
					qmu.Lock()
					hangs = append(hangs, idx)
					qmu.Unlock()
					push(span{idx + 1, sp.to})
				default:
					// died without a verdict: fatal error in the case that was begun and not ended
					o.mu.Lock()
					o.crashed++
					o.mu.Unlock()
					if ji.lastBegun >= 0 && ji.lastBegun > ji.lastEnded {
						idx := ji.lastBegun
						c := cases[idx]
						tail := headFile(prefix+".stderr", 6000)
						sig, what, wit := "crash|"+o.P.ID()+"|"+PanicKind(firstLine(tail)), "child process died while running the case: "+firstLine(tail), any(map[string]any{"case": c.ID(), "stderr": tail})
						if cp, ok := o.P.(CrashPolicy); ok {
							sig, what, wit = cp.CrashSignature(c, tail)
						}
						o.Violation(c.ID(), idx, sig, what, wit)
						// the partial batch's counters are lost with the process: redo both halves
						push(span{sp.from, idx})
						push(span{idx + 1, sp.to})
					} else {
						o.Inconclusive(fmt.Sprintf("worker for [%d,%d) died without running a case: %s", sp.from, sp.to, firstLine(tailFile(prefix+".stderr", 2000))))
					}
				}
				amu.Lock()
				active--
				amu.Unlock()
			}
		}()
	}
	wg.Wait()

	// stage 2: every case that tripped the in-batch watchdog is re-run alone with a larger budget
	sort.Ints(hangs)
	confirmed := 0
	for hi, idx := range hangs {
		if hi >= 4 && confirmed > 0 {
			o.mu.Lock()
			o.Sum.Counters["hang_cases_not_rerun_after_confirmation"]++
			o.mu.Unlock()
			continue // enough confirmed hangs to report; do not spend a minute on each of the others
		}
		c := cases[idx]
		s2 := 60
		if ct, ok := o.P.(CaseTimeouts); ok {
			if _, t2 := ct.CaseTimeouts(c); t2 > 0 {
				s2 = t2
			}
		}
		ji, prefix, okExit := o.runChild(idx, idx+1, s2, "-stage2")
		for _, v := range ji.violations {
			o.Violation(v.Case, v.Index, v.Signature, v.What, v.Witness)
		}
		if okExit && ji.summary != nil {
			o.Merge(ji.summary, prefix+".fp")
			o.mu.Lock()
			o.Sum.Counters["slow_cases_completed_alone"]++
			o.mu.Unlock()
			continue
		}
		o.mu.Lock()
		o.stage2++
		o.mu.Unlock()
		confirmed++
		if hp, ok := o.P.(HangPolicy); ok {
			sig, what, wit := hp.HangSignature(c, ji.detail)
			o.Violation(c.ID(), idx, sig, what, wit)
		} else {
			o.Inconclusive(fmt.Sprintf("case %s did not finish within the wall-clock watchdog (not a verdict for this property)", c.ID()))
		}
	}
	if aborted > 0 {
		o.mu.Lock()
		o.Sum.Counters["batches_not_run_after_too_many_hangs"] += int64(aborted)
		o.mu.Unlock()
		if confirmed == 0 {
			o.Inconclusive(fmt.Sprintf("%d batches were not run because %d cases tripped the in-batch watchdog, but none was confirmed alone", aborted, len(hangs)))
		}
	}
}

func firstLine(s string) string {
	for _, l := range strings.Split(s, "\n") {
		l = strings.TrimSpace(l)
		if l != "" {
			if len(l) > 200 {
				l = l[:200]
			}
			return l
		}
	}
	return ""
}

func LoadKnownFindings(root string) []KnownFinding {
	b, err := os.ReadFile(filepath.Join(root, "known_findings.json"))
	if err != nil {
		return nil
	}
	var kf []KnownFinding
	if err := json.Unmarshal(b, &kf); err != nil {
		fmt.Fprintln(os.Stderr, "known_findings.json unreadable:", err)
		return nil
	}
	return kf
}

// Finish writes the evidence, prints the verdict lines and returns the exit code.
func (o *Orchestrator) Finish() int {
	id := o.P.ID()
	known := map[string]KnownFinding{}
	for _, k := range LoadKnownFindings(o.Root) {
		if k.Property == id && k.Status == "known" {
			known[k.Signature] = k
		}
	}

	// floors
	if fl, ok := o.P.(Floors); ok {
		for _, k := range fl.Floors(o.Tier) {
			if o.Sum.Counters[k] == 0 {
				o.inconclusive = append(o.inconclusive, "coverage floor not reached: "+k+" == 0")
			}
		}
	}
	if o.Sum.Evaluations == 0 {
		o.inconclusive = append(o.inconclusive, "no case was evaluated")
	}

	sigs := make([]string, 0, len(o.violations))
	for s := range o.violations {
		sigs = append(sigs, s)
	}
	sort.Strings(sigs)

	var knownHit []map[string]any
	nViol := 0
	os.MkdirAll(filepath.Join(o.Root, "replays"), 0o755)
	for _, s := range sigs {
		v := o.violations[s]
		if k, ok := known[s]; ok {
			fmt.Printf("KNOWN-FINDING: property=%s %s [%s; %d case(s), e.g. %s]\n", id, k.WhatFails, k.ID, v.Count, v.Case)
			knownHit = append(knownHit, map[string]any{"id": k.ID, "signature": s, "count": v.Count})
			continue
		}
		nViol++
		h := sha256.Sum256([]byte(s))
		path := filepath.Join(o.Root, "replays", fmt.Sprintf("%s-%s-%s.json", id, hex.EncodeToString(h[:4]), sanitize(v.Case)))
		wb, _ := json.MarshalIndent(map[string]any{
			"property": id, "tier": o.Tier, "seed": o.Seed, "case_id": v.Case, "case_index": v.Index,
			"signature": s, "what": v.What, "count_in_run": v.Count, "witness": v.Witness,
			"found_at": time.Now().UTC().Format(time.RFC3339),
		}, "", " ")
		os.WriteFile(path, wb, 0o644)
		if nViol <= 25 {
			fmt.Printf("VIOLATION property=%s replay=%s\n", id, path)
			fmt.Printf("  signature: %s\n  what: %s\n  cases: %d (first %s)\n", s, v.What, v.Count, v.Case)
		}
	}
	for i, r := range o.inconclusive {
		if i < 10 {
			fmt.Printf("INCONCLUSIVE property=%s reason=%s\n", id, oneLine(r))
		}
	}

	// evidence
	setCounts := map[string]int{}
	setSamples := map[string][]string{}
	for k, m := range o.setIdx {
		setCounts[k] = len(m)
		vals := make([]string, 0, len(m))
		for v := range m {
			vals = append(vals, v)
		}
		sort.Strings(vals)
		if len(vals) > 40 {
			vals = vals[:40]
		}
		setSamples[k] = vals
	}
	level := "exploration"
	if lv, ok := o.P.(Leveler); ok {
		level = lv.Level()
	}
	cov := map[string]any{
		"evaluations":            o.Sum.Evaluations,
		"distinct_nontrivial":    len(o.fps),
		"rule":                   o.P.Rule(),
		"samples":                o.Sum.Samples,
		"nontrivial_total":       o.Sum.NonTrivial,
		"discarded":              o.Sum.Discarded,
		"discard_reasons":        o.Sum.DiscardWhy,
		"counters":               o.Sum.Counters,
		"distinct_seen":          setCounts,
		"distinct_seen_examples": setSamples,
		"known_findings_hit":     knownHit,
		"inconclusive":           len(o.inconclusive),
		"inconclusive_reasons":   head(o.inconclusive, 10),
		"children":               o.children,
		"crashed_children":       o.crashed,
		"watchdog_stage1":        o.stage1,
		"watchdog_stage2":        o.stage2,
		"violation_signatures":   sigs,
	}
	if cov["samples"] == nil || len(o.Sum.Samples) == 0 {
		cov["samples"] = []any{}
	}
	if xe, ok := o.P.(ExtraEvidence); ok {
		for k, v := range xe.ExtraEvidence(o.Tier, o.Sum.Counters) {
			cov[k] = v
		}
	}
	for k, v := range o.Extra {
		cov[k] = v
	}
	ev := map[string]any{
		"property_id": id, "tier": o.Tier, "seed": o.Seed, "level": level,
		"coverage":   cov,
		"wall_s":     time.Since(o.Start).Seconds(),
		"violations": nViol,
		"assumptions": []string{
			"verdict is 'held on the executions observed', not a proof",
			"cases are a pure function of (VERIF_SEED, property, index); directed corpus always included",
		},
	}
	eb, _ := json.MarshalIndent(ev, "", " ")
	evDir := filepath.Join(o.Root, "evidence")
	if d := os.Getenv("VERIF_EVIDENCE_DIR"); d != "" {
		evDir = d // runs against scratch copies of the repository never overwrite the registered evidence
	}
	os.MkdirAll(evDir, 0o755)
	os.WriteFile(filepath.Join(evDir, id+".json"), eb, 0o644)

	fmt.Printf("%s %s seed=%d: evaluated=%d distinct_nontrivial=%d discarded=%d violations=%d known=%d inconclusive=%d wall=%.1fs\n",
		id, o.Tier, o.Seed, o.Sum.Evaluations, len(o.fps), o.Sum.Discarded, nViol, len(knownHit), len(o.inconclusive), time.Since(o.Start).Seconds())

	if os.Getenv("VERIF_KEEP_WORK") == "" {
		os.RemoveAll(o.WorkDir)
	}
	if nViol > 0 {
		return 1
	}
	if len(o.inconclusive) > 0 {
		return 2
	}
	return 0
}

func head(xs []string, n int) []string {
	if len(xs) > n {
		return xs[:n]
	}
	if xs == nil {
		return []string{}
	}
	return xs
}

func oneLine(s string) string {
	s = strings.ReplaceAll(s, "\n", " | ")
	if len(s) > 300 {
		s = s[:300]
	}
	return s
}

func sanitize(s string) string {
	var b strings.Builder
	for _, r := range s {
		if (r >= 'a' && r <= 'z') || (r >= 'A' && r <= 'Z') || (r >= '0' && r <= '9') || r == '-' || r == '_' {
			b.WriteRune(r)
		} else {
			b.WriteRune('_')
		}
	}
	if b.Len() > 40 {
		return b.String()[:40]
	}
	return b.String()
}

// Replay re-runs the single case named in a witness file and reports.
func Replay(p Property, path string) int {
	b, err := os.ReadFile(path)
	if err != nil {
		fmt.Println("cannot read replay file:", err)
		return 2
	}
	var w struct {
		Tier      string `json:"tier"`
		Seed      int64  `json:"seed"`
		CaseIndex int    `json:"case_index"`
		CaseID    string `json:"case_id"`
		Signature string `json:"signature"`
	}
	if err := json.Unmarshal(b, &w); err != nil {
		fmt.Println("cannot parse replay file:", err)
		return 2
	}
	o := NewOrchestrator(p, w.Tier, w.Seed)
	ji, _, okExit := o.runChild(w.CaseIndex, w.CaseIndex+1, 60, "-replay")
	os.RemoveAll(o.WorkDir)
	rc := 0
	for _, v := range ji.violations {
		fmt.Printf("VIOLATION property=%s replay=%s\n  signature: %s\n  what: %s\n", p.ID(), path, v.Signature, v.What)
		rc = 1
	}
	if !okExit && rc == 0 {
		fmt.Printf("replay of %s: child did not finish normally (hang=%d crash begun=%d)\n", w.CaseID, ji.hang, ji.lastBegun)
		fmt.Printf("VIOLATION property=%s replay=%s\n", p.ID(), path)
		return 1
	}
	if rc == 0 {
		fmt.Printf("replay of %s (%s): no violation on the current tree\n", w.CaseID, w.Signature)
	}
	return rc
}
