package p11

import (
	"fmt"
	"runtime/debug"
	"sort"
	"strings"

	"github.com/nyaruka/goflow/excellent"
	"github.com/shopspring/decimal"

	"verif/internal/fw"
)

// helpers over goflow's exported syntax tree -----------------------------------------------------

func kind(e excellent.Expression) string {
	switch e.(type) {
	case *excellent.ContextReference:
		return "ContextReference"
	case *excellent.DotLookup:
		return "DotLookup"
	case *excellent.ArrayLookup:
		return "ArrayLookup"
	case *excellent.FunctionCall:
		return "FunctionCall"
	case *excellent.AnonFunction:
		return "AnonFunction"
	case *excellent.Concatenation:
		return "Concatenation"
	case *excellent.Addition:
		return "Addition"
	case *excellent.Subtraction:
		return "Subtraction"
	case *excellent.Multiplication:
		return "Multiplication"
	case *excellent.Division:
		return "Division"
	case *excellent.Exponent:
		return "Exponent"
	case *excellent.Negation:
		return "Negation"
	case *excellent.Equality:
		return "Equality"
	case *excellent.InEquality:
		return "InEquality"
	case *excellent.LessThan:
		return "LessThan"
	case *excellent.LessThanOrEqual:
		return "LessThanOrEqual"
	case *excellent.GreaterThan:
		return "GreaterThan"
	case *excellent.GreaterThanOrEqual:
		return "GreaterThanOrEqual"
	case *excellent.Parentheses:
		return "Parentheses"
	case *excellent.TextLiteral:
		return "TextLiteral"
	case *excellent.NumberLiteral:
		return "NumberLiteral"
	case *excellent.BooleanLiteral:
		return "BooleanLiteral"
	case *excellent.NullLiteral:
		return "NullLiteral"
	case nil:
		return "nil"
	}
	return fmt.Sprintf("%T", e)
}

func children(e excellent.Expression) []excellent.Expression {
	switch t := e.(type) {
	case *excellent.DotLookup:
		return []excellent.Expression{t.Container}
	case *excellent.ArrayLookup:
		return []excellent.Expression{t.Container, t.Lookup}
	case *excellent.FunctionCall:
		return append([]excellent.Expression{t.Func}, t.Params...)
	case *excellent.AnonFunction:
		return []excellent.Expression{t.Body}
	case *excellent.Concatenation:
		return []excellent.Expression{t.Exp1, t.Exp2}
	case *excellent.Addition:
		return []excellent.Expression{t.Exp1, t.Exp2}
	case *excellent.Subtraction:
		return []excellent.Expression{t.Exp1, t.Exp2}
	case *excellent.Multiplication:
		return []excellent.Expression{t.Exp1, t.Exp2}
	case *excellent.Division:
		return []excellent.Expression{t.Exp1, t.Exp2}
	case *excellent.Exponent:
		return []excellent.Expression{t.Expression, t.Exponent}
	case *excellent.Negation:
		return []excellent.Expression{t.Exp}
	case *excellent.Equality:
		return []excellent.Expression{t.Exp1, t.Exp2}
	case *excellent.InEquality:
		return []excellent.Expression{t.Exp1, t.Exp2}
	case *excellent.LessThan:
		return []excellent.Expression{t.Exp1, t.Exp2}
	case *excellent.LessThanOrEqual:
		return []excellent.Expression{t.Exp1, t.Exp2}
	case *excellent.GreaterThan:
		return []excellent.Expression{t.Exp1, t.Exp2}
	case *excellent.GreaterThanOrEqual:
		return []excellent.Expression{t.Exp1, t.Exp2}
	case *excellent.Parentheses:
		return []excellent.Expression{t.Exp}
	}
	return nil
}

func isOperator(e excellent.Expression) bool {
	switch e.(type) {
	case *excellent.Concatenation, *excellent.Addition, *excellent.Subtraction, *excellent.Multiplication, *excellent.Division,
		*excellent.Exponent, *excellent.Negation, *excellent.Equality, *excellent.InEquality, *excellent.LessThan,
		*excellent.LessThanOrEqual, *excellent.GreaterThan, *excellent.GreaterThanOrEqual:
		return true
	}
	return false
}

// walk visits e and all its descendants, parents first. A nil child (never produced by a
// successful parse) is skipped.
func walk(e excellent.Expression, f func(excellent.Expression)) {
	if e == nil {
		return
	}
	f(e)
	for _, c := range children(e) {
		walk(c, f)
	}
}

func allNodes(e excellent.Expression) []excellent.Expression {
	var out []excellent.Expression
	walk(e, func(n excellent.Expression) { out = append(out, n) })
	return out
}

// shape is the coarse description of a (minimal failing) term used in signatures: its kind and
// the kinds of its children, with the few traits of leaves that matter for printing.
func shape(e excellent.Expression) string {
	cs := children(e)
	if len(cs) == 0 {
		return kind(e) + traits(e)
	}
	parts := make([]string, len(cs))
	for i, c := range cs {
		parts[i] = kind(c) + traits(c)
	}
	if fc, ok := e.(*excellent.FunctionCall); ok && len(parts) > 3 {
		_ = fc
		parts = append(parts[:3], "…")
	}
	return kind(e) + "(" + strings.Join(parts, ",") + ")"
}

func traits(e excellent.Expression) string {
	switch t := e.(type) {
	case *excellent.TextLiteral:
		if strings.HasSuffix(t.Value.Native(), `\`) {
			return "[ends-in-backslash]"
		}
	case *excellent.ContextReference:
		if !isASCII(t.Name) {
			return "[non-ascii]"
		}
	}
	return ""
}

func isASCII(s string) bool {
	for i := 0; i < len(s); i++ {
		if s[i] >= 0x80 {
			return false
		}
	}
	return true
}

// parsing / printing with panic capture -------------------------------------------------------

type panicInfo struct {
	rec   any
	stack string
}

func (p *panicInfo) String() string { return fmt.Sprint(p.rec) }

func safeParse(text string) (e excellent.Expression, err error, pn *panicInfo) {
	defer func() {
		if rec := recover(); rec != nil {
			pn = &panicInfo{rec, string(debug.Stack())}
		}
	}()
	fw.SetDetail("excellent.Parse: " + clip(text, 300))
	e, err = excellent.Parse(text, nil)
	return
}

func safeString(e excellent.Expression) (s string, pn *panicInfo) {
	defer func() {
		if rec := recover(); rec != nil {
			pn = &panicInfo{rec, string(debug.Stack())}
		}
	}()
	return e.String(), nil
}

func clip(s string, n int) string {
	if len(s) <= n {
		return s
	}
	for n > 0 && (s[n]&0xC0) == 0x80 {
		n--
	}
	return s[:n] + "…"
}

// hazard ------------------------------------------------------------------------------------------
//
// Inputs whose *evaluation* is known (C04's findings) or expected to be disproportionately
// expensive are not evaluated: a print/parse check has no use for 10^(10^9). The rule is static
// and errs on the side of skipping.

func smallNumber(e excellent.Expression, max int64) bool {
	switch t := e.(type) {
	case *excellent.NumberLiteral:
		return t.Value.Native().Abs().LessThanOrEqual(decimal.NewFromInt(max))
	case *excellent.Negation:
		return smallNumber(t.Exp, max)
	case *excellent.Parentheses:
		return smallNumber(t.Exp, max)
	case *excellent.BooleanLiteral, *excellent.NullLiteral:
		return true
	case *excellent.ContextReference:
		return strings.EqualFold(t.Name, "zed") // a boolean in every context
	case *excellent.Addition: // (1+1)
		return smallNumber(t.Exp1, 5) && smallNumber(t.Exp2, 5)
	}
	return false
}

func hazard(root excellent.Expression) string {
	why := ""
	nExp, nRepeat, nodes := 0, 0, 0
	walk(root, func(n excellent.Expression) {
		nodes++
		switch t := n.(type) {
		case *excellent.Exponent:
			nExp++
			if !smallNumber(t.Exponent, 10) {
				why = "exponent-not-small"
			}
		case *excellent.FunctionCall:
			name := ""
			if ref, ok := t.Func.(*excellent.ContextReference); ok {
				name = strings.ToLower(ref.Name)
			} else {
				// a computed callee could be any function: be careful with what it is given
				name = "?"
			}
			switch name {
			case "round", "round_up", "round_down", "?":
				if len(t.Params) >= 2 && !smallNumber(t.Params[1], 30) {
					why = "round-places-not-small"
				}
			}
			switch name {
			case "repeat", "?":
				nRepeat++
				if len(t.Params) >= 2 && !smallNumber(t.Params[1], 10) {
					why = "repeat-count-not-small"
				}
			}
		}
	})
	if nExp > 3 {
		why = "exponent-tower"
	}
	if nRepeat > 2 {
		why = "repeat-nest"
	}
	if nodes > 400 {
		why = "too-large"
	}
	return why
}

// multiset of context references ------------------------------------------------------------------

func contextRefs(e excellent.Expression) []string {
	var out []string
	walk(e, func(n excellent.Expression) {
		if r, ok := n.(*excellent.ContextReference); ok {
			out = append(out, strings.ToLower(r.Name))
		}
	})
	sort.Strings(out)
	return out
}

// scopedRefs lists the context references of an expression with the uses of lambda parameters told apart: a name that
// an enclosing anonymous function binds (compared as the evaluator's scope does, case-insensitively) refers to that
// parameter, not to the context, and is listed as "λ:"+name.
func scopedRefs(e excellent.Expression) []string {
	var out []string
	var rec func(e excellent.Expression, bound []string)
	rec = func(e excellent.Expression, bound []string) {
		switch t := e.(type) {
		case nil:
			return
		case *excellent.ContextReference:
			n := strings.ToLower(t.Name)
			for _, b := range bound {
				if b == n {
					out = append(out, "λ:"+n)
					return
				}
			}
			out = append(out, n)
			return
		case *excellent.AnonFunction:
			nb := append([]string{}, bound...)
			for _, a := range t.Args {
				nb = append(nb, strings.ToLower(a))
			}
			bound = nb
		}
		for _, c := range children(e) {
			rec(c, bound)
		}
	}
	rec(e, nil)
	sort.Strings(out)
	return out
}

func lambdaParams(e excellent.Expression) []string {
	var out []string
	walk(e, func(n excellent.Expression) {
		if f, ok := n.(*excellent.AnonFunction); ok {
			out = append(out, f.Args...)
		}
	})
	return out
}
