package p11

import (
	"fmt"
	"runtime/debug"
	"strings"
	"unicode/utf8"

	"github.com/nyaruka/goflow/excellent"

	"verif/internal/fw"
)

// C12, second part: the quoted literal *embedded in a template* ("alone and embedded next to other expressions and
// literals in a template"), and two input classes the first part did not produce:
//
//   - parentheses in the text around an expression that pair up with parentheses inside its quoted literals (a literal
//     with an unmatched opening parenthesis followed by text with the closing ones, and the mirror image) - only the
//     parentheses outside the literals say where the expression ends;
//   - long strings (beyond any buffer size of the scanner's input: 0.5 .. 20 KB) made of characters of 2, 3 and 4
//     bytes at every byte alignment.
//
// Clause (e): body1 + "@(" + E + ")" + body2, with body texts free of '@' and E an expression around quoted literals
// whose value is known (and which Evaluator.Expression evaluates to that value), must evaluate through
// Evaluator.Template to body1 + value + body2. Clause (d) is also observed through excellent.VisitTemplate (the entry
// point the evaluator, the refactoring tools and the inspection use), not just through the bare scanner.
//
// The new strings and body texts are drawn from a stream of their own (seed, "C12/extra", index), so the content the
// first part generates for an index is unchanged.

const (
	c12ParenStringsPerCase = 4
	c12LongStringsPerCase  = 1
	classParens            = "parentheses-in-text-around-expression"
	classNonASCII          = "non-ascii-characters"
)

// generators -------------------------------------------------------------------------------------

var parenFill = []string{"", " ", "a", "see ", "1", ":", " :", "-", ".", "é", "日", "😀", `"`, `\`, `\"`, "'", ",", "&", "x y", "\n"}

// parenString: a string with parentheses, half of the time of one kind only (then nothing inside the literal pairs
// them up)
func parenString(r *fw.Rand) string {
	var marks []string
	switch r.Intn(4) {
	case 0, 1:
		marks = []string{"(", "(", "(("}
	case 2:
		marks = []string{")", ")", "))"}
	default:
		marks = []string{"(", ")", "()", ")(", "((", "))"}
	}
	var b strings.Builder
	n := r.Range(1, 4)
	for i := 0; i < n; i++ {
		b.WriteString(fw.Pick(r, parenFill))
		b.WriteString(fw.Pick(r, marks))
	}
	b.WriteString(fw.Pick(r, parenFill))
	return b.String()
}

// textWith gives body text (no '@') holding exactly n copies of mark and no other parenthesis; endsOnMark: the mark is
// the last character
func textWith(r *fw.Rand, mark string, n int, endsOnMark bool) string {
	var b strings.Builder
	for i := 0; i < n; i++ {
		b.WriteString(fw.Pick(r, parenFill))
		b.WriteString(mark)
	}
	if !endsOnMark {
		b.WriteString(fw.Pick(r, parenFill))
	}
	return b.String()
}

func parenDelta(s string) int { return strings.Count(s, "(") - strings.Count(s, ")") }

// balancingBodies: body texts whose parentheses pair up with the unpaired ones of the expression text (inside its
// literals, since the expression itself is balanced), sometimes off by one
func balancingBodies(r *fw.Rand, expr string) (b1, b2 string) {
	d := parenDelta(expr)
	if r.Chance(0.2) {
		d += r.Range(-1, 1)
	}
	switch {
	case d > 0:
		if r.Chance(0.35) {
			b1 = fw.Pick(r, parenFill)
		}
		b2 = textWith(r, ")", d, r.Chance(0.7))
	case d < 0:
		b1 = textWith(r, "(", -d, r.Chance(0.5))
		if r.Chance(0.5) {
			b2 = fw.Pick(r, parenFill)
		}
	default:
		b1 = fw.Pick(r, []string{"", "", "(", "Hi ", "a (b) "})
		b2 = fw.Pick(r, []string{"", ")", " :)", " (approx.)", " ()", ")(", " ok", "\n"})
	}
	return b1, b2
}

var (
	long2 = []string{"é", "ß", "ñ", "µ", "Ω", "я", "ж", " ", "́"}
	long3 = []string{"日", "本", "語", "€", " ", "한", "​", "�", "ก"}
	long4 = []string{"😀", "𝒳", "👋", "🏽", "\U0010FFFF", "𠀀"}
	long1 = []string{"a", "b", " ", "x", "Hello there. ", "0", ".", "\n", "(", ")", `"`, `\`, "mail bob@@example.com ", "'", "&"}
)

// longString: 0.5 .. 12 KB, sizes biased to the neighbourhood of powers of two, characters of one width or of all widths
// mixed with ASCII in a random proportion - so that multi-byte characters fall at every byte alignment
func longString(r *fw.Rand) string {
	var target int
	switch r.Intn(20) {
	case 0, 1, 2, 3, 4, 5, 6, 7:
		target = r.Range(513, 700)
	case 8, 9, 10, 11, 12, 13, 14:
		target = r.Range(700, 2100)
	case 15, 16:
		target = r.Range(4000, 4300)
	case 17:
		target = r.Range(8100, 8400)
	default:
		target = r.Range(2100, 12000)
	}
	var pools [][]string
	switch r.Intn(5) {
	case 0:
		pools = [][]string{long2}
	case 1:
		pools = [][]string{long3}
	case 2:
		pools = [][]string{long4}
	default:
		pools = [][]string{long2, long3, long4}
	}
	ascii := fw.Pick(r, []float64{0, 0.1, 0.5, 0.9})
	var b strings.Builder
	b.WriteString(strings.Repeat("x", r.Intn(4)))
	for b.Len() < target {
		if r.Chance(ascii) {
			b.WriteString(fw.Pick(r, long1))
		} else {
			b.WriteString(fw.Pick(r, fw.Pick(r, pools)))
		}
	}
	return b.String()
}

// observation ------------------------------------------------------------------------------------

// visitAll collects the tokens excellent.VisitTemplate hands to its callback
func visitAll(tpl string, tops []string) (toks []token, pn *panicInfo) {
	defer func() {
		if rec := recover(); rec != nil {
			pn = &panicInfo{rec, string(debug.Stack())}
		}
	}()
	fw.SetDetail("excellent.VisitTemplate: " + clip(tpl, 300))
	excellent.VisitTemplate(tpl, tops, true, func(tt excellent.XTokenType, t string) error {
		toks = append(toks, token{tt, t})
		return nil
	})
	return toks, nil
}

func squareBrackets(s string) string {
	return strings.NewReplacer("(", "[", ")", "]").Replace(s)
}

func asciiOnly(s string) string {
	if isASCII(s) {
		return s
	}
	var b strings.Builder
	for _, c := range s {
		if c < utf8.RuneSelf {
			b.WriteRune(c)
		} else {
			b.WriteByte('x')
		}
	}
	return b.String()
}

// embeddedOK evaluates body1@(E)body2 for the form and values (in the context the form needs)
func (k *c12run) embeddedOK(f form, vals []string, b1, b2 string) bool {
	ctx := k.ctx
	defer func() { k.ctx = ctx }()
	k.ctx = c12Context(vals[0])
	expr, accept, _ := f.build(vals)
	return k.templateOK(b1+"@("+expr+")"+b2, embeddedAccept(accept, b1, b2))
}

func embeddedAccept(accept func(string) bool, b1, b2 string) func(string) bool {
	return func(out string) bool {
		return len(out) >= len(b1)+len(b2) && strings.HasPrefix(out, b1) && strings.HasSuffix(out, b2) && accept(out[len(b1):len(out)-len(b2)])
	}
}

// embeddedClass names the cause of a failure by removing one ingredient at a time and looking whether the rest holds
func (k *c12run) embeddedClass(f form, vals []string, b1, b2 string) string {
	if rv := repairVals(vals); rv != nil && (f.applies == nil || f.applies(rv)) && k.embeddedOK(f, rv, b1, b2) {
		return classBackslash
	}
	if s1, s2 := squareBrackets(b1), squareBrackets(b2); (s1 != b1 || s2 != b2) && k.embeddedOK(f, vals, s1, s2) {
		return classParens
	}
	av := make([]string, len(vals))
	for i, v := range vals {
		av[i] = asciiOnly(v)
	}
	a1, a2 := asciiOnly(b1), asciiOnly(b2)
	if (a1 != b1 || a2 != b2 || strings.Join(av, "\x00") != strings.Join(vals, "\x00")) && (f.applies == nil || f.applies(av)) && k.embeddedOK(f, av, a1, a2) {
		return classNonASCII
	}
	return "other"
}

// checkEmbedded is clause (e)
func (k *c12run) checkEmbedded(f form, vals []string, b1, b2 string) {
	if f.applies != nil && !f.applies(vals) {
		return
	}
	if strings.ContainsAny(b1+b2, "@\x00") {
		return
	}
	ctx := k.ctx
	defer func() { k.ctx = ctx }()
	k.ctx = c12Context(vals[0])
	expr, accept, want := f.build(vals)
	if !wellFormedLiterals(expr) {
		k.res.Count("e.skipped_literal_closed_by_lexer_backtracking", 1)
		return
	}
	if !k.directOK(expr, accept) {
		k.res.Count("e.skipped_expression_judged_by_b_c", 1) // the expression itself is not right: clauses (b), (c) report that
		return
	}
	tpl := b1 + "@(" + expr + ")" + b2
	k.res.Count("clause.e.embedded_template", 1)
	k.res.Seen("forms_embedded", f.name)
	if d := parenDelta(expr); d != 0 {
		k.res.Count("e.literal_with_unpaired_parenthesis", 1)
		if parenDelta(tpl) == 0 {
			k.res.Count("e.unpaired_parentheses_of_literal_paired_by_text", 1)
		}
	}
	if b1 == "" && strings.HasSuffix(b2, ")") {
		k.res.Count("e.template_starts_with_expression_and_ends_on_parenthesis", 1)
	}
	if len(tpl) > 512 {
		k.res.Count("e.templates_over_512_bytes", 1)
	}
	if len(tpl) > 4096 {
		k.res.Count("e.templates_over_4096_bytes", 1)
	}
	wantToks := normTokens([]token{{excellent.BODY, b1}, {excellent.EXPRESSION, expr}, {excellent.BODY, b2}})
	o := evalTemplate(k.env, k.ctx, tpl)
	vt, vpn := visitAll(tpl, k.ctx.Properties())
	visitOK := vpn == nil && tokensEqual(normTokens(vt), wantToks)
	if !o.panicked && !o.hasErr && embeddedAccept(accept, b1, b2)(o.out) && visitOK {
		return
	}
	toks, spn := scanAll(tpl, k.ctx.Properties())
	level := "embedded"
	if spn != nil || !tokensEqual(normTokens(toks), wantToks) {
		level = "scanner"
	} else if !visitOK {
		level = "visit-template"
	}
	class := k.embeddedClass(f, vals, b1, b2)
	k.res.Count("violations.embedded", 1)
	k.res.Violate("literal|"+level+"|"+class,
		fmt.Sprintf("body1@(E)body2 with E built around quoted literals (%s) and evaluating to its value as an expression does not evaluate to body1 + value + body2 (level %s: scanner = the bare scanner already delimits another expression; visit-template = the scanner is right but VisitTemplate hands out other tokens; embedded = the tokens are right, the output is not)", f.name, level),
		map[string]any{"form": f.name, "values": clipAll(vals, 300), "body1": clip(b1, 300), "body2": clip(b2, 300), "template": clip(tpl, 600), "template_bytes": len(tpl),
			"expected": clip(b1+want+b2, 600), "observed": o.describe(), "first_difference_at_byte": firstDiffByte(o.out, b1+want+b2),
			"expected_tokens": describeTokens(wantToks), "scanner_tokens": describeTokens(toks), "visit_template_tokens": describeTokens(vt)})
}

func clipAll(v []string, n int) []string {
	out := make([]string, len(v))
	for i, s := range v {
		out[i] = clip(s, n)
	}
	return out
}

func firstDiffByte(a, b string) int {
	i := 0
	for i < len(a) && i < len(b) && a[i] == b[i] {
		i++
	}
	return i
}

// checkVisit is clause (d) seen through VisitTemplate: called when the bare scanner already gave the expected tokens
func (k *c12run) checkVisit(b1, e, b2 string, want []token) {
	tpl := b1 + "@(" + e + ")" + b2
	k.res.Count("clause.d.visit_template_tokens", 1)
	vt, pn := visitAll(tpl, c12Tops)
	if pn == nil && tokensEqual(normTokens(vt), want) {
		return
	}
	class := "other"
	if s1, s2 := squareBrackets(b1), squareBrackets(b2); s1 != b1 || s2 != b2 {
		w2 := normTokens([]token{{excellent.BODY, s1}, {excellent.EXPRESSION, e}, {excellent.BODY, s2}})
		if v2, pn2 := visitAll(s1+"@("+e+")"+s2, c12Tops); pn2 == nil && tokensEqual(normTokens(v2), w2) {
			class = classParens
		}
	}
	k.res.Count("violations.visit_template", 1)
	k.res.Violate("literal|visit-template|"+class, "the bare scanner delimits the expression the parser accepts, but excellent.VisitTemplate hands its callback other tokens for the same template",
		map[string]any{"template": clip(tpl, 600), "expression": clip(e, 400), "expected_tokens": describeTokens(want), "visit_template_tokens": describeTokens(vt)})
}

// workload ---------------------------------------------------------------------------------------

// embedOne: one form around s (and t) embedded between balancing bodies
func (k *c12run) embedOne(r *fw.Rand, s, t string, f form) {
	vals := []string{s, t}
	if f.applies != nil && !f.applies(vals) {
		return
	}
	expr, _, _ := f.build(vals)
	b1, b2 := balancingBodies(r, expr)
	k.checkEmbedded(f, vals, b1, b2)
}

// extras: the strings of the two new classes for a generated case, and clause (e) for the case's ordinary strings
func (k *c12run) extras(r *fw.Rand, strs []string) (added []string) {
	for _, s := range strs {
		t := fw.Pick(r, []string{"", "b", `"`, "(", ")", "((", "é"})
		k.embedOne(r, s, t, c12Forms[r.Intn(len(c12Forms))])
	}
	main := k.r
	k.r = r
	defer func() { k.r = main }()
	for i := 0; i < c12ParenStringsPerCase; i++ {
		s, t := parenString(r), fw.Pick(r, []string{"", "b", "(", ")", "x (y", `"`})
		added = append(added, s)
		k.res.Count("strings.parenthesis_class", 1)
		k.checkString(s, t, false)
		k.embedOne(r, s, t, formByName("alone"))
		k.embedOne(r, s, t, c12Forms[r.Intn(len(c12Forms))])
		k.embedOne(r, s, t, c12Forms[r.Intn(len(c12Forms))])
	}
	for i := 0; i < c12LongStringsPerCase; i++ {
		s, t := longString(r), fw.Pick(r, []string{"", "b", "é", "日本"})
		added = append(added, s)
		k.long(r, s, t, false)
	}
	return added
}

// long: one long string. The generated lexer has no cached transitions for characters outside ASCII (some microseconds
// per character), so a long literal goes through it only a handful of times (alone as an expression and as a template,
// printed, embedded); the body texts around a short literal and clause (a) do not involve the lexer and are cheap.
func (k *c12run) long(r *fw.Rand, s, t string, allForms bool) {
	k.res.Count("strings.long_over_512_bytes", 1)
	if !isASCII(s) {
		k.res.Count("strings.long_with_multibyte_characters", 1)
	}
	if allForms {
		k.checkString(s, t, true)
	} else {
		k.res.Count("strings.total", 1)
		k.ctx = c12Context(s)
		k.checkForm(formByName("alone"), []string{s, t})
	}
	// (a) the string itself as body text
	k.checkBody(strings.ReplaceAll(s, "@", "@@"))
	k.checkBody("Hi @@ " + strings.ReplaceAll(s, "@", "") + " bob@nyaruka.com")
	// (e) between body texts
	body := strings.ReplaceAll(s, "@", "")
	f := formByName("alone")
	if r.Chance(0.3) {
		f = c12Forms[r.Intn(len(c12Forms))]
	}
	k.checkEmbedded(f, []string{s, t}, fw.Pick(r, []string{"", "Hi ", "é", "日", "x"}), fw.Pick(r, []string{"", " :)", ")", " é"}))
	// a short literal after / before / between long body texts
	k.checkEmbedded(formByName("alone"), []string{t}, body, "")
	k.checkEmbedded(formByName("concat"), []string{t, "é日😀"}, body, body)
	k.checkScanner(body, quote(t)+" & "+quote("é日😀"), body, func() (string, bool) { return "", false })
}

func (k *c12run) directedLong() {
	r := k.r
	// by construction: strings made of one character of 2, 3 or 4 bytes only, moved along by 0 .. width-1 bytes, so
	// that whatever byte offset a reader stops at, it is inside a character in all but one of the variants
	for _, ch := range []string{"é", "日", "😀"} {
		for _, size := range []int{600, 1100, 4200, 9000, 20000} {
			for shift := 0; shift < len(ch); shift++ {
				s := strings.Repeat("x", shift) + strings.Repeat(ch, size/len(ch))
				if size <= 9000 {
					k.long(r, s, "b", size == 600)
				} else {
					k.checkBody(s)
					k.checkEmbedded(formByName("alone"), []string{"b"}, s, s)
				}
			}
		}
	}
	// mixed
	for i := 0; i < 20; i++ {
		k.long(r, longString(r), "b", false)
	}
}

func (k *c12run) directedParens() {
	r := k.r
	// by construction: a literal with n unpaired opening parentheses, followed by text with the n closing ones; and
	// the mirror image; every form; template starting with the expression / ending on the parenthesis or not
	for n := 1; n <= 3; n++ {
		for _, fill := range []string{"", " ", "see ", `"`, `\`, "é"} {
			open := strings.Repeat(fill+"(", n) + fill
			shut := strings.Repeat(fill+")", n) + fill
			k.res.Count("strings.parenthesis_class", 2)
			for _, f := range c12Forms {
				for _, sep := range []string{"", " ", " :", "x"} {
					k.checkEmbedded(f, []string{open, "b"}, "", rep(sep+")", nClosers(f, open, "b")))
					k.checkEmbedded(f, []string{open, "b"}, "", rep(sep+")", nClosers(f, open, "b"))+" ok")
					k.checkEmbedded(f, []string{open, "b"}, "Hi ", rep(sep+")", nClosers(f, open, "b")))
					k.checkEmbedded(f, []string{shut, "b"}, rep("("+sep, -nClosers(f, shut, "b")), "")
					k.checkEmbedded(f, []string{shut, "b"}, rep("("+sep, -nClosers(f, shut, "b")), " ok)")
				}
			}
			k.checkString(open, shut, true)
			k.checkString(shut, open, true)
		}
	}
	// drawn
	for i := 0; i < 300; i++ {
		s, t := parenString(r), parenString(r)
		k.res.Count("strings.parenthesis_class", 1)
		for j := 0; j < 4; j++ {
			k.embedOne(r, s, t, c12Forms[r.Intn(len(c12Forms))])
		}
	}
}

// nClosers: how many closing parentheses the expression text of the form lacks (negative: opening ones)
func nClosers(f form, s, t string) int {
	expr, _, _ := f.build([]string{s, t})
	return parenDelta(expr)
}

func rep(s string, n int) string {
	if n <= 0 {
		return ""
	}
	return strings.Repeat(s, n)
}
