// Package p11 holds the runtime-monitoring checks for C11 (printing and re-parsing an expression
// preserves its meaning) and C12 (literal text and string literals are represented faithfully).
package p11

import (
	"fmt"
	"runtime/debug"
	"sort"
	"strings"
	"time"

	"github.com/nyaruka/gocommon/dates"
	"github.com/nyaruka/goflow/envs"
	"github.com/nyaruka/goflow/excellent"
	"github.com/nyaruka/goflow/excellent/functions"
	"github.com/nyaruka/goflow/excellent/refactor"
	"github.com/nyaruka/goflow/excellent/types"
	"github.com/shopspring/decimal"

	"verif/internal/fw"
	"verif/internal/gen"
)

type c11 struct{}

func init() {
	fw.Register(&c11{})
	fw.Register(&c12{})
}

const (
	c11ExprsPerCase = 40
	c11TplsPerCase  = 10
	c11Contexts     = 8
)

func (p *c11) ID() string { return "C11" }
func (p *c11) Rule() string {
	return fmt.Sprintf("a case = %d expression texts + %d template texts derived from antlr/Excellent3.g4 (all operators with mixed precedence/associativity, unary-minus chains, redundant/missing parentheses, dot/index lookups with names, integers and quoted keys, calls of every deterministic registered function, lambdas, every spelling of text/number/boolean/null literals, random case and white space; templates add body text, '@@' and @identifiers), each evaluated in %d random (environment, context) pairs. For every text the real parser accepts: print, re-parse, print again, evaluate original and printed tree; for every template: refactor.Template with an identity transformation (keeping and re-printing) and with ContextRefRename(a -> b.c). Appended to every case from a stream of its own: 3 expressions + 1 template with chains of numeric dot lookups (keys up to 26 digits, contexts holding such keys); a batch of 4 templates (2 with anonymous functions whose parameter has the renamed name) rewritten by ONE ContextRefRename transformation, sequentially and (a third of the cases) by 8 goroutines at once, each output compared with that of a transformation of its own; one 13.2.0 flow definition with a localization section run through the 13.3 migration, every base and translated template judged by value in ctx[webhook.json := ctx[webhook]]. An expression is non-trivial when it parsed and its tree has >= 2 operators or a lookup/call; a case is non-trivial when it holds such an expression; distinct = distinct case texts.", c11ExprsPerCase, c11TplsPerCase, c11Contexts)
}
func (p *c11) Directed() []string {
	return []string{"associativity", "literals", "lookups-lambdas", "refactor-tests", "doc-examples", "known:integer-dot-chain", "known:number-trailing-zeros", "known:trailing-backslash", "known:cherokee-identifier", "rename-lambda-capture", "known:rename-casefold",
		"numeric-dot-chains", "rename-shared-transformation", "migration-localized"}
}
func (p *c11) NumGenerated(tier string) int {
	if tier == "thorough" {
		return 40000
	}
	return 1600
}
func (p *c11) BatchSize(tier string) int {
	if tier == "thorough" {
		return 150
	}
	return 25
}
func (p *c11) CaseTimeoutS() int { return 30 }
func (p *c11) Floors(tier string) []string {
	return []string{"exprs.parsed", "exprs.nontrivial", "clause.print_parses", "clause.fixed_point", "clause.value_alike", "value.both_value", "value.both_error",
		"clause.identity_unchanged", "clause.identity_reprinted", "clause.rename_value", "clause.rename_refs", "rename.references_renamed",
		"exprs.numeric_dot_chain_key_beyond_int64", "rename.shadowed_by_lambda_parameter", "clause.rename_shared_sequential", "clause.rename_shared_concurrent",
		"clause.migration_value", "migration.translation_refers_base_does_not"}
}

func (p *c11) ExtraEvidence(tier string, counters map[string]int64) map[string]any {
	return map[string]any{
		"expression_evaluation_pairs": counters["clause.value_alike"],
		"template_evaluation_pairs":   counters["clause.identity_unchanged"] + counters["clause.identity_reprinted"] + counters["clause.rename_value"],
		"contexts_per_expression":     c11Contexts,
		"functions_generated_from":    len(deterministicFunctions()),
		"functions_excluded":          []string{"rand", "rand_between", "now", "today", "has_error (returns the error message, which quotes the expression text)"},
		"clock":                       "dates.Now fixed for the whole run (2-digit years and time-only parsing read it)",
	}
}

func fixClock() {
	dates.SetNowFunc(dates.NewFixedNow(time.Date(2024, 5, 17, 13, 45, 30, 123456789, time.UTC)))
}

type evalCtx struct {
	env envs.Environment
	ctx *types.XObject
}

type c11run struct {
	res          *fw.Result
	r            *fw.Rand
	ctxs         []evalCtx
	tops         []string
	topsAnyOrder []string
	nontrivial   int
	sampleExpr   map[string]any
}

type failure struct {
	kind   string // print-panic | reparse-panic | unparseable | not-fixed-point | value | refs | refactor-panic
	detail string // for refs: what differs
	what   string
	wit    map[string]any
	// for template failures: did the scanner split original and rewritten template into a different
	// number of tokens?
	tokensDiffer bool
}

func (p *c11) Run(c fw.Case) fw.Result {
	res := fw.Result{}
	r := fw.NewRand(c.Seed, "C11", c.Index)
	if c.Directed != "" {
		r = fw.NewRand(0, "C11", c.Index) // the directed corpus does not depend on the seed
	}
	fixClock()
	k := &c11run{res: &res, r: r}
	cr := r.Fork("contexts")
	for i := 0; i < c11Contexts; i++ {
		k.ctxs = append(k.ctxs, evalCtx{gen.Env(cr), buildContext(cr)})
	}
	k.tops = k.ctxs[0].ctx.Properties()
	// the caller of refactor.Template names the allowed top-levels in whatever order it likes
	k.topsAnyOrder = append([]string{}, k.tops...)
	fw.Shuffle(k.r, k.topsAnyOrder)

	var exprs, tpls []string
	if c.Directed != "" {
		exprs, tpls = c11Directed(c.Directed)
	} else {
		for i := 0; i < c11ExprsPerCase; i++ {
			exprs = append(exprs, genExpr(r, r.Chance(0.015)))
		}
		for i := 0; i < c11TplsPerCase; i++ {
			tpls = append(tpls, genTemplate(r, r.Chance(0.01)))
		}
	}
	if c.Directed == "doc-examples" {
		res.Count("doc_examples.loaded", int64(len(tpls)))
	}
	for _, e := range exprs {
		k.checkExpr(e)
	}
	for _, t := range tpls {
		k.checkTemplate(t, c.Directed)
	}
	// the families added later (c11_extra.go): appended, from a random stream of their own
	extra := ""
	if c.Directed != "" {
		extra, _ = k.extraDirected(c.Directed)
	} else {
		extra = k.extras(c)
	}
	res.Fingerprint = strings.Join(exprs, "\x1f") + "\x1e" + strings.Join(tpls, "\x1f") + "\x1e" + extra
	res.NonTrivial = k.nontrivial > 0
	if k.sampleExpr != nil {
		res.Sample = map[string]any{"case": c.ID(), "expressions": len(exprs), "templates": len(tpls), "example": k.sampleExpr}
	}
	return res
}

// expressions -----------------------------------------------------------------------------------

func (k *c11run) checkExpr(text string) {
	k.res.Count("exprs.generated", 1)
	root, err, pn := safeParse(text)
	if pn != nil {
		k.res.Count("exprs.parse_panicked(C04)", 1) // totality of Parse on arbitrary text is C04's statement
		return
	}
	if err != nil {
		k.res.Count("exprs.rejected_by_parser", 1)
		return
	}
	if h := hazard(root); h != "" {
		k.res.Count("exprs.skipped_hazard."+h, 1)
		return
	}
	k.res.Count("exprs.parsed", 1)
	ops, lookups := 0, 0
	walk(root, func(n excellent.Expression) {
		k.res.Count("nodes."+kind(n), 1)
		if isOperator(n) {
			ops++
		}
		switch t := n.(type) {
		case *excellent.DotLookup, *excellent.ArrayLookup:
			lookups++
		case *excellent.FunctionCall:
			lookups++
			if ref, ok := t.Func.(*excellent.ContextReference); ok {
				k.res.Seen("functions_called", strings.ToLower(ref.Name))
			} else {
				k.res.Seen("computed_callees", kind(t.Func))
			}
		}
		if isOperator(n) {
			// operator directly under operator (no parentheses in between): the precedence /
			// associativity interactions that printing has to preserve
			for i, c := range children(n) {
				if isOperator(c) {
					k.res.Seen("operator_nesting", fmt.Sprintf("%s[%d]>%s", kind(n), i, kind(c)))
				}
			}
		}
	})
	k.res.Seen("root_kinds", kind(root))
	k.res.Seen("root_shapes", shape(root))
	if ops >= 2 || lookups >= 1 {
		k.nontrivial++
		k.res.Count("exprs.nontrivial", 1)
	}
	f, printed := k.exprFailure(text, true)
	if k.sampleExpr == nil && (ops >= 2 || lookups >= 1) {
		k.sampleExpr = map[string]any{"text": clip(text, 300), "printed": clip(printed, 300)}
	}
	if f != nil {
		k.reportExpr(text, f)
	}
}

// exprFailure runs the three expression clauses on one parseable text. count=false is used while
// shrinking / classifying (no counters).
func (k *c11run) exprFailure(text string, count bool) (*failure, string) {
	root, err, pn := safeParse(text)
	if pn != nil || err != nil || root == nil {
		return nil, ""
	}
	return k.nodeFailure(root, text, count)
}

// nodeFailure is exprFailure on a tree (a parsed text, or a sub-term of one while shrinking)
func (k *c11run) nodeFailure(root excellent.Expression, text string, count bool) (*failure, string) {
	cnt := func(key string, n int64) {
		if count {
			k.res.Count(key, n)
		}
	}
	p1, pn := safeString(root)
	if pn != nil {
		return &failure{kind: "print-panic", what: "Expression.String() panicked: " + pn.String(),
			wit: map[string]any{"expression": text, "panic": pn.String(), "stack": fw.TrimStack(pn.stack)}}, ""
	}
	cnt("clause.print_parses", 1)
	root1, err, pn := safeParse(p1)
	if pn != nil {
		return &failure{kind: "reparse-panic", what: "parsing the printed expression panicked: " + pn.String(),
			wit: map[string]any{"expression": text, "printed": p1, "panic": pn.String(), "stack": fw.TrimStack(pn.stack)}}, p1
	}
	if err != nil {
		return &failure{kind: "unparseable", what: fmt.Sprintf("the printed form of a parseable expression does not parse: %s", err),
			wit: map[string]any{"expression": text, "printed": p1, "parse_error": err.Error()}}, p1
	}
	cnt("clause.fixed_point", 1)
	p2, pn := safeString(root1)
	if pn != nil {
		return &failure{kind: "print-panic", what: "Expression.String() of the re-parsed tree panicked: " + pn.String(),
			wit: map[string]any{"expression": text, "printed": p1, "panic": pn.String()}}, p1
	}
	if p2 != p1 {
		return &failure{kind: "not-fixed-point", what: "printing is not a fixed point after one round",
			wit: map[string]any{"expression": text, "printed_once": p1, "printed_twice": p2}}, p1
	}
	if p1 != text {
		cnt("exprs.print_differs_from_source", 1)
	}
	for i, ec := range k.ctxs {
		fw.SetDetail("evaluate: " + clip(text, 300))
		o1 := evalNode(ec.env, ec.ctx, root)
		fw.SetDetail("evaluate printed: " + clip(p1, 300))
		o2 := evalNode(ec.env, ec.ctx, root1)
		cnt("clause.value_alike", 1)
		switch {
		case o1.panicked:
			cnt("value.original_panicked(C04)", 1)
		case types.IsXError(o1.val):
			cnt("value.both_error", 1)
		default:
			cnt("value.both_value", 1)
			if count {
				k.res.Seen("value_types", fmt.Sprintf("%T", o1.val))
			}
		}
		if !sameOutcome(ec.env, o1, o2) {
			// never alarm on an input that does not evaluate deterministically by itself
			stable := true
			for j := 0; j < 12 && stable; j++ {
				if !sameOutcome(ec.env, evalNode(ec.env, ec.ctx, root), o1) || !sameOutcome(ec.env, evalNode(ec.env, ec.ctx, root1), o2) {
					stable = false
				}
			}
			if !stable {
				cnt("value.skipped_nondeterministic_input", 1)
				continue
			}
			return &failure{kind: "value", what: "original and printed expression evaluate differently",
				wit: map[string]any{"expression": text, "printed": p1, "context_index": i, "original_value": o1.describe(), "printed_value": o2.describe(),
					"context": clip(types.String(ec.ctx), 1500)}}, p1
		}
	}
	return nil, p1
}

// repairs: mutations of the tree that remove one *known* cause; if the failure disappears the
// failure is attributed to that cause (and only then).
type repair struct {
	name  string
	apply func(root excellent.Expression) bool // returns whether anything was changed
}

var lexerKnowsCache = map[string]bool{}

// lexerKnowsLower: does the lower-cased name still lex as a single NAME?
func lexerKnowsLower(name string) bool {
	l := strings.ToLower(name)
	if v, ok := lexerKnowsCache[l]; ok {
		return v
	}
	e, err, pn := safeParse(l)
	ok := false
	if pn == nil && err == nil {
		_, ok = e.(*excellent.ContextReference)
	}
	lexerKnowsCache[l] = ok
	return ok
}

var repairBackslash = repair{"text-literal-ends-in-backslash", func(root excellent.Expression) bool {
	ch := false
	walk(root, func(n excellent.Expression) {
		if t, ok := n.(*excellent.TextLiteral); ok && strings.HasSuffix(t.Value.Native(), `\`) {
			t.Value = types.NewXText(t.Value.Native() + "x")
			ch = true
		}
	})
	return ch
}}

var repairLowercase = repair{"identifier-lowercase-unknown-to-lexer", func(root excellent.Expression) bool {
	ch := false
	walk(root, func(n excellent.Expression) {
		if t, ok := n.(*excellent.ContextReference); ok && !lexerKnowsLower(t.Name) {
			t.Name = "v_ascii"
			ch = true
		}
	})
	return ch
}}

func allDigits(s string) bool {
	if s == "" {
		return false
	}
	for i := 0; i < len(s); i++ {
		if s[i] < '0' || s[i] > '9' {
			return false
		}
	}
	return true
}

var repairDotChain = repair{"integer-dot-lookup-chain", func(root excellent.Expression) bool {
	ch := false
	walk(root, func(n excellent.Expression) {
		if d, ok := n.(*excellent.DotLookup); ok && allDigits(d.Lookup) {
			if c, ok := d.Container.(*excellent.DotLookup); ok && allDigits(c.Lookup) {
				c.Lookup = "n" + c.Lookup
				ch = true
			}
		}
	})
	return ch
}}

// a number literal is printed without its trailing zeros (1.50 -> 1.5): same number, other
// coefficient/exponent pair, and decimal.Pow's precision for a fractional power depends on that pair
var repairTrailingZeros = repair{"number-literal-trailing-zeros", func(root excellent.Expression) bool {
	ch := false
	walk(root, func(n excellent.Expression) {
		if t, ok := n.(*excellent.NumberLiteral); ok {
			// only where the printed text denotes the SAME number with another scale (1.50 -> 1.5); a printer that loses digits
			// is not this finding
			if d, err := decimal.NewFromString(t.Value.Describe()); err == nil && d.Exponent() != t.Value.Native().Exponent() && d.Equal(t.Value.Native()) {
				t.Value = types.NewXNumber(d)
				ch = true
			}
		}
	})
	return ch
}}

// applyRepair parses text afresh, mutates the tree and prints it.
func applyRepair(text string, rp repair) (string, bool) {
	root, err, pn := safeParse(text)
	if pn != nil || err != nil {
		return "", false
	}
	if !rp.apply(root) {
		return "", false
	}
	// the mutated tree has to be printed to be used; keep the two known *printing* defects out of
	// the printed text (they are expression-level failures, reported before any caller gets here,
	// and irrelevant to the template scanner)
	for _, other := range []repair{repairDotChain, repairLowercase} {
		if other.name != rp.name {
			other.apply(root)
		}
	}
	s, pn := safeString(root)
	if pn != nil {
		return "", false
	}
	if _, err, pn := safeParse(s); err != nil || pn != nil {
		return "", false
	}
	return s, true
}

// nodeAt re-parses text and returns the idx-th node (parents first) of the fresh tree
func nodeAt(text string, idx int) (root, node excellent.Expression) {
	root, err, pn := safeParse(text)
	if err != nil || pn != nil {
		return nil, nil
	}
	ns := allNodes(root)
	if idx >= len(ns) {
		return nil, nil
	}
	return root, ns[idx]
}

// classifyExpr names the cause of an expression-level failure of the given kind: a known cause
// confirmed by a repair experiment on the tree, else the shape of the smallest sub-term (taken from
// the tree, so that it need not be re-parsed from its own — possibly unparseable — printed form)
// that still fails the same way.
func (k *c11run) classifyExpr(text, kind string, repairs []repair) (class string, minimal string) {
	failsNode := func(n excellent.Expression) bool {
		f, _ := k.nodeFailure(n, "", false)
		return f != nil && f.kind == kind
	}
	// smallest failing sub-term
	root, err, pn := safeParse(text)
	if err != nil || pn != nil {
		return "unclassified", text
	}
	nodes := allNodes(root)
	type cand struct {
		idx int
		n   int
	}
	var cands []cand
	for i, n := range nodes {
		if s, pn := safeString(n); pn == nil {
			cands = append(cands, cand{i, len(s)})
		}
	}
	sort.SliceStable(cands, func(i, j int) bool { return cands[i].n < cands[j].n })
	minIdx := 0
	for i, c := range cands {
		if i >= 80 {
			break
		}
		if c.idx != 0 && failsNode(nodes[c.idx]) {
			minIdx = c.idx
			break
		}
	}
	minimal, _ = safeString(nodes[minIdx])
	// repair experiments on the minimal term, then on the whole expression
	for _, idx := range []int{minIdx, 0} {
		for _, rp := range repairs {
			_, n := nodeAt(text, idx)
			if n == nil || !rp.apply(n) {
				continue
			}
			if !failsNode(n) {
				return rp.name, minimal
			}
		}
	}
	return "term:" + shape(nodes[minIdx]), minimal
}

var exprRepairs = []repair{repairBackslash, repairLowercase, repairDotChain, repairTrailingZeros}

func (k *c11run) reportExpr(text string, f *failure) {
	class, minimal := k.classifyExpr(text, f.kind, exprRepairs)
	f.wit["minimal_failing_term_printed"] = minimal
	sig := "expression|" + f.kind + "|" + class
	switch class {
	case repairBackslash.name:
		sig = "roundtrip|" + class + "|lexer"
		f.what += " — a text value ending in a backslash is printed as \"…\\\\\" and the lexer's TEXT rule ('\"' (~[\"] | '\\\\\"')* '\"') then matches across the closing quote up to the next quote"
	case repairLowercase.name:
		sig = "roundtrip|" + class
		f.what += " — ContextReference.String() lower-cases the name with Go's Unicode tables; the lower-case letter is not in the lexer's NAME alphabet"
	case repairDotChain.name:
		sig = "roundtrip|" + class
		f.what += " — DotLookup.String() prints x . 3 . 1 as x.3.1, which the lexer reads as x . DECIMAL(3.1)"
	case repairTrailingZeros.name:
		sig = "roundtrip|" + class
		f.what += " — NumberLiteral.String() drops trailing zeros (0.10 -> 0.1) and the result of an operator (^ with a fractional exponent) depends on the coefficient/exponent pair of its decimal operand"
	}
	k.res.Count("violations.expression", 1)
	k.res.Violate(sig, f.what, f.wit)
}

// classifyToken (template level): the token's expression passes the expression-level clauses, so
// sub-terms can be printed and wrapped into @(…) on their own.
func classifyToken(text, kind string, check func(exprText string) *failure, repairs []repair) (class string, minimal string) {
	fails := func(t string) bool {
		f := check(t)
		return f != nil && f.kind == kind
	}
	for _, rp := range repairs {
		if t, ok := applyRepair(text, rp); ok && !fails(t) {
			return rp.name, text
		}
	}
	root, err, pn := safeParse(text)
	if err != nil || pn != nil {
		return "unclassified", text
	}
	var cands []string
	for _, n := range allNodes(root)[1:] {
		if s, pn := safeString(n); pn == nil {
			cands = append(cands, s)
		}
	}
	sort.SliceStable(cands, func(i, j int) bool { return len(cands[i]) < len(cands[j]) })
	tried := 0
	for _, c := range cands {
		if tried >= 60 {
			break
		}
		n, err, pn := safeParse(c)
		if err != nil || pn != nil {
			continue
		}
		tried++
		if fails(c) {
			for _, rp := range repairs {
				if t, ok := applyRepair(c, rp); ok && !fails(t) {
					return rp.name, c
				}
			}
			return "term:" + shape(n), c
		}
	}
	return "term:" + shape(root), text
}

// templates -------------------------------------------------------------------------------------

type token struct {
	typ  excellent.XTokenType
	text string
}

func scanTokens(tpl string, tops []string) (toks []token, pn *panicInfo) {
	defer func() {
		if rec := recover(); rec != nil {
			pn = &panicInfo{rec, string(debug.Stack())}
		}
	}()
	excellent.VisitTemplate(tpl, tops, false, func(tt excellent.XTokenType, t string) error {
		toks = append(toks, token{tt, t})
		return nil
	})
	return toks, nil
}

func exprTokens(toks []token) []token {
	var out []token
	for _, t := range toks {
		if t.typ == excellent.EXPRESSION || t.typ == excellent.IDENTIFIER {
			out = append(out, t)
		}
	}
	return out
}

func safeRefactor(tpl string, tops []string, tx func(excellent.Expression) bool) (out string, err error, pn *panicInfo) {
	defer func() {
		if rec := recover(); rec != nil {
			pn = &panicInfo{rec, string(debug.Stack())}
		}
	}()
	fw.SetDetail("refactor.Template: " + clip(tpl, 300))
	out, err = refactor.Template(tpl, tops, tx)
	return
}

func (k *c11run) checkTemplate(tpl string, directed string) {
	k.res.Count("templates.generated", 1)
	toks, pn := scanTokens(tpl, k.tops)
	if pn != nil {
		k.res.Count("templates.scan_panicked(C04)", 1)
		return
	}
	parsed := 0
	for _, t := range exprTokens(toks) {
		e, err, pn := safeParse(t.text)
		if pn != nil {
			k.res.Count("templates.parse_panicked(C04)", 1)
			return
		}
		if err != nil {
			continue
		}
		parsed++
		if h := hazard(e); h != "" {
			k.res.Count("templates.skipped_hazard", 1)
			return
		}
	}
	k.res.Count("templates.checked", 1)
	if parsed > 0 {
		k.res.Count("templates.with_parseable_expression", 1)
	}

	for _, reprint := range []bool{false, true} {
		clause := "identity-unchanged"
		if reprint {
			clause = "identity-reprinted"
		}
		rp := reprint
		if f := k.tplIdentity(tpl, rp, true); f != nil {
			k.reportTemplate(clause, tpl, f, func(t string) *failure { return k.tplIdentity(t, rp, false) }, nil)
		}
	}

	from, to := k.chooseRename(tpl, toks, directed)
	if f := k.tplRename(tpl, from, to, true); f != nil {
		k.reportTemplate("rename", tpl, f, func(t string) *failure { return k.tplRename(t, from, to, false) }, renameRepairs(from, to))
	}
}

// tplIdentity: refactor.Template with a transformation that changes nothing, either admitting it
// (expressions are kept verbatim) or claiming a change (every expression is re-printed).
func (k *c11run) tplIdentity(tpl string, reprint bool, count bool) *failure {
	name := "clause.identity_unchanged"
	if reprint {
		name = "clause.identity_reprinted"
	}
	out, _, pn := safeRefactor(tpl, k.topsAnyOrder, func(excellent.Expression) bool { return reprint })
	if pn != nil {
		return &failure{kind: "refactor-panic", what: "refactor.Template panicked: " + pn.String(), wit: map[string]any{"template": tpl, "panic": pn.String(), "stack": fw.TrimStack(pn.stack)}}
	}
	t0, _ := scanTokens(tpl, k.tops)
	t1, _ := scanTokens(out, k.tops)
	nonVacuous := len(exprTokens(t0)) > 0
	if count {
		if out != tpl {
			k.res.Count("templates.rewritten_text_differs", 1)
		}
	}
	for i, ec := range k.ctxs {
		o1 := evalTemplate(ec.env, ec.ctx, tpl)
		o2 := evalTemplate(ec.env, ec.ctx, out)
		if count {
			if nonVacuous {
				k.res.Count(name, 1)
			} else {
				k.res.Count(name+".vacuous", 1)
			}
		}
		if !o1.same(o2) {
			if !k.tplStable(ec, tpl, o1) || !k.tplStable(ec, out, o2) {
				if count {
					k.res.Count("value.skipped_nondeterministic_input", 1)
				}
				continue
			}
			return &failure{kind: "value", what: "refactor.Template with an identity transformation changed the template's value", tokensDiffer: len(t0) != len(t1),
				wit: map[string]any{"template": tpl, "rewritten": out, "reprint_all": reprint, "context_index": i, "original": o1.describe(), "rewritten_value": o2.describe()}}
		}
	}
	return nil
}

func (k *c11run) tplStable(ec evalCtx, tpl string, first tplOutcome) bool {
	for j := 0; j < 10; j++ {
		if !evalTemplate(ec.env, ec.ctx, tpl).same(first) {
			return false
		}
	}
	return true
}

var renameTargets = []string{"renamed", "zz_new", "webhook2", "neu"}
var renameSubs = []string{"json", "c", "value", "x1"}

// chooseRename picks the reference to rename (one that the template uses, if any) and a fresh
// target b.c that occurs nowhere in the template.
func (k *c11run) chooseRename(tpl string, toks []token, directed string) (from, to string) {
	if directed == "known:rename-casefold" {
		return "results", "renamed.json"
	}
	if strings.HasPrefix(directed, "known:rename") || directed == "refactor-tests" {
		return "foo", "renamed.json"
	}
	used := map[string]bool{}
	params := map[string]bool{}
	for _, t := range exprTokens(toks) {
		if e, err, pn := safeParse(t.text); err == nil && pn == nil {
			for _, n := range contextRefs(e) {
				used[n] = true
			}
			for _, a := range lambdaParams(e) {
				params[strings.ToLower(a)] = true
			}
		}
	}
	var cands []string
	for _, key := range k.tops {
		// (a lambda parameter that shadows the renamed name is in scope: its uses must not be renamed)
		if used[key] && functions.Lookup(key) == nil && isASCII(key) {
			cands = append(cands, key)
		}
	}
	if len(cands) > 0 {
		from = fw.Pick(k.r, cands)
	} else {
		from = fw.Pick(k.r, []string{"foo", "contact", "results", "obj", "arr"})
	}
	lower := strings.ToLower(tpl)
	b := ""
	for _, cand := range renameTargets {
		if !strings.Contains(lower, cand) {
			b = cand
			break
		}
	}
	if b == "" {
		b = "qqzzqq"
	}
	to = b + "." + fw.Pick(k.r, renameSubs)
	if k.r.Chance(0.25) {
		to = strings.ToUpper(to[:1]) + to[1:len(to)-1] + strings.ToUpper(to[len(to)-1:])
	}
	if k.r.Chance(0.2) {
		from = strings.ToUpper(from[:1]) + from[1:]
	}
	return from, to
}

// renamedContext is ctx[b.c := ctx[a]] without a.
func renamedContext(ctx *types.XObject, from, to string, dropFrom bool) *types.XObject {
	parts := strings.SplitN(strings.ToLower(to), ".", 2)
	m := map[string]types.XValue{}
	var moved types.XValue
	had := false
	for _, key := range ctx.Properties() {
		v, _ := ctx.Get(key)
		if strings.ToLower(key) == strings.ToLower(from) {
			moved, had = v, true
			if dropFrom {
				continue
			}
		}
		m[key] = v
	}
	if had {
		m[parts[0]] = types.NewXObject(map[string]types.XValue{parts[1]: moved})
	}
	return types.NewXObject(m)
}

// tplRename: ContextRefRename(a -> b.c) must give a template whose value in ctx[b.c := ctx[a]] is
// the original value in ctx, and must leave all other context references alone.
func (k *c11run) tplRename(tpl, from, to string, count bool) *failure {
	out, _, pn := safeRefactor(tpl, k.topsAnyOrder, refactor.ContextRefRename(from, to))
	if pn != nil {
		return &failure{kind: "refactor-panic", what: "refactor.Template(ContextRefRename) panicked: " + pn.String(), wit: map[string]any{"template": tpl, "panic": pn.String(), "stack": fw.TrimStack(pn.stack)}}
	}
	lfrom := strings.ToLower(from)
	lto := strings.SplitN(strings.ToLower(to), ".", 2)[0]
	t0, _ := scanTokens(tpl, k.tops)
	// a token that does not parse cannot be renamed and is kept verbatim; its "@a…" must then still
	// find a as a top-level name, so a is only dropped from the new context when everything parsed
	unparseable := false
	for _, t := range exprTokens(t0) {
		if _, err, pn := safeParse(t.text); err != nil || pn != nil {
			unparseable = true
		}
	}
	newTops := renamedContext(k.ctxs[0].ctx, from, to, !unparseable).Properties()
	t1, _ := scanTokens(out, newTops)
	e0, e1 := exprTokens(t0), exprTokens(t1)
	renamed := 0
	wit := map[string]any{"template": tpl, "rename_from": from, "rename_to": to, "rewritten": out}
	if len(e0) != len(e1) {
		// the rewritten template no longer scans into the same expressions
		if len(e0) > 0 {
			// decided by the value clause below (a changed token structure changes the value); remember it
			wit["token_structure"] = fmt.Sprintf("%d expression tokens before, %d after", len(e0), len(e1))
		}
	} else {
		for i := range e0 {
			a, err, pn := safeParse(e0[i].text)
			if err != nil || pn != nil {
				continue
			}
			b, err, pn := safeParse(e1[i].text)
			if err != nil || pn != nil {
				continue // decided by the value clause
			}
			// references = free uses of a name; a use of a lambda parameter of the same name is not a reference to the context
			// (the evaluator resolves it to the parameter) and must stay as it is
			want := scopedRefs(a)
			n := 0
			for j := range want {
				if want[j] == lfrom {
					want[j] = lto
					n++
				}
			}
			sort.Strings(want)
			got := scopedRefs(b)
			if count {
				if contains(want, "λ:"+lfrom) {
					k.res.Count("rename.shadowed_by_lambda_parameter", 1)
				}
				if n > 0 {
					k.res.Count("clause.rename_refs", 1)
					k.res.Count("rename.references_renamed", int64(n))
				} else {
					k.res.Count("clause.rename_refs.no_reference_to_rename", 1)
				}
			}
			renamed += n
			if strings.Join(want, ",") != strings.Join(got, ",") {
				wit["expression"] = e0[i].text
				wit["rewritten_expression"] = e1[i].text
				wit["references_expected"] = want
				wit["references_found"] = got
				detail := "other-references-changed"
				if contains(got, lfrom) {
					detail = "reference-not-renamed"
				}
				return &failure{kind: "refs", detail: detail, what: "ContextRefRename changed the multiset of context references other than by renaming a to b", wit: wit}
			}
		}
	}
	for i, ec := range k.ctxs {
		ctx2 := renamedContext(ec.ctx, from, to, !unparseable)
		o1 := evalTemplate(ec.env, ec.ctx, tpl)
		o2 := evalTemplate(ec.env, ctx2, out)
		if count {
			if renamed > 0 {
				k.res.Count("clause.rename_value", 1)
			} else {
				k.res.Count("clause.rename_value.no_reference_to_rename", 1)
			}
		}
		if !o1.same(o2) {
			if !k.tplStable(ec, tpl, o1) || !k.tplStable(evalCtx{ec.env, ctx2}, out, o2) {
				continue
			}
			wit["context_index"] = i
			wit["original"] = o1.describe()
			wit["rewritten_value"] = o2.describe()
			return &failure{kind: "value", what: "the template rewritten by ContextRefRename(a -> b.c) evaluates differently in ctx[b.c := ctx[a]]", tokensDiffer: len(t0) != len(t1), wit: wit}
		}
	}
	return nil
}

// repairs specific to renaming
func renameRepairs(from, to string) []repair {
	lfrom := strings.ToLower(from)
	lto := strings.SplitN(strings.ToLower(to), ".", 2)[0]
	capture := repair{"lambda-parameter-captured", func(root excellent.Expression) bool {
		// alpha-rename lambda parameters that collide with the renamed name or its target
		ch := false
		n := 0
		walk(root, func(e excellent.Expression) {
			f, ok := e.(*excellent.AnonFunction)
			if !ok {
				return
			}
			for i, a := range f.Args {
				la := strings.ToLower(a)
				if la == lfrom || la == lto || strings.EqualFold(a, from) {
					n++
					fresh := fmt.Sprintf("p_%d", n)
					renameFree(f.Body, a, fresh)
					f.Args[i] = fresh
					ch = true
				}
			}
		})
		return ch
	}}
	casefold := repair{"unicode-casefold-mismatch", func(root excellent.Expression) bool {
		ch := false
		walk(root, func(e excellent.Expression) {
			if r, ok := e.(*excellent.ContextReference); ok && strings.EqualFold(r.Name, from) && strings.ToLower(r.Name) != lfrom {
				r.Name = "zz9unrelated"
				ch = true
			}
		})
		return ch
	}}
	return []repair{capture, casefold}
}

func contains(xs []string, x string) bool {
	for _, v := range xs {
		if v == x {
			return true
		}
	}
	return false
}

// renameFree renames the free occurrences of a lambda parameter in its body
func renameFree(e excellent.Expression, param, fresh string) {
	switch t := e.(type) {
	case nil:
		return
	case *excellent.ContextReference:
		if strings.ToLower(t.Name) == strings.ToLower(param) {
			t.Name = fresh
		}
		return
	case *excellent.AnonFunction:
		for _, a := range t.Args {
			if strings.ToLower(a) == strings.ToLower(param) {
				return // shadowed
			}
		}
	}
	for _, c := range children(e) {
		renameFree(c, param, fresh)
	}
}

func (k *c11run) reportTemplate(clause, tpl string, f *failure, check func(tpl string) *failure, extra []repair) {
	// isolate the expression token that shows the failure on its own
	toks, _ := scanTokens(tpl, k.tops)
	tokText := ""
	for _, t := range exprTokens(toks) {
		if _, err, pn := safeParse(t.text); err != nil || pn != nil {
			continue
		}
		if ff := check("@(" + t.text + ")"); ff != nil && ff.kind == f.kind {
			tokText = t.text
			if ff.tokensDiffer {
				f.tokensDiffer = true
			}
			break
		}
	}
	class, minimal := "multi-token", tpl
	if tokText != "" {
		// a token that already fails the expression-level clauses explains the template-level failure
		if ef, _ := k.exprFailure(tokText, false); ef != nil {
			ef.wit["seen_through"] = map[string]any{"clause": clause, "template": tpl, "what": f.what}
			k.reportExpr(tokText, ef)
			return
		}
		class, minimal = classifyToken(tokText, f.kind, func(t string) *failure { return check("@(" + t + ")") }, append(append([]repair{}, extra...), exprRepairs...))
		minimal = "@(" + minimal + ")"
	}
	f.wit["minimal_failing_template"] = minimal
	f.wit["clause"] = clause
	if f.kind == "refs" && (strings.HasPrefix(class, "term:") || class == "multi-token") {
		class = f.detail // which sub-term shows it says nothing about a wrong set of names
	}
	sig := "refactor|" + clause + "|" + f.kind + "|" + class
	switch class {
	case repairBackslash.name:
		level := "lexer"
		if f.tokensDiffer {
			level = "scanner"
		}
		sig = "roundtrip|" + class + "|" + level
		if level == "scanner" {
			f.what += " — the re-printed literal ends in \\\\\" and the template scanner's readTextLiteral does not see it as closed, so the rewritten @(…) is literal text"
		} else {
			f.what += " — the re-printed literal ends in \\\\\" and the lexer's TEXT rule matches across it"
		}
	case repairLowercase.name:
		sig = "roundtrip|" + class
		f.what += " — the re-printed identifier is lower-cased to a letter the lexer's NAME rule does not know"
	case "lambda-parameter-captured":
		sig = "rename|" + class
		f.what += " — ContextRefRename renames every ContextReference node of that name, including uses of a lambda parameter that shadows it"
	case "unicode-casefold-mismatch":
		sig = "rename|" + class
		f.what += " — ContextRefRename matches names with strings.EqualFold while scopes resolve names with strings.ToLower, so a name that only case-FOLDS to the renamed one (ſ, K) is renamed although it never referred to it"
	}
	k.res.Count("violations.template", 1)
	k.res.Violate(sig, f.what, f.wit)
}

// directed corpus ---------------------------------------------------------------------------------

func c11Directed(name string) (exprs, tpls []string) {
	switch name {
	case "associativity":
		exprs = []string{
			`2 ^ 3 ^ 2`, `2 ^ (3 ^ 2)`, `(2 ^ 3) ^ 2`, `-2 ^ 2`, `(-2) ^ 2`, `-(2 ^ 2)`, `- 2 ^ - 2`, `2 ^ -1`, `-2 ^ 0.5`, `-foo ^ 2`, `(-foo) ^ 2`, `-(foo ^ 2)`, `-arr[0] ^ 2`,
			`10 - 3 - 2`, `10 - (3 - 2)`, `(10 - 3) - 2`, `10-3-2`, `8 / 4 / 2`, `8 / (4 / 2)`, `8/4*2`, `8/(4*2)`, `1 / 3 * 3`, `1 / (3 * 3)`,
			`2 * 3 + 4`, `2 * (3 + 4)`, `2 + 3 * 4`, `(2 + 3) * 4`, `2 + 3 * 4 ^ 2`, `((2 + 3) * 4) ^ 2`, `1 + 2 & 3 + 4`, `1 & 2 = 12`, `(1 & 2) = 12`, `1 & (2 = 12)`,
			`1 = 1 = true`, `1 = (1 = true)`, `1 < 2 = true`, `1 < (2 = 2)`, `1 != 2 != false`, `1 <= 2 & "x"`, `(1 <= 2) & "x"`, `1 <= (2 & "0")`,
			`- - - 1`, `---1`, `-(-(-1))`, `1 - -1`, `1--1`, `1 - - - 1`, `2 * -3`, `2 / - 4`, `-2 * -3`, `- (1 + 2)`, `-(1) - (-(2))`,
			`"a" & "b" & "c"`, `"a" & ("b" & "c")`, `1 + "2" & 3`, `foo + bar * neg - big / 7`, `-contact.fields.age`, `-contact.fields.age ^ 2`, `- (x) => x`, `-(x) => x`,
			`( ( ( 1 ) ) )`, `((1 + 2))`, `(foo)`, `((foo)) + ((1))`, `1 +(2)`, `(1)+ 2`, "1\n+\t2", ` 1 `, `1 > 2 > 3`, `3 > 2 >= 1 < 5 <= 5`,
			`if(1 < 2, 3 - 2 - 1, 2 ^ 3 ^ 2)`, `round(10 / 3 / 3, 2)`, `text(2 ^ 3 ^ 2) & -2 ^ 2`,
		}
		tpls = []string{`@(10 - 3 - 2) and @(10 - (3 - 2))`, `@(-2 ^ 2)@(2 ^ 3 ^ 2)`, `x@(1+2)*3`, `@((1+2)*3)`, `@(1+(2*3))`}
	case "literals":
		exprs = []string{
			`"a\"b"`, `"é"`, `"\U0001F600"`, `"\x41\102"`, `"é😀"`, `"日本語"`, `"a\\b"`, `"\\n"`, `"\n"`, `"\t\r\n"`, `"\a\b\f\v"`, `"\x01\x7f"`, `"\u2028"`, `"\ufeff"`,
			`"\w+"`, `"\d{3}-\d{4}"`, `"a\.b"`, `"\'"`, `"it\'s"`, "\"a\nb\"", "\"tab\there\"", `"\w\"q"`, `"\u12"`, `"\x4"`, `"\400"`, `"\ud800"`, `"a\ b"`, `"\(\)"`,
			`""`, `" "`, `"'"`, `"("`, `")"`, `")("`, `"@"`, `"@@"`, `"@(1)"`, `"@contact"`, `"true"`, `"null"`, `"1"`,
			`0`, `1`, `007`, `00`, `1.50`, `00.50`, `0.0`, `10.10`, `99999999999999999999`, `12345678901234567890.123456789`, `0.000001`, `2147483648`,
			`true`, `TRUE`, `True`, `false`, `False`, `null`, `NULL`, `Null`, `nUlL`,
			`"a" & 007 & 1.50 & TRUE & NULL`, `text(1.50) & text(007)`, `1.50 = 1.5`, `"1.50" = 1.50`, `json("a\"b\\c")`, `text_length("\U0001F600")`,
			`upper("a\\")`, `"\\"`, `"a\\\\"`, `"\"`, `obj["a\\"]`,
		}
		tpls = []string{`@("a\"b")`, `@("\w+") @("it\'s")`, "@(\"a\nb\")", `@(007) @(1.50) @(TRUE) @(Null)`, `say @("é\U0001F600")!`, `@("(") @(")") @(")(")`, `@("@contact") @@contact`}
	case "lookups-lambdas":
		exprs = []string{
			// integer lookups on parenthesised terms that themselves end in one (printing must keep them from reading as a decimal)
			`(arr.3).1`, `((arr.3)).1`, `(arr.3) .1`, `(nums.1).0`, `(arr.3).1 + 1`, `(arr[3]).1`, `(arr.3)[1]`, `(webhook.b.c).2 .d`, `(arr.3 .1)`, `((arr).3).1`,
			`obj.a`, `OBJ.A`, `Obj . a`, `obj["a"]`, `obj [ "a" ]`, `obj["A"]`, `nums.1`, `nums["1"]`, `nums[1]`, `nums.2 + 1`, `arr.0`, `arr[0]`, `arr[-1]`, `arr . 3 .b`, `arr[3][1]`, `arr[3].1`, `arr.3[1]`,
			`contact.fields["age"] + 1`, `results["q1"].value`, `results.q1["value"]`, `webhook.b.c[2].d`, `webhook["b"]["c"][2]["d"]`, `(obj).a`, `(obj)["a"]`, `((obj)).b.c`,
			`array(1,2)[0]`, `array(1,2).1`, `object("a", 1).a`, `object("a", 1)["a"]`, `upper(contact.name)`, `UPPER("a")`, `Upper ( "a" )`, `fn("a")`, `(fn)("a")`, `FN("a")`, `array(upper)[0]("abc")`,
			`contact`, `contact.name & ""`, `dflt`, `dflt + 1`, `dflt.x`, `contact.missing`, `contact["missing"]`, `missing`, `missing.x`, `arr[10]`, `arr["x"]`, `obj[1]`, `obj[null]`, `arr[foo]`, `arr[1 - 1]`,
			`(x) => x`, `(X) => x`, `(x) => X`, `(x, y) => x & y`, `( x , y ) => y`, `((x) => x + 1)(2)`, `((x, y) => x - y)(5, 3)`, `((x, y) => x - y)(5)`, `((x) => x)()`,
			`foreach(arr, (x) => x & "!")`, `foreach(array(1,2,3), (x) => -x ^ 2)`, `filter(arr, (x) => x != null)`, `foreach(words, (w) => foreach(words, (v) => w & v))`,
			`((foo) => foo + 1)(10)`, `((foo) => foo + 1)(10) + foo`, `((x) => (x) => x)(1)(2)`, `((x) => (y) => x - y)(5)(3)`, `(é) => É`, `((é) => É & é)("a")`, `((İd) => İd)(1)`, `((K) => K)(2)`,
			`((Ж) => ж)(3)`, `((Straße) => straße)(4)`, `mixedkey.inner`, `MixedKey.INNER`, `mixedkey["inner"]`, `été & Été & ÉTÉ`, `foreach_value(obj, (k, v) => k & v)`,
			`extract(contact, "fields.age")`, `keys(obj)[0]`, `json(obj)`, `count(contact.urns)`, `if(is_error(missing), "e", "v")`, `default(missing.x, foo)`, `upper`, `upper.foo`, `(upper)`,
		}
		tpls = []string{`@contact.name`, `@CONTACT.Name`, `@contact.fields.age.`, `@arr.0 @nums.1`, `@(obj["a"]) @obj.a`, `@(foreach(arr, (x) => x & "!"))`, `Hi @contact.first_name, @(upper(contact.name))!`, `@mixedkey.Inner @été`}
	case "refactor-tests":
		tpls = []string{``, `Hi @foo`, `@(foo)`, `@( "Hello"+12345.123 )`, `@foo.bar`, `@(foo . bar)`, `@(OR(TRUE, False, Null))`, `@(foo[ 1 ] + foo[ "x" ])`, `@(-1+( 2/3 )*4^5)`, `@("x"&"y")`,
			`@(AND("x"="y", "x"!="y"))`, `@(AND(1>2, 3<4, 5>=6, 7<=8))`, `@(FOO_Func(x, y))`, `@(1 / ) @(1+2)`, `test@example.com`, `test@@example.com`,
			`@foo`, ` @foo @foo `, `@(foo.uuid + 1)`, `@(Upper(Foo))`, `@webhook`, `@( webhook[0] )`, `@( 1 +  2)`,
			`@@foo @@(1) @foo`, `@foo.`, `@foo.bar@foo`, `@(foo`, `@("abc)`, `@(foo))`, `@ @. @@ @`, `a@b.com @(foo)@foo`, `@(foo & FOO & Foo) @FOO @Foo.x`, `@(upper(foo) & foo.a & foo["a"] & foo[0])`}
	case "doc-examples":
		// every example of goflow's own doc comments: as a template, and its expressions on their own
		tpls = docExamples()
		for _, t := range tpls {
			if strings.HasPrefix(t, "@(") && strings.HasSuffix(t, ")") {
				exprs = append(exprs, t[2:len(t)-1])
			}
		}
	case "known:integer-dot-chain":
		exprs = []string{`arr . 3 . 1`, `arr.3 .1`, `webhook.b.c.2 . 0`, `-arr.3 . 1 ^ 2`, `upper(arr .3 .1)`}
		tpls = []string{`@(arr.3 .1) and @arr.3`}
	case "known:number-trailing-zeros":
		exprs = []string{`0.10 ^ 0.5`, `(1.50) ^ 0.5`, `2.0 ^ 0.5`, `text(10.10 ^ 0.5)`}
		tpls = []string{`@(0.10 ^ 0.5)`}
	case "known:trailing-backslash":
		exprs = []string{`"a\u005c" & "b"`, `upper("\x5c") & "!"`, `obj["a\134"] & ""`, `"\\" & 1`, `array("\\", "x")`, `"\U0000005c" = "\\"`}
		tpls = []string{`x @("a\u005c") y`, `@("q\u005c" & foo)`, `@(upper("\x5c"))`}
	case "known:cherokee-identifier":
		exprs = []string{`((Ꭰ) => Ꭰ)(1)`, `(ᏣᎳᎩ) => ᏣᎳᎩ & "!"`, `foreach(arr, (xᎠ) => xᎠ)`}
		tpls = []string{`@(((Ꭰ) => Ꭰ)(foo))`}
	case "rename-lambda-capture":
		tpls = []string{`@(foreach(arr, (foo) => foo & "!")) @foo`, `@(((foo) => foo + 1)(10)) @foo`, `@(foreach(arr, (Foo) => foo))`}
	case "known:rename-casefold":
		// the Kelvin sign and the long s only case-FOLD to k / s
		tpls = []string{`@(reſults) @results.q1`, `@(RESULTS.q1 & reſultſ)`}
	}
	return
}
