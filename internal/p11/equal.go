package p11

import (
	"fmt"
	"reflect"
	"runtime/debug"
	"strings"

	"github.com/nyaruka/goflow/envs"
	"github.com/nyaruka/goflow/excellent"
	"github.com/nyaruka/goflow/excellent/types"
	"github.com/shopspring/decimal"

	"verif/internal/fw"
)

// outcome of evaluating one expression in one context
type outcome struct {
	val      types.XValue
	panicked bool // evaluation panicked (C04's business; here it only has to happen alike)
	panicMsg string
}

func (o outcome) describe() string {
	if o.panicked {
		return "panic: " + clip(o.panicMsg, 200)
	}
	return clip(types.String(o.val), 300)
}

func evalNode(env envs.Environment, ctx *types.XObject, e excellent.Expression) (o outcome) {
	defer func() {
		if rec := recover(); rec != nil {
			_ = debug.Stack
			o = outcome{panicked: true, panicMsg: fmt.Sprint(rec)}
		}
	}()
	return outcome{val: e.Evaluate(env, excellent.NewScope(ctx, nil), &excellent.Warnings{})}
}

func sameOutcome(env envs.Environment, a, b outcome) bool {
	if a.panicked || b.panicked {
		return a.panicked == b.panicked
	}
	return alike(env, a.val, b.val, 0)
}

// probe arguments for comparing anonymous functions by behaviour
func probeArgs() [][]types.XValue {
	n := func(s string) types.XValue { return types.NewXNumber(decimal.RequireFromString(s)) }
	t := func(s string) types.XValue { return types.NewXText(s) }
	obj := types.NewXObject(map[string]types.XValue{"a": n("1"), "value": t("v"), "name": t("nm"), "x": n("2")})
	arr := types.NewXArray(n("3"), t("x"), nil)
	return [][]types.XValue{
		{},
		{n("2")}, {t("Hello World")}, {nil}, {obj}, {arr}, {n("-1.5")}, {t("")},
		{n("2"), n("3")}, {t("a"), t("b")}, {obj, n("0")}, {arr, t("x")},
		{n("1"), t("b"), obj},
	}
}

// alike is types.Equals with the three adjustments the property needs: two errors are alike
// whatever their message (messages quote the expression text); named functions are alike when they
// are the same function; anonymous functions (which goflow never considers equal) are compared by
// what they return for a fixed set of probe arguments.
func alike(env envs.Environment, a, b types.XValue, depth int) bool {
	an, bn := types.IsNil(a), types.IsNil(b)
	if an || bn {
		return an && bn
	}
	if reflect.TypeOf(a) != reflect.TypeOf(b) {
		return false
	}
	switch ta := a.(type) {
	case *types.XError:
		return true
	case *types.XFunction:
		tb := b.(*types.XFunction)
		if ta.Name() != tb.Name() {
			return false
		}
		if ta.Name() != "<anon>" {
			return true
		}
		if depth >= 2 {
			return true // functions returning functions returning functions: not looked into
		}
		for _, args := range probeArgs() {
			ra, rb := callSafe(env, ta, args), callSafe(env, tb, args)
			if ra.panicked || rb.panicked {
				if ra.panicked != rb.panicked {
					return false
				}
				continue
			}
			if !alike(env, ra.val, rb.val, depth+1) {
				return false
			}
		}
		return true
	case *types.XArray:
		tb := b.(*types.XArray)
		if ta.Count() != tb.Count() {
			return false
		}
		for i := 0; i < ta.Count(); i++ {
			if !alike(env, ta.Get(i), tb.Get(i), depth) {
				return false
			}
		}
		return true
	case *types.XObject:
		tb := b.(*types.XObject)
		da, db := ta.Default(), tb.Default()
		hasA, hasB := da != types.XValue(ta), db != types.XValue(tb)
		if hasA != hasB {
			return false
		}
		if hasA && !alike(env, da, db, depth) {
			return false
		}
		pa, pb := ta.Properties(), tb.Properties()
		if len(pa) != len(pb) {
			return false
		}
		seen := map[string]bool{}
		for i := range pa {
			if pa[i] != pb[i] {
				return false
			}
			l := strings.ToLower(pa[i])
			if seen[l] {
				// keys differing only in case: Get is ambiguous (C08), fall back to goflow's own Equals
				return types.Equals(a, b)
			}
			seen[l] = true
		}
		for _, k := range pa {
			va, _ := ta.Get(k)
			vb, _ := tb.Get(k)
			if !alike(env, va, vb, depth) {
				return false
			}
		}
		return true
	}
	return types.Equals(a, b)
}

func callSafe(env envs.Environment, f *types.XFunction, args []types.XValue) (o outcome) {
	defer func() {
		if rec := recover(); rec != nil {
			o = outcome{panicked: true, panicMsg: fmt.Sprint(rec)}
		}
	}()
	return outcome{val: f.Call(env, args)}
}

// template evaluation ---------------------------------------------------------------------------

type tplOutcome struct {
	out      string
	hasErr   bool
	errText  string
	panicked bool
}

func (o tplOutcome) same(p tplOutcome) bool {
	return o.out == p.out && o.hasErr == p.hasErr && o.panicked == p.panicked
}

func (o tplOutcome) describe() map[string]any {
	return map[string]any{"output": clip(o.out, 400), "error": clip(o.errText, 300), "panicked": o.panicked}
}

var evaluator = excellent.NewEvaluator()

func evalTemplate(env envs.Environment, ctx *types.XObject, tpl string) (o tplOutcome) {
	defer func() {
		if rec := recover(); rec != nil {
			o = tplOutcome{panicked: true, errText: fmt.Sprint(rec)}
		}
	}()
	fw.SetDetail("Evaluator.Template: " + clip(tpl, 300))
	out, _, err := evaluator.Template(env, ctx, tpl, nil)
	o.out = out
	if err != nil {
		o.hasErr = true
		o.errText = err.Error()
	}
	return o
}
