package p11

import (
	"encoding/json"
	"fmt"
	"runtime/debug"
	"strconv"
	"strings"
	"sync"
	"unicode"
	"unicode/utf8"

	"github.com/nyaruka/goflow/envs"
	"github.com/nyaruka/goflow/excellent"
	"github.com/nyaruka/goflow/excellent/types"

	"verif/internal/fw"
	"verif/internal/gen"
)

// C12 — literal text and string literals are represented faithfully.
//
// (a) body text passes through Evaluator.Template unchanged modulo "@@" -> "@";
// (b) @(Quote(s)) evaluates to s;  (c) the same next to other literals, as a function argument,
// as an index key;  (d) the template scanner delimits exactly the expression the parser accepts.
// Quote(s) is goflow's own printer of a text literal, types.NewXText(s).Describe().

type c12 struct{}

const c12StringsPerCase = 100

func (p *c12) ID() string { return "C12" }
func (p *c12) Rule() string {
	return fmt.Sprintf("a case = %d strings of valid UTF-8 without NUL (biased to quotes, backslash runs incl. trailing ones, parentheses, '@', newlines, control and non-BMP characters). Each string s (with a partner t) is written as goflow's own quoted literal and evaluated alone, next to other literals/values, as function argument and as index key, through Evaluator.Template and through Evaluator.Expression (no template scanner); it is embedded in body1@(E)body2 for the scanner; and a body text whose every '@' is doubled or followed by neither '(' nor an allowed top-level name is passed through Evaluator.Template. Each case adds %d strings of parentheses of mostly one kind and %d long strings (0.5-12 KB of 2/3/4-byte characters at every alignment), and embeds the literals in body1@(E)body2 evaluated through Evaluator.Template and excellent.VisitTemplate, with body texts whose parentheses pair up with the unpaired ones inside the literals. A string is non-trivial when it contains one of \" \\ ( ) @; a case is non-trivial when it holds such a string; distinct = distinct case contents.", c12StringsPerCase, c12ParenStringsPerCase, c12LongStringsPerCase)
}
func (p *c12) Directed() []string {
	return []string{"pool", "body-text", "scanner", "known:trailing-backslash", "shared-evaluator", "parens-in-literal-and-text", "long-texts"}
}
func (p *c12) NumGenerated(tier string) int {
	if tier == "thorough" {
		return 50000
	}
	return 1000
}
func (p *c12) BatchSize(tier string) int {
	if tier == "thorough" {
		return 200
	}
	return 25
}
func (p *c12) CaseTimeoutS() int { return 30 }
func (p *c12) Floors(tier string) []string {
	return []string{"strings.total", "strings.nontrivial", "strings.ending_in_backslash", "strings.with_quote", "strings.non_bmp",
		"clause.a.body_passthrough", "a.texts_with_double_at", "a.texts_with_lone_at",
		"clause.b.template_alone", "clause.b.expression_alone", "clause.c.template_concat", "clause.c.expression_concat",
		"clause.c.template_funcarg", "clause.c.template_indexkey", "clause.d.scanner_tokens", "clause.d.visit_template_tokens",
		"clause.e.embedded_template", "e.unpaired_parentheses_of_literal_paired_by_text", "e.template_starts_with_expression_and_ends_on_parenthesis",
		"e.templates_over_512_bytes", "e.templates_over_4096_bytes", "strings.parenthesis_class", "strings.long_with_multibyte_characters"}
}

func (p *c12) ExtraEvidence(tier string, counters map[string]int64) map[string]any {
	return map[string]any{
		"strings":                 counters["strings.total"],
		"literal_evaluations":     counters["clause.b.template_alone"] + counters["clause.b.expression_alone"] + counters["clause.c.template_concat"] + counters["clause.c.expression_concat"] + counters["clause.c.template_funcarg"] + counters["clause.c.expression_funcarg"] + counters["clause.c.template_indexkey"] + counters["clause.c.expression_indexkey"],
		"quote":                   "types.NewXText(s).Describe() — goflow's own printer of a text literal",
		"allowed_top_levels_in_a": c12Tops,
	}
}

func quote(s string) string { return types.NewXText(s).Describe() }

type c12run struct {
	res *fw.Result
	r   *fw.Rand
	env envs.Environment
	ctx *types.XObject
	ntv int
}

var c12Tops = []string{"contact", "foo", "obj", "results", "session", "été", "σμ"}

// the contexts clause (a) is evaluated in: the allowed top-level names are whatever the context's properties are,
// including none at all (then every '@' not followed by '(' is literal)
var c12BodyContexts = []struct {
	name string
	tops []string
	ctx  func() *types.XObject
}{
	{"full", c12Tops, func() *types.XObject { return c12Context("k") }},
	{"empty", []string{}, func() *types.XObject { return types.NewXObject(map[string]types.XValue{}) }},
	{"default-only", []string{}, func() *types.XObject {
		return types.NewXObject(map[string]types.XValue{"__default__": types.NewXText("dflt")})
	}},
	{"one", []string{"results"}, func() *types.XObject {
		return types.NewXObject(map[string]types.XValue{"results": types.NewXText("R")})
	}},
}

func c12Context(key string) *types.XObject {
	m := map[string]types.XValue{
		"contact": types.NewXObject(map[string]types.XValue{"__default__": types.NewXText("Bob"), "name": types.NewXText("Bob")}),
		"foo":     types.NewXText("FOO"),
		"results": types.NewXObject(map[string]types.XValue{}),
		"été":     types.NewXText("summer"),
		"session": types.NewXText("SESSION"),
		"σμ":      types.NewXText("sigma-mu"),
	}
	m["obj"] = types.NewXObject(map[string]types.XValue{key: types.NewXText("value-of-key")})
	return types.NewXObject(m)
}

// string generator -----------------------------------------------------------------------------

var litAlphabet = []string{`\x41`, `\xA9`, `\x5c`, `C:\xampp\htdocs`, `\u0041`, `\U0001F600`, `\101`, "\ufffd", "\ufffd", "\ufffe", "\ufdd0", "ſ", "ς", "µ", "K", "ı", "\u200b", "\u200d", "\u0301", `"`, `"`, `\`, `\`, `\\`, `\"`, `"\`, "(", ")", "((", "))", ")(", "@", "@@", "@(", "@contact", "\n", "\r", "\r\n", "\t", "\u0001", "\u001f", "\u007f", "\u0085", "\u2028", "\ufeff", "\u00a0",
	"😀", "𝒳", "\U0010FFFF", "é", "é", "日", "ß", "İ", " ", " ", "a", "b", "Z", "0", "1", "'", "&", ",", "[", "]", "=>", "u005c", "x5c", "n", "t", "u", "x", `\n`, `\t`, `A`, `\x`, `\u`, "{", "}", "%", "#", "$", "`", "<", ">", "=", "+", "-", "."}

func litString(r *fw.Rand) string {
	var s string
	switch r.Intn(20) {
	case 0, 1, 2, 3, 4, 5:
		s = gen.LiteralString(r)
	case 6, 7:
		s = gen.AnyString(r)
	case 8:
		// trailing backslash runs after anything
		s = litTokens(r, r.Range(0, 6)) + strings.Repeat(`\`, r.Range(1, 5))
	case 10:
		// backslash runs before quotes and at both ends
		s = strings.Repeat(`\`, r.Range(1, 4)) + `"` + litTokens(r, r.Range(0, 3)) + `"` + strings.Repeat(`\`, r.Range(0, 3))
	default:
		s = litTokens(r, r.Range(0, 14))
	}
	s = strings.ReplaceAll(s, "\x00", "")
	if !utf8.ValidString(s) {
		s = strings.ToValidUTF8(s, "?")
	}
	return s
}

func litTokens(r *fw.Rand, n int) string {
	var b strings.Builder
	for i := 0; i < n; i++ {
		b.WriteString(fw.Pick(r, litAlphabet))
	}
	return b.String()
}

func nonTrivialString(s string) bool { return strings.ContainsAny(s, "\"\\()@") }

// forms ------------------------------------------------------------------------------------------

// a form builds an expression around the quoted literals of vals and says what it must evaluate to
type form struct {
	name    string
	clause  string // counter suffix: alone | concat | funcarg | indexkey
	nvals   int
	applies func(v []string) bool
	build   func(v []string) (expr string, accept func(out string) bool, want string)
}

func eq(want string) func(string) bool { return func(out string) bool { return out == want } }

func isASCIIString(s string) bool { return isASCII(s) }

var c12Forms = []form{
	{"alone", "alone", 1, nil, func(v []string) (string, func(string) bool, string) { return quote(v[0]), eq(v[0]), v[0] }},
	{"parenthesised", "alone", 1, nil, func(v []string) (string, func(string) bool, string) {
		return "(" + quote(v[0]) + ")", eq(v[0]), v[0]
	}},
	{"concat", "concat", 2, nil, func(v []string) (string, func(string) bool, string) {
		return quote(v[0]) + " & " + quote(v[1]), eq(v[0] + v[1]), v[0] + v[1]
	}},
	{"concat-tight", "concat", 2, nil, func(v []string) (string, func(string) bool, string) {
		return quote(v[0]) + "&" + quote(v[1]) + "&" + quote(v[0]), eq(v[0] + v[1] + v[0]), v[0] + v[1] + v[0]
	}},
	{"concat-context-left", "concat", 1, nil, func(v []string) (string, func(string) bool, string) {
		return "foo & " + quote(v[0]), eq("FOO" + v[0]), "FOO" + v[0]
	}},
	{"concat-context-right", "concat", 1, nil, func(v []string) (string, func(string) bool, string) {
		return quote(v[0]) + " & foo", eq(v[0] + "FOO"), v[0] + "FOO"
	}},
	{"text()", "funcarg", 1, nil, func(v []string) (string, func(string) bool, string) {
		return "text(" + quote(v[0]) + ")", eq(v[0]), v[0]
	}},
	{"upper()", "funcarg", 1, func(v []string) bool { return isASCIIString(v[0]) }, func(v []string) (string, func(string) bool, string) {
		return "upper(" + quote(v[0]) + ")", eq(strings.ToUpper(v[0])), strings.ToUpper(v[0])
	}},
	{"text_length()", "funcarg", 1, nil, func(v []string) (string, func(string) bool, string) {
		w := strconv.Itoa(utf8.RuneCountInString(v[0]))
		return "text_length(" + quote(v[0]) + ")", eq(w), w
	}},
	{"json()", "funcarg", 1, nil, func(v []string) (string, func(string) bool, string) {
		return "json(" + quote(v[0]) + ")", func(out string) bool {
			var s string
			return json.Unmarshal([]byte(out), &s) == nil && s == v[0]
		}, "a JSON string that decodes to the value"
	}},
	{"if()", "funcarg", 2, nil, func(v []string) (string, func(string) bool, string) {
		return "if(true, " + quote(v[0]) + ", " + quote(v[1]) + ")", eq(v[0]), v[0]
	}},
	{"array()[1]", "funcarg", 2, nil, func(v []string) (string, func(string) bool, string) {
		return "array(" + quote(v[0]) + ", " + quote(v[1]) + ")[1]", eq(v[1]), v[1]
	}},
	{"equality", "funcarg", 2, nil, func(v []string) (string, func(string) bool, string) {
		w := strconv.FormatBool(v[0] == v[1])
		return quote(v[0]) + " = " + quote(v[1]), eq(w), w
	}},
	{"lambda-argument", "funcarg", 2, nil, func(v []string) (string, func(string) bool, string) {
		return "((x) => x & " + quote(v[1]) + ")(" + quote(v[0]) + ")", eq(v[0] + v[1]), v[0] + v[1]
	}},
	{"index-key", "indexkey", 1, func(v []string) bool { return strings.ToLower(v[0]) != "__default__" }, func(v []string) (string, func(string) bool, string) {
		return "obj[" + quote(v[0]) + "]", eq("value-of-key"), "value-of-key"
	}},
	{"index-key-then-concat", "indexkey", 2, func(v []string) bool { return strings.ToLower(v[0]) != "__default__" }, func(v []string) (string, func(string) bool, string) {
		return "obj[" + quote(v[0]) + "] & " + quote(v[1]), eq("value-of-key" + v[1]), "value-of-key" + v[1]
	}},
}

func formByName(n string) form {
	for _, f := range c12Forms {
		if f.name == n {
			return f
		}
	}
	panic("no form " + n)
}

// evaluation helpers --------------------------------------------------------------------------

func scanAll(tpl string, tops []string) (toks []token, pn *panicInfo) {
	defer func() {
		if rec := recover(); rec != nil {
			pn = &panicInfo{rec, string(debug.Stack())}
		}
	}()
	fw.SetDetail("NewXScanner.Scan: " + clip(tpl, 300))
	sc := excellent.NewXScanner(strings.NewReader(tpl), tops)
	for i := 0; i < len(tpl)+8; i++ {
		tt, t := sc.Scan()
		if tt == excellent.EOF {
			return toks, nil
		}
		toks = append(toks, token{tt, t})
	}
	return toks, nil
}

// normTokens merges adjacent BODY tokens and drops empty ones (how body text is split is immaterial)
func normTokens(toks []token) []token {
	var out []token
	for _, t := range toks {
		if t.typ == excellent.BODY {
			if t.text == "" {
				continue
			}
			if n := len(out); n > 0 && out[n-1].typ == excellent.BODY {
				out[n-1].text += t.text
				continue
			}
		}
		out = append(out, t)
	}
	return out
}

func tokensEqual(a, b []token) bool {
	if len(a) != len(b) {
		return false
	}
	for i := range a {
		if a[i] != b[i] {
			return false
		}
	}
	return true
}

func describeTokens(toks []token) []string {
	names := map[excellent.XTokenType]string{excellent.BODY: "BODY", excellent.IDENTIFIER: "IDENTIFIER", excellent.EXPRESSION: "EXPRESSION", excellent.EOF: "EOF"}
	out := make([]string, len(toks))
	for i, t := range toks {
		out[i] = names[t.typ] + " " + strconv.Quote(clip(t.text, 200))
	}
	return out
}

type exprOutcome struct {
	text     string // rendered value
	isErr    bool
	errText  string
	panicked bool
}

func evalExpression(env envs.Environment, ctx *types.XObject, expr string) (o exprOutcome) {
	defer func() {
		if rec := recover(); rec != nil {
			o = exprOutcome{panicked: true, errText: fmt.Sprint(rec)}
		}
	}()
	fw.SetDetail("Evaluator.Expression: " + clip(expr, 300))
	v, _ := evaluator.Expression(env, ctx, expr)
	if types.IsXError(v) {
		return exprOutcome{isErr: true, errText: v.(*types.XError).Error()}
	}
	t, xerr := types.ToXText(env, v)
	if xerr != nil {
		return exprOutcome{isErr: true, errText: xerr.Error()}
	}
	return exprOutcome{text: t.Native()}
}

// the property ------------------------------------------------------------------------------------

func (p *c12) Run(c fw.Case) fw.Result {
	res := fw.Result{}
	r := fw.NewRand(c.Seed, "C12", c.Index)
	if c.Directed != "" {
		r = fw.NewRand(0, "C12", c.Index)
	}
	fixClock()
	k := &c12run{res: &res, r: r, env: gen.Env(r)}

	var strs []string
	switch c.Directed {
	case "":
		for i := 0; i < c12StringsPerCase; i++ {
			strs = append(strs, litString(r))
		}
	case "pool":
		strs = append(strs, gen.StringPool...)
		strs = append(strs, gen.LongString(300, 150), gen.LongString(70, 63), "\U0010FFFF", "\u2028", "\ufeff", "á", "__default__", "\\n", "\\u0041", `\"`, `"\"`, `""`, `'`, "`")
	case "known:trailing-backslash":
		strs = []string{`a\`, `\`, `\\`, `"\`, `a\\\`, `x y\`, "é\\", `(\`, `)\`, `@\`, `\"\`}
	case "shared-evaluator":
		k.sharedEvaluator()
	case "body-text":
		k.directedBodies()
	case "scanner":
		k.directedScanner()
	case "parens-in-literal-and-text":
		k.directedParens()
	case "long-texts":
		k.directedLong()
	}
	for i, s := range strs {
		t := strs[(i+1)%len(strs)]
		if c.Directed == "" && r.Chance(0.3) {
			t = fw.Pick(r, []string{"", "b", `"`, "x\"y", "(", ")", "@", " ", "é", "\n"})
		}
		k.checkString(s, t, c.Directed != "")
	}
	if c.Directed == "" {
		// the strings of the parenthesis and long classes and clause (e), from a stream of their own (c12_embed.go)
		strs = append(strs, k.extras(fw.NewRand(c.Seed, "C12/extra", c.Index), strs)...)
	}
	res.Fingerprint = c.ID() + "\x1e" + strings.Join(strs, "\x1f")
	if c.Directed != "" {
		res.Fingerprint = "directed:" + c.Directed
		res.NonTrivial = true
	} else {
		res.NonTrivial = k.ntv > 0
	}
	if len(strs) > 0 {
		ex := strs[0]
		for _, s := range strs {
			if nonTrivialString(s) {
				ex = s
				break
			}
		}
		res.Sample = map[string]any{"case": c.ID(), "strings": len(strs), "example_string": clip(ex, 200), "example_template": clip("@("+quote(ex)+")", 300)}
	} else {
		res.Sample = map[string]any{"case": c.ID()}
	}
	return res
}

func (k *c12run) checkString(s, t string, allForms bool) {
	k.res.Count("strings.total", 1)
	if nonTrivialString(s) {
		k.ntv++
		k.res.Count("strings.nontrivial", 1)
	}
	if strings.HasSuffix(s, `\`) {
		k.res.Count("strings.ending_in_backslash", 1)
	}
	if strings.Contains(s, `"`) {
		k.res.Count("strings.with_quote", 1)
	}
	if strings.ContainsAny(s, "\n\r\t\u0001\u007f") {
		k.res.Count("strings.with_control", 1)
	}
	for _, c := range s {
		if c > 0xffff {
			k.res.Count("strings.non_bmp", 1)
			break
		}
	}
	vals := []string{s, t}
	k.ctx = c12Context(s)

	// (b), (c): the literal alone and among neighbours
	var forms []form
	if allForms {
		forms = c12Forms
	} else {
		forms = []form{formByName("alone"), formByName("concat")}
		for i := 0; i < 3; i++ {
			forms = append(forms, c12Forms[k.r.Intn(len(c12Forms))])
		}
	}
	for _, f := range forms {
		if f.applies != nil && !f.applies(vals) {
			continue
		}
		k.checkForm(f, vals)
	}

	// (d): scanner and parser agree on where the expression ends
	b1, b2 := k.body(), k.body()
	df := forms[len(forms)-1]
	if df.applies == nil || df.applies(vals) {
		e, _, _ := df.build(vals)
		k.checkScanner(b1, e, b2, func() (string, bool) {
			rv := repairVals(vals)
			if rv == nil {
				return "", false
			}
			e2, _, _ := df.build(rv)
			return e2, true
		})
	}
	if k.r.Chance(0.25) {
		g := newXGen(k.r)
		e := g.expr(k.r.Range(1, 3))
		k.checkScanner(b1, e, b2, func() (string, bool) { return applyRepair(e, repairBackslash) })
	}

	// (a): body text
	k.checkBody(k.bodyText(s))
}

// repairVals removes the known cause (a value ending in a backslash) from the values
func repairVals(vals []string) []string {
	out := make([]string, len(vals))
	ch := false
	for i, v := range vals {
		out[i] = v
		if strings.HasSuffix(v, `\`) {
			out[i] = v + "x"
			ch = true
		}
	}
	if !ch {
		return nil
	}
	return out
}

const classBackslash = "literal-ends-in-backslash"

// checkForm evaluates one form through the template evaluator and through the expression
// evaluator (which does not involve the template scanner).
func (k *c12run) checkForm(f form, vals []string) {
	expr, accept, want := f.build(vals)
	k.res.Seen("forms", f.name)

	// through Evaluator.Expression
	k.res.Count("clause."+map[string]string{"alone": "b", "concat": "c", "funcarg": "c", "indexkey": "c"}[f.clause]+".expression_"+f.clause, 1)
	directOK := k.directOK(expr, accept)
	if !directOK {
		o := evalExpression(k.env, k.ctx, expr)
		level := "evaluation"
		if _, err, pn := safeParse(expr); err != nil || pn != nil {
			level = "lexer"
		}
		class := "other"
		if rv := repairVals(vals); rv != nil {
			e2, acc2, _ := f.build(rv)
			ctx := k.ctx
			k.ctx = c12Context(rv[0])
			if k.directOK(e2, acc2) {
				class = classBackslash
			}
			k.ctx = ctx
		}
		what := fmt.Sprintf("a quoted literal (%s) does not evaluate to its string when parsed as an expression", f.name)
		if class == classBackslash && level == "lexer" {
			what += " — the literal ends in \\\\\" and another quote follows: the lexer's TEXT rule ('\"' (~[\"] | '\\\\\"')* '\"') takes the longest match across the closing quote"
		}
		k.res.Count("violations.expression_level", 1)
		k.res.Violate("literal|"+level+"|"+class, what, map[string]any{"form": f.name, "values": vals, "expression": expr, "expected": want,
			"observed": map[string]any{"value": clip(o.text, 300), "error": o.errText, "panicked": o.panicked}})
	}

	// the same expression as goflow's printer writes it (the other way a string value gets written as a literal: every
	// rewritten template goes through Expression.String())
	if directOK {
		if parsed, err, pn := safeParse(expr); err == nil && pn == nil {
			printed, ppn := safeString(parsed)
			k.res.Count("clause.b.printed_literal", 1)
			if ppn != nil || !k.directOK(printed, accept) {
				o := evalExpression(k.env, k.ctx, printed)
				k.res.Count("violations.printed_level", 1)
				k.res.Violate("literal|printed|"+f.clause, fmt.Sprintf("a quoted literal (%s) that evaluates to its string no longer does after the expression is printed by Expression.String()", f.name),
					map[string]any{"form": f.name, "values": vals, "expression": expr, "printed": printed, "expected": want, "observed": map[string]any{"value": clip(o.text, 300), "error": o.errText, "panicked": o.panicked}})
			}
		}
	}

	// through Evaluator.Template
	tpl := "@(" + expr + ")"
	k.res.Count("clause."+map[string]string{"alone": "b", "concat": "c", "funcarg": "c", "indexkey": "c"}[f.clause]+".template_"+f.clause, 1)
	if k.templateOK(tpl, accept) {
		return
	}
	o := evalTemplate(k.env, k.ctx, tpl)
	toks, _ := scanAll(tpl, k.ctx.Properties())
	level := "template"
	if !tokensEqual(normTokens(toks), []token{{excellent.EXPRESSION, expr}}) {
		level = "scanner"
	} else if !directOK {
		return // the scanner did its part; already reported at the lexer / evaluation level
	}
	class := "other"
	if rv := repairVals(vals); rv != nil {
		e2, acc2, _ := f.build(rv)
		ctx := k.ctx
		k.ctx = c12Context(rv[0])
		if k.templateOK("@("+e2+")", acc2) {
			class = classBackslash
		}
		k.ctx = ctx
	}
	what := fmt.Sprintf("@(<quoted literal>) (%s) does not evaluate to the string", f.name)
	if class == classBackslash && level == "scanner" {
		what += " — the literal ends in \\\\\": the template scanner's readTextLiteral keeps `escaped` set on the second backslash, does not see the closing quote and leaves the whole @(…) as literal text"
	}
	k.res.Count("violations.template_level", 1)
	k.res.Violate("literal|"+level+"|"+class, what, map[string]any{"form": f.name, "values": vals, "template": tpl, "expected": want,
		"observed": o.describe(), "scanner_tokens": describeTokens(toks)})
}

func (k *c12run) directOK(expr string, accept func(string) bool) bool {
	o := evalExpression(k.env, k.ctx, expr)
	return !o.panicked && !o.isErr && accept(o.text)
}

func (k *c12run) templateOK(tpl string, accept func(string) bool) bool {
	o := evalTemplate(k.env, k.ctx, tpl)
	return !o.panicked && !o.hasErr && accept(o.out)
}

// body returns body text without '@' (and without NUL)
func (k *c12run) body() string {
	if k.r.Chance(0.2) {
		return ""
	}
	s := fw.Pick(k.r, []string{"Hi ", "\"", "(", ")", "))", "((", "\\", "\\\"", " é ", "\n", "x", " \"quoted\" ", "a.b ", "it's", "😀"})
	if k.r.Chance(0.5) {
		s = strings.ReplaceAll(litString(k.r), "@", "a")
	}
	return s
}

// wellFormedLiterals: under the escape-aware reading (a backslash escapes the next character) all
// quotes of the expression pair up. The lexer also accepts "a\" at the very end of an expression by
// backtracking; no scanner can be asked to agree with that, so such expressions are left out of (d).
func wellFormedLiterals(expr string) bool {
	in := false
	esc := false
	for _, c := range expr {
		switch {
		case !in:
			if c == '"' {
				in = true
			}
		case esc:
			esc = false
		case c == '\\':
			esc = true
		case c == '"':
			in = false
		}
	}
	return !in
}

// checkScanner: body1 @( E ) body2 must scan as [BODY body1, EXPRESSION E, BODY body2] when the
// parser accepts E. repaired() gives E without values ending in a backslash (the known cause).
func (k *c12run) checkScanner(b1, e, b2 string, repaired func() (string, bool)) {
	if strings.ContainsRune(e, 0) {
		return
	}
	if _, err, pn := safeParse(e); err != nil || pn != nil {
		k.res.Count("d.skipped_expression_rejected_by_parser", 1)
		return
	}
	if !wellFormedLiterals(e) {
		k.res.Count("d.skipped_literal_closed_by_lexer_backtracking", 1)
		return
	}
	k.res.Count("clause.d.scanner_tokens", 1)
	ok, toks, want := k.scannerOK(b1, e, b2)
	if ok {
		k.checkVisit(b1, e, b2, want)
		return
	}
	class := "other"
	if e2, changed := repaired(); changed {
		if ok2, _, _ := k.scannerOK(b1, e2, b2); ok2 {
			class = classBackslash
		}
	}
	what := "the template scanner and the expression parser disagree on where the expression ends"
	if class == classBackslash {
		what += " — a literal ends in \\\\\": readTextLiteral keeps `escaped` set on the second backslash and does not see the closing quote"
	}
	k.res.Count("violations.scanner", 1)
	k.res.Violate("literal|scanner|"+class, what, map[string]any{"template": b1 + "@(" + e + ")" + b2, "expression": e,
		"expected_tokens": describeTokens(want), "scanner_tokens": describeTokens(toks)})
}

func (k *c12run) scannerOK(b1, e, b2 string) (bool, []token, []token) {
	tpl := b1 + "@(" + e + ")" + b2
	toks, pn := scanAll(tpl, c12Tops)
	want := normTokens([]token{{excellent.BODY, b1}, {excellent.EXPRESSION, e}, {excellent.BODY, b2}})
	if pn != nil {
		return false, toks, want
	}
	return tokensEqual(normTokens(toks), want), toks, want
}

// (a) body text ---------------------------------------------------------------------------------

func isNameChar(c rune) bool { return unicode.IsLetter(c) || unicode.IsNumber(c) || c == '_' }

// inBodyClass: every '@' is doubled, or is followed by neither '(' nor an allowed top-level name
// (the maximal run of name characters after the '@', compared in lower case).
func inBodyClass(text string, tops []string) (in bool, doubles, lones int) {
	rs := []rune(text)
	for i := 0; i < len(rs); i++ {
		if rs[i] != '@' {
			continue
		}
		if i+1 < len(rs) && rs[i+1] == '@' {
			doubles++
			i++
			continue
		}
		lones++
		if i+1 < len(rs) && rs[i+1] == '(' {
			return false, doubles, lones
		}
		j := i + 1
		for j < len(rs) && isNameChar(rs[j]) {
			j++
		}
		name := strings.ToLower(string(rs[i+1 : j]))
		for _, t := range tops {
			if name == strings.ToLower(t) {
				return false, doubles, lones
			}
		}
	}
	return true, doubles, lones
}

var atPieces = []string{"@@", "@@", "@@", "@ ", "@", "@.", "@. ", "@1", "@_", "@é", "@contactx", "@nyaruka.com", "@Contact2", "@x.contact", "@foo_bar", "@_foo", "@fo", "@FOOD", "@résultats",
	"@@contact", "@@(1 + 2)", "@@foo.bar", "@@@@", "@@@ ", "bob@nyaruka.com", "a@b.c@d.e", "@-", "@\"", "@)", "@\\", "@\n", "@@@@@@", "@été1", "@x(", "@9foo", "@contact_", "@😀", "@½", "@٣x", "@²",
	// look-alikes of allowed names: letters that lower-casing leaves alone but case folding identifies (long s, final
	// sigma, micro sign), the replacement character and invisible characters next to '@' and inside names
	"@reſults", "@reſultſ", "@ſession", "bob@ſession.org", "@seſsion.x", "@ςμ", "@σµ", "@ΣΜx", "@\ufffd", "@\ufffdcontact", "@contact\ufffd", "\ufffd", "x\ufffdy ", "@\u200bcontact", "@foo\u0301", "@fo\u200do",
	// not in the class (filtered out by inBodyClass, counted)
	"@contact", "@(1)", "@foo.x", "@Session", "@ΣΜ"}

func (k *c12run) bodyText(s string) string {
	var b strings.Builder
	n := k.r.Range(1, 5)
	for i := 0; i < n; i++ {
		switch k.r.Intn(5) {
		case 0:
			b.WriteString(strings.ReplaceAll(s, "@", fw.Pick(k.r, []string{"@@", "@ ", "a"})))
		case 1:
			b.WriteString(strings.ReplaceAll(litString(k.r), "@", fw.Pick(k.r, []string{"@@", "@ ", "a"})))
		case 2:
			b.WriteString(fw.Pick(k.r, []string{" ", "Hi ", "(", ")", "\"", "\\", "x", ".", "é", "\n"}))
		default:
			b.WriteString(fw.Pick(k.r, atPieces))
		}
	}
	return b.String()
}

func (k *c12run) checkBody(text string) {
	if strings.ContainsRune(text, 0) || !utf8.ValidString(text) {
		return
	}
	for _, bc := range c12BodyContexts {
		k.checkBodyIn(text, bc.name, bc.tops, bc.ctx())
	}
}

func (k *c12run) checkBodyIn(text, ctxName string, tops []string, ctx *types.XObject) {
	in, doubles, lones := inBodyClass(text, tops)
	if !in {
		k.res.Count("a.skipped_not_in_class", 1)
		return
	}
	want := strings.ReplaceAll(text, "@@", "@")
	k.res.Count("clause.a.body_passthrough", 1)
	k.res.Count("a.context."+ctxName, 1)
	if strings.ContainsRune(text, '\ufffd') {
		k.res.Count("a.texts_with_replacement_char", 1)
	}
	if doubles > 0 {
		k.res.Count("a.texts_with_double_at", 1)
	}
	if lones > 0 {
		k.res.Count("a.texts_with_lone_at", 1)
	}
	o := evalTemplate(k.env, ctx, text)
	if !o.panicked && !o.hasErr && o.out == want {
		return
	}
	class := "other"
	switch {
	case doubles > 0 && lones == 0:
		class = "double-at"
	case doubles == 0 && lones > 0:
		class = "lone-at"
	case doubles > 0 && lones > 0:
		class = "double-and-lone-at"
	}
	toks, _ := scanAll(text, ctx.Properties())
	k.res.Count("violations.body", 1)
	if ctxName != "full" {
		class += "|context:" + ctxName
	}
	k.res.Violate("body-text-changed|"+class, "literal template text (every '@' doubled or followed by neither '(' nor an allowed top-level name) did not pass through Evaluator.Template unchanged modulo '@@' -> '@'",
		map[string]any{"template": text, "expected": want, "observed": o.describe(), "scanner_tokens": describeTokens(toks), "allowed_top_levels": tops, "context": ctxName})
}

func (k *c12run) directedBodies() {
	for _, t := range []string{
		"", "plain text", "bob@nyaruka.com", "mail bob@nyaruka.com now", "@@", "@", "@@@", "@@@@", "x@", "x@@", "@ x", "@.", "@@contact", "@@(1 + 2)", "@@@@contact", "@contactx", "@Contact2.name",
		"@x.contact.name", "hi @bob and @@alice", "100% @ 5", "\"@\"", "(@)", "@)", "@\\", "@\n@", "a@b@c@d", "@@x@@", "@_", "@1", "@1.5", "@é", "@日本", "foo@été1", "\\@@", "@@\\", "@\"contact\"",
		"@ contact", "@-contact", "@.contact", "@@foo @@obj @@results", "tel:@@+123", "()@@()", "@@(", "@@)", "))@@((", "\"@@\"", "a\\\"@@", "@😀", "@@😀@@",
	} {
		k.checkBody(t)
	}
}

func (k *c12run) directedScanner() {
	for _, e := range []string{`1`, `"a"`, `"a" & "b"`, `")"`, `"("`, `")("`, `"\""`, `"\")"`, `"a\"b" & ")"`, `upper("(")`, `(1 + (2 * 3))`, `((("x")))`, `"\\n"`, `"\\\""`, `"\\" `, `"a\\"`,
		`foo & "\\"`, `"\\" & foo`, `obj["k"]`, `obj["\""]`, "\"a\nb\"", `"é😀"`, `"@(1)"`, `"@contact"`, `foreach(array("a"), (x) => x & ")")`, `"\w\"q"`, `"\q\\"`, `"a\"`} {
		for _, b := range [][2]string{{"", ""}, {"x ", " y"}, {"(", ")"}, {"\"", "\""}, {")", "("}, {"\\", "\\"}, {"say \"", "\" ok"}} {
			ee := e
			k.checkScanner(b[0], ee, b[1], func() (string, bool) { return applyRepair(ee, repairBackslash) })
		}
	}
}

// sharedEvaluator: an Evaluator is shared by everything that evaluates (the engine has one for all its sessions), so the
// clauses have to hold when it is used from several goroutines at once and when an evaluation is started while another is
// in progress (a function of the context that evaluates a template of its own). Expected outputs are known exactly
// (literal texts and quoted literals), every goroutine works on its own strings, nothing is shared but the evaluator.
func (k *c12run) sharedEvaluator() {
	ev := excellent.NewEvaluator()
	env := k.env
	const goroutines, perG = 8, 400
	type job struct{ tpl, want string }
	jobs := make([][]job, goroutines)
	for g := range jobs {
		for i := 0; i < perG; i++ {
			body1 := strings.ReplaceAll(litString(k.r), "@", "@@")
			body2 := strings.ReplaceAll(litString(k.r), "@", "@@")
			lit := litString(k.r)
			mark := fmt.Sprintf("<%d.%d>", g, i)
			jobs[g] = append(jobs[g], job{mark + body1 + "@(" + quote(lit) + ")" + body2 + mark, mark + strings.ReplaceAll(body1, "@@", "@") + lit + strings.ReplaceAll(body2, "@@", "@") + mark})
		}
	}
	type bad struct {
		g        int
		j        job
		got, err string
	}
	bads := make([][]bad, goroutines)
	var wg sync.WaitGroup
	start := make(chan struct{})
	for g := 0; g < goroutines; g++ {
		wg.Add(1)
		go func(g int) {
			defer wg.Done()
			ctx := c12Context("k")
			<-start
			for _, j := range jobs[g] {
				out, _, err := ev.Template(env, ctx, j.tpl, nil)
				if err != nil || out != j.want {
					e := ""
					if err != nil {
						e = err.Error()
					}
					bads[g] = append(bads[g], bad{g, j, out, e})
				}
			}
		}(g)
	}
	close(start)
	wg.Wait()
	k.res.Count("clause.shared_evaluator.templates", int64(goroutines*perG))
	for g := range bads {
		for _, b := range bads[g] {
			// the same template alone
			alone, _, aerr := excellent.NewEvaluator().Template(env, c12Context("k"), b.j.tpl, nil)
			if aerr == nil && alone == b.j.want {
				k.res.Violate("shared-evaluator|concurrent-output-differs", "a template evaluated on an Evaluator that other goroutines use at the same time gave another text than it gives alone",
					map[string]any{"template": clip(b.j.tpl, 400), "expected": clip(b.j.want, 400), "observed": clip(b.got, 400), "error": b.err, "goroutines": goroutines})
				return
			}
			k.res.Count("shared_evaluator.differs_also_alone(judged_by_the_other_clauses)", 1)
		}
	}
	// nested: a function of the context evaluates a template on the same evaluator while the outer template is being evaluated
	inner := types.NewXFunction("inner", func(env envs.Environment, args ...types.XValue) types.XValue {
		out, _, _ := ev.Template(env, c12Context("k"), "inner-@@-text @(\"in\" & \"ner\") end", nil)
		return types.NewXText(out)
	})
	ctx := types.NewXObject(map[string]types.XValue{"inner": inner, "foo": types.NewXText("FOO")})
	k.res.Count("clause.shared_evaluator.nested", 1)
	out, _, err := ev.Template(env, ctx, "outer-start @foo [@(inner())] @(\"lit\") outer-end", nil)
	if want := "outer-start FOO [inner-@-text inner end] lit outer-end"; err != nil || out != want {
		k.res.Violate("shared-evaluator|nested-output-differs", "a template whose evaluation starts another evaluation on the same Evaluator lost or mixed up its literal text",
			map[string]any{"expected": want, "observed": out, "error": fmt.Sprint(err)})
	}
}
