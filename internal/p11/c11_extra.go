package p11

import (
	"encoding/json"
	"fmt"
	"runtime/debug"
	"strings"
	"sync"

	"github.com/Masterminds/semver"
	"github.com/nyaruka/goflow/excellent"
	"github.com/nyaruka/goflow/excellent/refactor"
	"github.com/nyaruka/goflow/excellent/types"
	"github.com/nyaruka/goflow/flows/definition/migrations"

	"verif/internal/fw"
)

// Three input / history classes that the first version of the workload lacked. They are appended to every generated
// case from a random stream of their own (fw.NewRand(seed, "C11/extra", index): still a pure function of seed, property
// and index, and the texts of the older families stay what they were), and each has directed cases.
//
//  1. chains of numeric dot lookups whose keys are digit strings of any length (ids, msisdns, timestamps used as object
//     keys; beyond int64), written with the separating white space the grammar needs, evaluated in contexts that hold
//     such keys;
//  2. ONE rename transformation applied to a whole batch of templates — one after the other and from several goroutines
//     at once — with every output compared with what a transformation of its own gives for that template (which the
//     rename clause judges by value); the batch holds anonymous functions whose parameter has the renamed name;
//  3. flow definitions with a localization section run through the 13.3 migration (the rewrite the property names:
//     @webhook -> @webhook.json in every template of a flow), every template — base language and translations —
//     judged by value: migrated text in ctx[webhook.json := ctx[webhook]] against the original text in ctx.

// 1. numeric dot-lookup chains --------------------------------------------------------------------------------------

var xShortKeys = []string{"0", "1", "2", "7", "10", "007"}

// digit strings around and beyond the native integer sizes
var xLongKeys = []string{"99999999999999999999", "250788123456789012345", "9223372036854775807", "9223372036854775808", "18446744073709551616", "00000000000000000000123", "4294967296", "1700000000000000000000"}

var idsOnce sync.Once
var idsVal types.XValue

// idsValue: nested objects keyed by digit strings, three levels (the third with fewer keys), leaves are texts naming their path
func idsValue() types.XValue {
	idsOnce.Do(func() {
		all := append(append([]string{}, xShortKeys...), xLongKeys...)
		last := []string{"1", "7", xLongKeys[0], xLongKeys[3], xLongKeys[1]}
		var level func(d int, path string) types.XValue
		level = func(d int, path string) types.XValue {
			if d == 0 {
				return types.NewXText("v" + path)
			}
			keys := all
			if d == 1 {
				keys = last
			}
			m := map[string]types.XValue{"name": types.NewXText("n" + path)}
			for _, key := range keys {
				m[key] = level(d-1, path+"/"+key)
			}
			return types.NewXObject(m)
		}
		idsVal = level(3, "")
	})
	return idsVal
}

// withIDs adds the top-level key "ids" to the evaluation contexts of the case (used for the appended families only)
func (k *c11run) withIDs(xr *fw.Rand) {
	if contains(k.tops, "ids") {
		return
	}
	for i, ec := range k.ctxs {
		m := map[string]types.XValue{}
		for _, key := range ec.ctx.Properties() {
			v, _ := ec.ctx.Get(key)
			m[key] = v
		}
		m["ids"] = idsValue()
		k.ctxs[i] = evalCtx{ec.env, types.NewXObject(m)}
	}
	k.tops = k.ctxs[0].ctx.Properties()
	k.topsAnyOrder = append([]string{}, k.tops...)
	fw.Shuffle(xr, k.topsAnyOrder)
}

func numKey(r *fw.Rand) string {
	switch r.Intn(10) {
	case 0, 1, 2:
		return fw.Pick(r, xShortKeys)
	case 3, 4, 5, 6:
		return fw.Pick(r, xLongKeys)
	}
	n := r.Range(11, 26)
	var b strings.Builder
	for i := 0; i < n; i++ {
		if i == 0 && r.Chance(0.8) {
			b.WriteByte(byte('1' + r.Intn(9)))
		} else {
			b.WriteByte(byte('0' + r.Intn(10)))
		}
	}
	return b.String()
}

func isLongKey(s string) bool { return allDigits(s) && len(strings.TrimLeft(s, "0")) >= 19 }

// numChain writes a lookup chain in which numeric dot lookups follow one another; two adjacent numeric lookups are
// written apart ("ids.1 .2": "1.2" would lex as a decimal). long reports whether a key beyond int64 is part of such a pair.
func numChain(r *fw.Rand) (text string, long bool) {
	base := fw.Pick(r, []string{"ids", "ids", "ids", "ids", "IDS", "Ids", "arr", "nums", "webhook.b.c", "(ids)", "arr.3", "ids.name", `ids["7"]`, "obj"})
	prevNum, prevKey := base == "arr.3", "3"
	n := r.Range(2, 4)
	var b strings.Builder
	b.WriteString(base)
	for i := 0; i < n; i++ {
		switch {
		case r.Chance(0.8):
			key := numKey(r)
			sep := fw.Pick(r, []string{".", ".", ".", " .", ". ", " . "})
			if prevNum {
				sep = fw.Pick(r, []string{" .", " .", " .", " . ", "\t.", "  .", "\n."})
				if r.Chance(0.03) {
					sep = "." // the boundary of the class: a decimal, rejected by the parser
				}
				if isLongKey(key) || isLongKey(prevKey) {
					long = true
				}
			}
			b.WriteString(sep + key)
			prevNum, prevKey = true, key
		case r.Bool():
			b.WriteString("." + fw.Pick(r, []string{"name", "x", "NAME"}))
			prevNum = false
		default:
			b.WriteString(`["` + numKey(r) + `"]`)
			prevNum = false
		}
	}
	return b.String(), long
}

func genNumChain(r *fw.Rand) string {
	x, _ := numChain(r)
	switch r.Intn(12) {
	case 0:
		return "upper(" + x + ")"
	case 1:
		return x + ` & "!"`
	case 2:
		return "-" + x
	case 3:
		return "(" + x + ")"
	case 4:
		y, _ := numChain(r)
		return x + " = " + y
	case 5:
		return `if(is_error(` + x + `), "e", ` + x + `)`
	case 6:
		return `foreach(array(` + x + `, 1), (x) => x & "")`
	case 7:
		return "(" + x + ") ." + numKey(r)
	case 8:
		return `text_length(` + x + `) + 1`
	}
	return x
}

func genNumChainTemplate(r *fw.Rand) string {
	x := genNumChain(r)
	switch r.Intn(5) {
	case 0:
		return "x=@(" + x + ").1 y"
	case 1:
		return "@(" + x + ")"
	case 2:
		return "Hi @(" + x + ") and @(" + genNumChain(r) + ")!"
	case 3:
		return "@ids." + numKey(r) + " @(" + x + ")"
	}
	return fw.Pick(r, xBodies) + "@(" + x + ")" + fw.Pick(r, xBodies)
}

func (k *c11run) countNumChain(text string) {
	root, err, pn := safeParse(text)
	if err != nil || pn != nil {
		return
	}
	pair, long := false, false
	walk(root, func(n excellent.Expression) {
		if d, ok := n.(*excellent.DotLookup); ok && allDigits(d.Lookup) {
			if c, ok := d.Container.(*excellent.DotLookup); ok && allDigits(c.Lookup) {
				pair = true
				if isLongKey(d.Lookup) || isLongKey(c.Lookup) {
					long = true
				}
			}
		}
	})
	if pair {
		k.res.Count("exprs.numeric_dot_chain", 1)
	}
	if long {
		k.res.Count("exprs.numeric_dot_chain_key_beyond_int64", 1)
	}
}

// 2. one transformation for a batch of templates -------------------------------------------------------------------

// genShadowTemplate: a template in which anonymous functions have a parameter with the renamed name, next to free
// references to that name
func genShadowTemplate(r *fw.Rand, from string) string {
	g := &xgen{r: r}
	p := func() string { return g.caseMix(from, 0.3) }
	free := func() string {
		return fw.Pick(r, []string{from, from + ".a", from + `["a"]`, "upper(" + from + ")", from + ".b.c", g.caseMix(from, 1) + ".name", from + "[0]"})
	}
	coll := func() string {
		return fw.Pick(r, []string{"arr", "words", "array(1, 2, 3)", from, from + ".items", "contact.urns", `split("a b c", " ")`})
	}
	body := func(v string) string {
		return fw.Pick(r, []string{v, v + ` & "!"`, "upper(" + v + ")", v + ` & "-" & ` + v, v + " & " + free(), `text(` + v + `) & text(` + v + `) & ` + v, "(" + v + ")", v + ".a"})
	}
	one := func() string {
		a, b := p(), p()
		switch r.Intn(7) {
		case 0:
			return "@(foreach(" + coll() + ", (" + a + ") => " + body(b) + "))"
		case 1:
			return "@(((" + a + ", n) => " + b + " & n & " + p() + ")(" + free() + ", 2))"
		case 2:
			return "@(" + free() + " & foreach(" + coll() + ", (item) => ((" + a + ") => " + b + " & item)(" + free() + ")))"
		case 3:
			return "@(foreach(" + coll() + ", (x) => foreach(" + coll() + ", (" + a + ") => " + b + " & x & \"(\")))"
		case 4:
			return "@(foreach(foreach(" + coll() + ", (" + a + ") => " + body(b) + "), (x) => x & " + free() + "))"
		case 5:
			return "@" + free()
		}
		return "@(" + free() + " & ((" + a + ") => " + body(b) + ")(1) & " + free() + ")"
	}
	var b strings.Builder
	n := r.Range(1, 3)
	for i := 0; i < n; i++ {
		if r.Bool() {
			b.WriteString(fw.Pick(r, []string{"Hi ", "x@@" + from + ".com ", " and ", "(", "no references here ", "é "}))
		}
		b.WriteString(one())
		if r.Chance(0.3) {
			b.WriteString(fw.Pick(r, []string{" bye", ".", " items", " @(1 + 2)"}))
		}
	}
	return b.String()
}

type sharedUnit struct {
	tpl    string
	solo   string                 // output of refactor.Template with a transformation used for nothing else
	exprs  []excellent.Expression // pristine trees of the parseable expression tokens
	solos  []string               // their printed form after a transformation of their own
	srcs   []string
	usable bool
}

// checkSharedRename applies ONE ContextRefRename(from -> to) to all templates of a batch, one after the other and then
// from `workers` goroutines at once, and compares every output with the output of a transformation that was made for
// that template alone. The statement is about the transformation, not about who else is using it: whatever the
// schedule, exactly the renamed references change.
func (k *c11run) checkSharedRename(batch []string, from, to string, workers, rounds int) {
	var units []*sharedUnit
	for _, tpl := range batch {
		u := &sharedUnit{tpl: tpl}
		out, _, pn := safeRefactor(tpl, k.topsAnyOrder, refactor.ContextRefRename(from, to))
		if pn != nil {
			continue // the rename clause reports that
		}
		u.solo, u.usable = out, true
		toks, pn := scanTokens(tpl, k.topsAnyOrder)
		if pn != nil {
			continue
		}
		for _, t := range exprTokens(toks) {
			e, err, pn := safeParse(t.text)
			if err != nil || pn != nil {
				continue
			}
			if _, ok := cloneExpr(e); !ok {
				k.res.Count("shared.tree_not_copied", 1)
				continue
			}
			mine, _ := cloneExpr(e)
			s, pn := applyTx(refactor.ContextRefRename(from, to), mine)
			if pn != nil {
				continue
			}
			u.exprs = append(u.exprs, e)
			u.solos = append(u.solos, s)
			u.srcs = append(u.srcs, t.text)
		}
		units = append(units, u)
	}
	if len(units) == 0 {
		return
	}
	k.res.Count("shared.batches", 1)
	k.nontrivial++

	// one after the other
	sh := refactor.ContextRefRename(from, to)
	for _, u := range units {
		out, _, pn := safeRefactor(u.tpl, k.topsAnyOrder, sh)
		k.res.Count("clause.rename_shared_sequential", 1)
		if pn != nil || out != u.solo {
			obs := out
			if pn != nil {
				obs = "panic: " + pn.String()
			}
			k.res.Count("violations.shared", 1)
			k.res.Violate("rename|shared-transformation|sequential", "one ContextRefRename transformation applied to several templates in a row gives another result than a transformation made for the template",
				map[string]any{"template": u.tpl, "rename_from": from, "rename_to": to, "alone": u.solo, "shared": obs, "batch": batch})
			return
		}
	}

	if workers < 2 || rounds <= 0 {
		return
	}
	// all at once
	sh = refactor.ContextRefRename(from, to)
	var mu sync.Mutex
	var first map[string]any
	var checked int64
	var wg sync.WaitGroup
	fw.SetDetail(fmt.Sprintf("%d goroutines sharing one ContextRefRename(%s -> %s) over %d templates", workers, from, to, len(units)))
	for w := 0; w < workers; w++ {
		wg.Add(1)
		go func(w int) {
			defer wg.Done()
			n := int64(0)
			report := func(wit map[string]any) {
				mu.Lock()
				if first == nil {
					first = wit
				}
				mu.Unlock()
			}
			defer func() {
				if rec := recover(); rec != nil {
					report(map[string]any{"panic": fmt.Sprint(rec), "stack": fw.TrimStack(string(debug.Stack()))})
				}
				mu.Lock()
				checked += n
				mu.Unlock()
			}()
			for r := 0; r < rounds; r++ {
				u := units[(w+r)%len(units)]
				if r%6 == 0 || len(u.exprs) == 0 {
					out, _ := refactor.Template(u.tpl, k.topsAnyOrder, sh)
					n++
					if out != u.solo {
						report(map[string]any{"template": u.tpl, "alone": u.solo, "shared": out})
						return
					}
					continue
				}
				for i, e := range u.exprs {
					mine, _ := cloneExpr(e)
					sh(mine)
					s := mine.String()
					n++
					if s != u.solos[i] {
						report(map[string]any{"template": u.tpl, "expression": u.srcs[i], "alone": u.solos[i], "shared": s})
						return
					}
				}
			}
		}(w)
	}
	wg.Wait()
	k.res.Count("clause.rename_shared_concurrent", checked)
	if first != nil {
		first["rename_from"], first["rename_to"], first["goroutines"], first["batch"] = from, to, workers, batch
		k.res.Count("violations.shared", 1)
		k.res.Violate("rename|shared-transformation|concurrent", "one ContextRefRename transformation used by several goroutines at once gives another result than a transformation made for the template (references other than the renamed ones changed)", first)
	}
}

func applyTx(tx func(excellent.Expression) bool, e excellent.Expression) (s string, pn *panicInfo) {
	defer func() {
		if rec := recover(); rec != nil {
			pn = &panicInfo{rec, string(debug.Stack())}
		}
	}()
	tx(e)
	return e.String(), nil
}

// 3. the 13.3 migration on localized flows -------------------------------------------------------------------------

type mloc struct {
	where string // "base" or "translation"
	desc  string
	path  []any  // into the flow document
	owner string // item uuid + "/" + property (ties translations to their base property)
}

func at(doc any, path []any) (string, bool) {
	cur := doc
	for _, p := range path {
		switch key := p.(type) {
		case string:
			m, ok := cur.(map[string]any)
			if !ok {
				return "", false
			}
			cur, ok = m[key]
			if !ok {
				return "", false
			}
		case int:
			a, ok := cur.([]any)
			if !ok || key >= len(a) {
				return "", false
			}
			cur = a[key]
		}
	}
	s, ok := cur.(string)
	return s, ok
}

func xuuid(r *fw.Rand) string {
	const hex = "0123456789abcdef"
	var b [36]byte
	for i := range b {
		switch i {
		case 8, 13, 18, 23:
			b[i] = '-'
		case 14:
			b[i] = '4'
		case 19:
			b[i] = "89ab"[r.Intn(4)]
		default:
			b[i] = hex[r.Intn(16)]
		}
	}
	return string(b[:])
}

var xPlainTexts = []string{"Thanks, we have updated your balance", "Yes", "No", "Merci", "Gracias", "Hi there!", "", "bob@nyaruka.com", "100% @@home", "ok (really)", "Bye"}

// mode: 0 no reference to webhook, 1 references webhook, 2 anything
func genFlowTemplate(r *fw.Rand, mode int) string {
	if mode == 2 {
		mode = r.Weighted([]int{4, 5, 0})
		if r.Chance(0.12) {
			return genTemplate(r, false)
		}
	}
	if mode == 0 {
		switch r.Intn(4) {
		case 0:
			return fw.Pick(r, xPlainTexts) + " @contact.name"
		case 1:
			return fw.Pick(r, xPlainTexts) + fw.Pick(r, []string{" @(1 + 2)", " @(upper(contact.name))", " @results.q1.value", " @(foo & \"webhook\")", " @@webhook"})
		}
		return fw.Pick(r, xPlainTexts)
	}
	g := &xgen{r: r}
	w := func() string { return g.caseMix("webhook", 0.15) }
	switch r.Intn(9) {
	case 0:
		return fw.Pick(r, xPlainTexts) + " @" + w()
	case 1:
		return fw.Pick(r, xPlainTexts) + " @" + w() + fw.Pick(r, []string{".a", ".b.c", ".name", ".a.k", ".0", ".b.c.2.d"}) + fw.Pick(r, []string{"", ".", " ", "!", ", su saldo"})
	case 2:
		return "@(" + w() + fw.Pick(r, []string{".b.c[2].d", `["a"]`, ".a", "[0]", ""}) + ")" + fw.Pick(r, xPlainTexts)
	case 3:
		return fw.Pick(r, xPlainTexts) + ` @(upper(` + w() + `.a) & " " & contact.name)`
	case 4:
		return "@(" + w() + ".a * 2) " + fw.Pick(r, xPlainTexts) + " @" + w() + ".a"
	case 5, 6:
		return genShadowTemplate(r, "webhook")
	case 7:
		return "http://example.com/?x=@" + w() + ".a&y=@(url_encode(" + w() + ".a))"
	}
	return fw.Pick(r, xPlainTexts) + ` @(if(is_error(` + w() + `.missing), "none", ` + w() + `.a))` + " @(json(" + w() + "))"
}

var xLangs = []string{"spa", "fra", "kin", "por"}

type flowBuild struct {
	doc  map[string]any
	locs []mloc
	desc []string
}

// genFlow builds a 13.2.0 flow definition whose actions and routers hold templates in the properties the flow
// specification evaluates, with translations of the localizable ones. style: 0 random; 1 translations reference webhook,
// base texts do not; 2 the reverse; 3 both do.
func genFlow(r *fw.Rand, style int) *flowBuild {
	fb := &flowBuild{}
	loc := map[string]any{}
	langs := append([]string{}, xLangs...)
	fw.Shuffle(r, langs)
	langs = langs[:r.Range(1, 3)]
	for _, l := range langs {
		loc[l] = map[string]any{}
	}
	baseMode, transMode := 2, 2
	switch style {
	case 1:
		baseMode, transMode = 0, 1
	case 2:
		baseMode, transMode = 1, 0
	case 3:
		baseMode, transMode = 1, 1
	}
	var nodes []any
	nNodes := r.Range(1, 3)
	if style != 0 {
		nNodes = 2
	}
	for ni := 0; ni < nNodes; ni++ {
		node := map[string]any{"uuid": xuuid(r), "exits": []any{map[string]any{"uuid": xuuid(r)}}}
		var actions []any
		nAct := r.Range(1, 3)
		for ai := 0; ai < nAct; ai++ {
			uuid := xuuid(r)
			typ := fw.Pick(r, []string{"send_msg", "send_msg", "send_msg", "say_msg", "send_email", "set_run_result", "set_contact_field", "set_contact_name", "call_webhook"})
			if style != 0 {
				typ = []string{"send_msg", "send_email", "say_msg", "send_msg"}[(ni*2+ai)%4]
			}
			a := map[string]any{"uuid": uuid, "type": typ}
			base := []any{"nodes", ni, "actions", ai}
			// a template property: base value(s) and, when localizable, translations in some languages
			str := func(prop string, localizable bool) {
				a[prop] = genFlowTemplate(r, baseMode)
				fb.locs = append(fb.locs, mloc{"base", typ + "." + prop, append(append([]any{}, base...), prop), uuid + "/" + prop})
				if !localizable {
					return
				}
				for _, l := range langs {
					if style == 0 && !r.Chance(0.7) {
						continue
					}
					loc[l].(map[string]any)[uuid] = orNew(loc[l].(map[string]any)[uuid])
					loc[l].(map[string]any)[uuid].(map[string]any)[prop] = []any{genFlowTemplate(r, transMode)}
					fb.locs = append(fb.locs, mloc{"translation", l + ":" + typ + "." + prop, []any{"localization", l, uuid, prop, 0}, uuid + "/" + prop})
				}
			}
			arr := func(prop string, localizable bool, prefix string) {
				n := r.Range(0, 3)
				if style != 0 {
					n = 2
				}
				vals := make([]any, n)
				for i := range vals {
					m := baseMode
					if style == 3 && i > 0 {
						m = 0
					}
					vals[i] = prefix + genFlowTemplate(r, m)
					fb.locs = append(fb.locs, mloc{"base", typ + "." + prop, append(append([]any{}, base...), prop, i), uuid + "/" + prop})
				}
				a[prop] = vals
				if !localizable {
					return
				}
				for _, l := range langs {
					if style == 0 && !r.Chance(0.6) {
						continue
					}
					tn := r.Range(1, 3)
					tv := make([]any, tn)
					for i := range tv {
						m := transMode
						if style != 0 && i > 0 {
							m = 0 // "Si @webhook.name", "No"
						}
						tv[i] = prefix + genFlowTemplate(r, m)
						fb.locs = append(fb.locs, mloc{"translation", l + ":" + typ + "." + prop, []any{"localization", l, uuid, prop, i}, uuid + "/" + prop})
					}
					loc[l].(map[string]any)[uuid] = orNew(loc[l].(map[string]any)[uuid])
					loc[l].(map[string]any)[uuid].(map[string]any)[prop] = tv
				}
			}
			switch typ {
			case "send_msg":
				str("text", true)
				if style != 0 || r.Chance(0.6) {
					arr("quick_replies", true, "")
				}
				if r.Chance(0.3) {
					arr("attachments", true, "image/jpeg:http://example.com/")
				}
			case "say_msg":
				str("text", true)
				a["audio_url"] = "http://example.com/a.mp3"
			case "send_email":
				a["addresses"] = []any{"bob@nyaruka.com"}
				str("subject", true)
				str("body", true)
			case "set_run_result":
				a["name"] = "Result"
				a["category"] = "Cat"
				str("value", false)
			case "set_contact_field":
				a["field"] = map[string]any{"key": "age", "name": "Age"}
				str("value", false)
			case "set_contact_name":
				str("name", false)
			case "call_webhook":
				a["method"] = "POST"
				a["result_name"] = "Webhook"
				str("url", false)
				str("body", false)
			}
			actions = append(actions, a)
		}
		node["actions"] = actions
		if style == 0 && r.Chance(0.4) {
			// a switch router: operand and case arguments are templates; arguments are localizable by the case's uuid
			cat1, cat2, ex := xuuid(r), xuuid(r), node["exits"].([]any)[0].(map[string]any)["uuid"]
			rt := map[string]any{"type": "switch", "default_category_uuid": cat2,
				"categories": []any{map[string]any{"uuid": cat1, "name": "Yes", "exit_uuid": ex}, map[string]any{"uuid": cat2, "name": "Other", "exit_uuid": ex}}}
			rt["operand"] = genFlowTemplate(r, 2)
			fb.locs = append(fb.locs, mloc{"base", "switch.operand", []any{"nodes", ni, "router", "operand"}, "router/operand"})
			nc := r.Range(1, 2)
			cases := make([]any, nc)
			for ci := range cases {
				cu := xuuid(r)
				cases[ci] = map[string]any{"uuid": cu, "type": "has_any_word", "category_uuid": cat1, "arguments": []any{genFlowTemplate(r, 2)}}
				fb.locs = append(fb.locs, mloc{"base", "switch.case.arguments", []any{"nodes", ni, "router", "cases", ci, "arguments", 0}, cu + "/arguments"})
				for _, l := range langs {
					if r.Chance(0.6) {
						loc[l].(map[string]any)[cu] = map[string]any{"arguments": []any{genFlowTemplate(r, 2)}}
						fb.locs = append(fb.locs, mloc{"translation", l + ":switch.case.arguments", []any{"localization", l, cu, "arguments", 0}, cu + "/arguments"})
					}
				}
			}
			rt["cases"] = cases
			node["router"] = rt
		}
		nodes = append(nodes, node)
	}
	fb.doc = map[string]any{"uuid": xuuid(r), "name": "Localized", "spec_version": "13.2.0", "language": "eng", "type": "messaging", "revision": 1, "expire_after_minutes": 10,
		"localization": loc, "nodes": nodes}
	return fb
}

func orNew(v any) any {
	if v == nil {
		return map[string]any{}
	}
	return v
}

// refersTo: does the template, scanned the way the migration scans it (only @(…) and @name…), hold a free reference to name?
func refersTo(tpl, name string) bool {
	toks, pn := scanTokens(tpl, []string{name})
	if pn != nil {
		return false
	}
	for _, t := range exprTokens(toks) {
		if e, err, pn := safeParse(t.text); err == nil && pn == nil && contains(scopedRefs(e), name) {
			return true
		}
	}
	return false
}

func (k *c11run) tplHazard(tpl string) bool {
	toks, pn := scanTokens(tpl, k.tops)
	if pn != nil {
		return true
	}
	for _, t := range exprTokens(toks) {
		e, err, pn := safeParse(t.text)
		if pn != nil {
			return true
		}
		if err == nil && hazard(e) != "" {
			return true
		}
	}
	return false
}

func safeMigrate(data []byte) (out []byte, err error, pn *panicInfo) {
	defer func() {
		if rec := recover(); rec != nil {
			pn = &panicInfo{rec, string(debug.Stack())}
		}
	}()
	fw.SetDetail("migrations.MigrateToVersion(13.3.0)")
	out, err = migrations.MigrateToVersion(data, semver.MustParse("13.3.0"), &migrations.Config{})
	return
}

// checkMigration: every template of the flow, where ever it is kept, means after the 13.3 migration (with the webhook
// value found at webhook.json) what it meant before.
func (k *c11run) checkMigration(fb *flowBuild) string {
	data, err := json.Marshal(fb.doc)
	if err != nil {
		k.res.Count("migration.flow_not_serializable", 1)
		return ""
	}
	var before any
	if json.Unmarshal(data, &before) != nil {
		return ""
	}
	k.res.Count("migration.flows", 1)
	k.nontrivial++
	out, err, pn := safeMigrate(data)
	if pn != nil {
		k.res.Count("violations.migration", 1)
		k.res.Violate(fw.PanicSignature("migrations.MigrateToVersion", pn.rec, pn.stack), "the 13.3 migration panicked: "+pn.String(), map[string]any{"flow": before, "stack": fw.TrimStack(pn.stack)})
		return string(data)
	}
	if err != nil {
		k.res.Count("migration.rejected", 1)
		return string(data)
	}
	var after any
	if err := json.Unmarshal(out, &after); err != nil {
		k.res.Count("violations.migration", 1)
		k.res.Violate("migration|13.3|output-not-json", "the migrated definition is not JSON: "+err.Error(), map[string]any{"flow": before})
		return string(data)
	}
	// which base properties does the rewrite apply to (by our own reading of the texts)
	baseRefers := map[string]bool{}
	for _, l := range fb.locs {
		if s, ok := at(before, l.path); ok && l.where == "base" && refersTo(s, "webhook") {
			baseRefers[l.owner] = true
		}
	}
	for li, l := range fb.locs {
		orig, ok := at(before, l.path)
		if !ok {
			continue
		}
		k.res.Count("migration.templates_"+l.where, 1)
		refers := refersTo(orig, "webhook")
		if refers {
			k.res.Count("migration.templates_referring_to_webhook."+l.where, 1)
			if l.where == "translation" && !baseRefers[l.owner] {
				k.res.Count("migration.translation_refers_base_does_not", 1)
			}
		}
		migr, ok := at(after, l.path)
		if !ok {
			k.res.Count("violations.migration", 1)
			k.res.Violate("migration|13.3|"+l.where+"|template-lost", "a template of the flow is no longer there after the 13.3 migration", map[string]any{"flow": before, "where": l.desc, "path": l.path, "original": orig})
			return string(data)
		}
		if k.tplHazard(orig) {
			k.res.Count("migration.skipped_hazard", 1)
			continue
		}
		for j := 0; j < 2; j++ {
			// two of the case's contexts per template (a flow has some twenty templates), taken in turn
			i := (li*3 + j*5) % len(k.ctxs)
			ec := k.ctxs[i]
			ctx2 := renamedContext(ec.ctx, "webhook", "webhook.json", true)
			o1 := evalTemplate(ec.env, ec.ctx, orig)
			o2 := evalTemplate(ec.env, ctx2, migr)
			if refers {
				k.res.Count("clause.migration_value", 1)
			} else {
				k.res.Count("clause.migration_value.no_reference_to_rename", 1)
			}
			if !o1.same(o2) {
				if !k.tplStable(ec, orig, o1) || !k.tplStable(evalCtx{ec.env, ctx2}, migr, o2) {
					k.res.Count("value.skipped_nondeterministic_input", 1)
					continue
				}
				// is this refactor.Template's doing (then the rename clause names it) or the migration's?
				direct, _, _ := safeRefactor(orig, []string{"webhook"}, refactor.ContextRefRename("webhook", "webhook.json"))
				detail := "value"
				if migr == orig && direct != orig {
					detail = "not-rewritten"
				} else if direct == migr {
					detail = "value-as-refactor-template"
				}
				k.res.Count("violations.migration", 1)
				k.res.Violate("migration|13.3|"+l.where+"|"+detail, "a template of the flow evaluates after the 13.3 migration (in ctx[webhook.json := ctx[webhook]]) to something else than before",
					map[string]any{"where": l.desc, "path": l.path, "original": orig, "migrated": migr, "refactor_template_gives": direct, "context_index": i,
						"original_value": o1.describe(), "migrated_value": o2.describe(), "base_property_refers_to_webhook": baseRefers[l.owner], "flow": before})
				return string(data)
			}
		}
	}
	return string(data)
}

// the appended part of a generated case ---------------------------------------------------------------------------

func (k *c11run) extras(c fw.Case) string {
	xr := fw.NewRand(c.Seed, "C11/extra", c.Index)
	k.withIDs(xr)
	var fp []string

	// 1
	for i := 0; i < 3; i++ {
		e := genNumChain(xr)
		fp = append(fp, e)
		k.countNumChain(e)
		k.checkExpr(e)
	}
	t := genNumChainTemplate(xr)
	fp = append(fp, t)
	k.checkTemplate(t, "")

	// 2
	from := fw.Pick(xr, []string{"webhook", "webhook", "foo", "contact", "results", "arr"})
	to := fw.Pick(xr, []string{"zz_shared.json", "webhook.json", "Neu2.c"})
	if strings.HasPrefix(to, from) && from != "webhook" {
		to = "zz_shared.json"
	}
	var batch []string
	for i := 0; i < 2; i++ {
		s := genShadowTemplate(xr, from)
		batch = append(batch, s)
		if f := k.tplRename(s, from, to, true); f != nil {
			k.reportTemplate("rename", s, f, func(t string) *failure { return k.tplRename(t, from, to, false) }, renameRepairs(from, to))
		}
	}
	batch = append(batch, genTemplate(xr, false), t)
	fp = append(fp, batch...)
	workers, rounds := 0, 0
	if xr.Chance(0.34) {
		workers, rounds = 8, 40
	}
	k.checkSharedRename(batch, from, to, workers, rounds)

	// 3
	fb := genFlow(xr, xr.Weighted([]int{6, 2, 1, 1}))
	fp = append(fp, k.checkMigration(fb))
	return strings.Join(fp, "\x1f")
}

// directed cases of the three classes -----------------------------------------------------------------------------

func (k *c11run) extraDirected(name string) (string, bool) {
	xr := fw.NewRand(0, "C11/extra/"+name, 0)
	var fp []string
	switch name {
	case "numeric-dot-chains":
		k.withIDs(xr)
		// every pairing of key sizes, in the spellings that keep two numeric lookups apart, on several kinds of container
		keys := append(append([]string{}, xShortKeys[:3]...), xLongKeys...)
		var exprs []string
		for i, a := range keys {
			b := keys[(i*3+1)%len(keys)]
			c := keys[(i*5+2)%len(keys)]
			exprs = append(exprs, "ids."+a+" ."+b, "ids . "+b+" . "+a, "ids."+a+" ."+b+" ."+c, "upper(ids."+b+" ."+c+`) & "!"`, `ids["`+a+`"].`+b+" ."+c,
				"(ids."+a+") ."+b+"\t."+c, "arr.1 ."+a, "-ids."+c+" ."+a+".name")
		}
		for _, e := range exprs {
			k.countNumChain(e)
			k.checkExpr(e)
		}
		tpls := []string{"x=@(ids." + keys[3] + " ." + keys[4] + ").1 y", "@ids." + keys[5] + " @(ids.1 ." + keys[6] + " .7)", "@(ids." + keys[7] + " ." + keys[0] + ")@(ids.2 .10)"}
		for _, t := range tpls {
			k.checkTemplate(t, "")
		}
		fp = append(append(fp, exprs...), tpls...)
	case "rename-shared-transformation":
		for bi, from := range []string{"webhook", "foo", "contact"} {
			to := []string{"webhook.json", "renamed.c", "zz_shared.value"}[bi]
			var batch []string
			for i := 0; i < 8; i++ {
				s := genShadowTemplate(xr, from)
				batch = append(batch, s)
				if f := k.tplRename(s, from, to, true); f != nil {
					k.reportTemplate("rename", s, f, func(t string) *failure { return k.tplRename(t, from, to, false) }, renameRepairs(from, to))
				}
			}
			batch = append(batch, "no references here @(1 + 2) @contact", "@"+from+" @("+from+")")
			fp = append(fp, batch...)
			k.checkSharedRename(batch, from, to, 8, 400)
		}
	case "migration-localized":
		for _, style := range []int{1, 1, 2, 3, 1, 0, 0} {
			fp = append(fp, k.checkMigration(genFlow(xr, style)))
		}
	default:
		return "", false
	}
	return strings.Join(fp, "\x1f"), true
}
