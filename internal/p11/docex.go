package p11

import (
	"os"
	"path/filepath"
	"regexp"
	"sort"
	"strings"

	"verif/internal/fw"
)

// The doc comments of goflow's functions, router tests, operators and types carry examples of the
// form "//	@(upper("abc")) -> ABC". They are read from the source tree the check is built against
// (the target of the replace directive in go.mod) at run time, so new examples are picked up.

var docExampleRE = regexp.MustCompile(`^//\s+(@.*?) -> .*$`)

func goflowDir() string {
	b, err := os.ReadFile(filepath.Join(fw.Root(), "go.mod"))
	if err == nil {
		for _, l := range strings.Split(string(b), "\n") {
			l = strings.TrimSpace(l)
			if strings.HasPrefix(l, "replace github.com/nyaruka/goflow =>") {
				return strings.TrimSpace(strings.TrimPrefix(l, "replace github.com/nyaruka/goflow =>"))
			}
		}
	}
	return "/repo"
}

// docExamples returns the example templates (left-hand sides), sorted, without those that call a
// function excluded from comparisons.
func docExamples() []string {
	dir := goflowDir()
	files := []string{"excellent/functions/builtin.go", "flows/routers/cases/tests.go", "excellent/operators/builtin.go"}
	if more, err := filepath.Glob(filepath.Join(dir, "excellent/types/*.go")); err == nil {
		for _, m := range more {
			if rel, err := filepath.Rel(dir, m); err == nil && !strings.HasSuffix(rel, "_test.go") {
				files = append(files, rel)
			}
		}
	}
	seen := map[string]bool{}
	var out []string
	for _, f := range files {
		b, err := os.ReadFile(filepath.Join(dir, f))
		if err != nil {
			continue
		}
		for _, l := range strings.Split(string(b), "\n") {
			m := docExampleRE.FindStringSubmatch(strings.TrimRight(l, "\r"))
			if m == nil {
				continue
			}
			t := m[1]
			low := strings.ToLower(t)
			if strings.Contains(low, "rand(") || strings.Contains(low, "rand_between(") || strings.Contains(low, "now(") || strings.Contains(low, "today(") || strings.Contains(low, "has_error(") {
				continue
			}
			if !seen[t] {
				seen[t] = true
				out = append(out, t)
			}
		}
	}
	sort.Strings(out)
	return out
}
