package p11

import (
	"fmt"
	"strconv"
	"strings"
	"unicode/utf8"

	"github.com/nyaruka/goflow/excellent/types"

	"verif/internal/fw"
	"verif/internal/gen"
)

// Expression *text* generator for C11 (and the expression pool of C12 clause d). It follows
// antlr/Excellent3.g4 production by production and renders with hostile white space and letter
// case. It is a variation of gen.Expr (copied, as the brief asks, instead of editing gen): it adds
// unary-minus chains, same-precedence chains with and without grouping (a - b - c, a - (b - c),
// 2 ^ 3 ^ 2, -2 ^ 2), lookups with numeric and quoted keys on every kind of atom, applied lambdas,
// every spelling of a text literal (strconv.Quote, \u \U \x octal escapes, invalid escapes that
// make the visitor fall back to the raw text, raw control characters) and non-ASCII identifiers.

type xgen struct {
	r        *fw.Rand
	fns      []string
	vars     []string // lambda parameters in scope
	noLambda bool
	plain    bool // only well-formed strconv.Quote literals of tame strings
	exotic   bool // allow identifiers whose lower-case form the lexer does not know (known finding)
	nExp     int  // exponent operators emitted so far (result-size guard)
}

var detFns []string

func deterministicFunctions() []string {
	if detFns == nil {
		for _, f := range gen.FunctionNames() {
			// has_error(x) returns the error *message* of x as a value; messages quote the expression
			// text (e.g. the spelling of a missing name) and are deliberately not compared
			if !gen.NonDeterministic[f] && f != "has_error" {
				detFns = append(detFns, f)
			}
		}
	}
	return detFns
}

func newXGen(r *fw.Rand) *xgen {
	return &xgen{r: r, fns: deterministicFunctions()}
}

var xNumLits = []string{"0", "1", "2", "3", "10", "0.5", "1.50", "007", "2147483647", "2147483648", "99999999999999999999", "0.000001",
	"12345678901234567890.123456789", "100", "7", "00", "0.0", "1.0", "10.10", "000.5", "1000000", "0.10", "23", "4",
	// many decimal places: nothing of a literal may be lost in print
	"0.00000000001", "0.00000000004", "0.123456789012", "3.14159265358979", "1.00000000000000000001", "0.000000000000000000000000000001", "2.5000000000001", "9.99999999999"}
var xSmallInts = []string{"0", "1", "2", "3", "4", "5", "8", "-1", "-2", "10", "30"}
var xSmallExponents = []string{"0", "1", "2", "3", "-1", "-2", "0.5", "10", "(1+1)", "zed", "2", "3", "- 1", "(2)"}

// roots and paths of the evaluation context built by contexts() (gen.Context plus a few keys)
var xRoots = []string{"foo", "bar", "zed", "arr", "obj", "contact", "results", "input", "nums", "dflt", "fn", "words", "dt", "d", "t",
	"numtext", "empty", "nul", "big", "neg", "flag", "webhook", "mixedkey", "été", "missing"}

var xPaths = []string{
	"foo", "bar", "zed", "missing", "arr", "arr[0]", "arr[1]", "arr[-1]", "arr[10]", "arr.0", "arr.3.1", "arr[3][0]", "arr[4].a", "obj", "obj.a", "obj.b", "obj.b.c", "obj[\"a\"]",
	"obj[\"b\"][\"c\"]", "obj[\"b\"].c", "contact", "contact.name", "contact.first_name", "contact.language", "contact.fields", "contact.fields.age", "contact.fields.joined",
	"contact.fields[\"state\"]", "contact.urns", "contact.urns[0]", "contact.urns.1", "contact.groups", "contact.groups[0].name", "results", "results.q1", "results.q1.value", "results.q1.category",
	"results.q1.input", "results.q1.extra", "results.q1.extra.n", "results[\"q1\"].value", "input", "input.text", "input.attachments", "nums", "nums.1", "nums[\"2\"]", "nums[1]", "nums[2]",
	"dflt", "dflt.x", "fn", "words", "words[2]", "dt", "d", "t", "numtext", "empty", "nul", "big", "neg", "flag", "webhook", "webhook.a", "webhook.b.c[2].d", "webhook[\"a\"]",
	"mixedkey", "mixedkey.Inner", "mixedkey.inner", "été", "missing.x", "obj.missing", "obj[\"missing\"]", "arr[\"x\"]", "obj[1]",
	// keys of one object that differ only in case (a JSON payload may have them; an exact match wins, see buildContext)
	"cased.Status", "cased.status", "cased.STATUS", "cased.ID", "cased.Id", "cased.id", "cased[\"Status\"]", "cased.Nested.Key", "cased.Nested.key", "cased.nested.KEY", "payload.Status", "payload.status", "payload.items[0].ID", "payload.items[0].id",
}

// letters the lexer knows and that have a distinct upper-case form it also knows
var xNames = []string{"x", "y", "X", "Y", "item", "é", "É", "ñ", "_v", "x1", "Straße", "Ωmega", "ж", "Ж", "K", "İd"}

// Cherokee capitals lower-case (Go, Unicode >= 8) to U+AB70.. which the 2015 lexer tables lack
var xExoticNames = []string{"Ꭰ", "ᏣᎳᎩ", "xᎠ"}

func (g *xgen) ws() string {
	return fw.Pick(g.r, []string{"", " ", " ", " ", "  ", "\t", "\n"})
}

// wsAround joins operands and an operator with random white space
func (g *xgen) bin(l, op, r string) string { return l + g.ws() + op + g.ws() + r }

func (g *xgen) caseMix(s string, p float64) string {
	if !g.r.Chance(p) {
		return s
	}
	switch g.r.Intn(3) {
	case 0:
		return strings.ToUpper(s)
	case 1:
		if s == "" {
			return s
		}
		_, n := utf8.DecodeRuneInString(s)
		return strings.ToUpper(s[:n]) + s[n:]
	}
	var b strings.Builder
	for _, c := range s {
		if g.r.Bool() {
			b.WriteString(strings.ToUpper(string(c)))
		} else {
			b.WriteString(string(c))
		}
	}
	return b.String()
}

// path renders a context path with random case of every name and white space around dots/brackets
func (g *xgen) path() string {
	p := fw.Pick(g.r, xPaths)
	if g.r.Chance(0.25) {
		// case-mix names outside quotes only (quoted keys are looked up case-insensitively as well,
		// but keep them verbatim so that the printed literal is comparable)
		var b strings.Builder
		inq := false
		for _, c := range p {
			if c == '"' {
				inq = !inq
			}
			if !inq && g.r.Chance(0.4) {
				b.WriteString(strings.ToUpper(string(c)))
			} else {
				b.WriteRune(c)
			}
		}
		p = b.String()
	}
	if g.r.Chance(0.1) {
		p = strings.ReplaceAll(p, ".", g.ws()+"."+g.ws())
		p = strings.ReplaceAll(p, "[", g.ws()+"["+g.ws())
		// "arr . 3 . 1" stays a dot lookup; "arr.3.1" lexes 3.1 as DECIMAL and is rejected: both are inputs
	}
	return p
}

var plainStrings = []string{"", "a", "hello world", "Hello", "1", "1.5", "2020-01-01", "10:30", "é", "日本語", "😀", "x y z", "red", "true", "a,b", "tel:+12065551212", "eng", "b", "12", " "}

// spell writes the string value s as a text literal in one of the spellings the grammar and
// strconv.Unquote accept.
func (g *xgen) spell(s string) string {
	if g.r.Chance(0.6) {
		return strconv.Quote(s)
	}
	var b strings.Builder
	b.WriteByte('"')
	for _, c := range s {
		switch {
		case c == '"':
			b.WriteString(fw.Pick(g.r, []string{`\"`, `\"`, `\u0022`, `\x22`, `\042`}))
		case c == '\\':
			b.WriteString(fw.Pick(g.r, []string{`\\`, `\\`, `\u005c`, `\x5c`, `\134`, `\U0000005C`}))
		case c == '\n':
			b.WriteString(fw.Pick(g.r, []string{`\n`, `\u000a`, `\x0a`, `\012`}))
		case c < 0x20 || c == 0x7f:
			b.WriteString(fmt.Sprintf(fw.Pick(g.r, []string{`\x%02x`, `\u%04x`, `\%03o`}), c))
		case c < 0x80:
			if g.r.Chance(0.15) {
				b.WriteString(fmt.Sprintf(fw.Pick(g.r, []string{`\x%02x`, `\u%04X`, `\%03o`, `\U%08x`}), c))
			} else {
				b.WriteRune(c)
			}
		case c <= 0xffff:
			if g.r.Chance(0.3) {
				b.WriteString(fmt.Sprintf(`\u%04x`, c))
			} else {
				b.WriteRune(c)
			}
		default:
			if g.r.Chance(0.3) {
				b.WriteString(fmt.Sprintf(`\U%08x`, c))
			} else {
				b.WriteRune(c)
			}
		}
	}
	b.WriteByte('"')
	return b.String()
}

// literals that strconv.Unquote rejects: the visitor then takes the raw text between the quotes
var rawFallbackLits = []string{`"\w+"`, `"\d{3}-\d{4}"`, `"a\.b"`, `"\'"`, `"it\'s"`, `"50\%"`, "\"a\nb\"", "\"tab\there\"", "\"\r\n\"", `"\w\"q"`, `"\q\\"`,
	`"^\s*(\w+)\s*$"`, `"\u12"`, `"\x4"`, `"\400"`, "\"\\n\n\"", `"\ud800"`, `"a\ b"`, `"\(\)"`}

func (g *xgen) strLit() string {
	if g.plain {
		return strconv.Quote(fw.Pick(g.r, plainStrings))
	}
	switch g.r.Intn(20) {
	case 0, 1:
		return fw.Pick(g.r, rawFallbackLits)
	case 2, 3, 4, 5, 6, 7:
		return strconv.Quote(fw.Pick(g.r, plainStrings))
	}
	s := gen.AnyString(g.r)
	if g.r.Chance(0.3) {
		s = gen.LiteralString(g.r)
	}
	s = strings.ReplaceAll(s, "\x00", "")
	if len(s) > 60 {
		s = s[:60]
		for !utf8.ValidString(s) {
			s = s[:len(s)-1]
		}
	}
	// a value ending in a backslash is printed as "…\\" which the TEXT rule mis-lexes when another
	// quote follows (known finding, shared with C12): keep it, but rare
	if strings.HasSuffix(s, `\`) && !g.r.Chance(0.15) {
		s += fw.Pick(g.r, []string{"x", " ", "n", "\""})
	}
	return g.spell(s)
}

func (g *xgen) name() string {
	if g.exotic && g.r.Chance(0.5) {
		return fw.Pick(g.r, xExoticNames)
	}
	return fw.Pick(g.r, xNames)
}

func (g *xgen) leaf() string {
	switch g.r.Intn(14) {
	case 0, 1, 2:
		return fw.Pick(g.r, xNumLits)
	case 3, 4, 5:
		return g.strLit()
	case 6:
		return g.caseMix(fw.Pick(g.r, []string{"true", "false", "null"}), 0.4)
	case 7, 8:
		if len(g.vars) > 0 {
			return g.caseMix(fw.Pick(g.r, g.vars), 0.15)
		}
		fallthrough
	default:
		return g.path()
	}
}

// small is an operand that keeps results small (used where size would otherwise amplify)
func (g *xgen) small() string {
	return fw.Pick(g.r, []string{"0", "1", "2", "3", "10", "0.5", "7", "foo", "neg", "contact.fields.age", "obj.a", "-1", "(1 + 2)", "2 * 3", "numtext", "\"4\"", "nums.2"})
}

func (g *xgen) expr(d int) string {
	if d <= 0 {
		return g.leaf()
	}
	switch g.r.Weighted([]int{14, 8, 6, 8, 9, 5, 5, 6, 9, 22, 6, 10, 3, 3}) {
	case 0:
		return g.leaf()
	case 1: // unary minus, chains of it, in front of every kind of operand
		n := g.r.Weighted([]int{0, 6, 3, 2, 1})
		var b strings.Builder
		for i := 0; i < n; i++ {
			b.WriteString("-")
			b.WriteString(g.ws())
		}
		switch g.r.Intn(6) {
		case 0:
			b.WriteString(fw.Pick(g.r, xNumLits))
		case 1:
			b.WriteString("(" + g.expr(d-1) + ")")
		case 2:
			b.WriteString(g.bin(g.small(), "^", fw.Pick(g.r, []string{"2", "3", "0.5", "-1"})))
		case 3:
			b.WriteString(g.atom(d - 1))
		default:
			b.WriteString(g.expr(d - 1))
		}
		return b.String()
	case 2: // exponent: right operand always small; chains 2 ^ 3 ^ 2
		if g.nExp >= 2 {
			return g.bin(g.expr(d-1), "*", g.expr(d-1))
		}
		g.nExp++
		l := g.small()
		if g.r.Chance(0.3) {
			l = g.bin(g.small(), "^", fw.Pick(g.r, []string{"2", "3", "-1", "0"}))
			g.nExp++
		} else if g.r.Chance(0.3) {
			l = "-" + g.ws() + g.small()
		} else if g.r.Chance(0.3) {
			l = "(" + g.expr(d-1) + ")"
		}
		return g.bin(l, "^", fw.Pick(g.r, xSmallExponents))
	case 3:
		return g.bin(g.expr(d-1), fw.Pick(g.r, []string{"*", "/"}), g.expr(d-1))
	case 4:
		return g.bin(g.expr(d-1), fw.Pick(g.r, []string{"+", "-"}), g.expr(d-1))
	case 5:
		return g.bin(g.expr(d-1), fw.Pick(g.r, []string{"<=", "<", ">=", ">"}), g.expr(d-1))
	case 6:
		return g.bin(g.expr(d-1), fw.Pick(g.r, []string{"=", "!="}), g.expr(d-1))
	case 7:
		return g.bin(g.expr(d-1), "&", g.expr(d-1))
	case 8: // chains within and across precedence levels, grouped on either side or not at all
		return g.chain(d)
	case 9:
		return g.call(d)
	case 10:
		return "(" + g.ws() + g.expr(d-1) + g.ws() + ")"
	case 11:
		return g.atom(d)
	case 12:
		if g.noLambda {
			return g.leaf()
		}
		return g.lambda(d)
	default:
		if g.noLambda {
			return g.atom(d)
		}
		// applied lambda
		l := g.lambda(d)
		n := strings.Count(strings.SplitN(l, "=>", 2)[0], ",") + 1
		if g.r.Chance(0.1) {
			n = g.r.Intn(3)
		}
		args := make([]string, n)
		for i := range args {
			args[i] = g.expr(d - 1)
		}
		return "(" + l + ")(" + strings.Join(args, ","+g.ws()) + ")"
	}
}

var opLevels = [][]string{{"*", "/"}, {"+", "-"}, {"<=", "<", ">=", ">"}, {"=", "!="}, {"&"}}

func (g *xgen) chain(d int) string {
	n := g.r.Range(3, 5)
	ops := make([]string, n-1)
	lvl := fw.Pick(g.r, opLevels)
	for i := range ops {
		if g.r.Chance(0.7) {
			ops[i] = fw.Pick(g.r, lvl)
		} else {
			ops[i] = fw.Pick(g.r, fw.Pick(g.r, opLevels))
		}
	}
	operands := make([]string, n)
	for i := range operands {
		switch g.r.Intn(4) {
		case 0:
			operands[i] = g.expr(d - 1)
		case 1:
			operands[i] = "-" + g.small()
		default:
			operands[i] = g.small()
		}
	}
	// optional grouping of a contiguous sub-range
	lo, hi := -1, -1
	if g.r.Chance(0.5) {
		lo = g.r.Intn(n - 1)
		hi = g.r.Range(lo+1, n-1)
	}
	var b strings.Builder
	for i := 0; i < n; i++ {
		if i > 0 {
			b.WriteString(g.ws() + ops[i-1] + g.ws())
		}
		if i == lo {
			b.WriteString("(")
		}
		b.WriteString(operands[i])
		if i == hi {
			b.WriteString(")")
		}
	}
	return b.String()
}

// atom: something that may be followed by (), [] or .
func (g *xgen) atom(d int) string {
	var base string
	switch g.r.Intn(8) {
	case 0, 1, 2:
		base = g.caseMix(fw.Pick(g.r, xRoots), 0.2)
	case 3:
		base = g.path()
	case 4:
		base = "(" + g.expr(d-1) + ")"
	case 5:
		base = g.call(d)
	case 6:
		if len(g.vars) > 0 {
			base = fw.Pick(g.r, g.vars)
		} else {
			base = g.caseMix(fw.Pick(g.r, g.fns), 0.2)
		}
	default:
		base = fw.Pick(g.r, []string{"array(1, \"x\", foo)", "object(\"a\", 1, \"b\", bar)", "parse_json(\"[1,[2,3],{\\\"k\\\":4}]\")", "split(bar, \" \")", "(contact)", "((obj))", "keys(obj)"})
	}
	n := g.r.Weighted([]int{2, 5, 3, 1})
	for i := 0; i < n; i++ {
		switch g.r.Intn(7) {
		case 0:
			base += g.dot() + g.caseMix(fw.Pick(g.r, []string{"a", "b", "c", "value", "name", "x", "fields", "age", "n", "q1", "extra", "__default__", "inner", "k", "text", "category"}), 0.15)
		case 1:
			base += g.dot() + fw.Pick(g.r, []string{"0", "1", "2", "3", "10", "007", "2147483648"})
		case 2:
			base += "[" + g.ws() + strconv.Quote(fw.Pick(g.r, []string{"a", "b", "c", "1", "2", "value", "name", "age", "A", "key with spaces", "", "k", "state", "x.y", "0"})) + g.ws() + "]"
		case 3:
			base += "[" + g.strLit() + "]"
		case 4:
			base += "[" + fw.Pick(g.r, xSmallInts) + "]"
		case 5:
			base += "[" + g.expr(d-1) + "]"
		default:
			k := g.r.Intn(3)
			args := make([]string, k)
			for j := range args {
				args[j] = g.expr(d - 1)
			}
			base += "(" + strings.Join(args, ", ") + ")"
		}
	}
	return base
}

func (g *xgen) dot() string {
	if g.r.Chance(0.1) {
		return g.ws() + "." + g.ws()
	}
	return "."
}

func (g *xgen) lambda(d int) string {
	n := g.r.Weighted([]int{0, 6, 3, 1})
	names := make([]string, 0, n)
	for len(names) < n {
		nm := g.name()
		if g.r.Chance(0.15) {
			// a parameter that shadows a name of the context (in any letter case)
			nm = g.caseMix(fw.Pick(g.r, []string{"foo", "bar", "arr", "obj", "contact", "results", "words", "dt"}), 0.3)
		}
		dup := false
		for _, o := range names {
			if strings.EqualFold(o, nm) {
				dup = true
			}
		}
		if !dup {
			names = append(names, nm)
		}
	}
	saved := g.vars
	g.vars = append(append([]string{}, g.vars...), names...)
	body := g.expr(d - 1)
	g.vars = saved
	return "(" + g.ws() + strings.Join(names, g.ws()+","+g.ws()) + g.ws() + ")" + g.ws() + "=>" + g.ws() + body
}

// arity table copied from gen (a guess of the valid arities so that most calls reach the body)
var xArities = map[string][]int{
	"array": {0, 1, 3}, "object": {0, 2, 4}, "and": {1, 2, 3}, "or": {1, 2, 3}, "max": {1, 2, 3}, "min": {1, 2, 3}, "mean": {1, 2, 3},
	"if": {3}, "split": {1, 2}, "trim": {1, 2}, "trim_left": {1, 2}, "trim_right": {1, 2},
	"word": {2, 3}, "word_count": {1, 2}, "word_slice": {2, 3, 4}, "field": {3}, "text_slice": {2, 3, 4}, "regex_match": {2, 3},
	"text_compare": {2}, "repeat": {2}, "replace": {3, 4}, "round": {1, 2}, "round_up": {1, 2}, "round_down": {1, 2}, "mod": {2},
	"parse_datetime": {2, 3}, "datetime_diff": {3}, "datetime_add": {3}, "replace_time": {2}, "date_from_parts": {3},
	"parse_time": {2}, "time_from_parts": {3}, "contains": {2}, "join": {2}, "concat": {2}, "filter": {2}, "format_date": {1, 2},
	"format_datetime": {1, 2, 3}, "format_time": {1, 2}, "format_number": {1, 2, 3}, "default": {2}, "legacy_add": {2}, "extract": {2},
	"extract_object": {2, 3}, "foreach": {2, 3}, "foreach_value": {2, 3}, "has_only_text": {2}, "has_phrase": {2}, "has_only_phrase": {2},
	"has_any_word": {2}, "has_all_words": {2}, "has_beginning": {2}, "has_pattern": {2}, "has_number_between": {3}, "has_number_lt": {2},
	"has_number_lte": {2}, "has_number_eq": {2}, "has_number_gte": {2}, "has_number_gt": {2}, "has_date_lt": {2}, "has_date_eq": {2},
	"has_date_gt": {2}, "has_phone": {1, 2}, "has_group": {2, 3}, "has_category": {2, 3}, "has_intent": {3}, "has_top_intent": {3},
	"has_district": {1, 2}, "has_ward": {1, 2, 3},
}

// safe JSON documents (no two keys of one object differ only in case: lookups are case-insensitive
// and Get scans a Go map, which is C08's finding, not a print/parse matter)
var xJSONDocs = []string{
	`{}`, `[]`, `null`, `1`, `"x"`, `{"a":1,"b":{"c":[1,2,{"d":null}]}}`, `[1,"two",3.0,true,null,[],{}]`,
	`{"a":1,"a":2}`, `{"":1}`, `{"1":"x","2":"y"}`, `{"n":1e2,"m":1E-2,"big":12345678901234567890,"neg":-0}`,
	`{"s":"é😀\n\"\\"}`, ` {"ws" : [ 1 , 2 ] } `, `{"__default__":"d","x":1}`, `[[[[[[1]]]]]]`, `{"a":{"a":{"a":{"a":1}}}}`,
	`{`, `[1,`, `nul`, ``, `{"a":}`, `"unterminated`, `1.0`, `1.50`, `-0.0`, `{"k":"v"} trailing`,
}

func (g *xgen) call(d int) string {
	name := fw.Pick(g.r, g.fns)
	if g.r.Chance(0.03) {
		name = fw.Pick(g.r, []string{"nofunc", "foo", "contact", "obj.a", "arr[0]", "fn"})
	}
	ar := 1
	if a, ok := xArities[name]; ok {
		ar = fw.Pick(g.r, a)
	}
	if g.r.Chance(0.08) {
		ar = g.r.Intn(5)
	}
	args := make([]string, ar)
	for i := range args {
		args[i] = g.arg(name, i, d-1)
	}
	return g.caseMix(name, 0.2) + g.wsRare() + "(" + g.wsRare() + strings.Join(args, g.wsRare()+","+g.ws()) + g.wsRare() + ")"
}

func (g *xgen) wsRare() string {
	if g.r.Chance(0.1) {
		return g.ws()
	}
	return ""
}

// arg generates an argument with a bias towards the kind of value the function wants and keeps
// result-size amplifiers small (copied from gen.arg and extended with lambdas).
func (g *xgen) arg(fn string, i int, d int) string {
	q := strconv.Quote
	switch {
	case fn == "repeat" && i == 1:
		return fw.Pick(g.r, []string{"0", "1", "2", "3", "8", "-1", "zed"})
	case (fn == "round" || fn == "round_up" || fn == "round_down") && i >= 1:
		return fw.Pick(g.r, xSmallInts)
	case (fn == "foreach" || fn == "foreach_value" || fn == "filter") && i == 1:
		if g.r.Chance(0.45) && !g.noLambda {
			return g.lambda(d + 1)
		}
		if g.r.Chance(0.7) {
			return fw.Pick(g.r, []string{"upper", "text", "number", "json", "(x) => x", "(x) => x & \"!\"", "(x) => x > 1", "(x, y) => x & y", "text_length", "is_error", "has_text", "(x) => x.value", "(x) => -x", "(X) => x", "(é) => É & é"})
		}
	case (fn == "foreach" || fn == "foreach_value" || fn == "filter") && i == 0:
		if g.r.Chance(0.7) {
			return fw.Pick(g.r, []string{"arr", "words", "array(3, 1, 2)", "contact.urns", "nums", "obj", "array(\"b\", \"a\")", "results", "contact.fields", "split(bar, \" \")"})
		}
	case fn == "extract" || fn == "extract_object":
		if i == 0 && g.r.Chance(0.7) {
			return fw.Pick(g.r, []string{"contact", "results.q1", "obj", "contact.fields", "obj.b"})
		} else if i > 0 && g.r.Chance(0.7) {
			return q(fw.Pick(g.r, []string{"name", "a", "b.c", "value", "fields.age", "missing", ""}))
		}
	case strings.HasPrefix(fn, "format_date") || fn == "format_time" || fn == "parse_datetime" || fn == "parse_time":
		if i == 1 && g.r.Chance(0.7) {
			return q(fw.Pick(g.r, []string{"YYYY-MM-DD", "DD-MM-YYYY tt:mm", "YYYY-MM-DDTtt:mm:ssZ", "hh:mm aa", "M/D/YY", "EEEE, MMMM D", "tt:mm:ss.fffffffff", "YYYY", "QQ", "", "Z ZZZ"}))
		}
		if i == 2 && g.r.Chance(0.7) {
			return q(fw.Pick(g.r, []string{"UTC", "America/Guayaquil", "Asia/Kolkata", "Nowhere/Land", ""}))
		}
		if i == 0 && g.r.Chance(0.6) {
			return fw.Pick(g.r, []string{"dt", "d", "t", "contact.fields.joined", "\"2020-02-30\"", "\"1977-06-23T15:34:00.000000Z\"", "\"10:30\"", "\"0001-01-01T00:00:00Z\"", "\"9999-12-31T23:59:59.999999Z\"", "\"01-02-99\""})
		}
	case fn == "datetime_add" || fn == "datetime_diff":
		if i == 2 && g.r.Chance(0.8) {
			return q(fw.Pick(g.r, []string{"Y", "M", "W", "D", "h", "m", "s", "x", ""}))
		}
		if i == 0 || (fn == "datetime_diff" && i == 1) {
			if g.r.Chance(0.6) {
				return fw.Pick(g.r, []string{"dt", "d", "\"2020-01-31T10:00:00Z\"", "\"0001-01-01T00:00:00Z\"", "\"9999-12-31T23:59:59Z\""})
			}
		}
		if fn == "datetime_add" && i == 1 && g.r.Chance(0.7) {
			return fw.Pick(g.r, []string{"0", "1", "-1", "12", "100000", "-100000", "2147483647", "-2147483648", "9999", "-9999"})
		}
	case fn == "has_group" && i == 0, fn == "has_category" && i == 0, fn == "has_intent" && i == 0, fn == "has_top_intent" && i == 0:
		if g.r.Chance(0.7) {
			return fw.Pick(g.r, []string{"contact.groups", "results.q1", "obj", "contact", "results.intent"})
		}
	case fn == "keys" || fn == "json" || fn == "count":
		if g.r.Chance(0.5) {
			return fw.Pick(g.r, []string{"obj", "contact", "arr", "results", "nums", "dflt", "contact.fields", "words"})
		}
	case fn == "parse_json":
		if g.r.Chance(0.8) {
			return g.spell(fw.Pick(g.r, xJSONDocs))
		}
	case fn == "join" || fn == "reverse" || fn == "sort" || fn == "sum" || fn == "unique" || fn == "concat" || fn == "contains":
		if i == 0 && g.r.Chance(0.6) {
			return fw.Pick(g.r, []string{"arr", "words", "array(3, 1, 2)", "array()", "array(\"b\", \"a\")", "contact.urns", "nums", "array(1, \"x\", null)"})
		}
	case fn == "format_number" || fn == "char" || fn == "word" || fn == "word_slice" || fn == "text_slice" || fn == "field":
		if i >= 1 && g.r.Chance(0.7) {
			return fw.Pick(g.r, xSmallInts)
		}
	case fn == "object" && i%2 == 0:
		// distinct lower-case keys: object("a",1,"A",2).a is the C08 finding (map order), not ours
		return q(fmt.Sprintf("k%d", i/2))
	}
	return g.expr(d)
}

// Expr generates one expression text.
func genExpr(r *fw.Rand, exotic bool) string {
	g := newXGen(r)
	g.exotic = exotic
	return g.expr(r.Weighted([]int{0, 3, 5, 5, 2}))
}

var xBodies = []string{"Hi ", "a@b.com ", "bob@nyaruka.com", "@@x ", "@@contact ", "@@(1) ", "@@foo.bar", "(", ") ", "\"", "é ", "\n", "100% ", "@ ", "@. ", "\\", "\\\" ",
	"it's ", " & ", "@", "@@", "@@@@", "日本語", "😀", ".", ". ", ".x", "_", "1", "@1 ", "@_ ", "@notakey ", "@Notakey.foo "}

// genTemplate wraps expressions into template text with surrounding body text, "@@" and identifiers.
func genTemplate(r *fw.Rand, exotic bool) string {
	n := r.Weighted([]int{0, 5, 4, 2})
	var b strings.Builder
	var used []string // expression texts already in the template
	for i := 0; i < n; i++ {
		for r.Chance(0.5) {
			b.WriteString(fw.Pick(r, xBodies))
		}
		switch r.Intn(6) {
		case 0:
			p := fw.Pick(r, xPaths)
			p = strings.Split(p, "[")[0]
			g := &xgen{r: r}
			e := g.caseMix(p, 0.3)
			used = append(used, e)
			b.WriteString("@" + e)
		default:
			e := genExpr(r, exotic)
			used = append(used, e)
			b.WriteString("@(" + e + ")")
		}
		for r.Chance(0.35) {
			b.WriteString(fw.Pick(r, xBodies))
		}
		// the same expression text again, in the other wrapping and directly followed by characters that would
		// continue an identifier (a rewriter that keys anything by expression text alone must not confuse them)
		if len(used) > 0 && r.Chance(0.25) {
			e := fw.Pick(r, used)
			b.WriteString(fw.Pick(r, []string{" ", "", "-", "/"}))
			switch r.Intn(4) {
			case 0:
				b.WriteString("@(" + e + ")" + fw.Pick(r, []string{"s", ".name", "_x", "1", ".0", "bob"}))
			case 1:
				b.WriteString("@(" + e + ")")
			case 2:
				b.WriteString("@(" + e + ") @(" + e + ")." + fw.Pick(r, []string{"a", "value", "0"}))
			default:
				if isPlainPath(e) {
					b.WriteString("@" + e + fw.Pick(r, []string{" ", ". ", "!", ""}))
				} else {
					b.WriteString("@(" + e + ")x")
				}
			}
		}
	}
	return b.String()
}

func isPlainPath(e string) bool {
	if e == "" {
		return false
	}
	for i, c := range e {
		switch {
		case c >= 'a' && c <= 'z', c >= 'A' && c <= 'Z', c == '_':
		case (c >= '0' && c <= '9' || c == '.') && i > 0:
		default:
			return false
		}
	}
	return e[len(e)-1] != '.'
}

// contexts -----------------------------------------------------------------------------------

// buildContext is gen.Context plus keys used by the extra paths above; "webhook" is always a
// document without case-variant keys.
func buildContext(r *fw.Rand) *types.XObject {
	base := gen.Context(r)
	m := map[string]types.XValue{}
	for _, k := range base.Properties() {
		if k == "webhook" {
			continue
		}
		v, _ := base.Get(k)
		m[k] = v
	}
	m["webhook"] = types.JSONToXValue([]byte(fw.Pick(r, []string{`{"a":1,"b":{"c":[1,2,{"d":null}]}}`, `{"a":"x","b":{"c":[true,"two",{"d":3.5}]}}`, `[1,2,3]`, `{"a":{"k":"v"},"__default__":"dd"}`})))
	m["mixedkey"] = types.NewXObject(map[string]types.XValue{"Inner": types.NewXText(fw.Pick(r, []string{"in", "IN", ""}))})
	// case-variant keys: the evaluator takes the exactly matching key first, so every spelling has one meaning
	m["cased"] = types.NewXObject(map[string]types.XValue{
		"Status": types.NewXText("Upper"), "status": types.NewXText(fw.Pick(r, []string{"lower", "", "Upper"})),
		"ID": types.RequireXNumberFromString("1"), "Id": types.RequireXNumberFromString("2"), "id": types.RequireXNumberFromString(fw.Pick(r, []string{"3", "1"})),
		"Nested": types.NewXObject(map[string]types.XValue{"Key": types.NewXText("K"), "key": types.NewXText("k")}),
		"nested": types.NewXObject(map[string]types.XValue{"KEY": types.NewXText("KK")}),
	})
	m["payload"] = types.JSONToXValue([]byte(`{"Status":"OK","status":200,"items":[{"ID":"A1","id":7}]}`))
	m["été"] = types.NewXText(fw.Pick(r, []string{"summer", "", "1"}))
	return types.NewXObject(m)
}
