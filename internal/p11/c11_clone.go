package p11

import "github.com/nyaruka/goflow/excellent"

// cloneExpr is a deep copy of a syntax tree (transformations mutate the tree they are given, so every application needs
// its own). ok=false when the tree holds a node type this copy does not know (the caller then leaves that tree alone).
func cloneExpr(e excellent.Expression) (out excellent.Expression, ok bool) {
	ok = true
	var cp func(e excellent.Expression) excellent.Expression
	cp = func(e excellent.Expression) excellent.Expression {
		switch t := e.(type) {
		case *excellent.ContextReference:
			return &excellent.ContextReference{Name: t.Name}
		case *excellent.DotLookup:
			return &excellent.DotLookup{Container: cp(t.Container), Lookup: t.Lookup}
		case *excellent.ArrayLookup:
			return &excellent.ArrayLookup{Container: cp(t.Container), Lookup: cp(t.Lookup)}
		case *excellent.FunctionCall:
			ps := make([]excellent.Expression, len(t.Params))
			for i, p := range t.Params {
				ps[i] = cp(p)
			}
			return &excellent.FunctionCall{Func: cp(t.Func), Params: ps}
		case *excellent.AnonFunction:
			return &excellent.AnonFunction{Args: append([]string{}, t.Args...), Body: cp(t.Body)}
		case *excellent.Concatenation:
			return &excellent.Concatenation{Exp1: cp(t.Exp1), Exp2: cp(t.Exp2)}
		case *excellent.Addition:
			return &excellent.Addition{Exp1: cp(t.Exp1), Exp2: cp(t.Exp2)}
		case *excellent.Subtraction:
			return &excellent.Subtraction{Exp1: cp(t.Exp1), Exp2: cp(t.Exp2)}
		case *excellent.Multiplication:
			return &excellent.Multiplication{Exp1: cp(t.Exp1), Exp2: cp(t.Exp2)}
		case *excellent.Division:
			return &excellent.Division{Exp1: cp(t.Exp1), Exp2: cp(t.Exp2)}
		case *excellent.Exponent:
			return &excellent.Exponent{Expression: cp(t.Expression), Exponent: cp(t.Exponent)}
		case *excellent.Negation:
			return &excellent.Negation{Exp: cp(t.Exp)}
		case *excellent.Equality:
			return &excellent.Equality{Exp1: cp(t.Exp1), Exp2: cp(t.Exp2)}
		case *excellent.InEquality:
			return &excellent.InEquality{Exp1: cp(t.Exp1), Exp2: cp(t.Exp2)}
		case *excellent.LessThan:
			return &excellent.LessThan{Exp1: cp(t.Exp1), Exp2: cp(t.Exp2)}
		case *excellent.LessThanOrEqual:
			return &excellent.LessThanOrEqual{Exp1: cp(t.Exp1), Exp2: cp(t.Exp2)}
		case *excellent.GreaterThan:
			return &excellent.GreaterThan{Exp1: cp(t.Exp1), Exp2: cp(t.Exp2)}
		case *excellent.GreaterThanOrEqual:
			return &excellent.GreaterThanOrEqual{Exp1: cp(t.Exp1), Exp2: cp(t.Exp2)}
		case *excellent.Parentheses:
			return &excellent.Parentheses{Exp: cp(t.Exp)}
		case *excellent.TextLiteral:
			return &excellent.TextLiteral{Value: t.Value}
		case *excellent.NumberLiteral:
			return &excellent.NumberLiteral{Value: t.Value}
		case *excellent.BooleanLiteral:
			return &excellent.BooleanLiteral{Value: t.Value}
		case *excellent.NullLiteral:
			return &excellent.NullLiteral{}
		}
		ok = false
		return e
	}
	out = cp(e)
	return out, ok
}
