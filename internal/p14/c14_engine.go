package p14

import (
	"encoding/json"
	"fmt"
	"runtime/debug"
	"strconv"
	"strings"
	"time"

	"github.com/nyaruka/goflow/envs"
	"github.com/nyaruka/goflow/excellent"
	"github.com/nyaruka/goflow/excellent/types"
	"github.com/nyaruka/goflow/flows"
	"github.com/shopspring/decimal"

	"verif/internal/drive"
	"verif/internal/fw"
	"verif/internal/gen"
)

// C14 clause 4 — the engine-level observation of DESIGN.md "### C14".
//
// The escaping is not applied by the query parser but by whoever evaluates a contact-query
// template: the actions call run.EvaluateTemplateText(tpl, flows.ContactQueryEscaping, …), which
// is excellent.Evaluator.Template with that escaping. The statement's consequence ("a value
// substituted into a contact-query template with the engine's escaping always becomes exactly one
// literal") is therefore observed on that path, on two routes:
//
//	route "template-evaluator": Evaluator.Template(env, ctx, tpl, flows.ContactQueryEscaping) over a
//	    context holding values of every type whose RENDERED text is hostile
//	route "action": a flow whose start_session / send_broadcast actions carry the template as
//	    contact_query, run through the real engine with hostile message texts, contact names and
//	    field values; the evaluated query is read off the session_triggered / broadcast_created event
//
// Oracle (both routes): the evaluated text parses, and its tree is the template's own condition
// skeleton with exactly one literal per substituted expression, whose value is the rendered text of
// that expression's value (the empty text for nil).

// exprSpec is one expression as written in a template.
type exprSpec struct {
	Text  string  // "@input.text", "@(upper(input.text))", …
	Kind  string  // text | object-default | nil | number | boolean | datetime | array | object
	Known *string // the rendering the harness knows without asking goflow (nil: reference rendering only)
}

func (e exprSpec) textValued() bool { return e.Kind == "text" }

func known(s string) *string { return &s }

// ctxTexts are the hostile texts planted in a context.
type ctxTexts struct {
	Input, Name, Gender, Result, A1, A2 string
}

func genCtxTexts(r *fw.Rand) ctxTexts {
	short := func() string {
		for i := 0; i < 20; i++ {
			if v := hostileValue(r); len([]rune(v)) <= 60 {
				return v
			}
		}
		return `x" OR name != "`
	}
	return ctxTexts{Input: short(), Name: short(), Gender: short(), Result: short(), A1: short(), A2: short()}
}

var ctxJoined = time.Date(2021, 3, 14, 1, 59, 26, 535897000, time.UTC)

// buildCtx is the hand-made evaluation context of the template-evaluator route: the shapes are
// those of a run context (objects that render through __default__, fields that are unset), plus
// containers and scalars of every type.
func buildCtx(t ctxTexts) *types.XObject {
	x := types.NewXText
	num := func(s string) types.XValue { return types.NewXNumber(decimal.RequireFromString(s)) }
	fields := func() *types.XObject {
		return types.NewXObject(map[string]types.XValue{
			"__default__": x("Gender: " + t.Gender + "\nAge: 39.5"),
			"gender":      x(t.Gender),
			"age":         num("39.5"),
			"big":         num("12345678901234567890.000001"),
			"neg":         num("-7"),
			"joined":      types.NewXDateTime(ctxJoined),
			"flag":        types.XBooleanTrue,
			"off":         types.XBooleanFalse,
			"unset":       nil,
			"empty":       types.XTextEmpty,
		})
	}
	result := func(v string) *types.XObject {
		return types.NewXObject(map[string]types.XValue{
			"__default__": x(v), "name": x("Other"), "value": x(v), "category": x(t.A1), "input": x(t.Input),
			"extra": types.NewXObject(map[string]types.XValue{"k": x(t.A2)}),
		})
	}
	return types.NewXObject(map[string]types.XValue{
		"input": types.NewXObject(map[string]types.XValue{
			"__default__": x(t.Input), "text": x(t.Input), "attachments": types.NewXArray(),
		}),
		"contact": types.NewXObject(map[string]types.XValue{
			"__default__": x(t.Name), "name": x(t.Name), "language": x("eng"), "fields": fields(),
			"urns":   types.NewXArray(x("tel:+12065551212"), x("twitter:"+t.A1)),
			"groups": types.NewXArray(types.NewXObject(map[string]types.XValue{"uuid": x("b7cf0d83-f1c9-411c-96fd-c511a4cfa86d"), "name": x(t.A2)})),
		}),
		"fields": fields(),
		"results": types.NewXObject(map[string]types.XValue{
			"__default__": x("Other: " + t.Result),
			"other":       result(t.Result),
			"count":       types.NewXObject(map[string]types.XValue{"__default__": num("3"), "value": x("3")}),
		}),
		"plain":  types.NewXObject(map[string]types.XValue{"a": x(t.A1), "b": x(t.A2)}),
		"arr":    types.NewXArray(x(t.A1), x(t.A2)),
		"one":    types.NewXArray(x(t.Input)),
		"nums":   types.NewXArray(num("1"), num("2.5")),
		"nested": types.NewXArray(types.NewXArray(x(t.A1)), types.NewXObject(map[string]types.XValue{"__default__": x(t.A2)})),
		"nul":    nil,
		"parent": nil,
		"n":      num("0.5"),
		"dt":     types.NewXDateTime(ctxJoined),
	})
}

// evaluatorCatalogue: the expressions used on the template-evaluator route, text-valued and not.
func evaluatorCatalogue(t ctxTexts) (text, nonText []exprSpec) {
	text = []exprSpec{
		{"@input.text", "text", known(t.Input)},
		{"@(input.text)", "text", known(t.Input)},
		{"@contact.name", "text", known(t.Name)},
		{"@(contact.name)", "text", known(t.Name)},
		{"@fields.gender", "text", known(t.Gender)},
		{"@contact.fields.gender", "text", known(t.Gender)},
		{"@results.other.value", "text", known(t.Result)},
		{"@(results.other.value)", "text", known(t.Result)},
		{"@results.other.category", "text", known(t.A1)},
		{"@results.other.extra.k", "text", known(t.A2)},
		{"@fields.empty", "text", known("")},
		{`@(input.text & "")`, "text", known(t.Input)},
		{`@(contact.name & " " & input.text)`, "text", known(t.Name + " " + t.Input)},
		{`@(upper(input.text))`, "text", nil},
		{`@(text(results.other))`, "text", known(t.Result)},
		{`@(text(fields.age))`, "text", known("39.5")},
		{`@(json(input.text))`, "text", nil},
		{`@(join(arr, " OR "))`, "text", known(t.A1 + " OR " + t.A2)},
		{`@(default(fields.unset, input.text))`, "text", known(t.Input)},
		{`@("x\" OR id != \"0")`, "text", known(`x" OR id != "0`)},
		{`@(format_datetime(fields.joined, "YYYY"))`, "text", known("2021")},
	}
	nonText = []exprSpec{
		{"@input", "object-default", known(t.Input)},
		{"@(input)", "object-default", known(t.Input)},
		{"@contact", "object-default", known(t.Name)},
		{"@(contact)", "object-default", known(t.Name)},
		{"@results.other", "object-default", known(t.Result)},
		{"@(results.other)", "object-default", known(t.Result)},
		{"@results", "object-default", known("Other: " + t.Result)},
		{"@fields", "object-default", known("Gender: " + t.Gender + "\nAge: 39.5")},
		{"@results.count", "object-default", known("3")},
		{`@(if(fields.flag, input, contact))`, "object-default", known(t.Input)},
		{`@(default(fields.unset, contact))`, "object-default", known(t.Name)},
		{"@fields.unset", "nil", known("")},
		{"@(fields.unset)", "nil", known("")},
		{"@contact.fields.unset", "nil", known("")},
		{"@nul", "nil", known("")},
		{"@parent", "nil", known("")},
		{`@(if(fields.off, input, fields.unset))`, "nil", known("")},
		{"@fields.age", "number", known("39.5")},
		{"@fields.big", "number", nil},
		{"@fields.neg", "number", known("-7")},
		{"@(fields.age + 1)", "number", known("40.5")},
		{"@(n)", "number", known("0.5")},
		{"@fields.flag", "boolean", known("true")},
		{"@(fields.age > 3)", "boolean", known("true")},
		{`@(contact.name = "")`, "boolean", nil},
		{"@fields.joined", "datetime", nil},
		{"@dt", "datetime", nil},
		{"@(datetime_add(dt, 1, \"D\"))", "datetime", nil},
		{"@arr", "array", known("[" + t.A1 + ", " + t.A2 + "]")},
		{"@(arr)", "array", known("[" + t.A1 + ", " + t.A2 + "]")},
		{"@one", "array", known("[" + t.Input + "]")},
		{"@nums", "array", known("[1, 2.5]")},
		{"@nested", "array", known("[[" + t.A1 + "], " + t.A2 + "]")},
		{"@contact.urns", "array", nil},
		{"@contact.groups", "array", nil},
		{`@(array(input.text, contact.name))`, "array", known("[" + t.Input + ", " + t.Name + "]")},
		{`@(split(input.text, " "))`, "array", nil},
		{"@plain", "object", nil},
		{"@(plain)", "object", nil},
		{"@results.other.extra", "object", nil},
		{`@(object("a", input.text))`, "object", nil},
	}
	return
}

// ---------------------------------------------------------------------------------------
// templates with several expression sites

type etemplate struct {
	bodies []string // len(exprs)+1 pieces of query text around the expressions
	exprs  []exprSpec
	nparts int
	pos    []string // first | middle | last | only, per site
}

func (t etemplate) text() string {
	var b strings.Builder
	for i, e := range t.exprs {
		b.WriteString(t.bodies[i])
		b.WriteString(e.Text)
	}
	b.WriteString(t.bodies[len(t.exprs)])
	return b.String()
}

func sitePlaceholder(i int) string { return fmt.Sprintf("zq9placeholder%d", i) }

// with renders the template with a given text in place of every expression.
func (t etemplate) with(f func(i int) string) string {
	var b strings.Builder
	for i := range t.exprs {
		b.WriteString(t.bodies[i])
		b.WriteString(f(i))
	}
	b.WriteString(t.bodies[len(t.exprs)])
	return b.String()
}

func (t etemplate) skeleton() string {
	return t.with(func(i int) string { return strconv.Quote(sitePlaceholder(i)) })
}

func (t etemplate) describe() string {
	kinds := make([]string, len(t.exprs))
	for i, e := range t.exprs {
		kinds[i] = e.Kind
	}
	return strings.Join(kinds, ",")
}

// genETemplate builds a query template of 1-5 conditions, 1-3 of which compare a property that
// admits any text with an expression from the catalogue; the other conditions are valid for the
// configuration and printed by the harness.
func genETemplate(r *fw.Rand, c cfg, df envs.DateFormat, catalogue []exprSpec) etemplate {
	tg := &treeGen{r: r, resolver: c.res != nil, redact: c.redact, dateFmt: df, value: benignValue}
	n := r.Weighted([]int{0, 20, 30, 25, 15, 10}) // 1..5 conditions
	nsites := r.Weighted([]int{0, 60, 28, 12})    // 1..3 sites
	if nsites > n {
		nsites = n
	}
	isSite := make([]bool, n)
	for placed := 0; placed < nsites; {
		if i := r.Intn(n); !isSite[i] {
			isSite[i] = true
			placed++
		}
	}
	lo, hi := -1, -1
	if n >= 2 && r.Chance(0.5) {
		lo = r.Intn(n)
		hi = r.Range(lo, n-1)
	}
	var t etemplate
	t.nparts = n
	var cur strings.Builder
	for i := 0; i < n; i++ {
		if i > 0 {
			cur.WriteString(fw.Pick(r, []string{" AND ", " OR ", " and ", " or ", " ", " AND ", " OR "}))
		}
		if i == lo {
			cur.WriteString("(")
		}
		if isSite[i] {
			cur.WriteString(fw.Pick(r, []string{"name", "name", "NAME", "fields.gender", "gender", "fields.nickname", "Nickname"}))
			cur.WriteString(fw.Pick(r, []string{" = ", " = ", " != ", "=", " is ", "= ", " != "}))
			t.bodies = append(t.bodies, cur.String())
			cur.Reset()
			t.exprs = append(t.exprs, fw.Pick(r, catalogue))
			switch {
			case n == 1:
				t.pos = append(t.pos, "only")
			case i == 0:
				t.pos = append(t.pos, "first")
			case i == n-1:
				t.pos = append(t.pos, "last")
			default:
				t.pos = append(t.pos, "middle")
			}
		} else {
			ct := renderCond(r, tg.condition())
			if strings.Contains(ct, "@") {
				ct = `name != "x y"`
			}
			cur.WriteString(ct)
		}
		if i == hi {
			cur.WriteString(")")
		}
	}
	t.bodies = append(t.bodies, cur.String())
	return t
}

func simpleTemplate(before string, e exprSpec, after string, pos string, nparts int) etemplate {
	return etemplate{bodies: []string{before, after}, exprs: []exprSpec{e}, nparts: nparts, pos: []string{pos}}
}

// ---------------------------------------------------------------------------------------
// the oracle shared by both routes

// judgeEvaluated compares the evaluated query text with the template's skeleton. vals[i] is the
// rendered text of expression i.
func (k *chk14) judgeEvaluated(route string, c cfg, t etemplate, evaluated string, vals []string, wit map[string]any) {
	cn := "clause4." + route
	p0 := parse(c, t.skeleton())
	if !p0.ok() {
		k.res.Count(cn+".template_unusable", 1)
		k.res.Seen("clause4.template_unusable", trunc(p0.why(), 60))
		return
	}
	t0 := fromQL(p0.q.Root())
	seen := make([]int, len(t.exprs))
	want := t0.mapLeaves(func(l *node) *node {
		for i := range t.exprs {
			if l.Val == sitePlaceholder(i) {
				seen[i]++
				cp := *l
				cp.Val = vals[i]
				return &cp
			}
		}
		return l
	})
	for _, n := range seen {
		if n != 1 {
			k.res.Count(cn+".template_unusable", 1)
			return
		}
	}
	valueClassName := "non-text-value"
	allText := true
	for _, e := range t.exprs {
		if !e.textValued() {
			allText = false
		}
	}
	if allText {
		valueClassName = "text-value"
	}
	wit["clause"] = 4
	wit["route"] = route
	wit["config"] = c.name
	wit["env"] = k.spec.String()
	wit["template"] = t.text()
	wit["expression_kinds"] = t.describe()
	wit["rendered_values"] = vals
	wit["evaluated_query"] = evaluated
	wit["expected"] = want.canon()
	sig := "engine-injection|" + route + "|" + valueClassName
	k.res.Count(cn+".checked", 1)
	pv := parse(c, evaluated)
	if !pv.ok() {
		wit["observed"] = pv.why()
		k.res.Count(cn+".violated", 1)
		k.res.Violate(sig, fmt.Sprintf("a contact-query template evaluated with the engine's escaping gives an unparseable query (expressions: %s): %s → %s: %s", t.describe(), trunc(t.text(), 120), trunc(evaluated, 160), pv.why()), wit)
		return
	}
	got := fromQL(pv.q.Root())
	if !equalNode(got, want) {
		wit["observed"] = got.canon()
		wit["difference"] = firstDiff(want, got, "")
		wit["conditions_expected"] = len(want.leaves())
		wit["conditions_observed"] = len(got.leaves())
		k.res.Count(cn+".violated", 1)
		k.res.Violate(sig, fmt.Sprintf("a value substituted into a contact-query template does not stay one literal (%s; expressions: %s): %s → %s", firstDiff(want, got, ""), t.describe(), trunc(t.text(), 120), trunc(evaluated, 160)), wit)
		return
	}
	k.res.Count("clause4.held", 1)
	k.res.Count(cn+".held", 1)
	k.res.Count(cn+".held.cfg."+c.name, 1)
	k.res.Count(cn+".held."+valueClassName, 1)
	if len(t.exprs) >= 2 {
		k.res.Count(cn+".held.multi_site", 1)
	}
	meta := false
	for i, e := range t.exprs {
		k.res.Count(cn+".held.kind."+e.Kind, 1)
		k.res.Count(cn+".held.pos."+t.pos[i], 1)
		k.res.Seen("clause4.expressions", e.Text)
		if hasMeta(vals[i]) {
			meta = true
			k.res.Count(cn+".held.meta_value.kind."+e.Kind, 1)
		}
		if hasConfusable(vals[i]) {
			k.res.Count(cn+".held.confusable_value", 1)
		}
		if strings.HasPrefix(e.Text, "@(") {
			k.res.Count(cn+".held.form.expression", 1)
		} else {
			k.res.Count(cn+".held.form.identifier", 1)
		}
	}
	if meta {
		k.res.Count(cn+".held.meta_value", 1)
		if !allText {
			k.res.Count(cn+".held.meta_value.non-text-value", 1)
		}
		k.nt = true
	}
	if t.nparts >= 2 {
		k.nt = true
	}
}

// ---------------------------------------------------------------------------------------
// route "template-evaluator"

func evalTemplate(env envs.Environment, ctx *types.XObject, tpl string, esc excellent.Escaping) (out string, err error, pan any) {
	fw.SetDetail("Evaluator.Template " + trunc(tpl, 200))
	defer func() {
		if rec := recover(); rec != nil {
			pan = fmt.Sprintf("%v\n%s", rec, fw.TrimStack(string(debug.Stack())))
		}
	}()
	out, _, err = excellent.NewEvaluator().Template(env, ctx, tpl, esc)
	return
}

func (k *chk14) checkEvaluatorTemplate(c cfg, ct ctxTexts, t etemplate) {
	const cn = "clause4.template-evaluator"
	k.fps = append(k.fps, "E:"+c.name+":"+t.text()+"\x00"+fw.JSON(ct))
	k.res.Count(cn+".attempts", 1)
	ctx := buildCtx(ct)
	// the rendered text of each expression: evaluated on its own, without escaping
	vals := make([]string, len(t.exprs))
	for i, e := range t.exprs {
		ref, err, pan := evalTemplate(c.env, ctx, e.Text, nil)
		if err != nil || pan != nil {
			k.res.Count(cn+".expression_not_evaluable", 1)
			return
		}
		if e.Known != nil && *e.Known != ref {
			// the harness' idea of the rendering is wrong: no verdict from this item
			k.res.Count(cn+".harness_rendering_differs", 1)
			k.res.Seen(cn+".harness_rendering_differs", e.Text)
			return
		}
		if e.Known != nil {
			k.res.Count(cn+".rendering_known_to_harness", 1)
		}
		vals[i] = ref
	}
	// precondition: the harness' reading of the template (bodies verbatim, expressions where it put them)
	raw, err, pan := evalTemplate(c.env, ctx, t.text(), nil)
	if err != nil || pan != nil || raw != t.with(func(i int) string { return vals[i] }) {
		k.res.Count(cn+".template_not_read_as_built", 1)
		return
	}
	evaluated, err, pan := evalTemplate(c.env, ctx, t.text(), flows.ContactQueryEscaping)
	wit := map[string]any{"context_texts": ct}
	if pan != nil {
		wit["panic"] = pan
		wit["template"] = t.text()
		k.res.Violate("engine-injection|template-evaluator|panic", "Evaluator.Template panicked on a contact-query template: "+trunc(t.text(), 160), wit)
		return
	}
	if err != nil {
		k.res.Count(cn+".expression_not_evaluable", 1)
		return
	}
	k.judgeEvaluated("template-evaluator", c, t, strings.TrimSpace(evaluated), vals, wit)
}

// ---------------------------------------------------------------------------------------
// route "action"

// actionCatalogue: expressions over the real run context of the scenario built by engineScenario.
func actionCatalogue(t ctxTexts) (text, nonText []exprSpec) {
	genderKind := "text"
	if t.Gender == "" {
		genderKind = "nil" // the contact then has no value for the field
	}
	defer func() {
		// keep the two lists homogeneous
		var tx []exprSpec
		for _, e := range text {
			if e.Kind == "text" {
				tx = append(tx, e)
			} else {
				nonText = append(nonText, e)
			}
		}
		text = tx
	}()
	text = []exprSpec{
		{"@input.text", "text", known(t.Input)},
		{"@(input.text)", "text", known(t.Input)},
		{"@contact.name", "text", known(t.Name)},
		{"@fields.gender", genderKind, known(t.Gender)},
		{"@contact.fields.gender", genderKind, known(t.Gender)},
		{"@results.other.value", "text", nil},
		{"@results.response_ask.value", "text", nil},
		{"@results.other.category", "text", nil},
		{`@(input.text & "")`, "text", known(t.Input)},
		{`@(upper(contact.name))`, "text", nil},
		{`@(default(fields.nick, input.text))`, "text", known(t.Input)},
		{"@urns.tel", "text", nil},
		{"@contact.language", "text", known("eng")},
	}
	nonText = []exprSpec{
		{"@input", "object-default", known(t.Input)},
		{"@(input)", "object-default", known(t.Input)},
		{"@contact", "object-default", nil},
		{"@results.other", "object-default", nil},
		{"@(results.other)", "object-default", nil},
		{"@results.response_ask", "object-default", nil},
		{"@results", "object-default", nil},
		{"@fields", "object-default", nil},
		{"@run", "object-default", nil},
		{"@run.flow", "object-default", nil},
		{"@globals", "object-default", nil},
		{`@(if(true, input, contact))`, "object-default", known(t.Input)},
		{"@fields.nick", "nil", known("")},
		{"@(fields.nick)", "nil", known("")},
		{"@contact.fields.joined", "nil", known("")},
		{"@parent", "nil", known("")},
		{"@child", "nil", known("")},
		{"@fields.age", "number", known("23")},
		{"@(fields.age + 0.5)", "number", known("23.5")},
		{`@(contact.name = "")`, "boolean", nil},
		{"@contact.created_on", "datetime", nil},
		{"@input.created_on", "datetime", nil},
		{"@contact.urns", "array", nil},
		{"@contact.groups", "array", nil},
		{"@input.attachments", "array", nil},
		{`@(array(input.text, contact.name))`, "array", nil},
		{`@(split(input.text, " "))`, "array", nil},
		{"@urns", "object", nil},
		{"@input.channel", "object-default", nil},
		{`@(object("a", input.text))`, "object", nil},
	}
	return
}

// engineScenario: flow "Parent" waits for a message, stores it as a result and then runs a
// start_session and a send_broadcast action whose contact_query are the two templates.
func engineScenario(spec envSpec, ct ctxTexts, tpls [2]etemplate) *gen.Scenario {
	d := gen.D{}
	act := d.Node("act", []any{
		d.Action("c14:res", "set_run_result", gen.M{"name": "Other", "value": "@input.text", "category": "Cat"}),
		d.Action("c14:start", "start_session", gen.M{"flow": gen.M{"uuid": gen.NamedUUID("flow:Child"), "name": "Child"}, "contact_query": tpls[0].text(), "exclusions": gen.M{}}),
		d.Action("c14:bcast", "send_broadcast", gen.M{"text": "hi", "contact_query": tpls[1].text()}),
	}, nil, d.Exit("act:out", ""))
	parent := d.Flow("Parent", "messaging", d.WaitNode("ask", "act", nil), act)
	child := d.Flow("Child", "messaging", d.Node("c1", []any{d.SendMsg("c14:c1", "hi")}, nil, d.Exit("c1:out", "")))
	contact := gen.M{
		"uuid": gen.NamedUUID("contact:c14"), "id": 1234, "language": "eng", "status": "active",
		"created_on": "2018-06-20T11:40:30.123456789Z", "urns": []string{"tel:+12065551212", "twitterid:54784326227#nyaruka"},
		"groups": []gen.M{{"uuid": gen.NamedUUID("group:testers"), "name": "Testers"}},
	}
	if ct.Name != "" {
		contact["name"] = ct.Name
	}
	fields := gen.M{"age": gen.M{"text": "23", "number": 23}}
	if ct.Gender != "" {
		fields["gender"] = gen.M{"text": ct.Gender}
	}
	contact["fields"] = fields
	trig := d.Manual("Parent", contact)
	env := gen.M{"date_format": string(spec.DateFmt), "time_format": "tt:mm", "timezone": spec.Zone, "allowed_languages": []string{"eng", "spa"}}
	if spec.Country != "" {
		env["default_country"] = spec.Country
	}
	if spec.Redact {
		env["redaction_policy"] = "urns"
	}
	trig["environment"] = env
	return &gen.Scenario{Assets: d.BaseAssets(parent, child), Trigger: trig, Resumes: []gen.M{d.MsgResume(0, ct.Input)}}
}

func (k *chk14) checkAction(c cfg, seed int64, ct ctxTexts, tpls [2]etemplate) {
	const cn = "clause4.action"
	spec := k.spec
	spec.Redact = c.redact
	scen := engineScenario(spec, ct, tpls)
	k.fps = append(k.fps, "A:"+c.name+":"+tpls[0].text()+"\x00"+tpls[1].text()+"\x00"+fw.JSON(ct))
	k.res.Count(cn+".scenarios", 1)
	defer drive.Uninstall()
	defer func() {
		// a failure of the harness' own plumbing is not a verdict
		if rec := recover(); rec != nil {
			k.res.Count(cn+".harness_panic", 1)
			k.res.Seen(cn+".harness_panic", fw.PanicKind(fmt.Sprint(rec)))
		}
	}()
	rn, err := drive.Load(scen, seed)
	if err != nil {
		k.res.Count(cn+".scenario_not_loadable", 1)
		k.res.Seen(cn+".scenario_not_loadable", trunc(err.Error(), 120))
		return
	}
	queries := map[string]string{}
	var bad string
	rn.RunAll(func(rec *drive.CallRecord) {
		if !rec.OK() {
			bad = rec.Kind + ":"
			switch {
			case rec.Panic != nil:
				bad += "panic: " + fw.PanicKind(fmt.Sprint(rec.Panic))
			case rec.Err != nil:
				bad += trunc(rec.Err.Error(), 100)
			default:
				bad += "budget"
			}
			return
		}
		for _, ej := range rec.EventsJSON {
			var ev struct {
				Type         string  `json:"type"`
				ContactQuery *string `json:"contact_query"`
			}
			if json.Unmarshal(ej, &ev) == nil && ev.ContactQuery != nil && (ev.Type == "session_triggered" || ev.Type == "broadcast_created") {
				queries[ev.Type] = *ev.ContactQuery
			}
		}
	})
	if bad != "" || rn.Session == nil || len(rn.Session.Runs()) == 0 {
		k.res.Count(cn+".scenario_did_not_run", 1)
		k.res.Seen(cn+".scenario_did_not_run", bad)
		return
	}
	run := rn.Session.Runs()[0]
	render := func(e exprSpec) (string, bool) {
		ok := false
		var out string
		func() {
			defer func() {
				if rec := recover(); rec != nil {
					ok = false
				}
			}()
			failed := false
			out, ok = run.EvaluateTemplateText(e.Text, nil, false, func(flows.Event) { failed = true })
			if failed {
				ok = false
			}
		}()
		return out, ok
	}
	for i, evType := range []string{"session_triggered", "broadcast_created"} {
		t := tpls[i]
		evaluated, has := queries[evType]
		if !has {
			k.res.Count(cn+".event_missing."+evType, 1)
			continue
		}
		vals := make([]string, len(t.exprs))
		usable := true
		for j, e := range t.exprs {
			ref, ok := render(e)
			if !ok {
				k.res.Count(cn+".expression_not_evaluable", 1)
				k.res.Seen(cn+".expression_not_evaluable", e.Text)
				usable = false
				break
			}
			if e.Known != nil && *e.Known != ref {
				k.res.Count(cn+".harness_rendering_differs", 1)
				k.res.Seen(cn+".harness_rendering_differs", e.Text)
				usable = false
				break
			}
			if e.Known != nil {
				k.res.Count(cn+".rendering_known_to_harness", 1)
			}
			vals[j] = ref
		}
		if !usable {
			continue
		}
		if raw, ok := render(exprSpec{Text: t.text()}); !ok || raw != t.with(func(j int) string { return vals[j] }) {
			k.res.Count(cn+".template_not_read_as_built", 1)
			continue
		}
		k.res.Count(cn+".event."+evType, 1)
		wit := map[string]any{"context_texts": ct, "event": evType, "scenario": scen}
		k.judgeEvaluated("action", c, t, evaluated, vals, wit)
	}
}

// ---------------------------------------------------------------------------------------
// generated and directed use

// pickCatalogue keeps the sites of one template homogeneous (all text-valued, or none), so that a
// failure can be attributed to the kind of value without re-running anything.
func pickCatalogue(r *fw.Rand, text, nonText []exprSpec) []exprSpec {
	if r.Chance(0.4) {
		return text
	}
	return nonText
}

func (k *chk14) generatedEngine(r *fw.Rand, gen int, seed int64) {
	ct := genCtxTexts(r)
	et, en := evaluatorCatalogue(ct)
	for i := 0; i < 2; i++ {
		c := k.cfgs[(gen*2+i+2)%4]
		k.checkEvaluatorTemplate(c, ct, genETemplate(r, c, k.spec.DateFmt, pickCatalogue(r, et, en)))
	}
	c := k.cfgs[(gen+3)%4]
	at, an := actionCatalogue(ct)
	var tpls [2]etemplate
	for i := range tpls {
		tpls[i] = genETemplate(r, c, k.spec.DateFmt, pickCatalogue(r, at, an))
	}
	k.checkAction(c, seed, ct, tpls)
}

var directedCtxTexts = []ctxTexts{
	{Input: `male OR id != 0`, Name: `Ryan Lewis`, Gender: `x" OR name != "`, Result: `male OR id != 0`, A1: `a`, A2: `b`},
	{Input: `x" OR name != "`, Name: `x") OR (name != "`, Gender: `male`, Result: `") OR (id != "0`, A1: `" OR "" = "`, A2: `b\`},
	{Input: `a\`, Name: `\`, Gender: `\\`, Result: `a\"`, A1: `OR`, A2: `)`},
	{Input: "x” OR id != “0", Name: "“Bob”", Gender: "＂ OR name != ＂", Result: "x» OR id != «0", A1: "a OR b", A2: "（x）"},
	{Input: "a\n\"b\\", Name: "x\ty", Gender: "\x00\"", Result: "line1\nline2 OR id = 1", A1: "\r\n", A2: "a\\\n"},
	{Input: `bob`, Name: `Bob Smith`, Gender: `m`, Result: `yes`, A1: `a`, A2: `b`},
	{Input: `12`, Name: `OR`, Gender: `has`, Result: `name = x`, A1: `1.5`, A2: `()`},
	{Input: ` `, Name: ``, Gender: ``, Result: `""`, A1: ``, A2: ` `},
}

var directedShapes = []struct {
	before, after, pos string
	nparts             int
}{
	{"name = ", "", "only", 1},
	{"name = ", " OR age > 10", "first", 2},
	{"fields.gender = ", " AND fields.age > 18", "first", 2},
	{`fields.age > 18 AND (fields.gender != `, ` OR nickname = "x y")`, "middle", 3},
	{`tickets = 0 OR name = `, "", "last", 2},
	{`name=`, ` nickname = x`, "first", 2},
}

func (k *chk14) directedEvaluatorTemplate() {
	for ti, ct := range directedCtxTexts {
		et, en := evaluatorCatalogue(ct)
		all := append(append([]exprSpec{}, et...), en...)
		for ei, e := range all {
			for si, sh := range directedShapes {
				c := k.cfgs[(ti+ei+si)%4]
				k.checkEvaluatorTemplate(c, ct, simpleTemplate(sh.before, e, sh.after, sh.pos, sh.nparts))
			}
		}
		// several expressions in one template
		c := k.cfgs[ti%4]
		k.checkEvaluatorTemplate(c, ct, etemplate{bodies: []string{"name = ", " OR fields.gender = ", " OR (nickname != ", ` AND age > 1)`}, exprs: []exprSpec{en[0], en[4], en[11]}, nparts: 4, pos: []string{"first", "middle", "middle"}})
		k.checkEvaluatorTemplate(c, ct, etemplate{bodies: []string{"name = ", " fields.gender = ", ""}, exprs: []exprSpec{et[0], et[4]}, nparts: 2, pos: []string{"first", "last"}})
	}
}

func (k *chk14) directedAction() {
	n := 0
	for ti, ct := range directedCtxTexts {
		at, an := actionCatalogue(ct)
		all := append(append([]exprSpec{}, at...), an...)
		// every expression once per text set, two per scenario, shapes and configurations rotating
		for ei := 0; ei+1 < len(all); ei += 2 {
			var tpls [2]etemplate
			for j := 0; j < 2; j++ {
				sh := directedShapes[(ti+ei+j)%len(directedShapes)]
				tpls[j] = simpleTemplate(sh.before, all[ei+j], sh.after, sh.pos, sh.nparts)
			}
			k.checkAction(k.cfgs[(ti+ei/2)%4], int64(1000+n), ct, tpls)
			n++
		}
	}
}
