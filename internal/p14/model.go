// Package p14 holds the runtime-monitoring checks for C14 (contact queries round-trip through
// text and cannot be injected into) and C15 (contact query evaluation is total and logically
// consistent).
package p14

import (
	"fmt"
	"strconv"
	"strings"

	"github.com/nyaruka/goflow/contactql"
)

// node is the harness' own model of a query tree. It is deliberately independent of
// contactql's types: goflow trees are converted to it through the public accessors only,
// and expected trees are built in it by the generators.
type node struct {
	Op   string  // "and" | "or" for combinations, "" for a condition
	Kids []*node // combinations only

	PT  string // "attr" | "urn" | "field"
	Key string
	Cmp string // = != ~ > >= < <=
	Val string

	Site bool // generator bookkeeping: this leaf is the injection site (not part of equality)
}

func cond(pt, key, cmp, val string) *node { return &node{PT: pt, Key: key, Cmp: cmp, Val: val} }
func comb(op string, kids ...*node) *node { return &node{Op: op, Kids: kids} }

func (n *node) isCond() bool { return n.Op == "" }

// toQL builds the goflow tree with the public constructors.
func (n *node) toQL() contactql.QueryNode {
	if n.isCond() {
		return contactql.NewCondition(contactql.PropertyType(n.PT), n.Key, contactql.Operator(n.Cmp), n.Val)
	}
	kids := make([]contactql.QueryNode, len(n.Kids))
	for i, k := range n.Kids {
		kids[i] = k.toQL()
	}
	return contactql.NewBoolCombination(contactql.BoolOperator(n.Op), kids...)
}

// fromQL reads a goflow tree through its public accessors.
func fromQL(q contactql.QueryNode) *node {
	switch t := q.(type) {
	case nil:
		return nil
	case *contactql.Condition:
		if t == nil {
			return nil
		}
		return cond(string(t.PropertyType()), t.PropertyKey(), string(t.Operator()), t.Value())
	case *contactql.BoolCombination:
		if t == nil {
			return nil
		}
		n := &node{Op: string(t.Operator())}
		for _, c := range t.Children() {
			n.Kids = append(n.Kids, fromQL(c))
		}
		return n
	}
	return &node{Op: fmt.Sprintf("?%T", q)}
}

// nf is the harness' own normal form: combinations with one child collapse to the child and
// children combined with the same operator as their parent are spliced into it (associativity).
// Nothing else changes: order, conditions, operators and values are preserved.
func nf(n *node) *node {
	if n == nil {
		return nil
	}
	if n.isCond() {
		return n
	}
	var kids []*node
	for _, k := range n.Kids {
		k = nf(k)
		if k == nil {
			continue
		}
		if !k.isCond() && k.Op == n.Op {
			kids = append(kids, k.Kids...)
		} else {
			kids = append(kids, k)
		}
	}
	switch len(kids) {
	case 0:
		return nil
	case 1:
		return kids[0]
	}
	return &node{Op: n.Op, Kids: kids}
}

func equalNode(a, b *node) bool {
	if a == nil || b == nil {
		return a == nil && b == nil
	}
	if a.Op != b.Op {
		return false
	}
	if a.isCond() {
		return a.PT == b.PT && a.Key == b.Key && a.Cmp == b.Cmp && a.Val == b.Val
	}
	if len(a.Kids) != len(b.Kids) {
		return false
	}
	for i := range a.Kids {
		if !equalNode(a.Kids[i], b.Kids[i]) {
			return false
		}
	}
	return true
}

// canon is an unambiguous rendering of the model (for witnesses and fingerprints).
func (n *node) canon() string {
	if n == nil {
		return "<nil>"
	}
	if n.isCond() {
		return fmt.Sprintf("%s:%s %s %s", n.PT, n.Key, n.Cmp, strconv.Quote(n.Val))
	}
	parts := make([]string, len(n.Kids))
	for i, k := range n.Kids {
		parts[i] = k.canon()
	}
	return n.Op + "(" + strings.Join(parts, ", ") + ")"
}

func (n *node) leaves() []*node {
	if n == nil {
		return nil
	}
	if n.isCond() {
		return []*node{n}
	}
	var out []*node
	for _, k := range n.Kids {
		out = append(out, k.leaves()...)
	}
	return out
}

func (n *node) depth() int {
	if n == nil || n.isCond() {
		return 0
	}
	d := 0
	for _, k := range n.Kids {
		if kd := k.depth(); kd > d {
			d = kd
		}
	}
	return d + 1
}

// mapLeaves returns a copy of the tree with every condition replaced by f(condition).
func (n *node) mapLeaves(f func(*node) *node) *node {
	if n == nil {
		return nil
	}
	if n.isCond() {
		return f(n)
	}
	c := &node{Op: n.Op}
	for _, k := range n.Kids {
		c.Kids = append(c.Kids, k.mapLeaves(f))
	}
	return c
}

// firstDiff describes where two models differ (for the witness).
func firstDiff(a, b *node, path string) string {
	if a == nil || b == nil {
		if a == nil && b == nil {
			return ""
		}
		return path + ": one side is empty"
	}
	if a.Op != b.Op {
		return fmt.Sprintf("%s: node kind %q vs %q", path, kindOf(a), kindOf(b))
	}
	if a.isCond() {
		switch {
		case a.PT != b.PT:
			return fmt.Sprintf("%s: property type %q vs %q", path, a.PT, b.PT)
		case a.Key != b.Key:
			return fmt.Sprintf("%s: property key %q vs %q", path, a.Key, b.Key)
		case a.Cmp != b.Cmp:
			return fmt.Sprintf("%s: operator %q vs %q", path, a.Cmp, b.Cmp)
		case a.Val != b.Val:
			return fmt.Sprintf("%s: value %q vs %q", path, a.Val, b.Val)
		}
		return ""
	}
	if len(a.Kids) != len(b.Kids) {
		return fmt.Sprintf("%s: %d children vs %d", path, len(a.Kids), len(b.Kids))
	}
	for i := range a.Kids {
		if d := firstDiff(a.Kids[i], b.Kids[i], fmt.Sprintf("%s/%s[%d]", path, a.Op, i)); d != "" {
			return d
		}
	}
	return ""
}

func kindOf(n *node) string {
	if n.isCond() {
		return "condition"
	}
	return n.Op
}

// valueClass is a coarse description of a literal value, used in signatures of unclassified
// failures (never the bytes themselves).
func valueClass(v string) string {
	var fs []string
	if v == "" {
		return "empty"
	}
	if strings.HasSuffix(v, `\`) {
		fs = append(fs, "trailing-backslash")
	} else if strings.Contains(v, `\`) {
		fs = append(fs, "backslash")
	}
	if strings.Contains(v, `"`) {
		fs = append(fs, "quote")
	}
	if strings.ContainsAny(v, "\n\r\t") {
		fs = append(fs, "control-ws")
	}
	for _, r := range v {
		if r < 0x20 && r != '\n' && r != '\r' && r != '\t' || r == 0x7f {
			fs = append(fs, "control")
			break
		}
	}
	for _, r := range v {
		if r > 0x7e {
			fs = append(fs, "non-ascii")
			break
		}
	}
	if isNumberLike(v) {
		fs = append(fs, "number-like")
	}
	if len(fs) == 0 {
		return "plain"
	}
	return strings.Join(fs, "+")
}

func isNumberLike(v string) bool {
	if v == "" {
		return false
	}
	dot := false
	for i, r := range v {
		switch {
		case r >= '0' && r <= '9':
		case r == '.' && !dot && i > 0 && i < len(v)-1:
			dot = true
		default:
			return false
		}
	}
	return true
}

// hasMeta reports whether a value contains a character or word that is meaningful to the
// query syntax (the non-triviality rule of C14).
func hasMeta(v string) bool {
	if strings.ContainsAny(v, "\"\\()=!~<> \t\n\r") {
		return true
	}
	switch strings.ToLower(v) {
	case "or", "and", "has", "is":
		return true
	}
	return false
}
