package p14

import (
	"strings"

	"verif/internal/fw"
)

// ---------------------------------------------------------------------------------------
// Values made of characters that are NOT query syntax but look like it, or that a
// "helpful" normalisation (quote straightening, NFKC, whitespace folding, width folding,
// stripping of invisible characters) would turn into query syntax. The escaping is applied
// to the value as it is; anything that rewrites the text between escaping and lexing (or
// inside the lexer) lets such a value close its own literal.

// quote-like characters: typographic double and single quotes, guillemets, primes, fullwidth
// and CJK quotes, modifier letters, accents
var confusableQuotes = []string{
	"\u201c", "\u201d", "\u201e", "\u201f", "\u00ab", "\u00bb", "\u2039", "\u203a", "\uff02", "\u2033", "\u2036",
	"\u02ba", "\u02dd", "\u02ee", "\u3003", "\u301d", "\u301e", "\u301f", "\u275d", "\u275e", "\u2e42",
	"\u2018", "\u2019", "\u201a", "\u201b", "\uff07", "\u2032", "\u2035", "\u02b9", "\u02bc", "\u00b4", "`", "'", "''",
	"\"\u0301", // a real quote followed by a combining mark
}

// typographic quote pairs (opening, closing) as a word processor or a phone keyboard produces them
var confusableQuotePairs = [][2]string{
	{"\u201c", "\u201d"}, {"\u201e", "\u201c"}, {"\u201e", "\u201d"}, {"\u00ab", "\u00bb"}, {"\u00bb", "\u00ab"}, {"\u2039", "\u203a"},
	{"\uff02", "\uff02"}, {"\u301d", "\u301e"}, {"\u301d", "\u301f"}, {"\u2033", "\u2033"}, {"\u2018", "\u2019"}, {"\u201f", "\u201d"},
	{"\u275d", "\u275e"}, {"''", "''"},
}

// space-like and invisible characters
var confusableSpaces = []string{
	"\u00a0", "\u1680", "\u180e", "\u2000", "\u2001", "\u2002", "\u2003", "\u2004", "\u2005", "\u2006", "\u2007", "\u2008", "\u2009", "\u200a",
	"\u2028", "\u2029", "\u202f", "\u205f", "\u3000", "\u0085", "\u000b", "\u000c", "\u001c", "\u001f",
	"\u200b", "\u200c", "\u200d", "\u2060", "\ufeff", "\u00ad", "\u034f", "\u061c", "\u200e", "\u200f", "\u202e",
}

// look-alikes of the operators, parentheses and of the backslash
var confusableSyntax = map[string][]string{
	"=":  {"\uff1d", "\u207c", "\u208c", "\ua78a", "\u2550", "\ufe66"},
	"!":  {"\uff01", "\u01c3", "\ufe57", "\u2757"},
	"~":  {"\uff5e", "\u223c", "\u02dc", "\u301c", "\u2053"},
	"<":  {"\uff1c", "\u2039", "\u3008", "\ufe64", "\u02c2"},
	">":  {"\uff1e", "\u203a", "\u3009", "\ufe65", "\u02c3"},
	"(":  {"\uff08", "\u207d", "\u208d", "\u2768", "\ufe59", "\u2985"},
	")":  {"\uff09", "\u207e", "\u208e", "\u2769", "\ufe5a", "\u2986"},
	"\\": {"\uff3c", "\u2216", "\u29f5", "\ufe68", "\u29f9"},
	".":  {"\uff0e", "\u2024", "\u3002"},
	":":  {"\uff1a", "\ua789", "\u02d0"},
}

// look-alikes of the keywords (fullwidth, Cyrillic / Greek homoglyphs, invisible characters inside,
// letters whose case mapping produces the ASCII letter)
var confusableKeywords = map[string][]string{
	"OR":  {"\uff2f\uff32", "\u041eR", "O\u200bR", "O\u200dR", "\u039fR", "o\u0280", "\u24c4\u24c7", "OR\u200b", "\ufeffOR", "\uff4f\uff52"},
	"AND": {"\uff21\uff2e\uff24", "\u0391ND", "A\u00adND", "\u0410ND", "AN\u200cD", "\uff41\uff4e\uff44", "\ufeffAND"},
	"has": {"\uff48\uff41\uff53", "h\u0430s", "ha\u017f", "HA\u017f"},
	"is":  {"\uff49\uff53", "\u0131s", "\u0130s", "i\u017f", "I\u017f"},
}

// compatibility / case-mapping material: a value must come back exactly as it went in
var normalisable = []string{
	"\ufb01", "\u212b", "\u00c5", "A\u030a", "\u1e9e", "\u2126", "\u212a", "\u017f", "\u0130", "\u0131", "\uff4e\uff41\uff4d\uff45", "\uff11\uff12", "\u00bd",
	"\u2460", "\u3392", "\u00e9", "e\u0301", "\uac00", "\u1100\u1161", "\u0660\u0661", "\ufdfa", "\u2163", "\u00b5", "\u03bc",
}

// injection skeletons: {q} opens / {Q} closes a literal, the rest is spelled with ASCII syntax
// that confuse() then replaces piecewise
var injectionSkeletons = []string{
	`x{Q} OR id != {q}0`, `{Q} OR name != {q}`, `x{Q}) OR (name != {q}`, `{Q} OR id = 1 OR name = {q}`, `a{Q} AND name ~ {q}b`,
	`{q}`, `{Q}`, `{q}{Q}`, `a{q}b`, `{q}x{Q}`, `x{Q} y`, `\{Q} OR name != \{q}`, `x{Q} OR {q}{Q} = {q}`, `{Q} has {q}`, `x{Q}OR name!={q}y`,
	`male OR id != 0`, `x) OR (id != 0`, `a AND b`, `x = y`, `a ~ b`, `a\`, `\`, `name = x`, `has`, `OR`, `(x)`, `urns.tel = 1`, `fields.age > 1`,
}

func oneOf(r *fw.Rand, m map[string][]string, key string) string { return fw.Pick(r, m[key]) }

// confuse spells an injection skeleton with look-alike characters. mode 0: only the quotes are
// typographic (the realistic phone-keyboard case), 1: quotes and spaces, 2: everything that has a
// look-alike, each occurrence independently.
func confuse(r *fw.Rand, skeleton string, mode int) string {
	pair := fw.Pick(r, confusableQuotePairs)
	if r.Chance(0.3) {
		q := fw.Pick(r, confusableQuotes)
		pair = [2]string{q, q}
	}
	s := strings.ReplaceAll(skeleton, "{q}", pair[0])
	s = strings.ReplaceAll(s, "{Q}", pair[1])
	if mode == 0 {
		return s
	}
	var b strings.Builder
	p := 0.6
	if mode == 1 {
		p = 0.5
	}
	words := strings.Split(s, " ")
	for i, w := range words {
		if i > 0 {
			if r.Chance(p) {
				b.WriteString(fw.Pick(r, confusableSpaces))
			} else {
				b.WriteString(" ")
			}
		}
		if mode == 2 {
			if alts, ok := confusableKeywords[w]; ok && r.Chance(p) {
				b.WriteString(fw.Pick(r, alts))
				continue
			}
			for _, c := range w {
				if alts, ok := confusableSyntax[string(c)]; ok && r.Chance(p) {
					b.WriteString(fw.Pick(r, alts))
				} else {
					b.WriteRune(c)
				}
			}
			continue
		}
		b.WriteString(w)
	}
	return b.String()
}

// confusableValue: a value from the class described at the top of this file.
func confusableValue(r *fw.Rand) string {
	switch r.Intn(10) {
	case 0, 1, 2, 3:
		return confuse(r, fw.Pick(r, injectionSkeletons), 0)
	case 4, 5:
		return confuse(r, fw.Pick(r, injectionSkeletons), 1)
	case 6, 7:
		return confuse(r, fw.Pick(r, injectionSkeletons), 2)
	case 8:
		return fw.Pick(r, []string{"", "a", "x y"}) + fw.Pick(r, normalisable) + fw.Pick(r, []string{"", `"`, " OR x", `\`})
	default:
		// a few look-alikes next to real syntax characters
		n := r.Range(1, 6)
		var b strings.Builder
		for i := 0; i < n; i++ {
			switch r.Intn(6) {
			case 0:
				b.WriteString(fw.Pick(r, confusableQuotes))
			case 1:
				b.WriteString(fw.Pick(r, confusableSpaces))
			case 2:
				b.WriteString(oneOf(r, confusableSyntax, fw.Pick(r, []string{"=", "!", "~", "<", ">", "(", ")", "\\", ".", ":"})))
			case 3:
				b.WriteString(oneOf(r, confusableKeywords, fw.Pick(r, []string{"OR", "AND", "has", "is"})))
			case 4:
				b.WriteString(fw.Pick(r, []string{`"`, `\`, " ", "(", ")", "=", "OR", "x", "0"}))
			default:
				b.WriteString(fw.Pick(r, normalisable))
			}
		}
		return b.String()
	}
}

// allConfusables lists every single look-alike character (directed corpus).
func allConfusables() []string {
	var out []string
	out = append(out, confusableQuotes...)
	out = append(out, confusableSpaces...)
	for _, k := range []string{"=", "!", "~", "<", ">", "(", ")", "\\", ".", ":"} {
		out = append(out, confusableSyntax[k]...)
	}
	for _, k := range []string{"OR", "AND", "has", "is"} {
		out = append(out, confusableKeywords[k]...)
	}
	out = append(out, normalisable...)
	return out
}

// ---------------------------------------------------------------------------------------
// raw line feeds and other control characters together with the characters that need escaping:
// a printer that writes some of them raw, or an unquoting that gives up on them, leaves the
// escapes of the others in the value

var controlChars = []string{"\n", "\r", "\r\n", "\t", "\x00", "\x01", "\x07", "\x08", "\x0b", "\x0c", "\x1b", "\x1f", "\x7f", "\u0080", "\u0085", "\u009f", "\u2028", "\u2029", "\ufffd", "\U000e0001"}
var escapeNeeding = []string{`"`, `\`, `\"`, `\\`, `""`, `\n`, `\u0041`, `\x41`, `a\`, `" OR name != "`, `\" OR id != \"`, `'`, `\'`, `\t`, `\0`, `\u`, `\U0001F600`, `\`}

func controlMixValue(r *fw.Rand) string {
	n := r.Range(2, 6)
	var b strings.Builder
	hasC, hasE := false, false
	for i := 0; i < n; i++ {
		switch {
		case i == n-2 && !hasC, r.Intn(3) == 0:
			b.WriteString(fw.Pick(r, controlChars))
			hasC = true
		case i == n-1 && !hasE, r.Intn(2) == 0:
			b.WriteString(fw.Pick(r, escapeNeeding))
			hasE = true
		default:
			b.WriteString(fw.Pick(r, []string{"a", "x y", "\u00e9", "0", " ", "OR", "\U0001f600"}))
		}
	}
	return b.String()
}

// hasConfusable / hasControlMix classify values for the evidence counters.
func hasConfusable(v string) bool {
	for _, c := range v {
		if c > 0x7e && !(c >= 0x4e00 && c <= 0x9fff) && c != 0xe9 && c != 0x1f600 {
			return true
		}
	}
	return false
}

func hasControlMix(v string) bool {
	ctl := false
	for _, c := range v {
		if c < 0x20 || c == 0x7f || c == 0x85 || c == 0x2028 || c == 0x2029 {
			ctl = true
		}
	}
	return ctl && strings.ContainsAny(v, `"\`)
}
