package p14

import (
	"fmt"
	"os"
	"path/filepath"
	"regexp"
	"runtime/debug"
	"strconv"
	"strings"
	"time"
	"unicode"

	"github.com/nyaruka/gocommon/dates"
	"github.com/nyaruka/goflow/contactql"
	"github.com/nyaruka/goflow/envs"
	"github.com/nyaruka/goflow/flows"

	"verif/internal/fw"
	"verif/internal/gen"
)

// C14 — contact queries round-trip through text and cannot be injected into.
//
// Three oracle clauses, all over goflow's own printers (Condition.String / Stringify /
// ContactQueryEscaping) and goflow's own parser:
//
//	clause 1  accepted text q:   ParseQuery(ParseQuery(q).String()) is accepted and is the same tree
//	clause 2  programmatic t:    ParseQuery(Stringify(t)) is accepted and equals t up to flattening
//	clause 3  injection:         ParseQuery(template[v := ContactQueryEscaping(v)]) is the template's
//	                             tree with the one literal replaced by v
//	clause 4  engine level:      a contact-query template evaluated the way the actions do it
//	                             (Evaluator.Template / run.EvaluateTemplateText with
//	                             flows.ContactQueryEscaping; start_session / send_broadcast through the
//	                             real engine) parses to the template's tree with one literal per
//	                             expression, whatever the type of the expression's value (c14_engine.go)
//
// Every clause is run without and with a resolver and under both redaction policies.

type c14 struct{}

func init() { fw.Register(&c14{}) }

func (p *c14) ID() string { return "C14" }
func (p *c14) Rule() string {
	return "a generated case bundles 14 items under one random environment (zone, date format, country; both redaction policies; with and without a resolver): 4 query texts derived from antlr/ContactQL.g4 (implicit conditions, every comparator and alias, AND/OR/implicit AND, parentheses, quoted/naively quoted/bare literals, any case and whitespace, plus token soup and one-character mutations), 2 programmatic trees (NewCondition/NewBoolCombination, 1-4 children, nesting <= 3, conditions valid by construction, values = hostile valid UTF-8) 2 injection templates (1-5 conditions, the escaped value at a random position), 2 contact-query templates (1-5 conditions, 1-3 expression sites) evaluated by excellent.Evaluator.Template with flows.ContactQueryEscaping over a context of text, number, boolean, datetime, nil, array and object values (with and without __default__) whose rendered text is hostile, and 1 scenario run through the real engine (flow with set_run_result + start_session + send_broadcast whose contact_query are such templates over the run context; hostile message text, contact name and field value; evaluated query read off the session_triggered / broadcast_created events), and 3 items (1 text of 1-3 conditions, 1 programmatic tree, 1 injection template whose site is a condition on that property) in which the value of a condition echoes the condition's own property: the property key as written in a query or a URN (key, urns.key / fields.key, upper case) 1-3 times, each followed by a separator (mostly ':'), then a plausible path / text or a hostile value; the property is a URN scheme (58%, every scheme), the urn or name attribute or a text field. Hostile values = valid UTF-8 biased to quotes, backslashes (trailing), operators, parentheses, keywords, plus (20%) look-alike / normalisable characters (typographic and fullwidth quotes, guillemets, primes, Unicode spaces, invisible characters, fullwidth and homoglyph operators and keywords, NFKC- and case-mapping material) spelled over injection skeletons, and raw control characters mixed with quotes and backslashes. Non-trivial = at least one item whose (parsed) query has >= 2 conditions or a value containing a syntax metacharacter/keyword; distinct = distinct bundle content."
}
func (p *c14) Directed() []string {
	return []string{"known-trailing-backslash", "grammar-corpus", "repo-test-queries", "pool-values", "unicode-keys",
		"confusable-characters", "control-characters-with-escapes", "engine-template-evaluator", "engine-actions",
		"value-echoes-own-property"}
}
func (p *c14) NumGenerated(tier string) int {
	if tier == "thorough" {
		return 500000
	}
	return 5000
}
func (p *c14) BatchSize(tier string) int {
	if tier == "thorough" {
		return 8000
	}
	return 320
}
func (p *c14) CaseTimeoutS() int { return 60 }
func (p *c14) Floors(tier string) []string {
	return []string{
		"clause1.held", "clause2.held", "clause3.held",
		"clause1.accepted.plain", "clause1.accepted.resolver", "clause1.accepted.redacted", "clause1.accepted.redacted+resolver",
		"clause1.held.multi_condition", "clause1.held.meta_value",
		"clause2.held.meta_value", "clause2.held.nested", "clause2.simplify_preserves",
		"clause3.held.meta_value", "clause3.held.first", "clause3.held.middle", "clause3.held.last",
		"clause2.held.confusable_value", "clause3.held.confusable_value", "clause2.held.control_mix_value", "clause3.held.control_mix_value",
		"clause4.held", "clause4.template-evaluator.held", "clause4.action.held",
		"clause4.template-evaluator.held.text-value", "clause4.template-evaluator.held.non-text-value",
		"clause4.template-evaluator.held.meta_value.non-text-value", "clause4.template-evaluator.held.multi_site",
		"clause4.template-evaluator.held.kind.object-default", "clause4.template-evaluator.held.kind.nil", "clause4.template-evaluator.held.kind.array",
		"clause4.template-evaluator.held.kind.object", "clause4.template-evaluator.held.kind.number", "clause4.template-evaluator.held.kind.boolean",
		"clause4.template-evaluator.held.kind.datetime", "clause4.template-evaluator.held.kind.text",
		"clause4.template-evaluator.held.form.identifier", "clause4.template-evaluator.held.form.expression",
		"clause4.action.held.text-value", "clause4.action.held.non-text-value", "clause4.action.held.meta_value.non-text-value",
		"clause4.action.event.session_triggered", "clause4.action.event.broadcast_created",
		"clause4.action.held.kind.object-default", "clause4.action.held.kind.nil", "clause4.action.held.kind.array",
		"clause1.held.key_echo_value.urn_scheme", "clause2.held.key_echo_value.urn_scheme", "clause3.held.key_echo_value.urn_scheme",
		"clause1.held.key_echo_value", "clause2.held.key_echo_value", "clause3.held.key_echo_value",
	}
}

// ---------------------------------------------------------------------------------------

type cfg struct {
	name   string
	env    envs.Environment
	res    contactql.Resolver
	redact bool
}

func configs(s envSpec) []cfg {
	plain := s
	plain.Redact = false
	red := s
	red.Redact = true
	ep, er := plain.build(), red.build()
	return []cfg{
		{"plain", ep, nil, false},
		{"resolver", ep, mockResolver, false},
		{"redacted", er, nil, true},
		{"redacted+resolver", er, mockResolver, true},
	}
}

type chk14 struct {
	res  *fw.Result
	spec envSpec
	cfgs []cfg
	fps  []string
	nt   bool
}

type parsed struct {
	q     *contactql.ContactQuery
	err   error
	pan   any
	stack string
}

func (p parsed) ok() bool { return p.pan == nil && p.err == nil && p.q != nil }

func (p parsed) why() string {
	if p.pan != nil {
		return fmt.Sprintf("panic: %v", p.pan)
	}
	if p.err != nil {
		if is, qe := contactql.IsQueryError(p.err); is {
			return fmt.Sprintf("%s (%s)", p.err.Error(), qe.(*contactql.QueryError).Code())
		}
		return p.err.Error()
	}
	return ""
}

func parse(c cfg, text string) (out parsed) {
	fw.SetDetail("ParseQuery " + trunc(text, 200))
	defer func() {
		if rec := recover(); rec != nil {
			out.pan = rec
			out.stack = string(debug.Stack())
		}
	}()
	out.q, out.err = contactql.ParseQuery(c.env, text, c.res)
	return out
}

// stringify guards goflow's printer.
func stringify(q contactql.QueryNode) (s string, pan any) {
	defer func() {
		if rec := recover(); rec != nil {
			pan = rec
		}
	}()
	return contactql.Stringify(q), nil
}

func trunc(s string, n int) string {
	if len(s) <= n {
		return s
	}
	for n > 0 && !isRuneStart(s[n]) {
		n--
	}
	return s[:n] + "…"
}

func isRuneStart(b byte) bool { return b&0xC0 != 0x80 }

// padTrailingBackslashes is the repair experiment used to name the cause of a failure: the
// same tree with every value that ends in a backslash made to end in "_" instead.
func padTrailingBackslashes(t *node) (*node, bool) {
	changed := false
	out := t.mapLeaves(func(l *node) *node {
		if strings.HasSuffix(l.Val, `\`) {
			changed = true
			c := *l
			c.Val = l.Val + "_"
			return &c
		}
		return l
	})
	return out, changed
}

// roundTrips reports whether Stringify(t) is accepted and parses to t (up to flattening).
func roundTrips(c cfg, t *node) bool {
	s, pan := stringify(t.toQL())
	if pan != nil {
		return false
	}
	p := parse(c, s)
	return p.ok() && equalNode(nf(fromQL(p.q.Root())), nf(t))
}

var asciiKey = regexp.MustCompile(`^[a-z0-9_]+$`)

// rekey is the second repair experiment: every URN / field condition whose key is not a plain
// ASCII key gets one ("ext" is a valid scheme, "xyz" an ordinary field key). It reports whether
// all replaced keys were lower-case words (letters, digits, underscores) — the only form an
// explicit condition can produce, because the visitor lower-cases explicit property names. Any
// other key can only come from an implicit condition that was read as a URN.
func rekey(t *node) (out *node, changed bool, allWordChars bool) {
	allWordChars = true
	out = t.mapLeaves(func(l *node) *node {
		if (l.PT == "urn" || l.PT == "field") && !asciiKey.MatchString(l.Key) {
			changed = true
			if strings.ToLower(l.Key) != l.Key {
				allWordChars = false
			}
			for _, r := range l.Key {
				if !unicode.IsLetter(r) && !unicode.IsDigit(r) && r != '_' {
					allWordChars = false
				}
			}
			c := *l
			if l.PT == "urn" {
				c.Key = "ext"
			} else {
				c.Key = "xyz"
			}
			return &c
		}
		return l
	})
	return
}

const (
	causeBackslash = "trailing-backslash-before-closing-quote"
	causeURNScheme = "implicit-urn-scheme-unvalidated"
	causeLowerKey  = "lowercased-key-outside-lexer-alphabet"
	causeNonASCII  = "non-ascii-character-in-value-rewritten-or-read-as-syntax"
	causeControl   = "control-character-in-value-breaks-the-escapes-of-other-characters"
)

// mapValues returns the tree with f applied to every condition value (changed: some value differs).
func mapValues(t *node, f func(string) string) (out *node, changed bool) {
	out = t.mapLeaves(func(l *node) *node {
		if v := f(l.Val); v != l.Val {
			changed = true
			c := *l
			c.Val = v
			return &c
		}
		return l
	})
	return
}

// asciify is the third repair experiment: every non-ASCII rune of a value becomes "x" (same
// length in runes, no look-alike left). stripControls the fourth: every control character "_".
func asciify(v string) string {
	return strings.Map(func(r rune) rune {
		if r > 0x7e {
			return 'x'
		}
		return r
	}, v)
}

func stripControls(v string) string {
	return strings.Map(func(r rune) rune {
		if r < 0x20 || r == 0x7f {
			return '_'
		}
		return r
	}, v)
}

// diagnosis names the defect class behind a failing format→parse of a tree and carries a shrunk
// witness for it.
type diagnosis struct {
	cause string
	small *node // shrunk tree that still fails for the same cause (nil: not shrunk)
}

// diagnose attributes a failing format→parse of tree t to defect classes by repair experiments:
// the failure belongs to a class when removing that class' ingredient from the tree (and nothing
// else) makes the round trip succeed. The witness is then shrunk under the predicate "still
// fails, and the same repair still makes it succeed" (so a shrunk tree is never merely invalid).
// kind is only part of the signature of unclassified failures.
func diagnose(c cfg, t *node, kind string) []diagnosis {
	keyCause := func(allWord bool) string {
		if allWord {
			return causeLowerKey
		}
		return causeURNScheme
	}
	padRepair := func(x *node) (*node, bool) {
		// a single condition is never hit by this defect, so every leaf must be fine on its own
		for _, l := range x.leaves() {
			if !roundTrips(c, l) {
				return nil, false
			}
		}
		return padTrailingBackslashes(x)
	}
	keyRepair := func(x *node) (*node, bool) { y, ch, _ := rekey(x); return y, ch }
	shrunk := func(repair func(*node) (*node, bool)) *node {
		return shrinkTree(t, func(x *node) bool {
			if x == nil || roundTrips(c, x) {
				return false
			}
			y, changed := repair(x)
			return changed && roundTrips(c, y)
		})
	}
	padded, padChanged := padTrailingBackslashes(t)
	if padChanged && roundTrips(c, padded) {
		return []diagnosis{{causeBackslash, shrunk(padRepair)}}
	}
	rekeyed, keyChanged, allWord := rekey(t)
	if keyChanged && roundTrips(c, rekeyed) {
		sm := shrunk(keyRepair)
		_, _, aw := rekey(sm)
		return []diagnosis{{keyCause(aw), sm}}
	}
	if padChanged && keyChanged {
		if both, _, _ := rekey(padded); roundTrips(c, both) {
			return []diagnosis{{causeBackslash, nil}, {keyCause(allWord), nil}}
		}
	}
	for _, rp := range []struct {
		cause string
		f     func(string) string
	}{{causeNonASCII, asciify}, {causeControl, stripControls}} {
		rp := rp
		repair := func(x *node) (*node, bool) { return mapValues(x, rp.f) }
		if y, changed := repair(t); changed && roundTrips(c, y) {
			return []diagnosis{{rp.cause, shrunk(repair)}}
		}
	}
	// the value of a condition repeats the condition's own property key, and the round trip works
	// when it does not
	if y, changed := unecho(t); changed && roundTrips(c, y) {
		return []diagnosis{{causeKeyEcho, shrunk(unecho)}}
	}
	// smallest failing sub-term: a single condition?
	for _, l := range t.leaves() {
		if !roundTrips(c, l) {
			return []diagnosis{{kind + "|unclassified:single-condition:value-" + firstFeature(l.Val), l}}
		}
	}
	return []diagnosis{{kind + "|unclassified:multi-condition", nil}}
}

// shrinkTree greedily replaces the tree by a sub-tree, or removes one child of a combination, or
// shortens one value, as long as the predicate keeps holding.
func shrinkTree(t *node, fails func(*node) bool) *node {
	budget := 400 // predicate evaluations
	try := func(x *node) bool {
		if budget <= 0 {
			return false
		}
		budget--
		return fails(x)
	}
	for progress := true; progress && budget > 0; {
		progress = false
		for _, cand := range structuralCandidates(t) {
			if try(cand) {
				t, progress = cand, true
				break
			}
		}
	}
	// values: delete chunks of runes (halves, quarters, … single runes)
	leaves := t.leaves()
	for i := range leaves {
		if len(leaves) > 4 {
			break
		}
		cur := []rune(t.leaves()[i].Val)
		for chunk := (len(cur) + 1) / 2; chunk >= 1 && len(cur) > 0; chunk /= 2 {
			for at := 0; at < len(cur); {
				endAt := at + chunk
				if endAt > len(cur) {
					endAt = len(cur)
				}
				shorter := string(cur[:at]) + string(cur[endAt:])
				cand := replaceLeafValue(t, i, shorter)
				if try(cand) {
					cur = []rune(shorter)
					t = cand
				} else {
					at += chunk
				}
			}
		}
	}
	return t
}

// shrinkString deletes chunks of runes (halves, quarters, … single runes) while the predicate holds.
func shrinkString(v string, fails func(string) bool) string {
	cur := []rune(v)
	budget := 300
	for chunk := (len(cur) + 1) / 2; chunk >= 1 && len(cur) > 0; chunk /= 2 {
		for at := 0; at < len(cur) && budget > 0; {
			endAt := at + chunk
			if endAt > len(cur) {
				endAt = len(cur)
			}
			shorter := string(cur[:at]) + string(cur[endAt:])
			budget--
			if fails(shorter) {
				cur = []rune(shorter)
			} else {
				at += chunk
			}
		}
	}
	return string(cur)
}

func replaceLeafValue(t *node, idx int, v string) *node {
	n := -1
	return t.mapLeaves(func(l *node) *node {
		n++
		if n == idx {
			c := *l
			c.Val = v
			return &c
		}
		return l
	})
}

// structuralCandidates: every proper sub-tree (children first), then the tree with one child of
// one combination removed.
func structuralCandidates(t *node) []*node {
	if t == nil || t.isCond() {
		return nil
	}
	var out []*node
	var subs func(n *node)
	subs = func(n *node) {
		for _, k := range n.Kids {
			if !k.isCond() {
				out = append(out, k)
			}
		}
		for _, k := range n.Kids {
			if !k.isCond() {
				subs(k)
			}
		}
	}
	subs(t)
	var removals func(n *node, rebuild func(*node) *node)
	removals = func(n *node, rebuild func(*node) *node) {
		if n.isCond() {
			return
		}
		if len(n.Kids) > 1 {
			for i := range n.Kids {
				c := &node{Op: n.Op}
				c.Kids = append(c.Kids, n.Kids[:i]...)
				c.Kids = append(c.Kids, n.Kids[i+1:]...)
				out = append(out, rebuild(c))
			}
		}
		for i, k := range n.Kids {
			i := i
			removals(k, func(x *node) *node {
				c := &node{Op: n.Op, Kids: append([]*node{}, n.Kids...)}
				c.Kids[i] = x
				return rebuild(c)
			})
		}
	}
	removals(t, func(x *node) *node { return x })
	return out
}

// shrunkNote adds the shrunk witness to wit and returns a short note for the one-line description.
func shrunkNote(c cfg, dg diagnosis, wit map[string]any) string {
	if dg.small == nil {
		return ""
	}
	dg.small = nf(dg.small)
	s, _ := stringify(dg.small.toQL())
	p := parse(c, s)
	obs := p.why()
	if p.ok() {
		obs = "parses to " + fromQL(p.q.Root()).canon()
	}
	wit["shrunk"] = map[string]any{"tree": dg.small.canon(), "formatted": s, "reparse": obs}
	return fmt.Sprintf(" [shrunk: %s formats to %s: %s]", dg.small.canon(), s, trunc(obs, 120))
}

// firstFeature is the dominant feature of a value: coarse enough for a signature.
func firstFeature(v string) string {
	c := valueClass(v)
	if i := strings.Index(c, "+"); i > 0 {
		return c[:i]
	}
	return c
}

func (k *chk14) noteTree(prefix string, t *node) (multi, meta bool) {
	ls := t.leaves()
	multi = len(ls) >= 2
	conf, ctl := false, false
	for _, l := range ls {
		if hasMeta(l.Val) {
			meta = true
		}
		conf = conf || hasConfusable(l.Val)
		ctl = ctl || hasControlMix(l.Val)
		k.res.Seen("operators", l.Cmp)
		k.res.Seen("property_types", l.PT)
		if l.PT == "attr" {
			k.res.Seen("attributes", l.Key)
		} else if l.PT == "urn" {
			k.res.Seen("schemes", l.Key)
		}
		k.res.Seen("value_classes", valueClass(l.Val))
	}
	k.res.Seen("tree_shapes", shape(t))
	if multi || meta {
		k.nt = true
	}
	if multi {
		k.res.Count(prefix+".multi_condition", 1)
	}
	if meta {
		k.res.Count(prefix+".meta_value", 1)
	}
	if t.depth() >= 2 {
		k.res.Count(prefix+".nested", 1)
	}
	if conf {
		k.res.Count(prefix+".confusable_value", 1)
	}
	if ctl {
		k.res.Count(prefix+".control_mix_value", 1)
	}
	k.noteEcho(prefix, t)
	return
}

func shape(t *node) string {
	if t == nil {
		return "nil"
	}
	if t.isCond() {
		return "c"
	}
	parts := make([]string, len(t.Kids))
	for i, kd := range t.Kids {
		parts[i] = shape(kd)
	}
	s := t.Op + "(" + strings.Join(parts, ",") + ")"
	if len(s) > 60 {
		return fmt.Sprintf("%s/%d-leaves/depth-%d", t.Op, len(t.leaves()), t.depth())
	}
	return s
}

// ---------------------------------------------------------------------------------------
// clause 1

func (k *chk14) checkText(q, kind string) {
	k.fps = append(k.fps, "T:"+q)
	k.res.Count("clause1.texts", 1)
	k.res.Count("clause1.texts."+kind, 1)
	for _, c := range k.cfgs {
		p1 := parse(c, q)
		k.res.Count("clause1.parses", 1)
		if p1.pan != nil {
			// not part of the statement (it speaks about accepted queries); reported, not judged
			k.res.Count("outside_statement.first_parse_panics", 1)
			k.res.Seen("outside_statement.first_parse_panic", fw.PanicSignature("ParseQuery", p1.pan, p1.stack))
			continue
		}
		if p1.err != nil {
			code := "other"
			if is, qe := contactql.IsQueryError(p1.err); is {
				code = qe.(*contactql.QueryError).Code()
			}
			k.res.Count("clause1.rejected."+code, 1)
			continue
		}
		k.res.Count("clause1.accepted."+c.name, 1)
		t1 := fromQL(p1.q.Root())
		if t1 == nil {
			k.res.Count("clause1.accepted_empty", 1)
			continue
		}
		s := p1.q.String()
		p2 := parse(c, s)
		wit := map[string]any{"clause": 1, "config": c.name, "env": k.spec.String(), "query": q, "parsed": t1.canon(), "formatted": s}
		if !p2.ok() {
			wit["reparse"] = p2.why()
			k.res.Count("clause1.violated", 1)
			for _, dg := range diagnose(c, t1, "rejected") {
				k.res.Count("violated."+dg.cause, 1)
				k.res.Violate("roundtrip|"+dg.cause, fmt.Sprintf("the formatted form of an accepted query is rejected: %s → %s: %s", trunc(q, 120), trunc(s, 120), p2.why())+shrunkNote(c, dg, wit), wit)
			}
			continue
		}
		t2 := fromQL(p2.q.Root())
		if !equalNode(t1, t2) {
			wit["reparsed"] = t2.canon()
			wit["difference"] = firstDiff(t1, t2, "")
			k.res.Count("clause1.violated", 1)
			for _, dg := range diagnose(c, t1, "differs") {
				k.res.Count("violated."+dg.cause, 1)
				k.res.Violate("roundtrip|"+dg.cause, fmt.Sprintf("formatting and re-parsing an accepted query changes it (%s): %s → %s", firstDiff(t1, t2, ""), trunc(q, 120), trunc(s, 120))+shrunkNote(c, dg, wit), wit)
			}
			continue
		}
		if s2 := p2.q.String(); s2 != s {
			wit["formatted_again"] = s2
			k.res.Count("clause1.violated", 1)
			k.res.Violate("roundtrip|not-fixed-point|printer", "equal trees print differently", wit)
			continue
		}
		k.res.Count("clause1.held", 1)
		k.noteTree("clause1.held", t1)
	}
}

// ---------------------------------------------------------------------------------------
// clause 2

func (k *chk14) checkTree(c cfg, t *node) {
	k.fps = append(k.fps, "P:"+c.name+":"+t.canon())
	k.res.Count("clause2.trees", 1)
	k.res.Count("clause2.trees."+c.name, 1)
	q := t.toQL()
	s, pan := stringify(q)
	wit := map[string]any{"clause": 2, "config": c.name, "env": k.spec.String(), "tree": t.canon(), "formatted": s}
	if pan != nil {
		k.res.Violate("stringify|panic", fmt.Sprintf("Stringify panicked: %v", pan), wit)
		return
	}
	want := nf(t)
	p := parse(c, s)
	if !p.ok() {
		wit["reparse"] = p.why()
		k.res.Count("clause2.violated", 1)
		for _, dg := range diagnose(c, t, "rejected") {
			k.res.Count("violated."+dg.cause, 1)
			k.res.Violate("roundtrip|"+dg.cause, fmt.Sprintf("a valid programmatic query formats to text that is rejected: %s: %s", trunc(s, 160), p.why())+shrunkNote(c, dg, wit), wit)
		}
	} else {
		got := fromQL(p.q.Root())
		if !equalNode(nf(got), want) {
			wit["reparsed"] = got.canon()
			wit["difference"] = firstDiff(want, nf(got), "")
			k.res.Count("clause2.violated", 1)
			for _, dg := range diagnose(c, t, "differs") {
				k.res.Count("violated."+dg.cause, 1)
				k.res.Violate("roundtrip|"+dg.cause, fmt.Sprintf("a valid programmatic query formats to text that parses to a different query (%s): %s", firstDiff(want, nf(got), ""), trunc(s, 160))+shrunkNote(c, dg, wit), wit)
			}
		} else {
			k.res.Count("clause2.held", 1)
			k.noteTree("clause2.held", t)
		}
	}

	// Simplify itself must keep every condition, operator, value and the grouping
	var simp *node
	func() {
		defer func() {
			if rec := recover(); rec != nil {
				k.res.Violate("simplify|panic", fmt.Sprintf("Simplify panicked: %v", rec), wit)
			}
		}()
		simp = fromQL(q.Simplify())
	}()
	if simp != nil {
		if !equalNode(nf(simp), want) {
			wit["simplified"] = simp.canon()
			k.res.Count("clause2.violated", 1)
			k.res.Violate("simplify|alters-query", fmt.Sprintf("Simplify changes the query (%s)", firstDiff(want, nf(simp), "")), wit)
		} else {
			k.res.Count("clause2.simplify_preserves", 1)
			if p.ok() {
				// the design's formulation: the re-parsed query is exactly t.Simplify()
				if got := fromQL(p.q.Root()); equalNode(nf(got), want) {
					if !equalNode(got, simp) {
						wit["simplified"] = simp.canon()
						wit["reparsed"] = got.canon()
						k.res.Violate("simplify|not-canonical", "the re-parsed query and t.Simplify() are equivalent but not structurally identical", wit)
					} else {
						k.res.Count("clause2.equals_simplify_exactly", 1)
					}
				}
			}
		}
	}
}

// ---------------------------------------------------------------------------------------
// clause 3

const placeholder = "zq9placeholder"

type template struct {
	before, after string // text around the escaped value
	pos           string // first | middle | last | only
	nparts        int
}

func (t template) with(v string) string {
	return t.before + flows.ContactQueryEscaping(v) + t.after
}

var bareSafe = regexp.MustCompile(`^[a-z0-9_]+$`)

// renderCond is the harness' own explicit printer for template parts.
func renderCond(r *fw.Rand, n *node) string {
	prop := n.Key
	switch n.PT {
	case "urn":
		if r.Bool() {
			prop = "urns." + prop
		}
	case "field":
		_, isAttr := attrTypes[prop]
		isScheme := false
		for _, s := range schemeNames {
			if s == prop {
				isScheme = true
			}
		}
		if isAttr || isScheme || r.Bool() {
			prop = "fields." + prop
		}
	}
	val := strconv.Quote(n.Val)
	lv := strings.ToLower(n.Val)
	if bareSafe.MatchString(n.Val) && lv != "and" && lv != "or" && lv != "has" && lv != "is" && r.Bool() {
		val = n.Val
	}
	cmp := n.Cmp
	if cmp == "~" && r.Bool() {
		cmp = "has"
	}
	return prop + " " + cmp + " " + val
}

func benignValue(r *fw.Rand) string {
	return fw.Pick(r, []string{"bob", "Bob Smith", "x", "male", "Kigali", "hello world", "O'Brien", "日本語", "a(b)c", "x OR y", `say "hi"`, "1", "1.5", "it's", "a\\b"})
}

func genTemplate(r *fw.Rand, c cfg, df envs.DateFormat) template {
	tg := &treeGen{r: r, resolver: c.res != nil, redact: c.redact, dateFmt: df, value: benignValue}
	n := r.Weighted([]int{0, 15, 30, 30, 15, 10}) // 1..5 conditions
	site := r.Intn(n)
	siteProp := fw.Pick(r, []string{"name", "name", "NAME", "fields.gender", "gender", "fields.nickname", "Nickname"})
	siteOp := fw.Pick(r, []string{" = ", " = ", " != ", "=", " is ", "= "})
	// optional parentheses around a contiguous range of parts
	lo, hi := -1, -1
	if n >= 2 && r.Chance(0.5) {
		lo = r.Intn(n)
		hi = r.Range(lo, n-1)
	}
	var before, after strings.Builder
	cur := &before
	for i := 0; i < n; i++ {
		if i > 0 {
			cur.WriteString(fw.Pick(r, []string{" AND ", " OR ", " and ", " or ", " ", " AND ", " OR "}))
		}
		if i == lo {
			cur.WriteString("(")
		}
		if i == site {
			cur.WriteString(siteProp + siteOp)
			cur = &after
		} else {
			cur.WriteString(renderCond(r, tg.condition()))
		}
		if i == hi {
			cur.WriteString(")")
		}
	}
	pos := "middle"
	switch {
	case n == 1:
		pos = "only"
	case site == 0:
		pos = "first"
	case site == n-1:
		pos = "last"
	}
	return template{before: before.String(), after: after.String(), pos: pos, nparts: n}
}

func (k *chk14) checkInjection(c cfg, t template, v string) {
	k.fps = append(k.fps, "I:"+c.name+":"+t.before+"\x00"+t.after+"\x00"+v)
	k.res.Count("clause3.attempts", 1)
	// the template's own condition skeleton, obtained with a harmless value
	p0 := parse(c, t.with(placeholder))
	if !p0.ok() {
		k.res.Count("clause3.template_unusable", 1)
		return
	}
	t0 := fromQL(p0.q.Root())
	nsites := 0
	var siteLeaf *node
	// expected(val): the skeleton with the one literal replaced by val
	expected := func(val string) *node {
		nsites = 0
		return t0.mapLeaves(func(l *node) *node {
			if l.Val == placeholder {
				nsites++
				siteLeaf = l
				cp := *l
				cp.Val = val
				return &cp
			}
			return l
		})
	}
	want := expected(v)
	if nsites != 1 {
		k.res.Count("clause3.template_unusable", 1)
		return
	}
	holds := func(val string) bool {
		pp := parse(c, t.with(val))
		return pp.ok() && equalNode(fromQL(pp.q.Root()), expected(val))
	}
	text := t.with(v)
	wit := map[string]any{"clause": 3, "config": c.name, "env": k.spec.String(), "template": t.before + "@value" + t.after, "value": v, "query": text, "expected": want.canon()}
	pv := parse(c, text)
	// classify names the cause by the repair experiment and shrinks the value under "still fails and
	// the repair still helps"
	classify := func(kind string) (string, string) {
		backslash := func(val string) bool { return strings.HasSuffix(val, `\`) && !holds(val) && holds(val+"_") }
		if backslash(v) {
			small := shrinkString(v, backslash)
			wit["shrunk_value"] = small
			wit["shrunk_query"] = t.with(small)
			return causeBackslash, fmt.Sprintf(" [shrunk value: %q]", small)
		}
		for _, rp := range []struct {
			cause string
			f     func(string) string
		}{{causeNonASCII, asciify}, {causeControl, stripControls}} {
			rp := rp
			pred := func(val string) bool { return rp.f(val) != val && !holds(val) && holds(rp.f(val)) }
			if pred(v) {
				small := shrinkString(v, pred)
				wit["shrunk_value"] = small
				wit["shrunk_query"] = t.with(small)
				return rp.cause, fmt.Sprintf(" [shrunk value: %q]", small)
			}
		}
		echo := func(val string) bool {
			u := unechoValue(siteLeaf.Key, val)
			return u != val && !holds(val) && holds(u)
		}
		if echo(v) {
			small := shrinkString(v, echo)
			wit["shrunk_value"] = small
			wit["shrunk_query"] = t.with(small)
			return causeKeyEcho, fmt.Sprintf(" [shrunk value: %q in a condition on %s:%s]", small, siteLeaf.PT, siteLeaf.Key)
		}
		return kind + "|unclassified:value-" + firstFeature(v), ""
	}
	if !pv.ok() {
		wit["observed"] = pv.why()
		k.res.Count("clause3.violated", 1)
		cs, note := classify("rejected")
		k.res.Count("violated.injection."+cs, 1)
		k.res.Violate("injection|"+cs, fmt.Sprintf("an escaped value makes the whole query unparseable: %s: %s", trunc(text, 160), pv.why())+note, wit)
		return
	}
	got := fromQL(pv.q.Root())
	if !equalNode(got, want) {
		wit["observed"] = got.canon()
		wit["difference"] = firstDiff(want, got, "")
		wit["conditions_expected"] = len(want.leaves())
		wit["conditions_observed"] = len(got.leaves())
		k.res.Count("clause3.violated", 1)
		cs, note := classify("altered")
		k.res.Count("violated.injection."+cs, 1)
		k.res.Violate("injection|"+cs, fmt.Sprintf("an escaped value does not stay one literal (%s): %s", firstDiff(want, got, ""), trunc(text, 160))+note, wit)
		return
	}
	k.res.Count("clause3.held", 1)
	k.res.Count("clause3.held."+t.pos, 1)
	k.res.Count("clause3.held.cfg."+c.name, 1)
	if hasMeta(v) {
		k.res.Count("clause3.held.meta_value", 1)
		k.nt = true
	}
	if hasConfusable(v) {
		k.res.Count("clause3.held.confusable_value", 1)
	}
	if hasControlMix(v) {
		k.res.Count("clause3.held.control_mix_value", 1)
	}
	if t.nparts >= 2 {
		k.nt = true
	}
	if site := cond(siteLeaf.PT, siteLeaf.Key, siteLeaf.Cmp, v); echoes(site) {
		k.noteEcho("clause3.held", site)
	}
	k.res.Seen("value_classes", valueClass(v))
}

// ---------------------------------------------------------------------------------------

var fixedNow = time.Date(2024, 6, 15, 12, 0, 0, 0, time.UTC)

func (p *c14) Run(c fw.Case) fw.Result {
	var res fw.Result
	dates.SetNowFunc(dates.NewFixedNow(fixedNow)) // two-digit years are resolved against the current year
	defer dates.SetNowFunc(time.Now)

	k := &chk14{res: &res}
	if c.Directed != "" {
		k.spec = envSpec{Zone: "America/Guayaquil", DateFmt: envs.DateFormatDayMonthYear, Country: "US"}
		k.cfgs = configs(k.spec)
		k.directed(c.Directed)
	} else {
		r := fw.NewRand(c.Seed, "C14", c.Gen)
		k.spec = genEnvSpec(r)
		k.cfgs = configs(k.spec)
		for i := 0; i < 4; i++ {
			q, kind := genQueryText(r.Fork("text"), k.spec.DateFmt)
			k.checkText(q, kind)
		}
		for i := 0; i < 2; i++ {
			cf := k.cfgs[(c.Gen*2+i)%4]
			tg := &treeGen{r: r.Fork("tree"), resolver: cf.res != nil, redact: cf.redact, dateFmt: k.spec.DateFmt, value: hostileValue}
			k.checkTree(cf, tg.tree(tg.r.Weighted([]int{10, 40, 35, 15})))
		}
		for i := 0; i < 2; i++ {
			cf := k.cfgs[(c.Gen*2+i+1)%4]
			ri := r.Fork("inj")
			k.checkInjection(cf, genTemplate(ri, cf, k.spec.DateFmt), hostileValue(ri))
		}
		k.generatedEngine(r.Fork("engine"), c.Gen, c.Seed*1000003+int64(c.Gen))
		k.generatedKeyEcho(r.Fork("key-echo"), c.Gen) // drawn last: the items above are what they were before this family existed
		dates.SetNowFunc(dates.NewFixedNow(fixedNow))
	}
	res.Fingerprint = strings.Join(k.fps, "\x01")
	res.NonTrivial = k.nt
	if len(k.fps) > 0 {
		smp := k.fps
		if len(smp) > 8 {
			smp = smp[:8]
		}
		out := make([]string, len(smp))
		for i, s := range smp {
			out[i] = trunc(strings.ReplaceAll(s, "\x00", " ▮ "), 200)
		}
		res.Sample = map[string]any{"case": c.ID(), "env": k.spec.String(), "items": out}
	}
	return res
}

// ---------------------------------------------------------------------------------------
// directed corpus

var grammarCorpus = []string{
	`bob`, `b`, `Bob Smith`, `"Bob Smith"`, `bob OR jim and x`, `(bob)`, `((bob) OR (jim))`,
	`1234`, `12345`, `007`, `+5`, `-5`, `+12065551212`, `(206) 555 1212`, `2065551212`, `0788123123`, `+123-456-7890`,
	`twitter:bob`, `tel:+12065551212`, `mailto:bob@nyaruka.com`, `bob@nyaruka.com`, `a:b`, `it's`, `a/b`, `'`,
	`"01-02-2020 10:30"`, `image/jpeg:http://x.io/a.jpg`, `TEL:+12065551212`, `"x y:z"`, `10:30`, `"a b":c`, `fields.Ꭰx = 1`,
	`name = bob`, `name=bob`, `NAME IS bob`, `name is "Bob Smith"`, `name ~ bob`, `name has bob`, `Name HAS "bob smith"`,
	`name != ""`, `name = ""`, `name = "a\"b"`, `name = "a\\b"`, `name = "a\qb"`, `name = "a\"`, `name = "a\\"`, "name = \"a\nb\"", `name = "é\t"`,
	`name = "O'Brien\n"`, `name = "日本語😀"`, `name = -1`, `name = 1.50`, `name = 007`, `name = 1e5`,
	`age > 10`, `fields.AGE >= 10`, `Age < 10.5`, `age <= 007`, `age = 36`, `age != 36`, `age = ""`, `age != ""`, `age = abc`,
	`joined = 2020-01-31`, `joined > 31-01-2020`, `joined <= "31-01-2020 10:30"`, `dob != ""`, `created_on = 24-01-2020`, `last_seen_on != ""`, `created_on = ""`,
	`gender = male`, `gender != "female"`, `state = kigali`, `ward != ndera`, `district ~ gas`,
	`tel = +12065551212`, `tel ~ 555`, `tel has 55`, `urns.tel = ""`, `tel != ""`, `urn = 12065551212`, `urn ~ 2065`, `urn != ""`, `urns.foo = x`, `whatsapp = 4533343`,
	`uuid = ba96bf7f-bc2a-4873-a7c7-254d1927c4e3`, `uuid = ""`, `id = 12345`, `id != ""`,
	`status = active`, `status = BLOCKED`, `status = foo`, `language = eng`, `language = ""`, `language = xx`,
	`group = testers`, `group = "U-Reporters"`, `group != nope`, `flow = "Catch All"`, `history = registration`, `flow = nope`, `tickets = 1`, `tickets > 0`, `tickets = ""`,
	`foo.bar = x`, `fields.xyz = 1`, `xyz = 1`, `FIELDS.Ağe = İ`, `fields.İx = 1`, `fields.name = x`, `fields.tel = x`,
	`name = "" OR (x = 1 AND y = 2) OR z = 3`, `a = 1 b = 2 OR c = 3`, `a = 1 OR b = 2 c = 3`, `a = 1 AND b = 2 AND c = 3`, `a = 1 AND (b = 2 AND (c = 3 AND d = 4))`,
	`(a = 1 OR b = 2) AND (c = 3 OR d = 4)`, `a = 1 OR (b = 2 OR (c = 3 AND (d = 4 AND e = 5)))`, `name="x"age=1`, `name = "x" "y" z`,
	`name = "a\\" OR age = 1`, `name = "a\\" OR name = b`, `name = "a\" b`, `"a\\" bob`, `name = "a\\" AND gender = male AND nickname = x`,
	`has`, `and`, `name = and`, `x = or`, `()`, `name = "x" OR`, `is = is`, ``, ` `, `name = `, `= x`, `name == x`, `name = x)`, `(name = x`,
	`name ~ "+-"`, `name ~ x`, `tel ~ 12`, `age ~ 1`, `gender > x`,
}

func (k *chk14) directed(name string) {
	switch name {
	case "known-trailing-backslash":
		// the probe of DESIGN.md §6: a value ending in a backslash followed by another quoted value
		k.checkText(`name = "a\\" OR name = b`, "directed")
		k.checkText(`nickname = "x y\\" gender = "male"`, "directed")
		for _, c := range k.cfgs {
			k.checkTree(c, comb("or", cond("attr", "name", "=", `a\`), cond("attr", "name", "=", "b")))
			k.checkTree(c, comb("and", cond("attr", "name", "!=", "x"), cond("field", "gender", "=", `\`), cond("field", "nickname", "=", "it's")))
			k.checkInjection(c, template{before: "name = ", after: ` OR fields.gender = "m"`, pos: "first", nparts: 2}, `a\`)
			k.checkInjection(c, template{before: `fields.gender = "m" AND (name != `, after: ` OR nickname = "x y")`, pos: "middle", nparts: 3}, `\\\`)
			// controls: the same shapes hold with harmless and with merely hostile values
			k.checkTree(c, comb("or", cond("attr", "name", "=", `a\b"`), cond("attr", "name", "=", "b")))
			k.checkInjection(c, template{before: "name = ", after: ` OR fields.gender = "m"`, pos: "first", nparts: 2}, `" OR name != "`)
			k.checkInjection(c, template{before: `fields.gender = "m" OR name = `, after: ``, pos: "last", nparts: 2}, `a\`)
			k.checkInjection(c, template{before: `fields.gender = "m" AND name = `, after: ` AND fields.nickname = x`, pos: "middle", nparts: 3}, `x") OR (name != "`)
		}
	case "grammar-corpus":
		for _, q := range grammarCorpus {
			k.checkText(q, "directed")
		}
	case "repo-test-queries":
		// every back-quoted query in goflow's own contactql tests, as far as the files are there
		re := regexp.MustCompile("(?:text|query):\\s*`([^`]*)`")
		n := 0
		for _, f := range []string{"contactql/parser_test.go", "contactql/evaluator_test.go", "contactql/inspect_test.go"} {
			b, err := os.ReadFile(filepath.Join(repoRoot(), f))
			if err != nil {
				k.res.Count("directed.repo_test_files_missing", 1)
				continue
			}
			for _, m := range re.FindAllStringSubmatch(string(b), -1) {
				k.checkText(m[1], "repo")
				n++
			}
		}
		k.res.Count("directed.repo_test_queries", int64(n))
	case "pool-values":
		vals := append([]string{}, gen.StringPool...)
		vals = append(vals, " ", gen.LongString(300, 150), gen.LongString(640, 639), `a\\`, `a\"`, `\"`, `"`, `""`, `"\`, "a\\\n", "\r\n", "\x7f", " ", "\ufeff", "\ufffd", "x)", "(x", "= x", "name = x OR y")
		r := fw.NewRand(0, "C14/pool", 0)
		for i, v := range vals {
			c := k.cfgs[i%4]
			textKey := "gender"
			k.checkTree(k.cfgs[0], cond("attr", "name", "=", v))
			k.checkTree(c, comb("or", cond("attr", "name", "=", v), cond("field", textKey, "!=", "x y")))
			k.checkTree(c, comb("and", cond("field", textKey, "=", "it's"), cond("attr", "name", "!=", v), cond("field", "nickname", "=", "z")))
			k.checkTree(c, comb("and", cond("field", textKey, "=", "q"), comb("or", cond("field", "nickname", "=", "z"), cond("field", textKey, "=", v))))
			for _, t := range []template{
				{before: "name = ", after: ` OR fields.gender = "x y" OR nickname = z`, pos: "first", nparts: 3},
				{before: `fields.gender = "x y" AND (name != `, after: ` OR nickname = "z")`, pos: "middle", nparts: 3},
				{before: `nickname = z gender = "x y" name = `, after: ``, pos: "last", nparts: 3},
				{before: `name = `, after: ``, pos: "only", nparts: 1},
			} {
				k.checkInjection(k.cfgs[(i+1)%4], t, v)
			}
			// as literal in query text, properly quoted, next to a bare value
			k.checkText("name = "+strconv.Quote(v)+" OR gender = male", "directed")
			_ = r
		}
	case "confusable-characters":
		// every look-alike character on its own and in the places of an injection: closing the literal,
		// separating words, spelling an operator or a keyword
		for i, ch := range allConfusables() {
			for j, v := range []string{ch, "a" + ch + "b", "x" + ch + " OR id != " + ch + "0", ch + " OR name != " + ch, "x" + ch + ") OR (name != " + ch,
				"a" + ch + "OR" + ch + "b", "x OR" + ch + "y", `x\` + ch, ch + `\`, `"` + ch + `"`, "name " + ch + " x"} {
				c := k.cfgs[(i+j)%4]
				k.checkTree(c, cond("attr", "name", "=", v))
				k.checkTree(c, comb("and", cond("attr", "name", "=", v), cond("field", "age", ">", "18")))
				k.checkTree(c, comb("or", cond("field", "gender", "!=", "x y"), comb("and", cond("field", "nickname", "=", v), cond("attr", "name", "!=", v))))
				for _, t := range []template{
					{before: "name = ", after: ` AND fields.age > 18`, pos: "first", nparts: 2},
					{before: `fields.gender = "x y" AND (name != `, after: ` OR nickname = "z")`, pos: "middle", nparts: 3},
					{before: `age > 18 OR nickname = `, after: ``, pos: "last", nparts: 2},
				} {
					k.checkInjection(k.cfgs[(i+j+1)%4], t, v)
				}
			}
		}
		// whole injections spelled with look-alikes
		r := fw.NewRand(0, "C14/confusables", 0)
		for _, sk := range injectionSkeletons {
			for mode := 0; mode < 3; mode++ {
				for rep := 0; rep < 6; rep++ {
					v := confuse(r, sk, mode)
					c := k.cfgs[(mode+rep)%4]
					k.checkTree(c, comb("and", cond("attr", "name", "=", v), cond("field", "age", ">", "18")))
					k.checkInjection(c, template{before: "name = ", after: ` AND fields.age > 18`, pos: "first", nparts: 2}, v)
					k.checkInjection(c, template{before: `fields.gender = "m" OR (nickname != `, after: `)`, pos: "last", nparts: 2}, v)
				}
			}
		}
	case "control-characters-with-escapes":
		// every control character next to every kind of character that needs escaping, in every order
		n := 0
		for _, ctl := range controlChars {
			for _, esc := range escapeNeeding {
				for _, v := range []string{ctl + esc, esc + ctl, "a" + ctl + "b" + esc, esc + "a" + ctl, "a" + esc + ctl + esc + "b", ctl + esc + ctl} {
					c := k.cfgs[n%4]
					n++
					k.checkTree(c, cond("attr", "name", "=", v))
					k.checkTree(c, comb("or", cond("attr", "name", "=", v), cond("field", "gender", "!=", "x y"), cond("field", "nickname", "=", v)))
					k.checkInjection(c, template{before: "name = ", after: ` OR fields.gender = "x y"`, pos: "first", nparts: 2}, v)
					k.checkInjection(c, template{before: `fields.gender = "x y" AND (name != `, after: ` OR nickname = "z")`, pos: "middle", nparts: 3}, v)
					if n%3 == 0 {
						k.checkText("name = "+strconv.Quote(v)+" OR gender = male", "directed")
					}
				}
			}
		}
	case "value-echoes-own-property":
		k.directedKeyEcho()
	case "engine-template-evaluator":
		k.directedEvaluatorTemplate()
	case "engine-actions":
		k.directedAction()
		dates.SetNowFunc(dates.NewFixedNow(fixedNow))
	case "unicode-keys":
		// every upper/title-case letter as part of a property key: the parser lower-cases keys, the
		// formatted key must lex as a property again
		c := k.cfgs[0]
		n := 0
		for rn := rune(0x41); rn <= unicode.MaxRune; rn++ {
			if !unicode.IsUpper(rn) && !unicode.IsTitle(rn) {
				continue
			}
			q := "fields." + string(rn) + "x = 1 OR " + string(rn) + "y = 2"
			p1 := parse(c, q)
			if !p1.ok() {
				continue
			}
			n++
			t1 := fromQL(p1.q.Root())
			s := p1.q.String()
			p2 := parse(c, s)
			wit := map[string]any{"clause": 1, "config": c.name, "query": q, "formatted": s, "rune": fmt.Sprintf("U+%04X", rn)}
			bad := ""
			if !p2.ok() {
				wit["reparse"] = p2.why()
				bad = "the lower-cased property key of an accepted query does not lex as a property: " + q + " → " + s
			} else if !equalNode(t1, fromQL(p2.q.Root())) {
				wit["reparsed"] = fromQL(p2.q.Root()).canon()
				bad = "lower-casing a property key is not idempotent: " + q + " → " + s
			}
			if bad != "" {
				n--
				k.res.Count("violated."+causeLowerKey, 1)
				k.res.Seen("unicode_keys.failing_runes", fmt.Sprintf("U+%04X", rn))
				k.res.Violate("roundtrip|"+causeLowerKey, bad, wit)
			}
		}
		k.res.Count("clause1.held.unicode_keys", int64(n))
		k.fps = append(k.fps, "unicode-keys")
		k.nt = true
	}
}

func repoRoot() string {
	if r := os.Getenv("VERIF_REPO"); r != "" {
		return r
	}
	return "/repo"
}
