package p14

import (
	"encoding/json"
	"fmt"
	"strconv"
	"strings"
	"sync"
	"time"

	"github.com/nyaruka/goflow/assets"
	"github.com/nyaruka/goflow/assets/static"
	"github.com/nyaruka/goflow/contactql"
	"github.com/nyaruka/goflow/envs"
	"github.com/nyaruka/goflow/flows"
	"github.com/nyaruka/goflow/flows/engine"
	"github.com/shopspring/decimal"

	"verif/internal/fw"
)

// ---------------------------------------------------------------------------------------
// the harness' own model of a contact; the real flows.Contact (through ReadContact) and the
// hand-written Queryable are both derived from it, and so are the reference answers.

type fieldVal struct {
	Text                  string
	Num                   *decimal.Decimal
	Time                  *time.Time
	State, District, Ward string // location paths
}

type urnVal struct{ Scheme, Path string }

type contactModel struct {
	UUID       string
	ID         int
	Name       string
	Language   string
	Status     string
	URNs       []urnVal
	CreatedOn  time.Time
	LastSeenOn *time.Time
	Ticket     bool
	Fields     map[string]fieldVal // only fields that have a value
	// only visible through the hand-written Queryable (flows.Contact does not answer these)
	Groups  []string
	Flow    string
	History []string
	Tickets decimal.Decimal // hand Queryable: any number
}

// typedFieldValue is the value a field contributes to queries: the component matching the
// field's type. ok=false when the contact holds only text for a typed field (goflow treats
// that as "no value"; the presence clause skips such fields).
func typedFieldValue(key string, v fieldVal) (val any, present bool, unambiguous bool) {
	switch fieldType(key) {
	case assets.FieldTypeText:
		return v.Text, v.Text != "", true
	case assets.FieldTypeNumber:
		if v.Num != nil {
			return *v.Num, true, true
		}
		return nil, false, v.Text == ""
	case assets.FieldTypeDatetime:
		if v.Time != nil {
			return *v.Time, true, true
		}
		return nil, false, v.Text == ""
	case assets.FieldTypeState:
		if v.State != "" {
			return lastPathPart(v.State), true, true
		}
		return nil, false, v.Text == ""
	case assets.FieldTypeDistrict:
		if v.District != "" {
			return lastPathPart(v.District), true, true
		}
		return nil, false, v.Text == ""
	case assets.FieldTypeWard:
		if v.Ward != "" {
			return lastPathPart(v.Ward), true, true
		}
		return nil, false, v.Text == ""
	}
	return nil, false, false
}

func lastPathPart(p string) string {
	parts := strings.Split(p, ">")
	return strings.TrimSpace(parts[len(parts)-1])
}

// refValues is the reference answer to "which values does property (pt,key) have". known=false
// means the target does not answer this property at all (flows.Contact and id/group/flow/
// history/status) or the model is ambiguous about it; no presence verdict is then derived.
func (m *contactModel) refValues(pt, key string, hand bool) (vals []any, known bool) {
	switch pt {
	case "attr":
		switch key {
		case "uuid":
			return []any{m.UUID}, true
		case "name":
			if m.Name != "" {
				return []any{m.Name}, true
			}
			return nil, true
		case "language":
			if m.Language != "" {
				return []any{m.Language}, true
			}
			return nil, true
		case "urn":
			for _, u := range m.URNs {
				vals = append(vals, u.Path)
			}
			return vals, true
		case "tickets":
			if hand {
				return []any{m.Tickets}, true
			}
			if m.Ticket {
				return []any{decimal.NewFromInt(1)}, true
			}
			return []any{decimal.NewFromInt(0)}, true
		case "created_on":
			return []any{m.CreatedOn}, true
		case "last_seen_on":
			if m.LastSeenOn != nil {
				return []any{*m.LastSeenOn}, true
			}
			return nil, true
		}
		if !hand {
			return nil, false
		}
		switch key {
		case "id":
			return []any{strconv.Itoa(m.ID)}, true
		case "status":
			return []any{m.Status}, true
		case "group":
			for _, g := range m.Groups {
				vals = append(vals, g)
			}
			return vals, true
		case "flow":
			if m.Flow != "" {
				return []any{m.Flow}, true
			}
			return nil, true
		case "history":
			for _, g := range m.History {
				vals = append(vals, g)
			}
			return vals, true
		}
		return nil, false
	case "urn":
		for _, u := range m.URNs {
			if u.Scheme == key {
				vals = append(vals, u.Path)
			}
		}
		return vals, true
	case "field":
		v, has := m.Fields[key]
		if !has {
			return nil, fieldType(key) != ""
		}
		val, present, unamb := typedFieldValue(key, v)
		if !unamb {
			return nil, false
		}
		if present {
			return []any{val}, true
		}
		return nil, true
	}
	return nil, false
}

// ---------------------------------------------------------------------------------------
// hand-written Queryable

type handQueryable struct {
	vals map[string][]any
}

func (h *handQueryable) QueryProperty(env envs.Environment, key string, pt contactql.PropertyType) []any {
	return h.vals[string(pt)+":"+key]
}

func (m *contactModel) handQueryable() *handQueryable {
	h := &handQueryable{vals: map[string][]any{}}
	for _, a := range attrNames {
		if v, known := m.refValues("attr", a, true); known && len(v) > 0 {
			h.vals["attr:"+a] = v
		}
	}
	for _, s := range schemeNames {
		if v, _ := m.refValues("urn", s, true); len(v) > 0 {
			h.vals["urn:"+s] = v
		}
	}
	for _, f := range fieldSpecs {
		if v, known := m.refValues("field", f.Key, true); known && len(v) > 0 {
			h.vals["field:"+f.Key] = v
		}
	}
	return h
}

// ---------------------------------------------------------------------------------------
// the real contact: static assets → engine session assets → flows.ReadContact

var (
	saOnce sync.Once
	saVal  flows.SessionAssets
	saErr  error
)

func assetsJSON() []byte {
	type m = map[string]any
	var fields, groups, fls []m
	for i, f := range fieldSpecs {
		fields = append(fields, m{"uuid": fmt.Sprintf("f0000000-0000-4000-8000-%012d", i), "key": f.Key, "name": strings.ToUpper(f.Key[:1]) + f.Key[1:], "type": string(f.Type)})
	}
	for i, g := range groupNames {
		groups = append(groups, m{"uuid": fmt.Sprintf("b0000000-0000-4000-8000-%012d", i), "name": g})
	}
	for i, f := range flowNames {
		fls = append(fls, m{"uuid": fmt.Sprintf("a0000000-0000-4000-8000-%012d", i), "name": f, "spec_version": "13.1.0", "language": "eng", "type": "messaging", "nodes": []any{}})
	}
	b, _ := json.Marshal(m{"fields": fields, "groups": groups, "flows": fls})
	return b
}

func sessionAssets() (flows.SessionAssets, error) {
	saOnce.Do(func() {
		src, err := static.NewSource(assetsJSON())
		if err != nil {
			saErr = err
			return
		}
		saVal, saErr = engine.NewSessionAssets(envs.NewBuilder().Build(), src, nil)
	})
	return saVal, saErr
}

func jsonTime(r *fw.Rand, t time.Time) string {
	// the same instant, written in UTC or under an arbitrary fixed offset
	switch r.Intn(3) {
	case 0:
		return t.UTC().Format(time.RFC3339Nano)
	case 1:
		off := fw.Pick(r, []int{-12 * 3600, -5 * 3600, -3*3600 - 1800, 3600, 5*3600 + 1800, 5*3600 + 2700, 14 * 3600})
		return t.In(time.FixedZone("", off)).Format(time.RFC3339Nano)
	}
	return t.Format(time.RFC3339Nano)
}

func (m *contactModel) contactJSON(r *fw.Rand) []byte {
	type mp = map[string]any
	c := mp{
		"uuid":       m.UUID,
		"id":         m.ID,
		"status":     m.Status,
		"created_on": jsonTime(r, m.CreatedOn),
	}
	if m.Name != "" {
		c["name"] = m.Name
	}
	if m.Language != "" {
		c["language"] = m.Language
	}
	if m.LastSeenOn != nil {
		c["last_seen_on"] = jsonTime(r, *m.LastSeenOn)
	}
	if len(m.URNs) > 0 {
		var us []string
		for _, u := range m.URNs {
			us = append(us, u.Scheme+":"+u.Path)
		}
		c["urns"] = us
	}
	if m.Ticket {
		c["ticket"] = mp{"uuid": "e5f5a9b0-1c08-4e56-8f5c-92e00bc3cf52"}
	}
	var groups []mp
	for _, g := range m.Groups {
		for i, n := range groupNames {
			if n == g {
				groups = append(groups, mp{"uuid": fmt.Sprintf("b0000000-0000-4000-8000-%012d", i), "name": n})
			}
		}
	}
	if len(groups) > 0 {
		c["groups"] = groups
	}
	fields := mp{}
	for _, fs := range fieldSpecs { // fixed order: jsonTime draws from r
		k := fs.Key
		v, has := m.Fields[k]
		if !has {
			continue
		}
		f := mp{"text": v.Text}
		if v.Num != nil {
			f["number"] = json.RawMessage(v.Num.String())
		}
		if v.Time != nil {
			f["datetime"] = jsonTime(r, *v.Time)
		}
		if v.State != "" {
			f["state"] = v.State
		}
		if v.District != "" {
			f["district"] = v.District
		}
		if v.Ward != "" {
			f["ward"] = v.Ward
		}
		fields[k] = f
	}
	if len(fields) > 0 {
		c["fields"] = fields
	}
	b, _ := json.Marshal(c) // map keys are sorted by encoding/json: deterministic
	return b
}

// ---------------------------------------------------------------------------------------
// generation

// transitionDays lists the calendar days of a year on which the zone's UTC offset changes.
func transitionDays(loc *time.Location, year int) [][3]int {
	var out [][3]int
	prev := time.Date(year, 1, 1, 12, 0, 0, 0, loc)
	_, poff := prev.Zone()
	for d := 2; d <= 366; d++ {
		cur := time.Date(year, 1, d, 12, 0, 0, 0, loc)
		_, off := cur.Zone()
		if off != poff {
			// the change happened between noon of the previous day and noon of this one
			p := time.Date(year, 1, d-1, 12, 0, 0, 0, loc)
			out = append(out, [3]int{p.Year(), int(p.Month()), p.Day()}, [3]int{cur.Year(), int(cur.Month()), cur.Day()})
		}
		poff = off
	}
	return out
}

// anchorDay picks a calendar day, biased to days whose local length is not 24 hours.
func anchorDay(r *fw.Rand, loc *time.Location) (int, int, int) {
	year := r.Range(1995, 2034)
	if r.Chance(0.35) {
		if tds := transitionDays(loc, year); len(tds) > 0 {
			td := fw.Pick(r, tds)
			return td[0], td[1], td[2]
		}
	}
	switch r.Intn(6) {
	case 0:
		return year, 12, 31
	case 1:
		return year, 1, 1
	case 2:
		return fw.Pick(r, []int{1996, 2000, 2004, 2020, 2024}), 2, 29
	}
	return year, r.Range(1, 12), r.Range(1, 28)
}

// boundaryInstant returns an instant on or next to the local calendar day (y,m,d).
func boundaryInstant(r *fw.Rand, loc *time.Location, y, m, d int) time.Time {
	mo := time.Month(m)
	switch r.Intn(14) {
	case 0:
		return time.Date(y, mo, d, 0, 0, 0, 0, loc)
	case 1:
		return time.Date(y, mo, d, 0, 0, 0, 1000, loc)
	case 2:
		return time.Date(y, mo, d, 23, 59, 59, 999999000, loc)
	case 3:
		return time.Date(y, mo, d, 23, 59, 59, 999999999, loc)
	case 4:
		return time.Date(y, mo, d+1, 0, 0, 0, 0, loc)
	case 5:
		return time.Date(y, mo, d-1, 23, 59, 59, 999999000, loc)
	case 6:
		return time.Date(y, mo, d, 0, 30, 0, 0, loc)
	case 7:
		return time.Date(y, mo, d, 23, 30, 0, 0, loc)
	case 8:
		return time.Date(y, mo, d+1, 0, 30, 0, 0, loc)
	case 9:
		return time.Date(y, mo, d-1, 23, 30, 0, 0, loc)
	case 10:
		return time.Date(y, mo, d, 12, 0, 0, 0, loc)
	case 11:
		// the same wall-clock boundaries, but in UTC (what a mutant that forgets the zone would use)
		return time.Date(y, mo, d, fw.Pick(r, []int{0, 23}), fw.Pick(r, []int{0, 59}), 0, 0, time.UTC)
	case 12:
		return time.Date(y, mo, d, r.Intn(24), r.Intn(60), r.Intn(60), r.Intn(1000)*1000, loc)
	default:
		return time.Date(y, mo, d+r.Range(-400, 400), r.Intn(24), r.Intn(60), r.Intn(60), 0, loc)
	}
}

var boundaryNumbers = []string{"0", "1", "-1", "36", "36.5", "0.000001", "-0.000001", "10.50", "99999999999999999999", "0.1", "1000000", "-273.15", "2", "39",
	// numbers that differ from a "round" neighbour only far behind the decimal point, or by one unit
	// in the last place at a large magnitude (what a flow computes: 1/3, 0.1+0.2 in binary, sums)
	"0.3333333333333333", "0.333333", "0.3333334", "99.9999999", "100", "0.30000000000000004", "0.3", "1000000000000000001", "1000000000000000000",
	"123456789.123456789", "0.0000001", "-0.0000004", "9007199254740993", "0.1234565", "2.5000000000000001", "-99.9999995", "0.000000000000000001"}

// precisionNumber: a number with 7-18 decimal places, or a large integer with a non-zero last digit.
func precisionNumber(r *fw.Rand) decimal.Decimal {
	switch r.Intn(4) {
	case 0:
		// a quotient as the expression evaluator stores it
		return decimal.NewFromInt(int64(r.Range(1, 50))).DivRound(decimal.NewFromInt(int64(fw.Pick(r, []int{3, 7, 9, 11, 13}))), int32(r.Range(7, 18)))
	case 1:
		// a round number plus or minus something tiny
		base := decimal.RequireFromString(fw.Pick(r, []string{"0", "1", "100", "36.5", "-273.15", "0.5", "1000000"}))
		tiny := decimal.New(int64(r.Range(1, 9)), int32(-r.Range(7, 18)))
		if r.Bool() {
			return base.Sub(tiny)
		}
		return base.Add(tiny)
	case 2:
		// integers beyond the precision of a float64
		return decimal.New(1, int32(r.Range(16, 24))).Add(decimal.NewFromInt(int64(r.Range(1, 9))))
	default:
		return decimal.New(int64(r.Range(1, 999999999)), int32(-r.Range(7, 12)))
	}
}

var contactNames = []string{"Bob Smith", "Ben Haggerty", "bob", "Émilie du Châtelet", "日本語 太郎", "O'Brien", "x", "Jim \"The Anvil\" Neidhart", "a(b) OR c", "ab", "Anne-Marie", " Padded ", "back\\slash name", "😀 smile", "İlker"}

var urnPool = []urnVal{
	{"tel", "+12065551212"}, {"tel", "+12065551313"}, {"tel", "+250788123123"}, {"twitter", "ewok"}, {"twitter", "bob_smith"},
	{"mailto", "bob@nyaruka.com"}, {"whatsapp", "250788123123"}, {"facebook", "12345"}, {"telegram", "987654"}, {"ext", "abc-123"}, {"viber", "12345abc"},
}

var locStates = []string{"Rwanda > Kigali", "Rwanda > Eastern Province", "Ecuador > Azuay"}
var locDistricts = []string{"Rwanda > Kigali > Gasabo", "Rwanda > Kigali > Nyarugenge"}
var locWards = []string{"Rwanda > Kigali > Gasabo > Ndera", "Rwanda > Kigali > Gasabo > Gisozi"}

func genContact(r *fw.Rand, loc *time.Location, ay, am, ad int) *contactModel {
	m := &contactModel{
		UUID:   fw.Pick(r, []string{"ba96bf7f-bc2a-4873-a7c7-254d1927c4e3", "5d76d86b-3bb9-4d5a-b822-c9d86f5d8e4f"}),
		ID:     r.Range(1, 99999),
		Status: "active",
		Fields: map[string]fieldVal{},
	}
	if r.Chance(0.85) {
		m.Name = fw.Pick(r, contactNames)
	}
	if r.Chance(0.7) {
		m.Language = fw.Pick(r, []string{"eng", "fra", "spa", "kin"})
	}
	nu := r.Weighted([]int{20, 30, 30, 20})
	pool := append([]urnVal{}, urnPool...)
	fw.Shuffle(r, pool)
	m.URNs = append(m.URNs, pool[:nu]...)
	m.CreatedOn = boundaryInstant(r, loc, ay, am, ad)
	if r.Chance(0.7) {
		t := boundaryInstant(r, loc, ay, am, ad)
		m.LastSeenOn = &t
	}
	m.Ticket = r.Chance(0.4)
	m.Tickets = decimal.RequireFromString(fw.Pick(r, []string{"0", "1", "2", "3", "0.5"}))
	for _, f := range fieldSpecs {
		if r.Chance(0.3) {
			continue // no value
		}
		var v fieldVal
		switch f.Type {
		case assets.FieldTypeText:
			switch f.Key {
			// fields whose key is also an attribute / a scheme: values from the same pools as the
			// attribute's, so that the two properties agree on some contacts and differ on most
			case "name":
				v.Text = fw.Pick(r, contactNames)
			case "language":
				v.Text = fw.Pick(r, []string{"eng", "fra", "spa", "kin"})
			case "tel":
				v.Text = fw.Pick(r, []string{"+12065551212", "+12065551313", "+250788123123", "+593979111222"})
			default:
				v.Text = fw.Pick(r, []string{"Male", "female", "x y", "O'Brien", "日本語", "a\"b", "1", "2020-01-01", "(x)", "ça va"})
			}
		case assets.FieldTypeNumber:
			if r.Chance(0.1) {
				v.Text = "n/a" // text only: no typed value
			} else {
				pool, generic := boundaryNumbers, true
				switch f.Key {
				case "tickets":
					pool, generic = []string{"0", "1", "2", "3", "0.5"}, false
				case "urn":
					pool, generic = []string{"12345", "987654", "250788123123", "12065551212"}, false
				}
				d := decimal.RequireFromString(fw.Pick(r, pool))
				if generic && r.Chance(0.25) {
					d = precisionNumber(r)
				}
				v.Num = &d
				v.Text = d.String()
			}
		case assets.FieldTypeDatetime:
			if r.Chance(0.1) {
				v.Text = "someday"
			} else {
				t := boundaryInstant(r, loc, ay, am, ad)
				v.Time = &t
				v.Text = t.Format(time.RFC3339Nano)
			}
		case assets.FieldTypeState:
			v.State = fw.Pick(r, locStates)
			v.Text = lastPathPart(v.State)
		case assets.FieldTypeDistrict:
			v.District = fw.Pick(r, locDistricts)
			v.State = "Rwanda > Kigali"
			v.Text = lastPathPart(v.District)
		case assets.FieldTypeWard:
			v.Ward = fw.Pick(r, locWards)
			v.District = "Rwanda > Kigali > Gasabo"
			v.State = "Rwanda > Kigali"
			v.Text = lastPathPart(v.Ward)
		}
		m.Fields[f.Key] = v
	}
	ng := r.Intn(3)
	gs := append([]string{}, groupNames...)
	fw.Shuffle(r, gs)
	m.Groups = gs[:ng]
	if r.Bool() {
		m.Flow = fw.Pick(r, flowNames)
	}
	if r.Bool() {
		m.History = append(m.History, flowNames[:r.Range(1, 2)]...)
	}
	return m
}
