package p14

import (
	"fmt"
	"sort"
	"strconv"
	"strings"
	"time"
	_ "time/tzdata" // zones must not depend on what the box has installed

	"github.com/nyaruka/gocommon/i18n"
	"github.com/nyaruka/gocommon/urns"
	"github.com/nyaruka/goflow/assets"
	"github.com/nyaruka/goflow/assets/static"
	"github.com/nyaruka/goflow/contactql"
	"github.com/nyaruka/goflow/envs"

	"verif/internal/fw"
	"verif/internal/gen"
)

// ---------------------------------------------------------------------------------------
// environments

var zoneNames = []string{
	"UTC", "America/Guayaquil", "Asia/Kolkata", "Europe/London", "America/New_York",
	"Australia/Lord_Howe", "Pacific/Kiritimati", "Africa/Kigali", "America/Havana", "Asia/Kathmandu",
}

func loadZone(name string) *time.Location {
	loc, err := time.LoadLocation(name)
	if err != nil {
		panic("p14: zone " + name + " not available: " + err.Error())
	}
	return loc
}

type envSpec struct {
	Zone    string
	DateFmt envs.DateFormat
	Country string
	Redact  bool
}

func (s envSpec) String() string {
	return fmt.Sprintf("tz=%s datefmt=%s country=%s redaction=%v", s.Zone, s.DateFmt, s.Country, s.Redact)
}

func (s envSpec) build() envs.Environment {
	b := envs.NewBuilder().WithTimezone(loadZone(s.Zone)).WithDateFormat(s.DateFmt)
	if s.Country != "" {
		b = b.WithDefaultCountry(i18n.Country(s.Country))
	}
	if s.Redact {
		b = b.WithRedactionPolicy(envs.RedactionPolicyURNs)
	}
	return b.Build()
}

func genEnvSpec(r *fw.Rand) envSpec {
	return envSpec{
		Zone:    fw.Pick(r, zoneNames),
		DateFmt: fw.Pick(r, gen.DateFormats),
		Country: fw.Pick(r, []string{"", "US", "RW", "EC"}),
	}
}

// ---------------------------------------------------------------------------------------
// resolver (mock resolver of the contactql package over static assets)

type fieldSpec struct {
	Key  string
	Type assets.FieldType
}

var fieldSpecs = []fieldSpec{
	{"gender", assets.FieldTypeText},
	{"nickname", assets.FieldTypeText},
	{"age", assets.FieldTypeNumber},
	{"score", assets.FieldTypeNumber},
	{"joined", assets.FieldTypeDatetime},
	{"dob", assets.FieldTypeDatetime},
	{"state", assets.FieldTypeState},
	{"district", assets.FieldTypeDistrict},
	{"ward", assets.FieldTypeWard},
	// field keys that are also the name of an attribute or of a URN scheme: the same (key, operator,
	// value) then names two different properties, told apart only by the property type. Such fields
	// are reachable only through the "fields." prefix.
	{"name", assets.FieldTypeText},
	{"language", assets.FieldTypeText},
	{"tel", assets.FieldTypeText},
	{"tickets", assets.FieldTypeNumber},
	{"created_on", assets.FieldTypeDatetime},
	{"urn", assets.FieldTypeNumber},
}

// noSetCheckKeys: Condition.validate refuses = "" and != "" for these property keys (whatever the
// property type is).
var noSetCheckKeys = map[string]bool{"uuid": true, "id": true, "status": true, "created_on": true, "tickets": true}

// collides reports whether a field key is also an attribute name or a URN scheme.
func collides(key string) bool {
	if _, isAttr := attrTypes[key]; isAttr {
		return true
	}
	for _, s := range schemeNames {
		if s == key {
			return true
		}
	}
	return false
}

var groupNames = []string{"Testers", "U-Reporters", "Males"}
var flowNames = []string{"Registration", "Catch All"}

func fieldType(key string) assets.FieldType {
	for _, f := range fieldSpecs {
		if f.Key == key {
			return f.Type
		}
	}
	return ""
}

func fieldKeysOfType(ts ...assets.FieldType) []string {
	var out []string
	for _, f := range fieldSpecs {
		for _, t := range ts {
			if f.Type == t {
				out = append(out, f.Key)
			}
		}
	}
	return out
}

var mockResolver = func() contactql.Resolver {
	var fs []assets.Field
	for i, f := range fieldSpecs {
		fs = append(fs, static.NewField(assets.FieldUUID(fmt.Sprintf("f0000000-0000-4000-8000-%012d", i)), f.Key, strings.ToUpper(f.Key[:1])+f.Key[1:], f.Type))
	}
	var fl []assets.Flow
	for i, n := range flowNames {
		fl = append(fl, static.NewFlow(assets.FlowUUID(fmt.Sprintf("a0000000-0000-4000-8000-%012d", i)), n, []byte(`{}`)))
	}
	var gs []assets.Group
	for i, n := range groupNames {
		gs = append(gs, static.NewGroup(assets.GroupUUID(fmt.Sprintf("b0000000-0000-4000-8000-%012d", i)), n, ""))
	}
	return contactql.NewMockResolver(fs, fl, gs)
}()

var attrNames = []string{"uuid", "id", "name", "status", "language", "urn", "group", "flow", "history", "tickets", "created_on", "last_seen_on"}

var attrTypes = map[string]assets.FieldType{
	"uuid": assets.FieldTypeText, "id": assets.FieldTypeText, "name": assets.FieldTypeText, "status": assets.FieldTypeText,
	"language": assets.FieldTypeText, "urn": assets.FieldTypeText, "group": assets.FieldTypeText, "flow": assets.FieldTypeText,
	"history": assets.FieldTypeText, "tickets": assets.FieldTypeNumber, "created_on": assets.FieldTypeDatetime, "last_seen_on": assets.FieldTypeDatetime,
}

var schemeNames = func() []string {
	var out []string
	for _, s := range urns.Schemes {
		out = append(out, s.Prefix)
	}
	sort.Strings(out)
	return out
}()

// ---------------------------------------------------------------------------------------
// values

var numberTexts = []string{"0", "1", "1.5", "007", "-1", "1e3", "abc", "10", "36", "10.50", "99999999999999999999", ".5", "1.", "+2", "1,5", "٣"}
var validNumbers = []string{"0", "1", "1.5", "007", "-1", "1e3", "10", "36", "10.50", "99999999999999999999", "0.000001", "-0.5"}
var statusTexts = []string{"active", "BLOCKED", "stopped", "Archived", "foo", "act ive"}
var languageTexts = []string{"eng", "fra", "SPA", "en", "xx", "english", "kin"}
var groupTexts = []string{"Testers", "testers", "U-Reporters", "Males", "Nope", "Test"}
var flowTexts = []string{"Registration", "registration", "Catch All", "Nope"}

func renderDay(f envs.DateFormat, y, m, d int, sep string) string {
	switch f {
	case envs.DateFormatDayMonthYear:
		return fmt.Sprintf("%02d%s%02d%s%04d", d, sep, m, sep, y)
	case envs.DateFormatMonthDayYear:
		return fmt.Sprintf("%02d%s%02d%s%04d", m, sep, d, sep, y)
	}
	return fmt.Sprintf("%04d%s%02d%s%02d", y, sep, m, sep, d)
}

func dateText(r *fw.Rand, f envs.DateFormat) string {
	y, m, d := r.Range(1990, 2035), r.Range(1, 12), r.Range(1, 28)
	switch r.Intn(10) {
	case 0, 1, 2:
		return fmt.Sprintf("%04d-%02d-%02d", y, m, d)
	case 3, 4:
		return renderDay(f, y, m, d, fw.Pick(r, []string{"-", "/", "."}))
	case 5:
		return renderDay(fw.Pick(r, gen.DateFormats), y, m, d, fw.Pick(r, []string{"-", "/", ".", " ", "_"}))
	case 6:
		return fw.Pick(r, []string{"31-12-99", "1/2/20", "99.12.31", "2020-1-2"})
	case 7:
		return fw.Pick(r, []string{"2020-02-30", "31-31-2020", "0000-00-00", "2020-13-01", "yesterday", "2020"})
	case 8:
		return fmt.Sprintf("%04d-%02d-%02dT%02d:%02d:%02dZ", y, m, d, r.Intn(24), r.Intn(60), r.Intn(60))
	default:
		return renderDay(f, y, m, d, "-") + " " + fw.Pick(r, []string{"10:30", "12:00 am", "23:59:59", "00:00"})
	}
}

var plainWords = []string{"bob", "Bob", "jim", "x", "ab", "Smith", "male", "Kigali", "hello", "O'Brien", "bob@nyaruka.com", "a_b", "v1.2", "日本語", "é", "ñandú", "I", "+12065551212", "12065551212", "555", "1234", "it's", "a-b", "a/b", "@bob", "twitter:bob", "tel:+12065551212", "mailto:bob@x.io", "x:y:z", "OR", "has", "1.5.2", "--", "+"}

func textValue(r *fw.Rand) string {
	switch r.Intn(12) {
	case 10:
		return confusableValue(r)
	case 11:
		return controlMixValue(r)
	case 0, 1, 2:
		return fw.Pick(r, plainWords)
	case 3, 4:
		return fw.Pick(r, gen.StringPool)
	case 5, 6, 7:
		return gen.LiteralString(r)
	case 8:
		return fw.Pick(r, plainWords) + " " + fw.Pick(r, plainWords)
	default:
		return gen.HostileString(r, 8)
	}
}

// hostileValue: arbitrary valid UTF-8, biased to quotes, backslashes (trailing), operators,
// parentheses and keywords (the quantifier of C14).
func hostileValue(r *fw.Rand) string {
	switch r.Intn(15) {
	case 12, 13:
		return confusableValue(r)
	case 14:
		return controlMixValue(r)
	case 0:
		return fw.Pick(r, []string{`a\`, `\`, `\\`, `a\\`, `x y\`, `"\`, `a"\`, `\\\`, `é\`, "a\n\\"})
	case 1:
		return fw.Pick(r, []string{`" OR name != "`, `x" OR name != "`, `" OR id = 1 OR name = "`, `") OR (name != "`, `\" OR name != \"`, `x\" OR uuid != \"`, `" or "" = "`, `a" AND name ~ "b`, `\") OR (name != \"`})
	case 2:
		return fw.Pick(r, []string{"OR", "AND", "has", "is", "or", "and", "x OR y", "a AND b", "name = x", "(", ")", ")(", "()", "=", "!=", "~", ">", "<="})
	case 3:
		return fw.Pick(r, gen.StringPool)
	case 4:
		return gen.LongString(r.Range(1, 70), r.Intn(70))
	case 5:
		return fw.Pick(r, plainWords)
	case 6:
		return gen.HostileString(r, 10)
	default:
		return gen.LiteralString(r)
	}
}

// ---------------------------------------------------------------------------------------
// query text generator (appendix A.3): text, not trees, so that the real parser decides
// what is acceptable.

type qgen struct {
	r       *fw.Rand
	dateFmt envs.DateFormat
	nconds  int
}

func (g *qgen) ws() string {
	return fw.Pick(g.r, []string{" ", " ", " ", " ", "  ", "\t", "\n", " \r\n"})
}

func (g *qgen) optws() string {
	return fw.Pick(g.r, []string{" ", " ", " ", "", "", "  ", "\t"})
}

func (g *qgen) caseMix(s string) string {
	switch g.r.Intn(6) {
	case 0:
		return strings.ToUpper(s)
	case 1:
		if len(s) > 0 {
			return strings.ToUpper(s[:1]) + s[1:]
		}
	case 2:
		var b strings.Builder
		for _, c := range s {
			if g.r.Bool() {
				b.WriteString(strings.ToUpper(string(c)))
			} else {
				b.WriteRune(c)
			}
		}
		return b.String()
	}
	return s
}

var oddFieldKeys = []string{"xyz", "has_pet", "is_ok", "ağe", "a1", "_x", "1st", "123", "or_else", "android", "名前", "İl", "ǅ", "ß", "field", "fields", "urns", "x.y"}
var oddPrefixed = []string{"foo.bar", "field.age", "urn.tel", "fields.", ".age", "fields.a.b", "fields.fields", "urns.foo", "urns.age", "fields.name", "fields.tel", "fields.urn"}

// property returns (text, value type used to choose a plausible value)
func (g *qgen) property() (string, assets.FieldType, string) {
	r := g.r
	switch r.Weighted([]int{30, 20, 30, 8, 6, 6}) {
	case 0:
		a := fw.Pick(r, attrNames)
		return g.caseMix(a), attrTypes[a], a
	case 1:
		s := fw.Pick(r, schemeNames)
		if r.Chance(0.4) {
			return g.caseMix("urns." + s), assets.FieldTypeText, "scheme"
		}
		return g.caseMix(s), assets.FieldTypeText, "scheme"
	case 2:
		f := fw.Pick(r, fieldSpecs)
		if r.Chance(0.4) {
			return g.caseMix("fields." + f.Key), f.Type, "field"
		}
		return g.caseMix(f.Key), f.Type, "field"
	case 3:
		k := fw.Pick(r, oddFieldKeys)
		if r.Chance(0.5) {
			return "fields." + k, assets.FieldTypeText, "field"
		}
		return k, assets.FieldTypeText, "field"
	case 4:
		return g.caseMix(fw.Pick(r, oddPrefixed)), assets.FieldTypeText, "odd"
	default:
		// a field key that collides with an attribute or scheme, reachable only through the prefix
		return "fields." + fw.Pick(r, []string{"name", "tel", "id", "language", "twitter"}), assets.FieldTypeText, "field"
	}
}

var comparators = []string{"=", "=", "=", "!=", "!=", "~", ">", ">=", "<", "<=", "has", "is", "HAS", "Is", "IS", "Has"}

func (g *qgen) valueFor(t assets.FieldType, what string) string {
	r := g.r
	if r.Chance(0.12) {
		return ""
	}
	switch what {
	case "status":
		return fw.Pick(r, statusTexts)
	case "language":
		return fw.Pick(r, languageTexts)
	case "group":
		return fw.Pick(r, groupTexts)
	case "flow", "history":
		return fw.Pick(r, flowTexts)
	}
	if r.Chance(0.1) {
		return textValue(r) // wrong type on purpose
	}
	switch t {
	case assets.FieldTypeNumber:
		return fw.Pick(r, numberTexts)
	case assets.FieldTypeDatetime:
		return dateText(r, g.dateFmt)
	}
	return textValue(r)
}

// literal renders a value as a STRING or bare literal.
func (g *qgen) literal(v string) string {
	switch g.r.Weighted([]int{50, 12, 38}) {
	case 0:
		return strconv.Quote(v)
	case 1:
		return `"` + v + `"` // naive quoting: raw backslashes reach the unquote fallback
	default:
		if v == "" {
			return `""`
		}
		return v
	}
}

func (g *qgen) condition() string {
	g.nconds++
	prop, t, what := g.property()
	cmp := fw.Pick(g.r, comparators)
	if t == assets.FieldTypeNumber || t == assets.FieldTypeDatetime {
		if g.r.Chance(0.5) {
			cmp = fw.Pick(g.r, []string{">", ">=", "<", "<=", "=", "!="})
		}
	}
	v := g.literal(g.valueFor(t, what))
	sp1, sp2 := g.optws(), g.optws()
	if cmp[0] >= 'A' {
		// word comparators need separation from the property (and from a bare literal)
		sp1 = g.ws()
		if g.r.Chance(0.9) {
			sp2 = g.ws()
		}
	}
	return prop + sp1 + cmp + sp2 + v
}

func (g *qgen) implicit() string {
	g.nconds++
	r := g.r
	switch r.Intn(8) {
	case 0, 1, 2:
		return fw.Pick(r, plainWords)
	case 3:
		if r.Chance(0.5) {
			// phone-like bare literals of every small length: digits with the separators people type, so that the number
			// of digits that is left after clean-up sits on both sides of every length threshold
			n := r.Range(1, 8)
			var b strings.Builder
			for i := 0; i < n; i++ {
				b.WriteString([]string{"0", "1", "2", "7", "9", "-", "-", "-", "+", ".", "/"}[r.Weighted([]int{2, 3, 3, 2, 2, 3, 3, 2, 2, 1, 1})])
			}
			return b.String()
		}
		return fw.Pick(r, []string{"1234", "007", "+5", "-5", "12345", "+123-456-7890", "(206) 555 1212", "2065551212", "0788123123", "+250788123123", "1.5", "12 34", "123", "12--", "1-2-", "--7-", "+1---", "123-", "1-", "+-1"})
	case 4:
		return strconv.Quote(textValue(r))
	case 5:
		return fw.Pick(r, schemeNames) + ":" + fw.Pick(r, []string{"bob", "+12065551212", "12345", "bob@nyaruka.com", "Bob_1", "a:b"})
	default:
		return g.literal(textValue(r))
	}
}

func (g *qgen) leaf() string {
	if g.r.Chance(0.22) {
		return g.implicit()
	}
	return g.condition()
}

func (g *qgen) connector() string {
	r := g.r
	switch r.Weighted([]int{35, 35, 30}) {
	case 0:
		return g.ws() + g.caseMix("and") + g.ws()
	case 1:
		return g.ws() + g.caseMix("or") + g.ws()
	default:
		return g.ws() // implicit AND
	}
}

func (g *qgen) expr(d int) string {
	r := g.r
	if d <= 0 || r.Chance(0.35) {
		s := g.leaf()
		if r.Chance(0.12) {
			s = "(" + g.optws() + s + g.optws() + ")"
		}
		return s
	}
	n := r.Weighted([]int{0, 0, 55, 30, 15}) // 2..4 parts
	var b strings.Builder
	for i := 0; i < n; i++ {
		if i > 0 {
			b.WriteString(g.connector())
		}
		part := g.expr(d - 1)
		if r.Chance(0.45) {
			part = "(" + g.optws() + part + g.optws() + ")"
		}
		b.WriteString(part)
	}
	return b.String()
}

var soupTokens = []string{"(", ")", "AND", "or", "OR", "and", "name", "=", "!=", "~", "has", "is", ">", "<=", `"x"`, `""`, "bob", "fields.age", "age", "10", `"a\\"`, `"a\"`, `"`, "+12065551212", "twitter:bob", "tel", "urns.tel", "'", "@", "x.y.z", "\\", ",", "&", "|", " ", " ", "😀", "*", "?", "#", "name=x", `"a b"`}

func (g *qgen) soup() string {
	n := g.r.Range(1, 9)
	var b strings.Builder
	for i := 0; i < n; i++ {
		if i > 0 && g.r.Chance(0.85) {
			b.WriteString(" ")
		}
		b.WriteString(fw.Pick(g.r, soupTokens))
	}
	return b.String()
}

// queryText generates one query text.
func genQueryText(r *fw.Rand, df envs.DateFormat) (string, string) {
	g := &qgen{r: r, dateFmt: df}
	switch r.Weighted([]int{6, 84, 10}) {
	case 0:
		return g.soup(), "soup"
	case 2:
		// a grammar-derived text with one character deleted, doubled or replaced
		s := []rune(g.expr(r.Range(0, 2)))
		if len(s) > 0 {
			i := r.Intn(len(s))
			switch r.Intn(3) {
			case 0:
				s = append(s[:i:i], s[i+1:]...)
			case 1:
				s = append(s[:i:i], append([]rune{s[i]}, s[i:]...)...)
			default:
				s[i] = []rune(fw.Pick(r, []string{`"`, `\`, "(", ")", " ", "=", "x", "~"}))[0]
			}
		}
		return string(s), "mutated"
	}
	d := r.Weighted([]int{25, 35, 28, 12})
	s := g.expr(d)
	if r.Chance(0.1) {
		s = g.ws() + s + g.ws()
	}
	return s, "grammar"
}

// ---------------------------------------------------------------------------------------
// programmatic trees (valid against the configuration by construction)

type treeGen struct {
	r        *fw.Rand
	resolver bool
	redact   bool
	dateFmt  envs.DateFormat
	value    func(*fw.Rand) string // arbitrary text values
}

func (t *treeGen) validDate() string {
	y, m, d := t.r.Range(1990, 2035), t.r.Range(1, 12), t.r.Range(1, 28)
	if t.r.Bool() {
		return fmt.Sprintf("%04d-%02d-%02d", y, m, d)
	}
	return renderDay(t.dateFmt, y, m, d, fw.Pick(t.r, []string{"-", "/", "."}))
}

// condition builds a condition that Condition.validate accepts in this configuration. The
// admissible (property, operator, value) combinations are read off contactql/parser.go:
//   - name: = and != with any value; ~ only with a token of two or more characters
//   - text and location fields: = and != with any value; without a resolver fields are not
//     validated at all, so any operator goes
//   - uuid, id: = and != with any non-empty value
//   - urn attribute and URN schemes: = and != with any value, ~ with three or more bytes
//     (not under URN redaction, where only the empty value is admitted)
//   - group, flow, history: any value without a resolver, an existing name with one
//   - language: a valid language code or empty; status: one of the four statuses
//   - number / datetime properties: a parseable number / date, or "" with = and !=
func (t *treeGen) condition() *node {
	r := t.r
	eqne := func() string { return fw.Pick(r, []string{"=", "=", "!="}) }
	for {
		switch r.Weighted([]int{26, 22, 6, 10, 8, 5, 5, 5, 8, 5}) {
		case 0:
			return cond("attr", "name", eqne(), t.value(r))
		case 1:
			key := fw.Pick(r, fieldKeysOfType(assets.FieldTypeText, assets.FieldTypeState, assets.FieldTypeDistrict, assets.FieldTypeWard))
			op := eqne()
			if !t.resolver {
				if r.Chance(0.3) {
					key = fw.Pick(r, []string{"xyz", "has_pet", "a1", "is_ok", "name", "tel", "age", "joined", "or_else"})
				}
				if r.Chance(0.3) {
					op = fw.Pick(r, []string{"~", ">", ">=", "<", "<="})
				}
			}
			return cond("field", key, op, t.value(r))
		case 2:
			v := t.value(r)
			if v == "" {
				continue
			}
			return cond("attr", fw.Pick(r, []string{"uuid", "id"}), eqne(), v)
		case 3:
			if t.redact {
				return cond("urn", fw.Pick(r, schemeNames), eqne(), "")
			}
			if r.Chance(0.3) {
				return cond("attr", "urn", eqne(), t.value(r))
			}
			return cond("urn", fw.Pick(r, schemeNames), eqne(), t.value(r))
		case 4:
			if t.resolver {
				if r.Bool() {
					return cond("attr", "group", eqne(), fw.Pick(r, groupNames))
				}
				return cond("attr", fw.Pick(r, []string{"flow", "history"}), eqne(), fw.Pick(r, flowNames))
			}
			return cond("attr", fw.Pick(r, []string{"group", "flow", "history"}), eqne(), t.value(r))
		case 5:
			if r.Bool() {
				return cond("attr", "language", eqne(), fw.Pick(r, []string{"eng", "fra", "spa", "kin", ""}))
			}
			return cond("attr", "status", eqne(), fw.Pick(r, []string{"active", "blocked", "stopped", "archived", "ACTIVE"}))
		case 6:
			if !t.resolver {
				continue
			}
			op := fw.Pick(r, []string{"=", "!=", ">", ">=", "<", "<="})
			if r.Chance(0.15) {
				key := fw.Pick(r, fieldKeysOfType(assets.FieldTypeNumber))
				if noSetCheckKeys[key] {
					continue
				}
				return cond("field", key, eqne(), "")
			}
			return cond("field", fw.Pick(r, fieldKeysOfType(assets.FieldTypeNumber)), op, fw.Pick(r, validNumbers))
		case 7:
			op := fw.Pick(r, []string{"=", "!=", ">", ">=", "<", "<="})
			if r.Bool() {
				return cond("attr", fw.Pick(r, []string{"created_on", "last_seen_on"}), op, t.validDate())
			}
			if !t.resolver {
				continue
			}
			return cond("field", fw.Pick(r, fieldKeysOfType(assets.FieldTypeDatetime)), op, t.validDate())
		case 8:
			// contains conditions with values known to be admissible
			if r.Bool() || t.redact {
				return cond("attr", "name", "~", fw.Pick(r, []string{"bob", "Bob Smith", "ab", "it's me", "日本語", "x yz", `say "hi"`, `back\slash`, "O'Brien"}))
			}
			return cond("urn", fw.Pick(r, schemeNames), "~", fw.Pick(r, []string{"123", "+1206", "bob", `a"b`, `ab\`, "a b c", "(20"}))
		default:
			return cond("attr", "tickets", fw.Pick(r, []string{"=", "!=", ">", ">=", "<", "<="}), fw.Pick(r, []string{"0", "1", "2", "0.5"}))
		}
	}
}

// tree builds a combination tree: 1-4 children per combination, nesting <= 3.
func (t *treeGen) tree(d int) *node {
	r := t.r
	if d <= 0 || r.Chance(0.3) {
		return t.condition()
	}
	n := r.Weighted([]int{0, 15, 40, 30, 15}) // 1..4
	c := &node{Op: fw.Pick(r, []string{"and", "or"})}
	for i := 0; i < n; i++ {
		c.Kids = append(c.Kids, t.tree(d-1))
	}
	return c
}
