package p14

import (
	"regexp"
	"strconv"
	"strings"

	"github.com/nyaruka/goflow/envs"

	"verif/internal/fw"
)

// ---------------------------------------------------------------------------------------
// Values that echo the condition's own property.
//
// The value of a condition is an opaque literal: whatever it looks like, it has to come back
// from text exactly as it went in. One way for a parser or printer to violate that is to
// "understand" a value in the light of the property it is compared with: a complete URN in a
// scheme condition (tel = "tel:+250788123123"), a value that repeats the property the way the
// user would write it (urns.twitter = "twitter:bob", fields.gender = "gender: male",
// name = "name=bob"), or that repeats it several times (so that a rewrite which is applied
// once per parse shows up in the pure text round trip as well, where every value has been
// through the parser once already). The general-purpose value generators draw property and
// value independently, so such coincidences practically never happen there; this family
// builds the value FROM the property of the condition it is put into.
//
// Nothing here is an oracle: the items go through the ordinary clauses 1-3 (checkText,
// checkTree, checkInjection), whose expectations are stated in the harness' own model.

// spellings of the property inside a value, separators between the echoed property and the rest
var echoSeparators = []string{":", ":", ":", ":", ":", ":", "=", " = ", ".", " ", "", ": ", "://", ":\\", ":\""}

// plausible rests per kind of property (what a user would paste), besides hostile values
var echoRestTel = []string{"+250788123123", "+12065551212", "0788123123", "555", "(206) 555-1212", "12065551212", "+1"}
var echoRestMail = []string{"bob@example.com", "a.b+c@x.io", "Bob@Nyaruka.COM", "x"}
var echoRestHandle = []string{"bob", "Bob_1", "12345", "jim.smith", "1234567890", "a:b", "bob#123", "x y"}
var echoRestText = []string{"bob", "male", "Kigali", "x y", "1", "O'Brien", "日本語"}

func echoRest(r *fw.Rand, pt, key string) string {
	switch r.Weighted([]int{62, 20, 8, 10}) {
	case 1:
		return hostileValue(r)
	case 2:
		return ""
	case 3:
		return textValue(r)
	}
	if pt == "urn" || key == "urn" {
		switch key {
		case "tel", "whatsapp", "urn":
			return fw.Pick(r, echoRestTel)
		case "mailto":
			return fw.Pick(r, echoRestMail)
		}
		return fw.Pick(r, echoRestHandle)
	}
	return fw.Pick(r, echoRestText)
}

// echoSpelling writes the property the way it can be written in a query (or in a URN).
func echoSpelling(r *fw.Rand, pt, key string) string {
	switch r.Weighted([]int{70, 12, 10, 8}) {
	case 1:
		switch pt {
		case "urn":
			return "urns." + key
		case "field":
			return "fields." + key
		}
	case 2:
		return strings.ToUpper(key)
	case 3:
		if len(key) > 0 {
			return strings.ToUpper(key[:1]) + key[1:]
		}
	}
	return key
}

// echoValue builds a value out of the property (pt, key): the property spelled reps times, each
// followed by a separator (the natural one for the kind of property most of the time), then a rest.
func echoValue(r *fw.Rand, pt, key string, reps int) string {
	var b strings.Builder
	sep := fw.Pick(r, echoSeparators)
	for i := 0; i < reps; i++ {
		b.WriteString(echoSpelling(r, pt, key))
		if r.Chance(0.15) {
			sep = fw.Pick(r, echoSeparators)
		}
		b.WriteString(sep)
	}
	b.WriteString(echoRest(r, pt, key))
	return b.String()
}

func echoReps(r *fw.Rand) int { return 1 + r.Weighted([]int{40, 42, 18}) } // 1..3

var echoTextFields = []string{"gender", "nickname", "state", "district"}

// echoProperty picks the property of an echo condition. URN scheme conditions carry most of the
// weight where they are admissible (under URN redaction only the empty value is).
func echoProperty(r *fw.Rand, redact bool) (pt, key string) {
	w := []int{58, 10, 16, 16}
	if redact {
		w = []int{0, 0, 50, 50}
	}
	switch r.Weighted(w) {
	case 0:
		return "urn", fw.Pick(r, schemeNames)
	case 1:
		return "attr", "urn"
	case 2:
		return "attr", "name"
	}
	return "field", fw.Pick(r, echoTextFields)
}

// echoCondition: a condition valid in every configuration (for URN properties: every one without
// redaction) whose value echoes its property. ~ is admissible on name and URN properties because
// the echoed key itself is a token of >= 2 / a value of >= 3 characters.
func echoCondition(r *fw.Rand, redact bool) *node {
	pt, key := echoProperty(r, redact)
	op := fw.Pick(r, []string{"=", "=", "=", "!="})
	v := echoValue(r, pt, key, echoReps(r))
	if (pt == "urn" || key == "urn" || key == "name") && len(key) >= 3 && r.Chance(0.15) {
		op = "~"
	}
	return cond(pt, key, op, v)
}

// echoes reports whether a condition's value contains the condition's own property key.
func echoes(l *node) bool {
	return l != nil && l.isCond() && l.Key != "" && strings.Contains(strings.ToLower(l.Val), strings.ToLower(l.Key))
}

// noteEcho counts how often a clause held over a condition whose value echoes its own property.
func (k *chk14) noteEcho(prefix string, t *node) {
	some, urn := false, false
	for _, l := range t.leaves() {
		if echoes(l) {
			some = true
			if l.PT == "urn" {
				urn = true
				k.res.Seen("key_echo.schemes", l.Key)
			}
		}
	}
	if some {
		k.res.Count(prefix+".key_echo_value", 1)
	}
	if urn {
		k.res.Count(prefix+".key_echo_value.urn_scheme", 1)
	}
}

// unecho is the repair experiment for this class: every occurrence of the property key inside the
// value of its own condition (any case) is replaced by "zz".
func unechoValue(key, val string) string {
	if key == "" {
		return val
	}
	return regexp.MustCompile(`(?i)`+regexp.QuoteMeta(key)).ReplaceAllString(val, "zz")
}

func unecho(t *node) (out *node, changed bool) {
	out = t.mapLeaves(func(l *node) *node {
		if v := unechoValue(l.Key, l.Val); v != l.Val {
			changed = true
			c := *l
			c.Val = v
			return &c
		}
		return l
	})
	return
}

const causeKeyEcho = "value-echoing-own-property-key-not-kept-literal"

// ---------------------------------------------------------------------------------------
// generated items

// propertyText writes the property of a model condition the way a query text can name it.
func propertyText(r *fw.Rand, n *node) string {
	prop := n.Key
	switch n.PT {
	case "urn":
		if r.Chance(0.4) {
			prop = "urns." + prop
		}
	case "field":
		if collides(prop) || r.Chance(0.4) {
			prop = "fields." + prop
		}
	}
	switch r.Intn(5) {
	case 0:
		prop = strings.ToUpper(prop)
	case 1:
		prop = strings.ToUpper(prop[:1]) + prop[1:]
	}
	return prop
}

var echoBare = regexp.MustCompile(`^[A-Za-z0-9_:+@.\-]+$`)

// genEchoText: a query text of 1-3 conditions, one of them an explicit condition whose literal
// echoes its property (quoted most of the time, bare when the characters allow it).
func genEchoText(r *fw.Rand, df envs.DateFormat) string {
	g := &qgen{r: r, dateFmt: df}
	n := 1 + r.Weighted([]int{40, 40, 20})
	at := r.Intn(n)
	var b strings.Builder
	for i := 0; i < n; i++ {
		if i > 0 {
			b.WriteString(g.connector())
		}
		part := ""
		if i == at {
			e := echoCondition(r, false)
			lit := strconv.Quote(e.Val)
			if echoBare.MatchString(e.Val) && r.Chance(0.3) {
				lit = e.Val
			}
			cmp := e.Cmp
			if cmp == "~" && r.Bool() {
				cmp = "has"
			}
			part = propertyText(r, e) + " " + cmp + " " + lit
		} else {
			part = g.condition()
		}
		if n > 1 && r.Chance(0.3) {
			part = "(" + part + ")"
		}
		b.WriteString(part)
	}
	return b.String()
}

// genEchoTree: a programmatic tree in which one to all of the conditions echo their property.
func genEchoTree(r *fw.Rand, c cfg, df envs.DateFormat) *node {
	tg := &treeGen{r: r, resolver: c.res != nil, redact: c.redact, dateFmt: df, value: hostileValue}
	var build func(d int) *node
	build = func(d int) *node {
		if d <= 0 || r.Chance(0.3) {
			if r.Chance(0.5) {
				return echoCondition(r, c.redact)
			}
			return tg.condition()
		}
		n := 1 + r.Weighted([]int{15, 40, 30, 15})
		out := &node{Op: fw.Pick(r, []string{"and", "or"})}
		for i := 0; i < n; i++ {
			out.Kids = append(out.Kids, build(d-1))
		}
		return out
	}
	t := build(r.Weighted([]int{25, 45, 30}))
	for _, l := range t.leaves() {
		if echoes(l) {
			return t
		}
	}
	// at least one by construction
	return comb(fw.Pick(r, []string{"and", "or"}), t, echoCondition(r, c.redact))
}

// genEchoTemplate: an injection template of 1-4 conditions whose site is a condition on the
// property (pt, key); the value that goes in echoes that property.
func genEchoTemplate(r *fw.Rand, c cfg, df envs.DateFormat) (template, string) {
	tg := &treeGen{r: r, resolver: c.res != nil, redact: c.redact, dateFmt: df, value: benignValue}
	pt, key := echoProperty(r, c.redact)
	site := &node{PT: pt, Key: key}
	n := 1 + r.Weighted([]int{25, 35, 25, 15})
	at := r.Intn(n)
	lo, hi := -1, -1
	if n >= 2 && r.Chance(0.4) {
		lo = r.Intn(n)
		hi = r.Range(lo, n-1)
	}
	var before, after strings.Builder
	cur := &before
	for i := 0; i < n; i++ {
		if i > 0 {
			cur.WriteString(fw.Pick(r, []string{" AND ", " OR ", " and ", " or ", " "}))
		}
		if i == lo {
			cur.WriteString("(")
		}
		if i == at {
			cur.WriteString(propertyText(r, site) + fw.Pick(r, []string{" = ", " = ", " != ", "=", " is "}))
			cur = &after
		} else {
			cur.WriteString(renderCond(r, tg.condition()))
		}
		if i == hi {
			cur.WriteString(")")
		}
	}
	pos := "middle"
	switch {
	case n == 1:
		pos = "only"
	case at == 0:
		pos = "first"
	case at == n-1:
		pos = "last"
	}
	return template{before: before.String(), after: after.String(), pos: pos, nparts: n}, echoValue(r, pt, key, echoReps(r))
}

// generatedKeyEcho adds the items of this family to a generated case: one text, one tree, one
// injection. The configurations without redaction take three of four turns because URN conditions
// with a value only exist there.
func (k *chk14) generatedKeyEcho(r *fw.Rand, gen int) {
	k.res.Count("key_echo.items", 3)
	k.checkText(genEchoText(r.Fork("echo-text"), k.spec.DateFmt), "key-echo")
	pick := func(i int) cfg {
		if (gen+i)%4 == 3 {
			return k.cfgs[2+(gen/4+i)%2]
		}
		return k.cfgs[(gen/4+i)%2]
	}
	c := pick(0)
	k.checkTree(c, genEchoTree(r.Fork("echo-tree"), c, k.spec.DateFmt))
	c = pick(1)
	t, v := genEchoTemplate(r.Fork("echo-inj"), c, k.spec.DateFmt)
	k.checkInjection(c, t, v)
}

// ---------------------------------------------------------------------------------------
// directed corpus: every URN scheme, the urn and name attributes and two text fields; the property
// echoed once, twice and three times with its natural separator, then with every other separator.

func (k *chk14) directedKeyEcho() {
	type prop struct{ pt, key, sep, rest string }
	var props []prop
	for _, s := range schemeNames {
		rest := "bob_1"
		switch s {
		case "tel", "whatsapp":
			rest = "+593979123456"
		case "mailto":
			rest = "jo@example.org"
		}
		props = append(props, prop{"urn", s, ":", rest})
	}
	props = append(props, prop{"attr", "urn", ":", "+593979123456"}, prop{"attr", "name", ":", "Jo Li"}, prop{"field", "gender", ":", "f"}, prop{"field", "nickname", "=", "jo"})

	n := 0
	for _, p := range props {
		seps := []string{p.sep}
		if p.key == "tel" || p.key == "twitter" || p.key == "name" || p.key == "gender" {
			seps = append(seps, echoSeparators[6:]...)
		}
		for _, sep := range seps {
			for reps := 1; reps <= 3; reps++ {
				for _, spelled := range []string{p.key, strings.ToUpper(p.key)} {
					v := strings.Repeat(spelled+sep, reps) + p.rest
					e := cond(p.pt, p.key, "=", v)
					for ci, c := range k.cfgs {
						if c.redact && (p.pt == "urn" || p.key == "urn") {
							continue // only the empty value is admitted there
						}
						n++
						// clause 2: alone, at every position of a combination, nested
						k.checkTree(c, e)
						k.checkTree(c, comb("or", e, cond("attr", "name", "=", v)))
						k.checkTree(c, comb("and", cond("field", "gender", "!=", "x y"), cond(p.pt, p.key, "!=", v), cond("field", "nickname", "=", "z")))
						if n%2 == 0 {
							// ~ is admitted on name and URN properties only (the echoed key is long enough for it)
							op := "!="
							if (p.pt == "urn" || p.key == "urn" || p.key == "name") && len(p.key) >= 3 {
								op = "~"
							}
							k.checkTree(c, comb("and", cond("field", "gender", "=", "q"), comb("or", cond("field", "nickname", "=", v), cond(p.pt, p.key, op, v))))
						}
						// clause 3: the site is a condition on the property itself; first, middle, last
						site := p.key
						switch p.pt {
						case "urn":
							if n%2 == 0 {
								site = "urns." + site
							}
						case "field":
							site = "fields." + site
						}
						tpls := []template{
							{before: site + " = ", after: ` OR fields.gender = "x y"`, pos: "first", nparts: 2},
							{before: `fields.gender = "x y" AND (` + site + ` != `, after: ` OR nickname = "z")`, pos: "middle", nparts: 3},
							{before: `nickname = z name != "x y" ` + site + ` = `, after: ``, pos: "last", nparts: 3},
							{before: site + ` = `, after: ``, pos: "only", nparts: 1},
						}
						k.checkInjection(c, tpls[(n+ci)%4], v)
						k.checkInjection(c, tpls[(n+ci+1)%4], v)
					}
					// clause 1 (all configurations): quoted, and next to other conditions
					k.checkText(site1(p.pt, p.key)+" = "+strconv.Quote(v), "directed")
					k.checkText("name ~ jim AND ("+site1(p.pt, p.key)+" != "+strconv.Quote(v)+" OR gender = male)", "directed")
					if echoBare.MatchString(v) {
						k.checkText(site1(p.pt, p.key)+" = "+v+" OR age > 10", "directed")
					}
				}
			}
		}
	}
}

func site1(pt, key string) string {
	if pt == "field" {
		return "fields." + key
	}
	return key
}
