package p14

import (
	"encoding/json"
	"fmt"
	"runtime/debug"
	"strconv"
	"strings"
	"time"

	"github.com/nyaruka/gocommon/i18n"
	"github.com/nyaruka/gocommon/urns"
	"github.com/nyaruka/goflow/assets"
	"github.com/nyaruka/goflow/contactql"
	"github.com/nyaruka/goflow/envs"
	"github.com/nyaruka/goflow/flows"
	"github.com/nyaruka/goflow/flows/engine"
	"github.com/nyaruka/goflow/flows/modifiers"
	"github.com/shopspring/decimal"

	"verif/internal/fw"
)

// C15, histories on ONE contact object.
//
// The statement speaks about "evaluating a parsed query against a contact": the result is a function of the
// query and of what the contact holds NOW. The other clauses only ever evaluate freshly read contacts; here one
// flows.Contact object is evaluated, changed through the contact's own methods / the modifiers, and evaluated
// again, several times. After every change:
//
//	presence    (the statement's clause, unchanged) against the harness' own model of the contact, to which
//	            the same change was applied by the harness (mirror below; it never asks goflow what the
//	            contact holds in order to build the expectation)
//	compose     (unchanged) on the changed object
//	history     every probe condition (aimed at the values the contact holds and at the values it held earlier)
//	            gives the same result on the object, on its Clone(), on the contact re-read from its own JSON,
//	            and on a hand-written Queryable answering from the mirrored model
//
// What the mirror trusts: gocommon's urns.URN Normalize/Validate/Scheme/Path (not goflow), shopspring/decimal
// and time.Parse. After every step the mirror is compared with what the contact's accessors (URNs(), Name(),
// Language(), Fields().Get, Ticket(), LastSeenOn()) report; a difference there is a matter of the mutators, not
// of query evaluation, and ends the history without a verdict (counted under outside_statement.*).

type modelQueryable struct{ m *contactModel }

// QueryProperty answers like a flows.Contact is documented to (no id / status / group / flow / history), from the model.
func (q modelQueryable) QueryProperty(env envs.Environment, key string, pt contactql.PropertyType) []any {
	v, _ := q.m.refValues(string(pt), key, false)
	return v
}

func cloneModel(m *contactModel) *contactModel {
	c := *m
	c.URNs = append([]urnVal{}, m.URNs...)
	c.Fields = make(map[string]fieldVal, len(m.Fields))
	for k, v := range m.Fields {
		c.Fields[k] = v
	}
	if m.LastSeenOn != nil {
		t := *m.LastSeenOn
		c.LastSeenOn = &t
	}
	c.Groups = append([]string{}, m.Groups...)
	c.History = append([]string{}, m.History...)
	return &c
}

type probe15 struct {
	pt, key, op, val string
	text             string
	q                *contactql.ContactQuery
	rejected         bool
	last             *bool // result at the previous observation
}

type hist15 struct {
	k      *chk15
	r      *fw.Rand
	c      *flows.Contact
	sa     flows.SessionAssets
	eng    flows.Engine
	res    contactql.Resolver
	init   *contactModel
	steps  []string
	probes []*probe15
	seen   map[string]bool
	ticket *flows.Ticket
	nobs   int
}

var histExtraURNs = []urnVal{{"tel", "+593979111111"}, {"twitter", "bobby"}, {"mailto", "x@example.org"}, {"tel", "+250788383383"}}

func histURNPool() []urnVal { return append(append([]urnVal{}, urnPool...), histExtraURNs...) }

func (h *hist15) addProbe(pt, key, op, val string) {
	text := propText(pt, key) + " " + op + " " + strconv.Quote(val)
	if h.seen[text] {
		return
	}
	h.seen[text] = true
	h.probes = append(h.probes, &probe15{pt: pt, key: key, op: op, val: val, text: text})
}

// aim adds probes for what the model holds right now (URNs, name, language, text / number / datetime fields).
func (h *hist15) aim() {
	m := h.k.model
	redact := h.k.spec.Redact
	for _, u := range m.URNs {
		h.addProbe("urn", u.Scheme, "=", "")
		h.addProbe("urn", u.Scheme, "!=", "")
		if redact {
			continue
		}
		h.addProbe("urn", u.Scheme, "=", u.Path)
		h.addProbe("urn", u.Scheme, "!=", u.Path)
		h.addProbe("attr", "urn", "=", u.Path)
		if len(u.Path) > 5 {
			h.addProbe("urn", u.Scheme, "~", u.Path[1:5])
			h.addProbe("attr", "urn", "~", u.Path[2:6])
		}
	}
	h.addProbe("attr", "urn", "=", "")
	h.addProbe("attr", "urn", "!=", "")
	h.addProbe("attr", "name", "=", "")
	h.addProbe("attr", "language", "!=", "")
	h.addProbe("attr", "last_seen_on", "=", "")
	if m.Name != "" {
		h.addProbe("attr", "name", "=", m.Name)
		if toks := strings.Fields(m.Name); len(toks) > 0 && len(toks[0]) >= 2 && !strings.ContainsAny(toks[0], `"\()`) {
			h.addProbe("attr", "name", "~", toks[0])
		}
	}
	if m.Language != "" {
		h.addProbe("attr", "language", "=", m.Language)
	}
	h.addProbe("attr", "tickets", "=", "1")
	h.addProbe("attr", "tickets", ">", "0")
	if m.LastSeenOn != nil {
		y, mo, d := m.LastSeenOn.In(h.k.loc).Date()
		for _, op := range []string{"=", ">", "<="} {
			h.addProbe("attr", "last_seen_on", op, fmt.Sprintf("%04d-%02d-%02d", y, int(mo), d))
		}
	}
	for _, f := range fieldSpecs {
		v, has := m.Fields[f.Key]
		switch f.Type {
		case assets.FieldTypeText, assets.FieldTypeNumber, assets.FieldTypeDatetime:
			if !noSetCheckKeys[f.Key] {
				h.addProbe("field", f.Key, "=", "")
				h.addProbe("field", f.Key, "!=", "")
			}
		default:
			continue
		}
		if !has {
			continue
		}
		switch f.Type {
		case assets.FieldTypeText:
			if v.Text != "" {
				h.addProbe("field", f.Key, "=", noTrailingBackslash(v.Text))
			}
		case assets.FieldTypeNumber:
			if v.Num != nil {
				for _, op := range []string{"=", ">", "<="} {
					h.addProbe("field", f.Key, op, v.Num.String())
				}
			}
		case assets.FieldTypeDatetime:
			if v.Time != nil {
				y, mo, d := v.Time.In(h.k.loc).Date()
				for _, op := range []string{"=", "<", ">="} {
					h.addProbe("field", f.Key, op, fmt.Sprintf("%04d-%02d-%02d", y, int(mo), d))
				}
			}
		}
	}
}

func newHist(k *chk15, r *fw.Rand, c *flows.Contact, resolver contactql.Resolver) *hist15 {
	sa, _ := sessionAssets()
	h := &hist15{k: k, r: r, c: c, sa: sa, res: resolver, seen: map[string]bool{}, eng: engine.NewBuilder().Build()}
	h.init = cloneModel(k.model)
	h.ticket = c.Ticket()
	if h.ticket == nil {
		h.ticket = flows.NewTicket("e5f5a9b0-1c08-4e56-8f5c-92e00bc3cf52", nil, nil)
	}
	return h
}

// ---------------------------------------------------------------------------------------
// the mirror: the same change applied to the model by the harness

func normURN(u urnVal) (urnVal, bool) {
	n := urns.URN(u.Scheme + ":" + u.Path).Normalize()
	if n.Validate() != nil {
		return urnVal{}, false
	}
	return urnVal{n.Scheme(), n.Path()}, true
}

func (m *contactModel) mirrorAddURN(u urnVal) {
	for _, x := range m.URNs {
		if x == u {
			return
		}
	}
	m.URNs = append(m.URNs, u)
}

func (m *contactModel) mirrorRemoveURN(u urnVal) {
	var out []urnVal
	for _, x := range m.URNs {
		if x != u {
			out = append(out, x)
		}
	}
	m.URNs = out
}

// mirrorMatches compares the model with what the contact's accessors (not QueryProperty) report.
func (h *hist15) mirrorMatches() string {
	m, c := h.k.model, h.c
	if len(c.URNs()) != len(m.URNs) {
		return "urns"
	}
	for i, u := range c.URNs() {
		if u.URN().Scheme() != m.URNs[i].Scheme || u.URN().Path() != m.URNs[i].Path {
			return "urns"
		}
	}
	if c.Name() != m.Name {
		return "name"
	}
	if string(c.Language()) != m.Language {
		return "language"
	}
	if (c.Ticket() != nil) != m.Ticket {
		return "ticket"
	}
	if (c.LastSeenOn() != nil) != (m.LastSeenOn != nil) || (m.LastSeenOn != nil && !c.LastSeenOn().Equal(*m.LastSeenOn)) {
		return "last_seen_on"
	}
	for _, f := range fieldSpecs {
		v := c.Fields().Get(h.sa.Fields().Get(f.Key))
		mv, has := m.Fields[f.Key]
		if (v != nil) != has {
			return "field-" + string(f.Type)
		}
		if v == nil {
			continue
		}
		switch f.Type {
		case assets.FieldTypeText:
			if v.Text.Native() != mv.Text {
				return "field-text"
			}
		case assets.FieldTypeNumber:
			if (v.Number != nil) != (mv.Num != nil) || (mv.Num != nil && !v.Number.Native().Equal(*mv.Num)) {
				return "field-number"
			}
		case assets.FieldTypeDatetime:
			if (v.Datetime != nil) != (mv.Time != nil) || (mv.Time != nil && !v.Datetime.Native().Equal(*mv.Time)) {
				return "field-datetime"
			}
		}
	}
	return ""
}

// ---------------------------------------------------------------------------------------
// steps

func (h *hist15) guard(what string, f func()) (ok bool) {
	fw.SetDetail("history step " + what)
	defer func() {
		if rec := recover(); rec != nil {
			// a panic in a mutator is not a matter of query evaluation
			h.k.res.Count("outside_statement.history_mutator_panics", 1)
			h.k.res.Seen("outside_statement.history_mutator_panic", fw.PanicSignature(what, rec, string(debug.Stack())))
			ok = false
		}
	}()
	f()
	return true
}

func (h *hist15) applyMod(mod flows.Modifier) {
	mod.Apply(h.eng, h.k.env, h.sa, h.c, func(flows.Event) {})
}

func toURNs(us []urnVal) []urns.URN {
	out := make([]urns.URN, len(us))
	for i, u := range us {
		out[i] = urns.URN(u.Scheme + ":" + u.Path)
	}
	return out
}

func urnTexts(us []urnVal) string {
	var s []string
	for _, u := range us {
		s = append(s, u.Scheme+":"+u.Path)
	}
	return "[" + strings.Join(s, " ") + "]"
}

// step applies one named change to the contact and to the model. ok=false: the mutator panicked.
func (h *hist15) step(op string, us []urnVal, key, val string, t time.Time) bool {
	m := h.k.model
	hadURNs := len(m.URNs) > 0
	desc := op
	ok := true
	switch op {
	case "urns.clear":
		ok = h.guard(op, func() { h.c.ClearURNs() })
		m.URNs = nil
	case "urns.set-modifier":
		desc += " " + urnTexts(us)
		ok = h.guard(op, func() { h.applyMod(modifiers.NewURNs(toURNs(us), modifiers.URNsSet)) })
		m.URNs = nil
		for _, u := range us {
			if n, valid := normURN(u); valid {
				m.mirrorAddURN(n)
			}
		}
	case "urns.append-modifier", "urns.add":
		desc += " " + urnTexts(us)
		if op == "urns.add" {
			ok = h.guard(op, func() {
				for _, u := range us {
					h.c.AddURN(urns.URN(u.Scheme+":"+u.Path), nil)
				}
			})
			for _, u := range us {
				m.mirrorAddURN(u) // AddURN takes the URN as it is
			}
		} else {
			ok = h.guard(op, func() { h.applyMod(modifiers.NewURNs(toURNs(us), modifiers.URNsAppend)) })
			for _, u := range us {
				if n, valid := normURN(u); valid {
					m.mirrorAddURN(n)
				}
			}
		}
	case "urns.remove-modifier", "urns.remove":
		desc += " " + urnTexts(us)
		if op == "urns.remove" {
			ok = h.guard(op, func() {
				for _, u := range us {
					h.c.RemoveURN(urns.URN(u.Scheme + ":" + u.Path))
				}
			})
		} else {
			ok = h.guard(op, func() { h.applyMod(modifiers.NewURNs(toURNs(us), modifiers.URNsRemove)) })
		}
		for _, u := range us {
			if n, valid := normURN(u); valid {
				m.mirrorRemoveURN(n)
			}
		}
	case "name.set", "name.modifier":
		desc += " " + strconv.Quote(val)
		if op == "name.set" {
			ok = h.guard(op, func() { h.c.SetName(val) })
		} else {
			ok = h.guard(op, func() { h.applyMod(modifiers.NewName(val)) })
		}
		m.Name = val
	case "language.set", "language.modifier":
		desc += " " + strconv.Quote(val)
		if op == "language.set" {
			ok = h.guard(op, func() { h.c.SetLanguage(i18n.Language(val)) })
		} else {
			ok = h.guard(op, func() { h.applyMod(modifiers.NewLanguage(i18n.Language(val))) })
		}
		m.Language = val
	case "field.modifier":
		desc += " " + key + "=" + strconv.Quote(val)
		ok = h.guard(op, func() { h.applyMod(modifiers.NewField(h.sa.Fields().Get(key), val)) })
		if val == "" {
			delete(m.Fields, key)
		} else {
			fv := fieldVal{Text: val}
			if d, err := decimal.NewFromString(val); err == nil && isPlainNumber(val) {
				fv.Num = &d
			}
			if pt, err := time.Parse(time.RFC3339Nano, val); err == nil {
				fv.Time = &pt
			}
			m.Fields[key] = fv
		}
	case "ticket.close":
		ok = h.guard(op, func() { h.c.SetTicket(nil) })
		m.Ticket = false
	case "ticket.open":
		ok = h.guard(op, func() { h.c.SetTicket(h.ticket) })
		m.Ticket = true
	case "last_seen_on.set":
		desc += " " + t.Format(time.RFC3339Nano)
		ok = h.guard(op, func() { h.c.SetLastSeenOn(t) })
		tt := t
		m.LastSeenOn = &tt
	default:
		panic("p14: unknown history step " + op)
	}
	h.steps = append(h.steps, desc)
	h.k.res.Count("history.steps", 1)
	h.k.res.Count("history.op."+op, 1)
	if strings.HasPrefix(op, "urns.") {
		h.k.res.Count("history.urn_steps_after_evaluation", 1)
		if hadURNs && len(m.URNs) == 0 {
			h.k.res.Count("history.all_urns_removed_after_evaluation", 1)
			h.k.res.Count("history.all_urns_removed_after_evaluation.by."+op, 1)
		}
	}
	return ok
}

func isPlainNumber(s string) bool {
	if s == "" {
		return false
	}
	digits := 0
	for i, c := range s {
		switch {
		case c >= '0' && c <= '9':
			digits++
		case c == '-' && i == 0:
		case c == '.':
		default:
			return false
		}
	}
	return digits > 0 && strings.Count(s, ".") <= 1 && !strings.HasSuffix(s, ".") && !strings.HasPrefix(strings.TrimPrefix(s, "-"), ".")
}

// genStep draws one change.
func (h *hist15) genStep() bool {
	r := h.r
	m := h.k.model
	pool := histURNPool()
	pickURNs := func(n int) []urnVal {
		p := append([]urnVal{}, pool...)
		fw.Shuffle(r, p)
		return p[:n]
	}
	switch r.Weighted([]int{9, 9, 8, 14, 10, 4, 8, 6, 18, 6, 5}) {
	case 0:
		return h.step("urns.clear", nil, "", "", time.Time{})
	case 1:
		return h.step("urns.set-modifier", []urnVal{}, "", "", time.Time{})
	case 2:
		return h.step("urns.set-modifier", pickURNs(r.Range(1, 3)), "", "", time.Time{})
	case 3:
		return h.step(fw.Pick(r, []string{"urns.append-modifier", "urns.add"}), pickURNs(r.Range(1, 2)), "", "", time.Time{})
	case 4:
		us := pickURNs(1)
		if len(m.URNs) > 0 && r.Chance(0.75) {
			us = []urnVal{fw.Pick(r, m.URNs)}
		}
		return h.step(fw.Pick(r, []string{"urns.remove-modifier", "urns.remove"}), us, "", "", time.Time{})
	case 5:
		// all of them, one by one
		us := append([]urnVal{}, m.URNs...)
		fw.Shuffle(r, us)
		return h.step(fw.Pick(r, []string{"urns.remove-modifier", "urns.remove"}), us, "", "", time.Time{})
	case 6:
		v := fw.Pick(r, contactNames)
		if r.Chance(0.2) {
			v = ""
		}
		return h.step(fw.Pick(r, []string{"name.set", "name.modifier"}), nil, "", v, time.Time{})
	case 7:
		return h.step(fw.Pick(r, []string{"language.set", "language.modifier"}), nil, "", fw.Pick(r, []string{"eng", "fra", "spa", "kin", ""}), time.Time{})
	case 8:
		f := fw.Pick(r, fieldKeysOfType(assets.FieldTypeText, assets.FieldTypeNumber, assets.FieldTypeDatetime))
		var v string
		switch {
		case r.Chance(0.3):
			v = ""
		case fieldType(f) == assets.FieldTypeText:
			v = fw.Pick(r, []string{"Male", "female", "x y", "O'Brien", "日本語", "Bob Smith", "eng", "+12065551212", "(x)", "ça va"})
		case fieldType(f) == assets.FieldTypeNumber:
			v = fw.Pick(r, []string{"0", "1", "-1", "36.5", "10.50", "0.000001", "1000000", "-273.15", "39", "12345", "0.3333334", "n/a"})
		default:
			y, mo, d := m.CreatedOn.In(h.k.loc).Date()
			v = boundaryInstant(r, h.k.loc, y, int(mo), d).Truncate(time.Microsecond).UTC().Format(time.RFC3339Nano)
		}
		return h.step("field.modifier", nil, f, v, time.Time{})
	case 9:
		if m.Ticket {
			return h.step("ticket.close", nil, "", "", time.Time{})
		}
		return h.step("ticket.open", nil, "", "", time.Time{})
	default:
		y, mo, d := m.CreatedOn.In(h.k.loc).Date()
		return h.step("last_seen_on.set", nil, "", "", boundaryInstant(r, h.k.loc, y, int(mo), d))
	}
}

// ---------------------------------------------------------------------------------------
// observation

func (h *hist15) witness(t target, extra map[string]any) map[string]any {
	w := h.k.witness(t, extra)
	w["history"] = append([]string{}, h.steps...)
	w["initial_contact"] = h.init
	return w
}

func (h *hist15) reread() *flows.Contact {
	var out *flows.Contact
	func() {
		defer func() {
			if rec := recover(); rec != nil {
				out = nil
			}
		}()
		b, err := json.Marshal(h.c)
		if err != nil {
			return
		}
		c, err := flows.ReadContact(h.sa, b, assets.PanicOnMissing)
		if err == nil {
			out = c
		}
	}()
	return out
}

// observe evaluates the contact object as it is now. false ends the history.
func (h *hist15) observe() bool {
	k := h.k
	if where := h.mirrorMatches(); where != "" {
		k.res.Count("outside_statement.history_mutator_result_differs_from_mirror", 1)
		last := "reading"
		if len(h.steps) > 0 {
			last = strings.Fields(h.steps[len(h.steps)-1])[0]
		}
		k.res.Seen("outside_statement.history_mirror_mismatch", where+" after "+last)
		return false
	}
	h.nobs++
	k.res.Count("history.observations", 1)
	obj := target{name: "contact", q: h.c, res: h.res}

	// presence, the statement's clause, on the object with this history
	pv, ph := k.res.Counters["presence.violated"], k.res.Counters["presence.held"]
	h.presence(obj)
	if k.res.Counters["presence.violated"] == pv && h.nobs > 1 {
		k.res.Count("history.presence.held_after_change", k.res.Counters["presence.held"]-ph)
	}

	// same state, same answers
	h.aim()
	others := []target{{name: "model", q: modelQueryable{k.model}, res: h.res}}
	var clone *flows.Contact
	func() {
		defer func() { recover() }()
		clone = h.c.Clone()
	}()
	if clone != nil {
		others = append(others, target{name: "clone", q: clone, res: h.res})
	}
	if rr := h.reread(); rr != nil {
		others = append(others, target{name: "reread", q: rr, res: h.res})
	} else {
		k.res.Count("outside_statement.history_contact_json_not_readable", 1)
	}
	var leaves []*evLeaf
	for _, p := range h.probes {
		if p.rejected {
			continue
		}
		if p.q == nil {
			pr := parse(cfg{env: k.env, res: h.res}, p.text)
			if pr.pan != nil || pr.err != nil {
				p.rejected = true
				k.res.Count("history.probes_not_admitted", 1)
				continue
			}
			p.q = pr.q
		}
		got, ok := k.evalParsed(obj, p.q, p.text)
		if !ok {
			continue
		}
		leaves = append(leaves, &evLeaf{n: cond(p.pt, p.key, p.op, p.val), text: p.text, val: got})
		agreed := true
		for _, o := range others {
			want, ok := k.evalParsed(o, p.q, p.text)
			if !ok {
				continue
			}
			if want == got {
				k.res.Count("history.same_state_same_result.held."+o.name, 1)
				continue
			}
			agreed = false
			k.res.Count("history.violated", 1)
			vals, _ := k.model.refValues(p.pt, p.key, false)
			sig := "history|result-depends-on-earlier-evaluations-or-changes|" + p.pt
			what := fmt.Sprintf("after %d changes, %s = %v on the contact object but %v on %s", len(h.steps), p.text, got, want, map[string]string{
				"model": "a Queryable holding the same values", "clone": "its Clone()", "reread": "the contact re-read from its own JSON"}[o.name])
			k.res.Violate(sig, what, h.witness(obj, map[string]any{"query": p.text, "on_object": got, "on_" + o.name: want, "differs_from": o.name,
				"values_of_property_now": fmt.Sprint(vals)}))
			break
		}
		if agreed {
			k.nt = true
			k.res.Count("history.same_state_same_result.held", 1)
			if p.last != nil && *p.last != got {
				k.res.Count("history.same_state_same_result.held.result_changed_by_the_step", 1)
			}
		}
		g := got
		p.last = &g
	}

	// compositions over the probes, on the object with this history
	if len(leaves) >= 2 && h.nobs > 1 {
		for i := 0; i < 3; i++ {
			ct := k.genCTree(h.r, leaves, h.r.Range(1, 2))
			if ct.leaf != nil {
				continue
			}
			before := k.res.Counters["compose.violated"]
			if _, ok := k.checkCompose(h.r, obj, ct); ok && k.res.Counters["compose.violated"] == before {
				k.res.Count("history.compose.held_after_change", 1)
			}
		}
	}
	return true
}

// presence of every property the mirror knows about, on the object.
func (h *hist15) presence(t target) {
	k := h.k
	for _, a := range []string{"name", "language", "urn", "last_seen_on"} {
		k.checkPresence(t, "attr", a)
	}
	schemes := map[string]bool{"tel": true, "twitter": true}
	for _, u := range h.init.URNs {
		schemes[u.Scheme] = true
	}
	for _, u := range k.model.URNs {
		schemes[u.Scheme] = true
	}
	for _, p := range h.probes {
		if p.pt == "urn" {
			schemes[p.key] = true
		}
	}
	for _, s := range schemeNames { // fixed order
		if schemes[s] {
			k.checkPresence(t, "urn", s)
		}
	}
	for _, f := range fieldSpecs {
		k.checkPresence(t, "field", f.Key)
	}
}

// ---------------------------------------------------------------------------------------
// entry points

// runHistory: a generated history on the contact object the other clauses have already evaluated.
func (k *chk15) runHistory(r *fw.Rand, t target) {
	c, isContact := t.q.(*flows.Contact)
	if !isContact {
		return
	}
	saved := k.model
	k.model = cloneModel(saved)
	defer func() { k.model = saved }()
	h := newHist(k, r, c, t.res)
	k.res.Count("history.cases", 1)
	if !h.observe() {
		return
	}
	n := r.Range(3, 6)
	for i := 0; i < n; i++ {
		if !h.genStep() || !h.observe() {
			break
		}
	}
	k.fps = append(k.fps, "history:"+strings.Join(h.steps, ";"))
}

type dstep struct {
	op       string
	us       []urnVal
	key, val string
	t        time.Time
}

func (k *chk15) directedHistory(name string) {
	r := fw.NewRand(0, "C15/"+name, 0)
	var scripts [][]dstep
	var specs []envSpec
	none := []urnVal{}
	switch name {
	case "history-urns":
		// every way of changing the URN list of a contact that has been evaluated, ending with no URNs in
		// each of the ways there are (ClearURNs, 'set' modifier with no URNs, removing the last one)
		a, b, c := histExtraURNs[0], histExtraURNs[1], histExtraURNs[3]
		scripts = [][]dstep{
			{{op: "urns.clear"}, {op: "urns.add", us: []urnVal{a}}, {op: "urns.set-modifier", us: none}, {op: "urns.append-modifier", us: []urnVal{b, c}},
				{op: "urns.remove-modifier", us: []urnVal{b}}, {op: "urns.remove", us: []urnVal{c}}, {op: "urns.set-modifier", us: []urnVal{a, b}}, {op: "urns.clear"}},
			{{op: "urns.set-modifier", us: none}, {op: "urns.set-modifier", us: []urnVal{c, a}}, {op: "urns.remove", us: []urnVal{c, a}}, {op: "urns.add", us: []urnVal{b}},
				{op: "urns.set-modifier", us: none}},
			{{op: "urns.remove-modifier", us: []urnVal{{"tel", "+12065551212"}}}, {op: "urns.remove", us: []urnVal{{"tel", "+12065551313"}}}, {op: "urns.append-modifier", us: []urnVal{c}},
				{op: "urns.clear"}, {op: "urns.clear"}, {op: "urns.append-modifier", us: []urnVal{{"twitter", "ewok"}}}},
		}
		specs = []envSpec{{Zone: "UTC", DateFmt: envs.DateFormatYearMonthDay}, {Zone: "Africa/Kigali", DateFmt: envs.DateFormatDayMonthYear, Redact: true}}
	case "history-values":
		seen := time.Date(2021, 6, 15, 23, 59, 59, 999999000, loadZone("America/Guayaquil"))
		scripts = [][]dstep{
			{{op: "name.set", val: ""}, {op: "name.modifier", val: "Bob Smith"}, {op: "language.modifier", val: ""}, {op: "language.set", val: "fra"},
				{op: "field.modifier", key: "gender", val: ""}, {op: "field.modifier", key: "age", val: "40.5"}, {op: "field.modifier", key: "age", val: ""},
				{op: "field.modifier", key: "joined", val: ""}, {op: "field.modifier", key: "dob", val: "1990-02-28T23:30:00Z"}, {op: "field.modifier", key: "nickname", val: "ewok"},
				{op: "ticket.close"}, {op: "ticket.open"}, {op: "last_seen_on.set", t: seen}, {op: "field.modifier", key: "score", val: "n/a"}},
		}
		specs = []envSpec{{Zone: "America/Guayaquil", DateFmt: envs.DateFormatYearMonthDay}}
	}
	for _, spec := range specs {
		for _, sc := range scripts {
			ts := k.setup(spec, baseContact(loadZone(spec.Zone)))
			if ts == nil {
				return
			}
			c := ts[0].q.(*flows.Contact)
			saved := k.model
			k.model = cloneModel(saved)
			h := newHist(k, r, c, ts[0].res)
			k.res.Count("history.cases", 1)
			ok := h.observe()
			for _, s := range sc {
				if !ok {
					break
				}
				ok = h.step(s.op, s.us, s.key, s.val, s.t) && h.observe()
			}
			if !ok {
				k.res.Inconclusive = name + ": a scripted history could not be followed: " + strings.Join(h.steps, ";")
			}
			k.fps = append(k.fps, strings.Join(h.steps, ";"))
			k.model = saved
		}
	}
}
