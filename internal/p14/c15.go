package p14

import (
	"fmt"
	"runtime/debug"
	"strconv"
	"strings"
	"time"

	"github.com/nyaruka/gocommon/dates"
	"github.com/nyaruka/goflow/assets"
	"github.com/nyaruka/goflow/contactql"
	"github.com/nyaruka/goflow/envs"
	"github.com/nyaruka/goflow/flows"
	"github.com/shopspring/decimal"

	"verif/internal/fw"
	"verif/internal/gen"
)

// C15 — contact query evaluation is total and logically consistent.
//
// Oracle clauses (every EvaluateQuery call runs under recover: a panic is a violation):
//
//	compose     eval("(a) AND (b) …") = ∧ eval(a), eval(b) …; same for OR; n-ary, nested, every
//	            sub-query evaluated through its own text
//	simplify    eval(parse(Stringify(t))) = eval(parse(Stringify(t.Simplify())))
//	presence    eval(p = "") ⇔ p has no value; eval(p != "") ⇔ p has a value
//	trichotomy  number/date property with a value: exactly one of <, =, > holds; <= and >= are the
//	            unions; != is the negation of =
//	dateref     date comparisons = comparison of calendar days (value.In(env zone).Date() vs the
//	            query day)

type c15 struct{}

func init() { fw.Register(&c15{}) }

func (p *c15) ID() string { return "C15" }
func (p *c15) Rule() string {
	return "a generated case = one environment (10 zones incl. DST and half-hour zones, 3 date formats, both redaction policies) + one contact model built around an anchor day (35% on a day whose local length is not 24 h; datetime values on 00:00, 00:00:00.000001, 23:59:59.999999(999), +-30 min around midnight in the environment zone; numbers on boundaries and (25%) numbers with 7-18 decimal places or beyond float64 precision; 0-3 URNs; ~30% of fields without value; the 15 fields include six whose key is also an attribute name or a URN scheme — text name/language/tel, number tickets/urn, datetime created_on — with values from the attribute's own pool) materialised twice: through static assets + engine session assets + flows.ReadContact, and as a hand-written Queryable. Per target: ~12 leaf conditions aimed at the contact (every attribute, scheme, field type and admissible operator), random AND/OR trees over them (2-4 children, depth <= 3), programmatic trees for Simplify, 6 pairs of conditions that share key, operator and value but not the property type (fields.language vs language, fields.tel vs tel, …; values = the value of either property) composed in one AND/OR group in both orders, nested in a same-operator group and next to a third condition, presence checks for every property, and all six comparators against ~10 query values for every typed value: the value itself (two spellings), 5 values that differ from it only beyond the 6th-18th decimal place / by rounding or truncating to 0-15 places / by a float64 or float32 detour / by one unit in the 7th-19th significant digit, and 3 distant values. Then a history on the real contact object that has just been evaluated: 3-6 changes through the contact's methods and the modifiers (URNs cleared / set to nothing / set / appended / removed one by one or all, name, language, text-number-datetime fields set and cleared, ticket, last_seen_on), each applied to the harness' model as well; after every change presence of every property, ~50 probe conditions aimed at the present and the earlier values (same result on the object, its Clone(), the contact re-read from its JSON and a Queryable over the model) and 3 compositions. Non-trivial = the case evaluated a combination or a typed comparison on a present value (always true when anything parsed); distinct = distinct (environment, contact, query list)."
}
func (p *c15) Directed() []string {
	return []string{"day-boundaries", "dst-day-length", "number-boundaries", "presence-all", "compose-basic", "colliding-keys", "number-precision", "history-urns", "history-values"}
}
func (p *c15) NumGenerated(tier string) int {
	if tier == "thorough" {
		return 40000
	}
	return 400
}
func (p *c15) BatchSize(tier string) int {
	if tier == "thorough" {
		return 500
	}
	return 25
}
func (p *c15) CaseTimeoutS() int { return 60 }
func (p *c15) Floors(tier string) []string {
	return []string{
		"eval.calls.contact", "eval.calls.hand",
		"compose.and.held", "compose.or.held", "compose.nested.held", "compose.and.held.false", "compose.or.held.true",
		"simplify.held",
		"presence.held.absent", "presence.held.present", "presence.held.contact", "presence.held.hand",
		"trichotomy.number.held", "trichotomy.date.held", "trichotomy.number.equal_case", "trichotomy.date.equal_case",
		"dateref.held", "dateref.held.boundary_instant", "dateref.held.zone_matters",
		"compose.twins.held", "compose.twins.held.differing_results", "twins.pairs_with_differing_results",
		"trichotomy.number.held.near_query_value", "trichotomy.number.held.equal_query_value",
		"colliding.single_conditions_evaluated",
		"history.observations", "history.all_urns_removed_after_evaluation", "history.all_urns_removed_after_evaluation.by.urns.clear",
		"history.all_urns_removed_after_evaluation.by.urns.set-modifier", "history.presence.held_after_change",
		"history.same_state_same_result.held", "history.same_state_same_result.held.clone", "history.same_state_same_result.held.reread",
		"history.same_state_same_result.held.model", "history.same_state_same_result.held.result_changed_by_the_step",
	}
}

// ---------------------------------------------------------------------------------------

type target struct {
	name string
	q    contactql.Queryable
	res  contactql.Resolver
	hand bool
}

type chk15 struct {
	res   *fw.Result
	spec  envSpec
	env   envs.Environment
	loc   *time.Location
	model *contactModel
	fps   []string
	nt    bool
}

// eval parses text against the target's resolver and evaluates it. ok=false: rejected by the
// parser (not a verdict) or panicked (a verdict, already recorded).
func (k *chk15) eval(t target, text string) (result, ok bool) {
	p := parse(cfg{env: k.env, res: t.res}, text)
	if p.pan != nil {
		k.res.Count("outside_statement.parse_panics", 1)
		k.res.Seen("outside_statement.parse_panic", fw.PanicSignature("ParseQuery", p.pan, p.stack))
		return false, false
	}
	if p.err != nil {
		code := "other"
		if is, qe := contactql.IsQueryError(p.err); is {
			code = qe.(*contactql.QueryError).Code()
		}
		k.res.Count("parse.rejected."+code, 1)
		return false, false
	}
	return k.evalParsed(t, p.q, text)
}

func (k *chk15) evalParsed(t target, q *contactql.ContactQuery, text string) (result, ok bool) {
	fw.SetDetail("EvaluateQuery " + trunc(text, 200))
	k.res.Count("eval.calls."+t.name, 1)
	defer func() {
		if rec := recover(); rec != nil {
			st := string(debug.Stack())
			k.res.Count("eval.panics", 1)
			sig := fw.PanicSignature("EvaluateQuery", rec, st)
			// the evaluator's own "can't query <type> fields with <operator>" panics: the validator admitted
			// an operator for a property type the evaluator has no comparison for
			if msg := fmt.Sprint(rec); strings.HasPrefix(msg, "can't query ") {
				typ := "text"
				if strings.Contains(msg, "number fields") {
					typ = "number"
				} else if strings.Contains(msg, "date fields") {
					typ = "date"
				}
				sig = "panic|EvaluateQuery|operator-admitted-by-validator-has-no-" + typ + "-comparison"
			}
			k.res.Violate(sig, fmt.Sprintf("EvaluateQuery panicked on %s: %v", trunc(text, 160), rec),
				map[string]any{"query": text, "target": t.name, "env": k.spec.String(), "contact": k.model, "panic": fmt.Sprint(rec), "stack": fw.TrimStack(st)})
			result, ok = false, false
		}
	}()
	return contactql.EvaluateQuery(k.env, q, t.q), true
}

func (k *chk15) witness(t target, extra map[string]any) map[string]any {
	w := map[string]any{"target": t.name, "env": k.spec.String(), "contact": k.model}
	for key, v := range extra {
		w[key] = v
	}
	return w
}

// condText is the explicit text of one condition (harness printer; values always quoted with
// strconv.Quote unless they are plain words).
func condText(r *fw.Rand, n *node) string { return renderCond(r, n) }

// noTrailingBackslash keeps C14's known lexer defect out of C15's texts.
func noTrailingBackslash(s string) string {
	if strings.HasSuffix(s, `\`) {
		return s + "x"
	}
	return s
}

// ---------------------------------------------------------------------------------------
// leaf conditions aimed at the contact

type leafGen struct {
	r    *fw.Rand
	k    *chk15
	hand bool
}

func (g *leafGen) day() (int, int, int) {
	r := g.r
	m := g.k.model
	var base time.Time
	cands := []time.Time{m.CreatedOn}
	if m.LastSeenOn != nil {
		cands = append(cands, *m.LastSeenOn)
	}
	for _, f := range fieldSpecs {
		if v, ok := m.Fields[f.Key]; ok && v.Time != nil {
			cands = append(cands, *v.Time)
		}
	}
	base = fw.Pick(r, cands).In(g.k.loc)
	y, mo, d := base.Date()
	t := time.Date(y, mo, d+fw.Pick(r, []int{0, 0, 0, -1, 1, -2, 2, 30, -365}), 12, 0, 0, 0, time.UTC)
	return t.Year(), int(t.Month()), t.Day()
}

func (g *leafGen) dayText(y, mo, d int) string {
	r := g.r
	switch r.Intn(5) {
	case 0, 1:
		return fmt.Sprintf("%04d-%02d-%02d", y, mo, d)
	case 2, 3:
		return renderDay(g.k.spec.DateFmt, y, mo, d, fw.Pick(r, []string{"-", "/", "."}))
	default:
		return renderDay(g.k.spec.DateFmt, y, mo, d, "-") + " " + fw.Pick(r, []string{"12:00", "10:30", "13:45"})
	}
}

var sixOps = []string{"=", "!=", ">", ">=", "<", "<="}

func (g *leafGen) leaf() *node {
	r := g.r
	m := g.k.model
	eqne := func() string { return fw.Pick(r, []string{"=", "=", "!="}) }
	pickText := func(own []string, other ...string) string {
		if len(own) > 0 && r.Chance(0.55) {
			v := fw.Pick(r, own)
			switch r.Intn(4) {
			case 0:
				return strings.ToUpper(v)
			case 1:
				return " " + v + " "
			}
			return v
		}
		if r.Chance(0.15) {
			return ""
		}
		return noTrailingBackslash(fw.Pick(r, append(other, "zzz", "Bob", "x y", `a"b`, "(x)", "OR")))
	}
	for {
		switch r.Weighted([]int{14, 6, 8, 12, 14, 12, 12, 6, 8, 8, 12}) {
		case 10:
			// any operator on any property with any kind of value: mostly rejected by the validator
			// (counted, not judged); whatever it lets through must still evaluate without panicking
			pt, key := "attr", fw.Pick(r, attrNames)
			switch r.Intn(3) {
			case 0:
				pt, key = "field", fw.Pick(r, fieldSpecs).Key
			case 1:
				pt, key = "urn", fw.Pick(r, schemeNames)
			}
			y, mo, d := g.day()
			val := fw.Pick(r, []string{"", "x", "Bob", "abc", "1", "0.5", "-1", "1e3", "eng", "active", "Testers", "Registration", g.dayText(y, mo, d), "2020-02-30", "12", "ab", "+12065551212", "日本語", "a b"})
			g.k.res.Count("leaf.unrestricted_attempts", 1)
			return cond(pt, key, fw.Pick(r, []string{"=", "!=", "~", ">", ">=", "<", "<="}), val)
		case 0: // name
			own := []string{}
			if m.Name != "" {
				own = append(own, m.Name)
			}
			if r.Chance(0.35) {
				toks := strings.FieldsFunc(m.Name+" bob smith", func(c rune) bool { return c == ' ' || c == '-' || c == '"' || c == '(' || c == ')' })
				tok := fw.Pick(r, toks)
				if len([]rune(tok)) > 3 && r.Bool() {
					tok = string([]rune(tok)[:3])
				}
				return cond("attr", "name", "~", noTrailingBackslash(tok))
			}
			return cond("attr", "name", eqne(), pickText(own, contactNames...))
		case 1: // language
			return cond("attr", "language", eqne(), fw.Pick(r, []string{"eng", "fra", "spa", "kin", "ENG", ""}))
		case 2: // urn attribute
			if g.k.spec.Redact {
				return cond("attr", "urn", eqne(), "")
			}
			var own []string
			for _, u := range m.URNs {
				own = append(own, u.Path)
			}
			if r.Chance(0.3) {
				v := fw.Pick(r, append(own, "+12065551212", "nobody"))
				if len(v) > 5 {
					v = v[2:6]
				}
				return cond("attr", "urn", "~", v)
			}
			return cond("attr", "urn", eqne(), pickText(own, "+12065551212", "ewok"))
		case 3: // URN scheme
			s := fw.Pick(r, []string{"tel", "tel", "twitter", "mailto", "whatsapp", "facebook", "telegram", "ext", "viber", "line", "fcm"})
			if r.Chance(0.2) {
				s = fw.Pick(r, schemeNames)
			}
			if g.k.spec.Redact {
				return cond("urn", s, eqne(), "")
			}
			var own []string
			for _, u := range m.URNs {
				if u.Scheme == s {
					own = append(own, u.Path)
				}
			}
			if r.Chance(0.25) {
				v := fw.Pick(r, append(own, "+12065551212", "nobody"))
				if len(v) > 5 {
					v = v[1:5]
				}
				return cond("urn", s, "~", v)
			}
			return cond("urn", s, eqne(), pickText(own, "+12065551212", "+12065551313", "ewok"))
		case 4: // text and location fields
			key := fw.Pick(r, fieldKeysOfType(assets.FieldTypeText, assets.FieldTypeState, assets.FieldTypeDistrict, assets.FieldTypeWard))
			var own []string
			if v, ok := m.Fields[key]; ok {
				if tv, present, _ := typedFieldValue(key, v); present {
					own = append(own, tv.(string))
				}
			}
			return cond("field", key, eqne(), pickText(own, "Male", "Kigali", "Gasabo", "Ndera"))
		case 5: // numbers
			key, pt := "tickets", "attr"
			if r.Chance(0.75) {
				key, pt = fw.Pick(r, fieldKeysOfType(assets.FieldTypeNumber)), "field"
			}
			if r.Chance(0.12) {
				if pt == "attr" {
					continue
				}
				return cond(pt, key, eqne(), "")
			}
			val := fw.Pick(r, boundaryNumbers)
			if vals, _ := m.refValues(pt, key, g.hand); len(vals) > 0 && r.Chance(0.6) {
				d := vals[0].(decimal.Decimal)
				val = fw.Pick(r, []string{d.String(), d.Add(decimal.New(1, 0)).String(), d.Sub(decimal.New(1, -6)).String(), d.StringFixed(3)})
			}
			return cond(pt, key, fw.Pick(r, sixOps), val)
		case 6: // dates
			key, pt := fw.Pick(r, []string{"created_on", "last_seen_on"}), "attr"
			if r.Chance(0.6) {
				key, pt = fw.Pick(r, fieldKeysOfType(assets.FieldTypeDatetime)), "field"
			}
			if r.Chance(0.12) && key != "created_on" {
				return cond(pt, key, eqne(), "")
			}
			y, mo, d := g.day()
			return cond(pt, key, fw.Pick(r, sixOps), g.dayText(y, mo, d))
		case 7: // uuid, id, status
			switch r.Intn(3) {
			case 0:
				return cond("attr", "uuid", eqne(), fw.Pick(r, []string{m.UUID, strings.ToUpper(m.UUID), "5d76d86b-3bb9-4d5a-b822-c9d86f5d8e4f", "xyz"}))
			case 1:
				return cond("attr", "id", eqne(), fw.Pick(r, []string{strconv.Itoa(m.ID), "1", "99999"}))
			default:
				return cond("attr", "status", eqne(), fw.Pick(r, []string{"active", "blocked", "ACTIVE", "archived"}))
			}
		case 8: // group, flow, history
			switch r.Intn(3) {
			case 0:
				return cond("attr", "group", eqne(), fw.Pick(r, append([]string{"testers", ""}, groupNames...)))
			case 1:
				return cond("attr", "flow", eqne(), fw.Pick(r, append([]string{"registration", ""}, flowNames...)))
			default:
				return cond("attr", "history", eqne(), fw.Pick(r, append([]string{""}, flowNames...)))
			}
		default: // presence of anything
			switch r.Intn(3) {
			case 0:
				return cond("field", fw.Pick(r, fieldSpecs).Key, eqne(), "")
			case 1:
				return cond("urn", fw.Pick(r, schemeNames), eqne(), "")
			default:
				return cond("attr", fw.Pick(r, []string{"name", "language", "urn", "last_seen_on"}), eqne(), "")
			}
		}
	}
}

// ---------------------------------------------------------------------------------------
// conditions that differ only in the property type

// twins lists pairs of conditions with the same key, operator and value, one on the field and
// one on the attribute / URN scheme of that name. Values are aimed at the contact: the value of
// either property, so that on most contacts exactly one of the two holds.
func (g *leafGen) twins() [][2]*node {
	m := g.k.model
	redact := g.k.spec.Redact
	var out [][2]*node
	add := func(pt2, key, op, val string) {
		out = append(out, [2]*node{cond("field", key, op, val), cond(pt2, key, op, val)})
	}
	own := func(pt, key string) []any {
		v, _ := m.refValues(pt, key, g.hand)
		return v
	}
	texts := func(vs ...[]any) []string {
		var o []string
		for _, l := range vs {
			for _, v := range l {
				if sv, ok := v.(string); ok && sv != "" {
					o = append(o, noTrailingBackslash(sv))
				}
			}
		}
		return o
	}
	eqne := []string{"=", "!="}
	// name
	for _, v := range append(texts(own("attr", "name"), own("field", "name")), "zzz", "") {
		for _, op := range eqne {
			add("attr", "name", op, v)
		}
		if toks := strings.Fields(v); len(toks) > 0 && len(toks[0]) >= 2 && !strings.ContainsAny(toks[0], `"\()`) {
			add("attr", "name", "~", toks[0])
		}
	}
	// language
	for _, v := range append(texts(own("attr", "language"), own("field", "language")), "kin", "") {
		for _, op := range eqne {
			add("attr", "language", op, v)
		}
	}
	// tel: the field against the scheme
	telVals := []string{""}
	if !redact {
		telVals = append(telVals, texts(own("urn", "tel"), own("field", "tel"))...)
		telVals = append(telVals, "+12065550000")
	}
	for _, v := range telVals {
		for _, op := range eqne {
			add("urn", "tel", op, v)
		}
	}
	// tickets and the number field "urn" (the attribute urn is text: only = and != are shared)
	nums := func(vs ...[]any) []string {
		var o []string
		for _, l := range vs {
			for _, v := range l {
				switch tv := v.(type) {
				case decimal.Decimal:
					o = append(o, tv.String())
				case string:
					if _, err := decimal.NewFromString(tv); err == nil {
						o = append(o, tv)
					}
				}
			}
		}
		return o
	}
	for _, v := range append(nums(own("attr", "tickets"), own("field", "tickets")), "1") {
		for _, op := range sixOps {
			add("attr", "tickets", op, v)
		}
	}
	if !redact {
		for _, v := range append(nums(own("attr", "urn"), own("field", "urn")), "12345") {
			for _, op := range eqne {
				add("attr", "urn", op, v)
			}
		}
	}
	// created_on
	for _, l := range [][]any{own("attr", "created_on"), own("field", "created_on")} {
		for _, v := range l {
			if tv, ok := v.(time.Time); ok {
				y, mo, d := tv.In(g.k.loc).Date()
				for _, op := range sixOps {
					add("attr", "created_on", op, fmt.Sprintf("%04d-%02d-%02d", y, int(mo), d))
				}
			}
		}
	}
	return out
}

// checkTwins composes each pair in one AND / OR group, in both orders, directly and through a
// nested group of the same operator (which simplification flattens into the outer one), with and
// without a third condition, and as programmatic trees.
func (k *chk15) checkTwins(r *fw.Rand, t target, pairs [][2]*node, others []*evLeaf, perPair int) {
	mk := func(n *node) *evLeaf {
		text := condText(r, n)
		v, ok := k.eval(t, text)
		if !ok {
			return nil
		}
		return &evLeaf{n: n, text: text, val: v}
	}
	L := func(l *evLeaf) *ctree { return &ctree{leaf: l} }
	for _, pr := range pairs {
		a, b := mk(pr[0]), mk(pr[1])
		if a == nil || b == nil {
			k.res.Count("twins.not_evaluable", 1)
			continue
		}
		k.res.Count("twins.pairs", 1)
		k.res.Seen("twins.kinds", pr[1].PT+":"+pr[1].Key+" "+pr[1].Cmp)
		differ := a.val != b.val
		if differ {
			k.res.Count("twins.pairs_with_differing_results", 1)
		}
		var c *evLeaf
		if len(others) > 0 {
			c = fw.Pick(r, others)
		}
		var shapes []*ctree
		for _, op := range []string{"and", "or"} {
			shapes = append(shapes,
				&ctree{op: op, kids: []*ctree{L(a), L(b)}},
				&ctree{op: op, kids: []*ctree{L(b), L(a)}},
				&ctree{op: op, kids: []*ctree{L(a), {op: op, kids: []*ctree{L(b), L(a)}}}},
			)
			if c != nil {
				shapes = append(shapes,
					&ctree{op: op, kids: []*ctree{L(a), L(c), L(b)}},
					&ctree{op: op, kids: []*ctree{L(a), {op: op, kids: []*ctree{L(c), L(b)}}}},
					&ctree{op: op, kids: []*ctree{{op: op, kids: []*ctree{L(b), L(c)}}, {op: op, kids: []*ctree{L(c), L(a)}}}},
					&ctree{op: map[string]string{"and": "or", "or": "and"}[op], kids: []*ctree{L(c), {op: op, kids: []*ctree{L(b), L(a)}}}},
				)
			}
		}
		if perPair > 0 && perPair < len(shapes) {
			fw.Shuffle(r, shapes)
			shapes = shapes[:perPair]
		}
		for _, ct := range shapes {
			before := k.res.Counters["compose.violated"]
			want, ok := k.checkCompose(r, t, ct)
			if !ok {
				continue
			}
			k.checkSimplify(t, ct.toNode(), &want)
			if k.res.Counters["compose.violated"] == before {
				k.res.Count("compose.twins.held", 1)
				if differ {
					k.res.Count("compose.twins.held.differing_results", 1)
				}
			}
		}
	}
}

// ---------------------------------------------------------------------------------------
// compose

type evLeaf struct {
	n    *node
	text string
	val  bool
}

type ctree struct {
	op   string
	kids []*ctree
	leaf *evLeaf
}

func (k *chk15) genCTree(r *fw.Rand, leaves []*evLeaf, d int) *ctree {
	if d <= 0 || r.Chance(0.3) {
		return &ctree{leaf: fw.Pick(r, leaves)}
	}
	n := r.Weighted([]int{0, 0, 50, 30, 20})
	t := &ctree{op: fw.Pick(r, []string{"and", "or"})}
	for i := 0; i < n; i++ {
		t.kids = append(t.kids, k.genCTree(r, leaves, d-1))
	}
	return t
}

// text renders a composition; sub-combinations are always parenthesised so that the grouping is
// the tree's, leaves sometimes.
func (t *ctree) text(r *fw.Rand) string {
	if t.leaf != nil {
		return t.leaf.text
	}
	parts := make([]string, len(t.kids))
	for i, kd := range t.kids {
		s := kd.text(r)
		if kd.leaf == nil || r.Chance(0.3) {
			s = "(" + s + ")"
		}
		parts[i] = s
	}
	sep := " OR "
	if t.op == "and" {
		sep = fw.Pick(r, []string{" AND ", " AND ", " and ", " "})
	} else if r.Chance(0.3) {
		sep = " or "
	}
	return strings.Join(parts, sep)
}

func (t *ctree) depth() int {
	if t.leaf != nil {
		return 0
	}
	d := 0
	for _, kd := range t.kids {
		if x := kd.depth(); x > d {
			d = x
		}
	}
	return d + 1
}

func (t *ctree) toNode() *node {
	if t.leaf != nil {
		return t.leaf.n
	}
	n := &node{Op: t.op}
	for _, kd := range t.kids {
		n.Kids = append(n.Kids, kd.toNode())
	}
	return n
}

// checkCompose evaluates the node through its own text and compares with the combination of its
// children's observed results (each obtained through the child's own text).
func (k *chk15) checkCompose(r *fw.Rand, t target, ct *ctree) (val, ok bool) {
	if ct.leaf != nil {
		return ct.leaf.val, true
	}
	var kidVals []bool
	allOK := true
	for _, kd := range ct.kids {
		v, o := k.checkCompose(r, t, kd)
		if !o {
			allOK = false
		}
		kidVals = append(kidVals, v)
	}
	text := ct.text(r)
	got, ok := k.eval(t, text)
	if !ok {
		k.res.Count("compose.skipped_not_evaluable", 1)
		return false, false
	}
	if !allOK {
		return got, true
	}
	want := ct.op == "and"
	for _, v := range kidVals {
		if ct.op == "and" {
			want = want && v
		} else {
			want = want || v
		}
	}
	k.nt = true
	if got != want {
		k.res.Count("compose.violated", 1)
		var kidTexts []string
		for _, kd := range ct.kids {
			kidTexts = append(kidTexts, kd.text(r))
		}
		k.res.Violate("compose|"+ct.op+"|result-is-not-the-"+map[string]string{"and": "conjunction", "or": "disjunction"}[ct.op],
			fmt.Sprintf("eval(%s) = %v but its operands evaluate to %v", trunc(text, 200), got, kidVals),
			k.witness(t, map[string]any{"query": text, "operands": kidTexts, "operand_results": kidVals, "observed": got, "expected": want}))
		return got, true
	}
	k.res.Count("compose."+ct.op+".held", 1)
	k.res.Count(fmt.Sprintf("compose.%s.held.%v", ct.op, want), 1)
	if len(ct.kids) > 2 {
		k.res.Count("compose.nary.held", 1)
	}
	if ct.depth() >= 2 {
		k.res.Count("compose.nested.held", 1)
	}
	return got, true
}

// checkSimplify: programmatic tree through goflow's printer, before and after Simplify.
func (k *chk15) checkSimplify(t target, n *node, expected *bool) {
	q := n.toQL()
	s1, pan := stringify(q)
	if pan != nil {
		return
	}
	var s2 string
	func() {
		defer func() { recover() }()
		s2 = contactql.Stringify(q.Simplify())
	}()
	if s2 == "" {
		return
	}
	v1, ok1 := k.eval(t, s1)
	v2, ok2 := k.eval(t, s2)
	if !ok1 || !ok2 {
		k.res.Count("simplify.skipped_not_evaluable", 1)
		return
	}
	k.nt = true
	if v1 != v2 {
		k.res.Count("simplify.violated", 1)
		k.res.Violate("simplify|changes-result", fmt.Sprintf("eval(%s) = %v but eval of its simplified form (%s) = %v", trunc(s1, 160), v1, trunc(s2, 160), v2),
			k.witness(t, map[string]any{"tree": n.canon(), "text": s1, "simplified_text": s2, "result": v1, "simplified_result": v2}))
		return
	}
	k.res.Count("simplify.held", 1)
	if s1 != s2 {
		k.res.Count("simplify.held.text_changed", 1)
	}
	if expected != nil {
		if v1 != *expected {
			k.res.Count("compose.violated", 1)
			k.res.Violate("compose|programmatic|result-differs-from-operands", fmt.Sprintf("eval(%s) = %v but combining the results of its conditions gives %v", trunc(s1, 200), v1, *expected),
				k.witness(t, map[string]any{"tree": n.canon(), "text": s1, "observed": v1, "expected": *expected}))
		} else {
			k.res.Count("compose.programmatic.held", 1)
		}
	}
}

// ---------------------------------------------------------------------------------------
// presence

func (k *chk15) checkPresence(t target, pt, key string) {
	vals, known := k.model.refValues(pt, key, t.hand)
	prop := propText(pt, key)
	eq, ok1 := k.eval(t, prop+` = ""`)
	ne, ok2 := k.eval(t, prop+` != ""`)
	if !ok1 || !ok2 {
		k.res.Count("presence.not_admitted", 1)
		return
	}
	if !known {
		k.res.Count("presence.skipped_no_reference", 1)
		return
	}
	has := len(vals) > 0
	if eq != !has || ne != has {
		k.res.Count("presence.violated", 1)
		k.res.Violate("presence|"+pt+"|empty-comparison-does-not-test-presence",
			fmt.Sprintf(`%s has value: %v, but (%s = "") = %v and (%s != "") = %v`, prop, has, prop, eq, prop, ne),
			k.witness(t, map[string]any{"property": prop, "has_value": has, "reference_values": fmt.Sprint(vals), "eq_empty": eq, "ne_empty": ne}))
		return
	}
	k.res.Count("presence.held", 1)
	k.res.Count("presence.held."+t.name, 1)
	if has {
		k.res.Count("presence.held.present", 1)
	} else {
		k.res.Count("presence.held.absent", 1)
	}
	k.res.Seen("presence.properties", pt+":"+key)
}

// ---------------------------------------------------------------------------------------
// trichotomy and calendar-day reference

func (k *chk15) sixWay(t target, prop, valText string) (out [6]bool, ok bool) {
	for i, op := range sixOps {
		v, o := k.eval(t, prop+" "+op+" "+strconv.Quote(valText))
		if !o {
			return out, false
		}
		out[i] = v
	}
	return out, true
}

// consistent checks the relations between the six comparators (E NE G GE L LE as in sixOps).
func consistent(o [6]bool) string {
	e, ne, g, ge, l, le := o[0], o[1], o[2], o[3], o[4], o[5]
	n := 0
	for _, b := range []bool{l, e, g} {
		if b {
			n++
		}
	}
	switch {
	case n != 1:
		return fmt.Sprintf("not-exactly-one-of-lt-eq-gt(%d)", n)
	case le != (l || e):
		return "le-is-not-lt-or-eq"
	case ge != (g || e):
		return "ge-is-not-gt-or-eq"
	case ne != !e:
		return "ne-is-not-the-negation-of-eq"
	}
	return ""
}

func propText(pt, key string) string {
	switch pt {
	case "field":
		return "fields." + key
	case "urn":
		return "urns." + key
	}
	return key
}

// nearNumbers: query values that differ from v, but only slightly — beyond the 6th..18th decimal
// place, by what rounding or truncating v to fewer places changes, by what a detour through a
// float64 changes, and by one unit in the 15th..18th significant digit (large magnitudes). An
// equality that is coarser than the ordering (or the other way round) shows up exactly here.
func nearNumbers(v decimal.Decimal) []string {
	var out []string
	seen := map[string]bool{}
	add := func(d decimal.Decimal) {
		if d.Equal(v) {
			return
		}
		if s := d.String(); !seen[s] {
			seen[s] = true
			out = append(out, s)
		}
	}
	for _, e := range []int32{-7, -8, -9, -10, -12, -15, -18} {
		t := decimal.New(1, e)
		add(v.Add(t))
		add(v.Sub(t))
	}
	for _, c := range []int64{4, 5, 6} { // around the rounding point of the 6th place
		t := decimal.New(c, -7)
		add(v.Add(t))
		add(v.Sub(t))
	}
	for _, p := range []int32{0, 1, 2, 3, 4, 5, 6, 7, 8, 9, 12, 15} {
		add(v.Round(p))
		add(v.Truncate(p))
		add(v.RoundCeil(p))
		add(v.RoundFloor(p))
	}
	add(decimal.NewFromFloat(v.InexactFloat64()))
	add(decimal.NewFromFloat32(float32(v.InexactFloat64())))
	if !v.IsZero() {
		lead := len(v.Abs().Coefficient().String()) + int(v.Exponent()) // 10^lead > |v|
		for _, k := range []int{7, 10, 15, 16, 17, 18, 19} {
			u := decimal.New(1, int32(lead-k))
			add(v.Add(u))
			add(v.Sub(u))
		}
	}
	return out
}

func (k *chk15) checkNumber(r *fw.Rand, t target, pt, key string, v decimal.Decimal) {
	prop := propText(pt, key)
	one := decimal.New(1, 0)
	eps := decimal.New(1, -6)
	far := []string{v.Add(one).String(), v.Sub(one).String(), v.Add(eps).String(), v.Sub(eps).String(), v.StringFixed(2), v.Neg().String(), "0", fw.Pick(r, boundaryNumbers)}
	equal := []string{v.String()}
	if v.IsInteger() && v.Abs().LessThan(decimal.New(1, 9)) {
		equal = append(equal, v.String()+"e0", v.String()+".000")
	} else if v.Exponent() < 0 {
		equal = append(equal, v.String()+"000")
	}
	near := nearNumbers(v)
	fw.Shuffle(r, far)
	fw.Shuffle(r, near)
	type qv struct {
		x    string
		kind string
	}
	xs := []qv{{equal[0], "equal"}}
	if len(equal) > 1 {
		xs = append(xs, qv{equal[1+r.Intn(len(equal)-1)], "equal"})
	}
	for i := 0; i < 5 && i < len(near); i++ {
		xs = append(xs, qv{near[i], "near"})
	}
	for i := 0; i < 3; i++ {
		xs = append(xs, qv{far[i], "far"})
	}
	// the empty value: = and != with it are presence tests; where the parser also takes the ordering operators with it, all six
	// have to be consistent like with any other value
	xs = append(xs, qv{"", "empty"})
	for _, q := range xs {
		x := q.x
		o, ok := k.sixWay(t, prop, x)
		if !ok {
			k.res.Count("trichotomy.skipped_not_evaluable", 1)
			continue
		}
		k.nt = true
		if bad := consistent(o); bad != "" {
			k.res.Count("trichotomy.violated", 1)
			k.res.Violate("trichotomy|number|"+stripCount(bad), fmt.Sprintf("%s with value %s against %s: [= != > >= < <=] = %v (%s)", prop, v, x, o, bad),
				k.witness(t, map[string]any{"property": prop, "value": v.String(), "query_value": x, "query_value_kind": q.kind, "results_eq_ne_gt_ge_lt_le": o}))
			continue
		}
		k.res.Count("trichotomy.number.held", 1)
		k.res.Count("trichotomy.number.held."+q.kind+"_query_value", 1)
		if o[0] {
			k.res.Count("trichotomy.number.equal_case", 1)
		}
		// not part of the statement (it only demands mutual consistency), so observed, never judged:
		// does the outcome agree with the exact comparison of the two decimals?
		if xd, err := decimal.NewFromString(x); err == nil && t.hand {
			c := v.Cmp(xd)
			if o == [6]bool{c == 0, c != 0, c > 0, c >= 0, c < 0, c <= 0} {
				k.res.Count("outside_statement.number_comparison_is_exact", 1)
			} else {
				k.res.Count("outside_statement.number_comparison_is_not_exact", 1)
			}
		}
	}
}

func stripCount(s string) string {
	if i := strings.Index(s, "("); i > 0 {
		return s[:i]
	}
	return s
}

func cmpDay(ay, am, ad, by, bm, bd int) int {
	switch {
	case ay != by:
		return sign(ay - by)
	case am != bm:
		return sign(am - bm)
	}
	return sign(ad - bd)
}

func sign(x int) int {
	if x < 0 {
		return -1
	}
	if x > 0 {
		return 1
	}
	return 0
}

// dayStart is the first instant whose calendar day in loc is (y,m,d) or later, found by bisection
// on the instant (not through time.Date at 00:00, whose result is ambiguous when local midnight
// does not exist). Noon exists on every day of the zones used here.
func dayStart(loc *time.Location, y, m, d int) time.Time {
	hi := time.Date(y, time.Month(m), d, 12, 0, 0, 0, loc)
	lo := hi.Add(-36 * time.Hour)
	onOrAfter := func(t time.Time) bool {
		ty, tm, td := t.In(loc).Date()
		return cmpDay(ty, int(tm), td, y, m, d) >= 0
	}
	for hi.Sub(lo) > 1 {
		mid := lo.Add(hi.Sub(lo) / 2)
		if onOrAfter(mid) {
			hi = mid
		} else {
			lo = mid
		}
	}
	return hi
}

// dayLength is the local length of calendar day (y,m,d) in loc.
func dayLength(loc *time.Location, y, m, d int) time.Duration {
	next := time.Date(y, time.Month(m), d+1, 12, 0, 0, 0, time.UTC)
	return dayStart(loc, next.Year(), int(next.Month()), next.Day()).Sub(dayStart(loc, y, m, d))
}

func (k *chk15) checkDate(r *fw.Rand, t target, pt, key string, tv time.Time, days [][3]int) {
	prop := propText(pt, key)
	local := tv.In(k.loc)
	cy, cmo, cd := local.Date()
	for _, qd := range days {
		var text string
		switch r.Intn(4) {
		case 0:
			text = fmt.Sprintf("%04d-%02d-%02d", qd[0], qd[1], qd[2])
		case 1, 2:
			text = renderDay(k.spec.DateFmt, qd[0], qd[1], qd[2], fw.Pick(r, []string{"-", "/", "."}))
		default:
			text = renderDay(k.spec.DateFmt, qd[0], qd[1], qd[2], "-") + " " + fw.Pick(r, []string{"12:00", "10:30"})
		}
		o, ok := k.sixWay(t, prop, text)
		if !ok {
			k.res.Count("trichotomy.skipped_not_evaluable", 1)
			continue
		}
		k.nt = true
		wit := k.witness(t, map[string]any{"property": prop, "value": tv.Format(time.RFC3339Nano), "value_in_env_zone": local.Format(time.RFC3339Nano),
			"query_value": text, "query_day": fmt.Sprintf("%04d-%02d-%02d", qd[0], qd[1], qd[2]), "results_eq_ne_gt_ge_lt_le": o})
		if bad := consistent(o); bad != "" {
			k.res.Count("trichotomy.violated", 1)
			k.res.Violate("trichotomy|date|"+stripCount(bad), fmt.Sprintf("%s with value %s against %s: [= != > >= < <=] = %v (%s)", prop, local.Format(time.RFC3339Nano), text, o, bad), wit)
		} else {
			k.res.Count("trichotomy.date.held", 1)
			if o[0] {
				k.res.Count("trichotomy.date.equal_case", 1)
			}
		}
		// independent reference: compare calendar days in the environment's zone
		s := cmpDay(cy, int(cmo), cd, qd[0], qd[1], qd[2])
		want := [6]bool{s == 0, s != 0, s > 0, s >= 0, s < 0, s <= 0}
		if o != want {
			cause := "other"
			if dl := dayLength(k.loc, qd[0], qd[1], qd[2]); dl != 24*time.Hour {
				cause = "query-day-not-24h-long"
				wit["query_day_length"] = dl.String()
			}
			wit["expected_eq_ne_gt_ge_lt_le"] = want
			k.res.Count("dateref.violated", 1)
			k.res.Count("dateref.violated."+cause, 1)
			k.res.Violate("date-calendar-day|mismatch|"+cause,
				fmt.Sprintf("%s = %s (local day %04d-%02d-%02d) against day %s in %s: [= != > >= < <=] = %v, calendar-day comparison gives %v", prop, local.Format(time.RFC3339Nano), cy, int(cmo), cd, text, k.spec.Zone, o, want), wit)
			continue
		}
		k.res.Count("dateref.held", 1)
		if dayLength(k.loc, qd[0], qd[1], qd[2]) != 24*time.Hour {
			k.res.Count("dateref.held.on_irregular_day", 1)
		}
		h, mi, se := local.Clock()
		if (h == 0 && mi == 0) || (h == 23 && mi == 59 && se == 59) {
			k.res.Count("dateref.held.boundary_instant", 1)
		}
		uy, um, ud := tv.UTC().Date()
		if uy != cy || um != cmo || ud != cd {
			k.res.Count("dateref.held.zone_matters", 1) // the UTC day of the value differs from its local day
		}
	}
}

func neighbourDays(y, m, d int, offs ...int) [][3]int {
	var out [][3]int
	for _, o := range offs {
		t := time.Date(y, time.Month(m), d+o, 12, 0, 0, 0, time.UTC)
		out = append(out, [3]int{t.Year(), int(t.Month()), t.Day()})
	}
	return out
}

// typedChecks runs trichotomy (+ date reference) for every number/date property with a value.
func (k *chk15) typedChecks(r *fw.Rand, t target) {
	type prop struct{ pt, key string }
	props := []prop{{"attr", "tickets"}, {"attr", "created_on"}, {"attr", "last_seen_on"}}
	for _, f := range fieldSpecs {
		if f.Type == assets.FieldTypeNumber || f.Type == assets.FieldTypeDatetime {
			props = append(props, prop{"field", f.Key})
		}
	}
	for _, p := range props {
		vals, known := k.model.refValues(p.pt, p.key, t.hand)
		if !known || len(vals) != 1 {
			continue
		}
		switch v := vals[0].(type) {
		case decimal.Decimal:
			k.checkNumber(r, t, p.pt, p.key, v)
		case time.Time:
			y, m, d := v.In(k.loc).Date()
			days := neighbourDays(y, int(m), d, -1, 0, 1)
			days = append(days, neighbourDays(y, int(m), d, fw.Pick(r, []int{-2, 2, 31, -366, 7}))...)
			k.checkDate(r, t, p.pt, p.key, v, days)
		}
	}
}

// ---------------------------------------------------------------------------------------

func (k *chk15) targets(r *fw.Rand, gen int) ([]target, string) {
	sa, err := sessionAssets()
	if err != nil {
		return nil, "session assets: " + err.Error()
	}
	cj := k.model.contactJSON(r)
	var contact *flows.Contact
	var rerr error
	func() {
		defer func() {
			if rec := recover(); rec != nil {
				rerr = fmt.Errorf("panic: %v", rec)
			}
		}()
		contact, rerr = flows.ReadContact(sa, cj, assets.PanicOnMissing)
	}()
	if rerr != nil {
		return nil, "ReadContact: " + rerr.Error() + " for " + string(cj)
	}
	var realRes contactql.Resolver = sa
	name := "contact"
	if gen%3 == 2 {
		realRes = sa.Fields() // the resolver query-based groups are loaded with
		k.res.Count("targets.contact_with_field_assets_resolver", 1)
	}
	return []target{
		{name: name, q: contact, res: realRes},
		{name: "hand", q: k.model.handQueryable(), res: mockResolver, hand: true},
	}, ""
}

func (k *chk15) allPresence(t target) {
	for _, a := range attrNames {
		k.checkPresence(t, "attr", a)
	}
	for _, s := range []string{"tel", "twitter", "mailto", "whatsapp", "facebook", "telegram", "ext", "viber", "line", "fcm"} {
		k.checkPresence(t, "urn", s)
	}
	for _, f := range fieldSpecs {
		k.checkPresence(t, "field", f.Key)
	}
}

func (k *chk15) runTarget(r *fw.Rand, t target) {
	// leaves
	lg := &leafGen{r: r, k: k, hand: t.hand}
	var leaves []*evLeaf
	for i := 0; i < 14 && len(leaves) < 10; i++ {
		n := lg.leaf()
		text := condText(r, n)
		v, ok := k.eval(t, text)
		if !ok {
			k.res.Count("leaf.not_evaluable", 1)
			continue
		}
		k.res.Count("leaf.evaluated", 1)
		k.res.Count(fmt.Sprintf("leaf.result.%v", v), 1)
		k.res.Seen("leaf.kinds", n.PT+":"+kindKey(n)+" "+n.Cmp)
		leaves = append(leaves, &evLeaf{n: n, text: text, val: v})
		k.fps = append(k.fps, t.name+":"+text)
	}
	if len(leaves) >= 2 {
		for i := 0; i < 4; i++ {
			ct := k.genCTree(r, leaves, r.Range(1, 3))
			if ct.leaf != nil {
				continue
			}
			k.fps = append(k.fps, t.name+":"+ct.toNode().canon())
			want, ok := k.checkCompose(r, t, ct)
			// the same tree built programmatically (with single-child and same-operator nesting added)
			n := ct.toNode()
			if r.Bool() {
				n = comb(fw.Pick(r, []string{"and", "or"}), n)
			}
			if r.Bool() && !n.isCond() {
				n = comb(n.Op, append([]*node{comb(n.Op, n.Kids[0])}, n.Kids[1:]...)...)
			}
			if ok {
				k.checkSimplify(t, n, &want)
			} else {
				k.checkSimplify(t, n, nil)
			}
		}
	}
	// pairs of conditions that differ only in the property type, aimed at this contact
	pairs := lg.twins()
	fw.Shuffle(r, pairs)
	if len(pairs) > 6 {
		pairs = pairs[:6]
	}
	k.checkTwins(r, t, pairs, leaves, 3)
	k.allPresence(t)
	k.typedChecks(r, t)
}

// valueKind is a coarse description of a query value (evidence only).
func valueKind(v string) string {
	switch {
	case v == "":
		return "empty"
	case isNumberLike(v):
		return "number"
	case len(v) == 10 && v[4] == '-':
		return "date"
	}
	return "text"
}

func kindKey(n *node) string {
	if n.PT == "attr" {
		return n.Key
	}
	if n.PT == "field" {
		return string(fieldType(n.Key))
	}
	return "scheme"
}

func (p *c15) Run(c fw.Case) fw.Result {
	var res fw.Result
	dates.SetNowFunc(dates.NewFixedNow(fixedNow))
	defer dates.SetNowFunc(time.Now)
	k := &chk15{res: &res}
	if c.Directed != "" {
		k.directed(c.Directed)
	} else {
		r := fw.NewRand(c.Seed, "C15", c.Gen)
		k.spec = genEnvSpec(r)
		k.spec.Redact = r.Chance(0.2)
		k.env = k.spec.build()
		k.loc = loadZone(k.spec.Zone)
		ay, am, ad := anchorDay(r, k.loc)
		k.model = genContact(r, k.loc, ay, am, ad)
		ts, why := k.targets(r, c.Gen)
		if why != "" {
			res.Inconclusive = why
			return res
		}
		k.fps = append(k.fps, k.spec.String(), fw.JSON(k.model))
		for _, t := range ts {
			k.runTarget(r.Fork(t.name), t)
		}
		// a history on the contact object that has just been evaluated (c15_history.go)
		k.runHistory(r.Fork("history"), ts[0])
	}
	res.Fingerprint = strings.Join(k.fps, "\x01")
	res.NonTrivial = k.nt
	if k.model != nil {
		smp := k.fps
		if len(smp) > 10 {
			smp = smp[2:10]
		}
		res.Sample = map[string]any{"case": c.ID(), "env": k.spec.String(), "contact": k.model, "queries": smp}
	}
	return res
}

// ---------------------------------------------------------------------------------------
// directed corpus

func (k *chk15) setup(spec envSpec, m *contactModel) []target {
	k.spec = spec
	k.env = spec.build()
	k.loc = loadZone(spec.Zone)
	k.model = m
	ts, why := k.targets(fw.NewRand(0, "C15/directed", 0), 0)
	if why != "" {
		k.res.Inconclusive = why
		return nil
	}
	return ts
}

func baseContact(loc *time.Location) *contactModel {
	created := time.Date(2020, 1, 24, 13, 24, 30, 0, time.UTC)
	seen := time.Date(2020, 8, 6, 15, 41, 30, 0, time.UTC)
	age := decimal.RequireFromString("39")
	joined := time.Date(2020, 3, 8, 23, 59, 59, 999999000, loc)
	return &contactModel{
		UUID: "ba96bf7f-bc2a-4873-a7c7-254d1927c4e3", ID: 1234567, Name: "Ben Haggerty", Language: "eng", Status: "active",
		URNs:      []urnVal{{"tel", "+12065551212"}, {"tel", "+12065551313"}, {"twitter", "ewok"}},
		CreatedOn: created, LastSeenOn: &seen, Ticket: true, Tickets: decimal.New(1, 0),
		Fields: map[string]fieldVal{
			"gender": {Text: "Male"},
			"age":    {Text: "39", Num: &age},
			"joined": {Text: joined.Format(time.RFC3339Nano), Time: &joined},
			"state":  {Text: "Kigali", State: "Rwanda > Kigali"},
		},
		Groups: []string{"Testers"}, Flow: "Registration", History: []string{"Registration", "Catch All"},
	}
}

func (k *chk15) directed(name string) {
	r := fw.NewRand(0, "C15/"+name, 0)
	k.fps = append(k.fps, name)
	switch name {
	case "history-urns", "history-values":
		k.directedHistory(name)
	case "day-boundaries":
		// every boundary instant of a regular day x every zone x every date format, days -1..+1
		for _, z := range zoneNames {
			loc := loadZone(z)
			for fi, df := range gen.DateFormats {
				y, mo, d := 2021, 6, 15+fi
				for _, inst := range []time.Time{
					time.Date(y, time.Month(mo), d, 0, 0, 0, 0, loc),
					time.Date(y, time.Month(mo), d, 0, 0, 0, 1000, loc),
					time.Date(y, time.Month(mo), d, 23, 59, 59, 999999000, loc),
					time.Date(y, time.Month(mo), d, 23, 59, 59, 999999999, loc),
					time.Date(y, time.Month(mo), d, 12, 0, 0, 0, loc),
				} {
					m := baseContact(loc)
					m.CreatedOn = inst
					t2 := inst
					m.LastSeenOn = &t2
					t3 := inst
					m.Fields["joined"] = fieldVal{Text: "x", Time: &t3}
					ts := k.setup(envSpec{Zone: z, DateFmt: df}, m)
					for _, t := range ts {
						days := neighbourDays(y, mo, d, -1, 0, 1)
						k.checkDate(r, t, "attr", "created_on", inst, days)
						k.checkDate(r, t, "attr", "last_seen_on", inst, days)
						k.checkDate(r, t, "field", "joined", inst, days)
					}
				}
			}
		}
	case "dst-day-length":
		// DESIGN-time reading of evaluator.go/gocommon: the day is taken as [local midnight, +24h).
		// On a 25 h day 23:30 lies after that range, on a 23 h day 00:30 of the next day inside it.
		type probe struct {
			zone    string
			y, m, d int
			inst    time.Time
		}
		ny, lon := loadZone("America/New_York"), loadZone("Europe/London")
		for _, pb := range []probe{
			{"America/New_York", 2020, 11, 1, time.Date(2020, 11, 1, 23, 30, 0, 0, ny)},
			{"America/New_York", 2020, 3, 8, time.Date(2020, 3, 9, 0, 30, 0, 0, ny)},
			{"Europe/London", 2021, 10, 31, time.Date(2021, 10, 31, 23, 59, 59, 0, lon)},
		} {
			m := baseContact(loadZone(pb.zone))
			t1 := pb.inst
			m.Fields["joined"] = fieldVal{Text: "x", Time: &t1}
			for _, t := range k.setup(envSpec{Zone: pb.zone, DateFmt: envs.DateFormatYearMonthDay}, m) {
				k.checkDate(r, t, "field", "joined", pb.inst, [][3]int{{pb.y, pb.m, pb.d}})
			}
		}
	case "number-boundaries":
		for _, s := range boundaryNumbers {
			d := decimal.RequireFromString(s)
			m := baseContact(time.UTC)
			m.Fields["age"] = fieldVal{Text: s, Num: &d}
			m.Fields["score"] = fieldVal{Text: s, Num: &d}
			m.Tickets = d
			for _, t := range k.setup(envSpec{Zone: "UTC", DateFmt: envs.DateFormatYearMonthDay}, m) {
				k.checkNumber(r, t, "field", "age", d)
				k.checkNumber(r, t, "field", "score", d)
				if t.hand {
					k.checkNumber(r, t, "attr", "tickets", d)
				}
			}
		}
		for _, ticket := range []bool{false, true} {
			m := baseContact(time.UTC)
			m.Ticket = ticket
			for _, t := range k.setup(envSpec{Zone: "UTC", DateFmt: envs.DateFormatYearMonthDay}, m) {
				if !t.hand {
					v, _ := m.refValues("attr", "tickets", false)
					k.checkNumber(r, t, "attr", "tickets", v[0].(decimal.Decimal))
				}
			}
		}
	case "presence-all":
		full := baseContact(time.UTC)
		empty := &contactModel{UUID: full.UUID, ID: 1, Status: "active", CreatedOn: full.CreatedOn, Fields: map[string]fieldVal{}}
		textOnly := baseContact(time.UTC)
		textOnly.Fields["age"] = fieldVal{Text: "n/a"}
		textOnly.Fields["joined"] = fieldVal{Text: "someday"}
		for _, m := range []*contactModel{full, empty, textOnly} {
			for _, red := range []bool{false, true} {
				for _, t := range k.setup(envSpec{Zone: "Africa/Kigali", DateFmt: envs.DateFormatDayMonthYear, Redact: red}, m) {
					k.allPresence(t)
				}
			}
		}
	case "colliding-keys":
		// a contact on which every field that shares its key with an attribute / scheme has a value
		// different from the attribute's
		mkContact := func() *contactModel {
			m := baseContact(time.UTC)
			m.URNs = []urnVal{{"tel", "+12065551212"}, {"twitter", "ewok"}, {"facebook", "12345"}}
			three := decimal.RequireFromString("3")
			fb := decimal.RequireFromString("987654")
			fc := time.Date(2021, 6, 15, 10, 0, 0, 0, time.UTC)
			m.Fields["name"] = fieldVal{Text: "Bob Smith"}
			m.Fields["language"] = fieldVal{Text: "fra"}
			m.Fields["tel"] = fieldVal{Text: "+250788123123"}
			m.Fields["tickets"] = fieldVal{Text: "3", Num: &three}
			m.Fields["urn"] = fieldVal{Text: "987654", Num: &fb}
			m.Fields["created_on"] = fieldVal{Text: "x", Time: &fc}
			return m
		}
		for _, red := range []bool{false, true} {
			for _, t := range k.setup(envSpec{Zone: "UTC", DateFmt: envs.DateFormatYearMonthDay, Redact: red}, mkContact()) {
				lg := &leafGen{r: r, k: k, hand: t.hand}
				other := cond("field", "gender", "=", "male")
				otext := condText(r, other)
				ov, ok := k.eval(t, otext)
				if !ok {
					k.res.Inconclusive = "colliding-keys: a basic condition was rejected"
					return
				}
				k.checkTwins(r, t, lg.twins(), []*evLeaf{{n: other, text: otext, val: ov}}, 0)
				// totality: every operator on every colliding field (and on its namesake), values of every kind
				for _, f := range fieldSpecs {
					if !collides(f.Key) {
						continue
					}
					for _, op := range []string{"=", "!=", "~", ">", ">=", "<", "<="} {
						for _, v := range []string{"", "x", "Bob", "bob smith", "eng", "fra", "3", "1", "987654", "12345", "123", "0.5", "+250788123123", "2021-06-15", "2020-01-24", "ab"} {
							for _, prop := range []string{"fields." + f.Key, f.Key} {
								if _, ok := k.eval(t, prop+" "+op+" "+strconv.Quote(v)); ok {
									k.res.Count("colliding.single_conditions_evaluated", 1)
									k.res.Seen("colliding.admitted", prop+" "+op+" "+valueKind(v))
								}
							}
						}
					}
				}
			}
		}
	case "number-precision":
		// contact numbers that differ from a round neighbour only far behind the decimal point or in
		// the last digit of a large integer, against every near query value
		for _, s := range []string{"0.3333333333333333", "0.333333", "99.9999999", "100", "0.30000000000000004", "1000000000000000001", "1000000000000000000",
			"9007199254740993", "123456789.123456789", "0.0000001", "-0.0000004", "2.5000000000000001", "-99.9999995", "0.000000000000000001", "36.5", "0"} {
			d := decimal.RequireFromString(s)
			m := baseContact(time.UTC)
			m.Fields["age"] = fieldVal{Text: s, Num: &d}
			m.Tickets = d
			for _, t := range k.setup(envSpec{Zone: "UTC", DateFmt: envs.DateFormatYearMonthDay}, m) {
				for rep := 0; rep < 6; rep++ { // 6 x 5 of the near values
					k.checkNumber(r, t, "field", "age", d)
				}
				if t.hand {
					k.checkNumber(r, t, "attr", "tickets", d)
				}
			}
		}
	case "compose-basic":
		m := baseContact(time.UTC)
		for _, t := range k.setup(envSpec{Zone: "UTC", DateFmt: envs.DateFormatYearMonthDay}, m) {
			mk := func(n *node) *evLeaf {
				text := renderCond(r, n)
				v, ok := k.eval(t, text)
				if !ok {
					return nil
				}
				return &evLeaf{n: n, text: text, val: v}
			}
			tr := mk(cond("field", "age", "=", "39"))
			fa := mk(cond("field", "gender", "=", "female"))
			tr2 := mk(cond("attr", "name", "~", "ben"))
			fa2 := mk(cond("urn", "tel", "=", "+13065551212"))
			if tr == nil || fa == nil || tr2 == nil || fa2 == nil {
				k.res.Inconclusive = "compose-basic: a basic condition was rejected"
				return
			}
			L := func(l *evLeaf) *ctree { return &ctree{leaf: l} }
			// conditions on one URN property that are satisfied by DIFFERENT URNs of the contact (a property with several values
			// matches when any value does, each condition on its own)
			u1, u2, u3, u4 := mk(cond("urn", "tel", "=", "+12065551212")), mk(cond("urn", "tel", "~", "1313")), mk(cond("attr", "urn", "~", "ewok")), mk(cond("urn", "tel", "~", "5551"))
			var urnKids [][]*ctree
			if u1 != nil && u2 != nil && u3 != nil && u4 != nil {
				urnKids = [][]*ctree{{L(u1), L(u2)}, {L(u2), L(u1)}, {L(u1), L(u2), L(u3)}, {L(u1), {op: "and", kids: []*ctree{L(u2), L(u4)}}}, {L(u3), L(u2)}, {L(u1), L(u2), L(fa)}, {L(u4), L(u2), L(u1)}}
				k.res.Count("compose.urn_conditions_on_different_urns", int64(len(urnKids)))
			}
			for _, op := range []string{"and", "or"} {
				for _, kids := range append(urnKids, [][]*ctree{
					{L(tr), L(tr2)}, {L(tr), L(fa)}, {L(fa), L(tr)}, {L(fa), L(fa2)},
					{L(tr), L(tr2), L(fa)}, {L(fa), L(fa2), L(tr)}, {L(tr), L(tr2), L(tr), L(tr2)}, {L(fa), L(fa2), L(fa), L(fa2)},
					{L(tr), {op: "or", kids: []*ctree{L(fa), L(fa2)}}}, {L(fa), {op: "and", kids: []*ctree{L(tr), L(tr2)}}},
					{{op: "and", kids: []*ctree{L(tr), {op: "or", kids: []*ctree{L(fa), L(tr2)}}}}, L(fa2)},
				}...) {
					ct := &ctree{op: op, kids: kids}
					want, ok := k.checkCompose(r, t, ct)
					if ok {
						k.checkSimplify(t, comb(op, ct.toNode()), &want)
						k.checkSimplify(t, comb(op, comb(op, ct.toNode().Kids[0]), comb(op, ct.toNode().Kids[1:]...)), &want)
					}
				}
			}
		}
	}
}
