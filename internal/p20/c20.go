// Package p20 holds the runtime monitor for property C20: static flow inspection covers what runs of the flow do.
package p20

import (
	"encoding/json"
	"fmt"
	"regexp"
	"runtime/debug"
	"sort"
	"strings"

	"github.com/nyaruka/goflow/flows"
	"github.com/nyaruka/goflow/utils"

	"verif/internal/drive"
	"verif/internal/fw"
	"verif/internal/gen"
)

// C20 — Flow inspection over-approximates what a run can do.
// Offline checker over the sprint log of every execution: what each run of flow F stored / left / touched in a
// sprint is compared with F.Inspect(sa) (read through its JSON form).

type c20 struct{}

func init() { fw.Register(&c20{}) }

func (p *c20) ID() string { return "C20" }

func (p *c20) Rule() string {
	return "case = one generated scenario (gen.Scen: 1-4 flows of every flow type over every action/router/wait type, localisation, contact, trigger, 0-6 resumes msg/wait_timeout/run_expiration/dial, session re-read from JSON at seeded waits; then, from a stream of its own: every call_resthook re-drawn over a pool of 15 resthooks covering every combination of subscriber answers (none / 2xx / 410 / 503 / connection error / non-JSON, alone and mixed, + the undefined hook), call_webhook URLs re-drawn over every answer of the fake transport, and in 60% of the scenarios references to globals / contact fields that occur nowhere else (keys zgN / zfN, 9+6 syntactic forms, defined with empty or non-empty values or left missing) PLANTED with p in {0.3,0.6,1} per slot into every free string property of every action, router and wait - those the flow spec calls templates and those it does not (say_msg.audio_url, set_run_result.category, resthook slug, names of all references, category names) - and into their translations) or one directed scenario (one flow per action type that saves a result or holds a fixed reference, on every outcome path of its fake service incl. one case per resthook of the pool, followed by a msg wait with timeout / a dial wait; plus planted-*: one scenario per action type / router / dial wait with EVERY slot planted and translated, run with an English and a Spanish contact; plus history-*: see below). One generated case in five (a stream of its own, 10% + 10%) and the history-* directed cases give the inspected flow OBJECT a history through goflow's public API before it is inspected: late-translation = the flow is loaded without its translations, inspected (+ ExtractTemplates/ExtractLocalizables in 20%), then the translations are added to the same object in place (Localization().SetItemTranslation 65% / a PO file extracted from a translated copy and imported with translation.ImportIntoFlows 35%), then the scenario runs on it and the object is inspected again; change-language = every flow with translations is read, Flow.ChangeLanguage(one of its languages) is applied, the scenario runs the marshaled result and the inspection judged is that of the in-memory flow ChangeLanguage returned (after checking that its definition equals, value for value, that of the flow the session assets read). A gap that a flow freshly read from the same definition does not have is reported as coverage-gap|inspection-stale-after:<history>|<clause>. After every engine call that returned normally, for every run with a loaded flow: (1) every result stored in the sprint (diff of run.Results() + run_result_changed events) must have its key in Inspect().results and its non-empty category in a non-empty listed category set; (2) on a resume the exit by which the waiting step left must be in waiting_exits; (3) every fixed reference held by an executed action, every asset named by the sprint's events and attributable to a fixed reference, and every global/field named in a template of an executed action / routed router / begun dial wait (base language + the translation the run used; templates are scanned by an independent ~100-line model of the template syntax, expressions must parse) must be in dependencies; (3b, builds with the verif tag) every global/field named in a template the run is KNOWN to have evaluated - reported by the template observer runs.VerifTemplateObserver, whichever property it came from - must be in dependencies (signature names the holding property, e.g. say_msg.audio_url). Not demanded: query-group re-evaluation, static groups cleared by a status change, all_groups, expression references (name_match / email_match), the default ticket topic, templates the scanner does not model. Non-trivial = the scenario stored >= 1 result, touched >= 1 fixed asset, evaluated a template naming an asset or left a wait; distinct = SHA of (assets, trigger, resumes, options)."
}

func (p *c20) Directed() []string { return directedNames() }

func (p *c20) NumGenerated(tier string) int {
	if tier == "thorough" {
		return 300000
	}
	return 12000
}

func (p *c20) BatchSize(tier string) int {
	if tier == "thorough" {
		return 2000
	}
	return 250
}

func (p *c20) CaseTimeoutS() int { return 120 }

func (p *c20) Floors(tier string) []string {
	fl := []string{
		"clause.inspect", "clause.result_key", "clause.result_key.from_diff", "clause.result_key.from_event", "clause.result_category",
		"clause.waiting_exit", "clause.waiting_exit.resume_msg", "clause.waiting_exit.resume_wait_timeout", "clause.waiting_exit.resume_dial",
		"clause.dep.reference", "clause.dep.template", "clause.dep.event",
		"dep.missing_asset_listed",
	}
	for _, k := range []string{"group", "field", "label", "flow", "channel", "topic", "user", "template", "classifier", "optin"} {
		fl = append(fl, "clause.dep.reference."+k)
	}
	for _, k := range []string{"global", "field"} {
		fl = append(fl, "clause.dep.template."+k)
	}
	for _, k := range []string{"set_run_result", "call_webhook", "call_resthook", "call_classifier", "transfer_airtime", "open_ticket", "router:switch", "router:random"} {
		fl = append(fl, "saved_by."+k)
	}
	for _, k := range []string{"Success", "Failure", "Skipped"} {
		fl = append(fl, "saved_category."+k)
	}
	// every category a fixed-category action can give its result, on every outcome path of its (fake) service
	for _, k := range []string{"call_webhook.Success", "call_webhook.Failure", "call_resthook.Success", "call_resthook.Failure", "call_classifier.Success", "call_classifier.Failure", "call_classifier.Skipped",
		"transfer_airtime.Success", "transfer_airtime.Failure", "open_ticket.Success", "open_ticket.Failure"} {
		fl = append(fl, "saved."+k)
	}
	for _, k := range []string{"missing_resthook", "subscribers:none", "subscribers:success", "subscribers:gone", "subscribers:gone+success", "subscribers:error5xx", "subscribers:error5xx+gone", "subscribers:error5xx+gone+success",
		"subscribers:connection_error", "subscribers:connection_error+gone", "subscribers:success_not_json", "subscribers:success+success_not_json"} {
		fl = append(fl, "service_path.call_resthook."+k)
	}
	for _, k := range []string{"success", "error5xx", "gone", "connection_error", "success_not_json"} {
		fl = append(fl, "service_path.call_webhook."+k)
	}
	// references planted into properties that are NOT templates by the flow spec (they must simply never be evaluated)
	fl = append(fl, "planted.scenarios", "planted.references")
	for _, k := range []string{"say_msg.audio_url", "say_msg.audio_url(translation)", "set_run_result.category", "set_run_result.category(translation)", "call_resthook.resthook",
		"enter_flow.flow.name", "start_session.flow.name", "start_session.contacts.name", "send_broadcast.contacts.name", "add_contact_groups.groups.name", "remove_contact_groups.groups.name", "add_input_labels.labels.name",
		"set_contact_channel.channel.name", "set_contact_field.field.name", "open_ticket.topic.name", "open_ticket.assignee.name", "send_msg.template.name", "call_classifier.classifier.name", "request_optin.optin.name",
		"router:switch.categories.name", "router:random.categories.name", "router:switch.categories.name(translation)"} {
		fl = append(fl, "planted.in."+k)
	}
	if observerAvailable {
		fl = append(fl, "evaluated.templates", "clause.dep.evaluated", "clause.dep.evaluated.global", "clause.dep.evaluated.field", "clause.dep.evaluated.planted_reference")
		// every property the flow spec says is a template was seen being evaluated with a planted reference in it
		for _, k := range []string{"send_msg.text", "send_msg.attachments", "send_msg.quick_replies", "send_msg.template_variables", "send_broadcast.text", "send_broadcast.attachments", "send_broadcast.quick_replies",
			"send_broadcast.contact_query", "send_broadcast.legacy_vars", "send_broadcast.groups.name_match", "start_session.contact_query", "start_session.legacy_vars", "start_session.groups.name_match",
			"say_msg.text", "play_audio.audio_url", "call_webhook.url", "call_webhook.headers", "call_webhook.body", "call_classifier.input", "open_ticket.body", "open_ticket.assignee.email_match",
			"send_email.addresses", "send_email.subject", "send_email.body", "set_contact_field.value", "set_contact_language.language", "set_contact_name.name", "set_contact_timezone.timezone",
			"set_run_result.value", "add_contact_urn.path", "add_contact_groups.groups.name_match", "remove_contact_groups.groups.name_match", "add_input_labels.labels.name_match",
			"router:switch.operand", "router:switch.cases.arguments", "router:switch.wait.phone"} {
			fl = append(fl, "clause.dep.evaluated.by."+k)
		}
	}
	// histories of the inspected flow object (history.go): both kinds ran, through both ways of importing, and were not
	// vacuous (the runs saved categories / used assets that the inspection from before the history step does not list)
	fl = append(fl, "history.late-translation.cases", "history.late-translation.flows_translated_by_set", "history.late-translation.flows_translated_by_po",
		"history.late-translation.dependencies_not_in_earlier_inspection", "clause.dep.template.history:late-translation",
		"history.change-language.cases", "history.change-language.in_memory_flows_inspected", "history.change-language.categories_not_in_earlier_inspection",
		"clause.result_category.history:change-language", "clause.waiting_exit.history:change-language")
	for _, e := range []string{"contact_field_changed", "contact_groups_changed", "input_labels_added", "flow_entered", "session_triggered", "ticket_opened.topic", "ticket_opened.assignee", "msg_created.template", "service_called.classifier", "optin_requested"} {
		fl = append(fl, "clause.dep.event."+e)
	}
	return fl
}

func (p *c20) scenario(c fw.Case) (*gen.Scenario, *fw.Rand, *history) {
	r := fw.NewRand(c.Seed, "C20", c.Index)
	if c.Directed != "" {
		scen, hist := findDirected(c.Directed)
		if hist != nil {
			hist.r = fw.NewRand(c.Seed, "C20/history", c.Index)
		}
		return scen, r, hist
	}
	o := gen.ScenOpts{
		ContactChanges: r.Chance(0.5), QueryGroups: r.Chance(0.3), Localized: r.Chance(0.5), NoHostileTpl: r.Chance(0.5),
		MaxNodes: r.Range(2, 8), MaxResumes: 6, Batch: r.Chance(0.2),
	}
	if r.Chance(0.4) {
		o.FlowType = fw.Pick(r, []string{"messaging", "messaging_background", "messaging_offline", "voice"})
	}
	scen := gen.Scen(r, o)
	// a stream of its own: the base scenario stays what gen.Scen made of (seed, index)
	pr := fw.NewRand(c.Seed, "C20/plant", c.Index)
	diversifyServices(scen, pr)
	if pr.Chance(0.6) {
		pl := newPlanter(pr, scen, []float64{0.3, 0.6, 1}[pr.Intn(3)], pr.Bool(), false)
		pl.plantScenario()
		scen.Notes = append(scen.Notes, fmt.Sprintf("planted %d references", pl.slots))
	}
	// a stream of its own again: one case in five gives the flow OBJECT a history before it is inspected (history.go)
	return scen, r, drawHistory(c.Seed, c.Index)
}

func (p *c20) Run(c fw.Case) fw.Result {
	res := fw.Result{}
	scen, r, hist := p.scenario(c)
	if scen == nil {
		res.Discarded = "no such directed case"
		return res
	}
	res.Fingerprint = scen.Fingerprint() + hist.fingerprint()
	plantedCensus(scen, &res)
	toLoad := hist.prepare(scen, &res)
	rn, err := drive.Load(toLoad, c.Seed)
	if err != nil {
		res.Discarded = "unloadable: " + errClass(err.Error())
		return res
	}
	hist.afterLoad(rn, &res)
	restartP := []float64{0, 0.5, 1}[r.Intn(3)]
	ck := &checker{res: &res, scen: scen, rn: rn, flows: map[string]*flowInfo{}, reported: map[string]bool{}, hist: hist}
	// which templates a run evaluates is not an event: the verif-guarded observer of flows/runs tells (process global,
	// the worker is single threaded; removed again when the case is over)
	obs := &observed{}
	installObserver(obs.add)
	defer removeObserver()
	rn.RunAll(func(rec *drive.CallRecord) {
		seen := obs.take()
		observe(&res, rec)
		if rec.Kind == "unreadable" {
			return
		}
		ck.check(rec, seen)
		if rec.OK() && rn.Waiting() && r.Chance(restartP) {
			if err := rn.Restart(); err == nil {
				res.Count("seen.restarts", 1)
			} else {
				res.Count("restart_errors", 1)
			}
		}
	})
	if len(rn.Log) > 0 && rn.Log[0].Kind == "unreadable" {
		res.Discarded = "unreadable trigger: " + errClass(rn.Log[0].Err.Error())
		return res
	}
	res.NonTrivial = ck.nonTrivial
	if res.NonTrivial {
		res.Sample = ck.sample()
	}
	return res
}

// ---------------------------------------------------------------------------------------------------

var plantedKeyRe = regexp.MustCompile(`z[gf][0-9]+`)

// plantedCensus counts, per holding property, the planted references of the scenario as it is (read back from its
// JSON): the evidence that properties which are NOT templates by the flow spec carried a reference too.
func plantedCensus(scen *gen.Scenario, res *fw.Result) {
	b, err := json.Marshal(scen.Assets["flows"])
	if err != nil || !plantedKeyRe.Match(b) {
		return
	}
	var fls []map[string]any
	if json.Unmarshal(b, &fls) != nil {
		return
	}
	res.Count("planted.scenarios", 1)
	var walk func(prefix string, v any)
	walk = func(prefix string, v any) {
		switch t := v.(type) {
		case string:
			if n := len(plantedKeyRe.FindAllString(t, -1)); n > 0 {
				res.Count("planted.references", int64(n))
				res.Count("planted.in."+prefix, int64(n))
			}
		case []any:
			for _, x := range t {
				walk(prefix, x)
			}
		case map[string]any:
			for k, x := range t {
				if strings.HasSuffix(prefix, ".headers") {
					walk(prefix, x)
				} else {
					walk(prefix+"."+k, x)
				}
			}
		}
	}
	for _, f := range fls {
		items := map[string]string{}
		for _, n := range arr(f["nodes"]) {
			for _, a := range arr(obj(n)["actions"]) {
				items[str(obj(a)["uuid"])] = str(obj(a)["type"])
				walk(str(obj(a)["type"]), a)
			}
			if rt := obj(obj(n)["router"]); rt != nil {
				pre := "router:" + str(rt["type"])
				walk(pre, rt)
				for _, c := range arr(rt["cases"]) {
					items[str(obj(c)["uuid"])] = pre + ".cases"
				}
				for _, c := range arr(rt["categories"]) {
					items[str(obj(c)["uuid"])] = pre + ".categories"
				}
			}
		}
		for _, lm := range obj(f["localization"]) {
			for u, it := range obj(lm) {
				if pre, ok := items[u]; ok {
					for prop, v := range obj(it) {
						walk(pre+"."+prop+"(translation)", v)
					}
				}
			}
		}
	}
}

func observe(res *fw.Result, rec *drive.CallRecord) {
	res.Count("engine_calls", 1)
	res.Count("engine_calls."+rec.Kind, 1)
	if rec.Kind == "resume" {
		res.Count("resume."+rec.ResumeType, 1)
	}
	switch {
	case rec.Panic != nil:
		res.Count("engine_panics", 1)
		res.Seen("engine_panic_kinds", fw.PanicSignature(rec.Kind, rec.Panic, rec.PanicStack))
	case rec.Budget:
		res.Count("engine_budget_exceeded", 1)
	case rec.Err != nil:
		res.Count("engine_errors", 1)
		res.Seen("engine_error_kinds", errClass(rec.Err.Error()))
	}
	if rec.Sprint != nil {
		for _, e := range rec.Sprint.Events() {
			res.Count("event."+e.Type(), 1)
		}
	}
}

func errClass(msg string) string {
	var b strings.Builder
	skip := false
	for _, r := range msg {
		switch {
		case r == '\'' || r == '"':
			skip = !skip
		case skip:
		case r >= '0' && r <= '9':
		default:
			b.WriteRune(r)
		}
		if b.Len() > 90 {
			break
		}
	}
	return strings.Join(strings.Fields(b.String()), " ")
}

// ---------------------------------------------------------------------------------------------------
// what the monitor knows about one flow: its definition (as the engine holds it) and its inspection

type nodeInfo struct {
	uuid    string
	actions []map[string]any
	router  map[string]any
}

type flowInfo struct {
	uuid, name, lang string
	nodes            map[string]*nodeInfo
	nodeOrder        []string
	loc              localization
	tplIndex         map[string]string // template text → "type.property" holding it (built on demand)

	*inspView // the inspection that is judged

	history    string    // the history of the inspected object ("" = read, then inspected)
	defJSON    []byte    // the definition (marshaled flow) at inspection time
	pre        *inspView // history cases: the inspection before the history step
	fresh      *inspView // history cases, on demand: the inspection of a flow freshly read from defJSON
	freshTried bool
}

// inspView is an inspection as the monitor reads it (through its JSON form).
type inspView struct {
	results      map[string][]string // key → listed categories
	waitingExits map[string]bool
	deps         map[string]bool // type:identity
	depMissing   map[string]bool
	inspJSON     string
	nResults, nExits, nDeps int
}

func parseInspection(inspJSON []byte) (*inspView, error) {
	var insp struct {
		Dependencies []map[string]any `json:"dependencies"`
		Results      []struct {
			Key        string   `json:"key"`
			Categories []string `json:"categories"`
		} `json:"results"`
		WaitingExits []string `json:"waiting_exits"`
	}
	if err := json.Unmarshal(inspJSON, &insp); err != nil {
		return nil, err
	}
	v := &inspView{results: map[string][]string{}, waitingExits: map[string]bool{}, deps: map[string]bool{}, depMissing: map[string]bool{}, inspJSON: string(inspJSON)}
	for _, r := range insp.Results {
		v.results[r.Key] = append(v.results[r.Key], r.Categories...)
	}
	for _, e := range insp.WaitingExits {
		v.waitingExits[e] = true
	}
	for _, d := range insp.Dependencies {
		typ := str(d["type"])
		idKey := "uuid"
		switch typ {
		case "field", "global":
			idKey = "key"
		case "user":
			idKey = "email"
		}
		k := typ + ":" + str(d[idKey])
		v.deps[k] = true
		if m, _ := d["missing"].(bool); m {
			v.depMissing[k] = true
		}
	}
	v.nResults, v.nExits, v.nDeps = len(insp.Results), len(insp.WaitingExits), len(insp.Dependencies)
	return v, nil
}

type checker struct {
	res        *fw.Result
	scen       *gen.Scenario
	rn         *drive.Runner
	flows      map[string]*flowInfo // nil entry = inspection unusable
	nonTrivial bool
	notes      []string
	reported   map[string]bool // run|dependency already reported by the definition-derived template clause
	hist       *history
}

// observed collects what the template observer reports during one engine call.
type obsTpl struct{ run, tpl string }

type observed struct{ list []obsTpl }

func (o *observed) add(run flows.Run, tpl string) {
	o.list = append(o.list, obsTpl{string(run.UUID()), tpl})
}

func (o *observed) take() []obsTpl {
	l := o.list
	o.list = nil
	return l
}

func (ck *checker) sample() any {
	var calls []string
	for _, c := range ck.rn.Log {
		s := c.Kind
		if c.ResumeType != "" {
			s += ":" + c.ResumeType
		}
		calls = append(calls, s)
	}
	var fl []string
	for _, f := range ck.scen.Flows() {
		nodes, _ := f["nodes"].([]any)
		fl = append(fl, fmt.Sprintf("%v/%v/n%d", f["name"], f["type"], len(nodes)))
	}
	notes := ck.notes
	if len(notes) > 12 {
		notes = notes[:12]
	}
	return map[string]any{"flows": fl, "trigger": ck.scen.Trigger["type"], "calls": calls, "checked": notes}
}

func (ck *checker) note(s string) {
	if len(ck.notes) < 40 {
		for _, n := range ck.notes {
			if n == s {
				return
			}
		}
		ck.notes = append(ck.notes, s)
	}
}

func (ck *checker) witness(extra map[string]any) map[string]any {
	w := map[string]any{"scenario": ck.scen}
	if hd := ck.hist.describe(); hd != nil {
		w["history"] = hd
	}
	for k, v := range extra {
		w[k] = v
	}
	return w
}

// flow loads (once per case) the definition JSON and the inspection of a flow.
func (ck *checker) flow(f flows.Flow) *flowInfo {
	id := string(f.UUID())
	if fi, ok := ck.flows[id]; ok {
		return fi
	}
	ck.flows[id] = nil
	fi := &flowInfo{uuid: id, name: f.Name(), lang: string(f.Language()), nodes: map[string]*nodeInfo{}}

	var defJSON, inspJSON []byte
	var perr any
	var stack string
	func() {
		defer func() {
			if rec := recover(); rec != nil {
				perr, stack = rec, string(debug.Stack())
			}
		}()
		fw.SetDetail("marshal flow " + id)
		defJSON, _ = json.Marshal(f)
		// the object whose inspection is judged: the one the runs execute, or (history cases) the in-memory flow it was made from
		var target flows.Flow
		target, fi.history = ck.hist.object(f, defJSON, ck.res)
		fw.SetDetail("Inspect flow " + id)
		insp := target.Inspect(ck.rn.SA)
		inspJSON, _ = json.Marshal(insp)
	}()
	if perr != nil {
		ck.res.Violate(fw.PanicSignature("Flow.Inspect", perr, stack), fmt.Sprintf("inspecting flow %s panicked: %v", f.Name(), perr),
			ck.witness(map[string]any{"flow": id, "panic": fmt.Sprint(perr), "stack": fw.TrimStack(stack)}))
		return nil
	}
	var def struct {
		Localization map[string]any `json:"localization"`
		Nodes        []struct {
			UUID    string           `json:"uuid"`
			Actions []map[string]any `json:"actions"`
			Router  map[string]any   `json:"router"`
		} `json:"nodes"`
	}
	if err := json.Unmarshal(defJSON, &def); err != nil {
		ck.res.Count("flow_definition_unreadable", 1)
		return nil
	}
	fi.loc = localization(def.Localization)
	for _, n := range def.Nodes {
		fi.nodes[n.UUID] = &nodeInfo{uuid: n.UUID, actions: n.Actions, router: n.Router}
		fi.nodeOrder = append(fi.nodeOrder, n.UUID)
	}
	view, err := parseInspection(inspJSON)
	if err != nil {
		ck.res.Violate("inspection|not-json", "the inspection of a flow does not marshal to readable JSON", ck.witness(map[string]any{"flow": id, "inspection": string(inspJSON), "error": err.Error()}))
		return nil
	}
	fi.inspView = view
	fi.defJSON = defJSON
	if fi.history != "" {
		fi.pre = ck.hist.preView[id]
		ck.res.Count("clause.inspect.history:"+fi.history, 1)
	}
	ck.res.Count("clause.inspect", 1)
	ck.res.Count("inspect.results_listed", int64(view.nResults))
	ck.res.Count("inspect.waiting_exits_listed", int64(view.nExits))
	ck.res.Count("inspect.dependencies_listed", int64(view.nDeps))
	ck.flows[id] = fi
	return fi
}

// ---------------------------------------------------------------------------------------------------

type sprintView struct {
	rec    *drive.CallRecord
	events []map[string]any
	byStep map[string][]map[string]any
	langs  []string // language preference of runs in this sprint; nil = changed during the sprint (base only)
	entry  string
	seen   map[string]bool // run + "\x00" + template: reported by the template observer in this sprint
}

func (ck *checker) check(rec *drive.CallRecord, seen []obsTpl) {
	res := ck.res
	if !rec.OK() || rec.Session == nil {
		res.Count("calls_not_checked(error/panic/budget)", 1)
		return
	}
	sess := rec.Session
	sv := &sprintView{rec: rec, byStep: map[string][]map[string]any{}, entry: rec.Kind, seen: map[string]bool{}}
	for _, o := range seen {
		sv.seen[o.run+"\x00"+o.tpl] = true
	}
	if rec.Kind == "resume" {
		sv.entry += ":" + rec.ResumeType
	}
	langStable := true
	for _, ej := range rec.EventsJSON {
		var ev map[string]any
		if json.Unmarshal(ej, &ev) != nil {
			continue
		}
		sv.events = append(sv.events, ev)
		if su := str(ev["step_uuid"]); su != "" {
			sv.byStep[su] = append(sv.byStep[su], ev)
		}
		if str(ev["type"]) == "contact_language_changed" {
			langStable = false
		}
	}
	if langStable {
		func() {
			defer func() {
				if recover() != nil {
					sv.langs = nil
				}
			}()
			sv.langs = []string{string(sess.MergedEnvironment().DefaultLanguage()), string(sess.Environment().DefaultLanguage())}
		}()
	} else {
		res.Count("sprints_language_changed(base_templates_only)", 1)
	}

	for _, run := range sess.Runs() {
		f := run.Flow()
		if f == nil {
			res.Count("runs_without_flow_asset", 1)
			continue
		}
		fi := ck.flow(f)
		if fi == nil {
			continue
		}
		before, had := rec.RunsBefore[run.UUID()]
		ck.checkResults(sv, run, fi, before, had)
		if rec.Kind == "resume" && had && before.Status == flows.RunStatusWaiting {
			ck.checkWaitExit(sv, run, fi, before)
		}
		ck.checkDeps(sv, run, fi, before, had)
		ck.checkEvaluated(sv, run, fi, seen)
	}
}

// ---------------------------------------------------------------------------------------------------
// (1) results

var resultNameKeys = map[string]string{
	"set_run_result": "name", "call_webhook": "result_name", "call_resthook": "result_name", "call_classifier": "result_name",
	"open_ticket": "result_name", "transfer_airtime": "result_name",
}

// fixedCategories: the categories an action type gives its result (flow spec); nil = taken from the action itself.
var fixedCategories = map[string][]string{
	"call_webhook": {"Success", "Failure"}, "call_resthook": {"Success", "Failure"}, "transfer_airtime": {"Success", "Failure"},
	"open_ticket": {"Success", "Failure"}, "call_classifier": {"Success", "Skipped", "Failure"},
}

// savers names the action / router types of a node that save a result under the given key (and, when a category
// is given, can give it that category).
func savers(fi *flowInfo, nodeUUID, key, category string) string {
	n := fi.nodes[nodeUUID]
	if n == nil {
		return "unknown"
	}
	set := map[string]bool{}
	for _, a := range n.actions {
		typ := str(a["type"])
		if nk, ok := resultNameKeys[typ]; ok {
			if nm := str(a[nk]); nm != "" && utils.Snakify(nm) == key {
				can := category == ""
				if typ == "set_run_result" {
					can = can || str(a["category"]) == category
				} else {
					can = can || containsFold(fixedCategories[typ], category)
				}
				if can {
					set[typ] = true
				}
			}
		}
	}
	if n.router != nil {
		if nm := str(n.router["result_name"]); nm != "" && utils.Snakify(nm) == key {
			can := category == ""
			for _, c := range arr(n.router["categories"]) {
				if str(obj(c)["name"]) == category {
					can = true
				}
			}
			if can {
				set["router:"+str(n.router["type"])] = true
			}
		}
	}
	if len(set) == 0 {
		return "unknown"
	}
	var out []string
	for k := range set {
		out = append(out, k)
	}
	sort.Strings(out)
	return strings.Join(out, "+")
}

func containsFold(xs []string, s string) bool {
	for _, x := range xs {
		if strings.EqualFold(x, s) {
			return true
		}
	}
	return false
}

func (ck *checker) resultStored(sv *sprintView, run flows.Run, fi *flowInfo, key, name, category, nodeUUID, how string) {
	res := ck.res
	ck.nonTrivial = true
	who := savers(fi, nodeUUID, key, category)
	if who == "unknown" {
		who = savers(fi, nodeUUID, key, "")
	}
	res.Count("clause.result_key", 1)
	res.Count("clause.result_key.from_"+how, 1)
	for _, w := range strings.Split(who, "+") {
		res.Count("saved_by."+w, 1)
		if _, fixedCats := fixedCategories[w]; fixedCats && category != "" && !strings.Contains(who, "+") {
			res.Count("saved."+w+"."+category, 1)
		}
	}
	if category != "" {
		if strings.Contains(category, "@") {
			res.Seen("saved_categories", "<with planted reference text>")
		} else {
			res.Seen("saved_categories", category)
		}
		if category == "Success" || category == "Failure" || category == "Skipped" {
			res.Count("saved_category."+category, 1)
		}
	}
	ck.note("result " + key + " by " + who)
	cats, listed := fi.results[key]
	if fi.history != "" {
		res.Count("clause.result_key.history:"+fi.history, 1)
	}
	if !listed {
		res.Violate(ck.historySig(fi, "coverage-gap|"+who+"|result-undeclared", "result-undeclared", func(v *inspView) bool { _, ok := v.results[key]; return ok }),
			fmt.Sprintf("a run of flow %q stored result %q (key %s, saved by %s) but the flow's inspection lists no result with that key", fi.name, name, key, who),
			ck.witness(map[string]any{"call_index": sv.rec.Index, "entry": sv.entry, "flow": fi.uuid, "run": string(run.UUID()), "result_key": key, "result_name": name, "category": category,
				"node_uuid": nodeUUID, "saved_by": who, "observed_via": how, "inspection": json.RawMessage(fi.inspJSON)}))
		return
	}
	if len(cats) == 0 {
		res.Count("result_category.not_fixed(empty_list)", 1)
		return
	}
	if category == "" {
		res.Count("result_category.stored_empty(not_demanded)", 1)
		return
	}
	res.Count("clause.result_category", 1)
	if fi.history != "" {
		res.Count("clause.result_category.history:"+fi.history, 1)
		// non-vacuous for the history: the inspection from before the history step would not have covered this
		if fi.pre != nil && !containsFold(fi.pre.results[key], category) {
			res.Count("history."+fi.history+".categories_not_in_earlier_inspection", 1)
		}
	}
	if !containsFold(cats, category) {
		res.Violate(ck.historySig(fi, "coverage-gap|"+who+"|result-category-unlisted", "result-category-unlisted", func(v *inspView) bool { cs, ok := v.results[key]; return ok && (len(cs) == 0 || containsFold(cs, category)) }),
			fmt.Sprintf("a run of flow %q stored result %s with category %q but the inspection lists categories %v", fi.name, key, category, cats),
			ck.witness(map[string]any{"call_index": sv.rec.Index, "entry": sv.entry, "flow": fi.uuid, "run": string(run.UUID()), "result_key": key, "category": category, "listed": cats,
				"node_uuid": nodeUUID, "saved_by": who, "observed_via": how, "inspection": json.RawMessage(fi.inspJSON)}))
	}
}

func (ck *checker) checkResults(sv *sprintView, run flows.Run, fi *flowInfo, before drive.RunSnap, had bool) {
	results := run.Results()
	keys := make([]string, 0, len(results))
	for k := range results {
		keys = append(keys, k)
	}
	sort.Strings(keys)
	for _, k := range keys {
		r := results[k]
		if r == nil {
			continue
		}
		js, _ := json.Marshal(r)
		if had && before.Results[k] == string(js) {
			continue
		}
		ck.resultStored(sv, run, fi, k, r.Name, r.Category, string(r.NodeUUID), "diff")
	}
	// every run_result_changed event of this run in this sprint (also results overwritten later in the sprint)
	path := run.Path()
	for i := range path {
		for _, ev := range sv.byStep[string(path[i].UUID())] { // byStep holds this sprint's events only
			if str(ev["type"]) != "run_result_changed" {
				continue
			}
			name := str(ev["name"])
			ck.resultStored(sv, run, fi, utils.Snakify(name), name, str(ev["category"]), string(path[i].NodeUUID()), "event")
		}
	}
}

// ---------------------------------------------------------------------------------------------------
// (2) waiting exits

func (ck *checker) checkWaitExit(sv *sprintView, run flows.Run, fi *flowInfo, before drive.RunSnap) {
	res := ck.res
	path := run.Path()
	if before.PathLen == 0 || before.PathLen > len(path) {
		return
	}
	step := path[before.PathLen-1]
	exit := string(step.ExitUUID())
	if exit == "" {
		res.Count("wait_not_left."+sv.rec.ResumeType, 1) // expired, failed, rejected …
		return
	}
	ck.nonTrivial = true
	rtype, wtype := "none", "none"
	if n := fi.nodes[string(step.NodeUUID())]; n != nil && n.router != nil {
		rtype = str(n.router["type"])
		if w := obj(n.router["wait"]); w != nil {
			wtype = str(w["type"])
			if w["timeout"] != nil {
				res.Count("waiting_exit.wait_has_timeout", 1)
			}
		}
	}
	res.Count("clause.waiting_exit", 1)
	res.Count("clause.waiting_exit.resume_"+sv.rec.ResumeType, 1)
	res.Count("clause.waiting_exit.wait_"+wtype, 1)
	ck.note("left " + wtype + " wait by " + sv.rec.ResumeType)
	if fi.history != "" {
		res.Count("clause.waiting_exit.history:"+fi.history, 1)
	}
	if !fi.waitingExits[exit] {
		res.Violate(ck.historySig(fi, "coverage-gap|router:"+rtype+"/wait:"+wtype+"|waiting-exit-undeclared|resume:"+sv.rec.ResumeType, "waiting-exit-undeclared", func(v *inspView) bool { return v.waitingExits[exit] }),
			fmt.Sprintf("a %s resume left the %s wait of flow %q through exit %s which is not among the inspection's waiting_exits", sv.rec.ResumeType, wtype, fi.name, exit),
			ck.witness(map[string]any{"call_index": sv.rec.Index, "entry": sv.entry, "flow": fi.uuid, "run": string(run.UUID()), "node_uuid": string(step.NodeUUID()), "exit_uuid": exit,
				"inspection": json.RawMessage(fi.inspJSON)}))
	}
}

// ---------------------------------------------------------------------------------------------------
// (3) dependencies

func (ck *checker) demand(sv *sprintView, run flows.Run, fi *flowInfo, r ref, culprit, source, nodeUUID string) {
	res := ck.res
	ck.nonTrivial = true
	res.Count("clause.dep."+source, 1)
	res.Count("clause.dep."+source+"."+r.Kind, 1)
	res.Count("clause.dep.by."+culprit+"."+r.Kind, 1)
	k := r.key()
	if fi.history != "" {
		res.Count("clause.dep."+source+".history:"+fi.history, 1)
		if fi.pre != nil && !fi.pre.deps[k] {
			res.Count("history."+fi.history+".dependencies_not_in_earlier_inspection", 1)
		}
	}
	if fi.deps[k] {
		if fi.depMissing[k] {
			res.Count("dep.missing_asset_listed", 1)
		}
		return
	}
	what := "dependency-undeclared:" + r.Kind
	if r.Via == "template" {
		what = "template-reference-undeclared:" + r.Kind
		ck.reported[string(run.UUID())+"|"+k] = true
	}
	res.Violate(ck.historySig(fi, "coverage-gap|"+culprit+"|"+what, "dependency-undeclared", func(v *inspView) bool { return v.deps[k] }),
		fmt.Sprintf("a run of flow %q executed %s which names %s %q (%s) but the inspection's dependencies do not list it", fi.name, culprit, r.Kind, r.ID, r.Via),
		ck.witness(map[string]any{"call_index": sv.rec.Index, "entry": sv.entry, "flow": fi.uuid, "run": string(run.UUID()), "node_uuid": nodeUUID, "culprit": culprit,
			"dependency": map[string]string{"type": r.Kind, "identity": r.ID, "via": r.Via}, "observed_via": source, "inspection": json.RawMessage(fi.inspJSON)}))
}

func (ck *checker) demandTemplates(sv *sprintView, run flows.Run, fi *flowInfo, tpls []string, culprit, nodeUUID string) {
	for _, t := range tpls {
		if t == "" {
			continue
		}
		ck.res.Count("templates_scanned", 1)
		if observerAvailable {
			// how good the definition-derived guess "this template was evaluated" is (statistics only)
			if sv.seen[string(run.UUID())+"\x00"+t] {
				ck.res.Count("templates_scanned.seen_by_observer", 1)
			} else {
				ck.res.Count("templates_scanned.not_seen_by_observer(guess_too_wide)", 1)
			}
		}
		refs, understood := templateRefs(t)
		if !understood {
			ck.res.Count("templates_not_modelled(no_demand)", 1)
			continue
		}
		seen := map[string]bool{}
		for _, r := range refs {
			if !seen[r.key()] {
				seen[r.key()] = true
				ck.demand(sv, run, fi, r, culprit, "template", nodeUUID)
			}
		}
	}
}

// (3b) templates the run is KNOWN to have evaluated (template observer): every global / field they name must be a
// dependency of the run's flow, whichever property the template came from - also one the flow spec (and therefore
// the definition-derived clause above, and inspection's engine tags) does not know to be a template.
func (ck *checker) checkEvaluated(sv *sprintView, run flows.Run, fi *flowInfo, seen []obsTpl) {
	res := ck.res
	id := string(run.UUID())
	done := map[string]bool{}
	for _, o := range seen {
		if o.run != id || done[o.tpl] {
			continue
		}
		done[o.tpl] = true
		res.Count("evaluated.templates", 1)
		if !strings.Contains(o.tpl, "@") {
			continue
		}
		holder := fi.holderOf(o.tpl)
		res.Seen("evaluated_properties", holder)
		refs, understood := templateRefs(o.tpl)
		if !understood {
			res.Count("evaluated.templates_not_modelled(no_demand)", 1)
			continue
		}
		if len(refs) == 0 {
			continue
		}
		res.Count("evaluated.templates_with_references", 1)
		dd := map[string]bool{}
		for _, r := range refs {
			k := r.key()
			if dd[k] {
				continue
			}
			dd[k] = true
			ck.nonTrivial = true
			res.Count("clause.dep.evaluated", 1)
			res.Count("clause.dep.evaluated."+r.Kind, 1)
			res.Count("clause.dep.evaluated.by."+holder, 1)
			if strings.HasPrefix(r.ID, "zg") || strings.HasPrefix(r.ID, "zf") {
				res.Count("clause.dep.evaluated.planted_reference", 1)
				res.Seen("evaluated_properties_with_planted_reference", holder)
			}
			if fi.history != "" {
				res.Count("clause.dep.evaluated.history:"+fi.history, 1)
				if fi.pre != nil && !fi.pre.deps[k] {
					res.Count("history."+fi.history+".dependencies_not_in_earlier_inspection", 1)
				}
			}
			if fi.deps[k] {
				if fi.depMissing[k] {
					res.Count("dep.missing_asset_listed", 1)
				}
				continue
			}
			if ck.reported[id+"|"+k] {
				res.Count("evaluated.undeclared_already_reported_by_definition_clause", 1)
				continue
			}
			res.Violate(ck.historySig(fi, "coverage-gap|"+holder+"|evaluated-template-reference-undeclared:"+r.Kind, "dependency-undeclared", func(v *inspView) bool { return v.deps[k] }),
				fmt.Sprintf("a run of flow %q evaluated the template %q (held by %s) which names %s %q but the inspection's dependencies do not list it", fi.name, o.tpl, holder, r.Kind, r.ID),
				ck.witness(map[string]any{"call_index": sv.rec.Index, "entry": sv.entry, "flow": fi.uuid, "run": id, "template": o.tpl, "held_by": holder,
					"dependency": map[string]string{"type": r.Kind, "identity": r.ID, "via": "evaluated template"}, "observed_via": "template observer", "inspection": json.RawMessage(fi.inspJSON)}))
		}
	}
}

// holderOf names the property of the flow definition that holds the given template text: "say_msg.audio_url",
// "router:switch.cases.arguments", "send_msg.text" (also for a translation of it), or "engine" for a template
// that is not in the definition (the resthook payload).
func (fi *flowInfo) holderOf(tpl string) string {
	if fi.tplIndex == nil {
		idx := map[string]string{}
		items := map[string]string{} // uuid of a localizable item → its holder prefix
		for _, nu := range fi.nodeOrder {
			n := fi.nodes[nu]
			for _, a := range n.actions {
				typ := str(a["type"])
				items[str(a["uuid"])] = typ
				indexStrings(idx, typ, a)
			}
			if n.router != nil {
				rt := "router:" + str(n.router["type"])
				indexStrings(idx, rt, n.router)
				for _, c := range arr(n.router["cases"]) {
					items[str(obj(c)["uuid"])] = rt + ".cases"
				}
				for _, c := range arr(n.router["categories"]) {
					items[str(obj(c)["uuid"])] = rt + ".categories"
				}
			}
		}
		langs := make([]string, 0, len(fi.loc))
		for l := range fi.loc {
			langs = append(langs, l)
		}
		sort.Strings(langs)
		for _, l := range langs {
			lm := obj(fi.loc[l])
			uuids := make([]string, 0, len(lm))
			for u := range lm {
				uuids = append(uuids, u)
			}
			sort.Strings(uuids)
			for _, u := range uuids {
				if pre, ok := items[u]; ok {
					indexStrings(idx, pre, lm[u])
				}
			}
		}
		fi.tplIndex = idx
	}
	if h, ok := fi.tplIndex[tpl]; ok {
		return h
	}
	return "engine"
}

func indexStrings(idx map[string]string, prefix string, v any) {
	switch t := v.(type) {
	case string:
		if _, ok := idx[t]; !ok && strings.Contains(t, "@") {
			idx[t] = prefix
		}
	case []any:
		for _, x := range t {
			indexStrings(idx, prefix, x)
		}
	case map[string]any:
		keys := make([]string, 0, len(t))
		for k := range t {
			keys = append(keys, k)
		}
		sort.Strings(keys)
		for _, k := range keys {
			if strings.HasSuffix(prefix, ".headers") {
				indexStrings(idx, prefix, t[k]) // header names are data, not structure
			} else {
				indexStrings(idx, prefix+"."+k, t[k])
			}
		}
	}
}

func (ck *checker) checkDeps(sv *sprintView, run flows.Run, fi *flowInfo, before drive.RunSnap, had bool) {
	path := run.Path()
	start := 0
	if had {
		start = before.PathLen
	}
	for i := start; i < len(path); i++ {
		ck.stepDeps(sv, run, fi, path[i], true, false)
	}
	// the step that was waiting / paused before this call: its router may have routed now
	if had && before.PathLen > 0 && before.PathLen <= len(path) {
		st := path[before.PathLen-1]
		timeout := before.Status == flows.RunStatusWaiting && sv.rec.ResumeType == "wait_timeout"
		ck.stepDeps(sv, run, fi, st, false, timeout)
	}
}

var cmdRe = regexp.MustCompile(`cmd=([a-z]+)`)

func outcomeOf(url string) string {
	m := cmdRe.FindStringSubmatch(url)
	if m == nil {
		return "success"
	}
	switch m[1] {
	case "gone":
		return "gone"
	case "unavailable":
		return "error5xx"
	case "connerr":
		return "connection_error"
	case "badjson":
		return "success_not_json"
	}
	return "success"
}

// servicePath counts on which outcome path of its service a result-saving action ran (what the scenario's fake
// services will answer is known from the definition: resthook subscribers / webhook URL by "cmd=").
func (ck *checker) servicePath(a map[string]any) {
	res := ck.res
	switch str(a["type"]) {
	case "call_resthook":
		if str(a["result_name"]) == "" {
			return
		}
		class := "missing_resthook"
		for _, h := range listOfM(ck.scen.Assets["resthooks"]) {
			if h["slug"] != a["resthook"] {
				continue
			}
			set := map[string]bool{}
			for _, sub := range stringsOfAny(h["subscribers"]) {
				set[outcomeOf(sub)] = true
			}
			var outs []string
			for o := range set {
				outs = append(outs, o)
			}
			sort.Strings(outs)
			class = "subscribers:" + strings.Join(outs, "+")
			if len(outs) == 0 {
				class = "subscribers:none"
			}
		}
		res.Count("service_path.call_resthook."+class, 1)
	case "call_webhook":
		if str(a["result_name"]) == "" {
			return
		}
		if u := str(a["url"]); strings.HasPrefix(u, "http://localhost/") && !strings.Contains(u, "@(1") {
			res.Count("service_path.call_webhook."+outcomeOf(u), 1)
		} else {
			res.Count("service_path.call_webhook.other_url", 1)
		}
	}
}

func stringsOfAny(v any) []string {
	if ss, ok := v.([]string); ok {
		return ss
	}
	return stringsOf(v)
}

func (ck *checker) stepDeps(sv *sprintView, run flows.Run, fi *flowInfo, step flows.Step, withActions, timeoutRoute bool) {
	res := ck.res
	nodeUUID := string(step.NodeUUID())
	n := fi.nodes[nodeUUID]
	if n == nil {
		res.Count("steps_on_unknown_node", 1)
		return
	}
	evs := sv.byStep[string(step.UUID())]

	var executed []map[string]any
	if withActions {
		res.Count("steps_visited", 1)
		executed = n.actions
		failed := false
		for _, ev := range evs {
			if str(ev["type"]) == "failure" {
				failed = true
			}
		}
		if failed {
			// only enter_flow can fail a run in the middle of a node; which one did is not observable, so only the
			// actions up to and including the first enter_flow are known to have executed
			for i, a := range n.actions {
				if str(a["type"]) == "enter_flow" {
					executed = n.actions[:i+1]
					res.Count("steps_failed_mid_node(prefix_only)", 1)
					break
				}
			}
		}
	}

	fixed := map[string]string{} // key → action type, for attributing events
	for _, a := range executed {
		typ := str(a["type"])
		res.Count("executed."+typ, 1)
		ck.servicePath(a)
		for _, r := range actionFixedRefs(a) {
			fixed[r.key()] = typ
			ck.note("reference " + r.Kind + " by " + typ)
			ck.demand(sv, run, fi, r, typ, "reference", nodeUUID)
		}
		ck.demandTemplates(sv, run, fi, actionTemplates(a, fi.loc, sv.langs, fi.lang), typ, nodeUUID)
	}

	// router templates: only when the router has routed (the step has left) and not by a timeout
	if n.router != nil && step.ExitUUID() != "" && !timeoutRoute {
		res.Count("routers_routed."+str(n.router["type"]), 1)
		ck.demandTemplates(sv, run, fi, routerTemplates(n.router, fi.loc, sv.langs, fi.lang), "router:"+str(n.router["type"]), nodeUUID)
	}

	if !withActions {
		return
	}
	// wait templates (dial phone): evaluated when the wait began, i.e. a dial_wait event was logged on this step or
	// the wait was skipped and the router routed at once
	if n.router != nil && len(executed) == len(n.actions) {
		began := step.ExitUUID() != ""
		for _, a := range n.actions {
			if str(a["type"]) == "enter_flow" {
				began = false // a node that entered a sub-flow is routed on return without beginning its wait
			}
		}
		for _, e := range evs {
			if str(e["type"]) == "dial_wait" {
				began = true
			}
		}
		if wt := waitTemplates(n.router); began && len(wt) > 0 {
			res.Count("waits_begun.dial", 1)
			ck.demandTemplates(sv, run, fi, wt, "wait:dial", nodeUUID)
		}
	}
	// observable side: assets named by the events of this step
	ev := func(name string, r ref, culprit string) {
		r.Via = "reference"
		res.Count("clause.dep.event."+name, 1)
		ck.demand(sv, run, fi, r, culprit, "event", nodeUUID)
	}
	for _, e := range evs {
		switch str(e["type"]) {
		case "contact_field_changed":
			if k := str(obj(e["field"])["key"]); k != "" {
				ev("contact_field_changed", ref{Kind: "field", ID: k}, "set_contact_field")
			}
		case "contact_groups_changed":
			for _, side := range []string{"groups_added", "groups_removed"} {
				for _, g := range arr(e[side]) {
					u := str(obj(g)["uuid"])
					if typ, ok := fixed["group:"+u]; ok && (typ == "add_contact_groups" || typ == "remove_contact_groups") {
						ev("contact_groups_changed", ref{Kind: "group", ID: u}, typ)
					} else {
						res.Count("group_change_not_attributed(query/expression/all_groups/status)", 1)
					}
				}
			}
		case "input_labels_added":
			for _, l := range arr(e["labels"]) {
				u := str(obj(l)["uuid"])
				if typ, ok := fixed["label:"+u]; ok {
					ev("input_labels_added", ref{Kind: "label", ID: u}, typ)
				} else {
					res.Count("label_not_attributed(expression)", 1)
				}
			}
		case "flow_entered":
			if u := str(obj(e["flow"])["uuid"]); u != "" {
				ev("flow_entered", ref{Kind: "flow", ID: u}, "enter_flow")
			}
		case "session_triggered":
			if u := str(obj(e["flow"])["uuid"]); u != "" {
				ev("session_triggered", ref{Kind: "flow", ID: u}, "start_session")
			}
		case "ticket_opened":
			t := obj(e["ticket"])
			if u := str(obj(t["topic"])["uuid"]); u != "" {
				// the default topic stands in only for an open_ticket that names no topic; when every open_ticket executed on this
				// node names one, a ticket in any other topic is a topic the run touched, and inspection has to list it
				topicless := false
				for _, a := range executed {
					if str(a["type"]) == "open_ticket" && a["topic"] == nil {
						topicless = true
					}
				}
				if _, ok := fixed["topic:"+u]; ok || !topicless {
					ev("ticket_opened.topic", ref{Kind: "topic", ID: u}, "open_ticket")
				} else {
					res.Count("ticket_topic_not_attributed(default_topic)", 1)
				}
			}
			if em := str(obj(t["assignee"])["email"]); em != "" {
				if _, ok := fixed["user:"+em]; ok {
					ev("ticket_opened.assignee", ref{Kind: "user", ID: em}, "open_ticket")
				} else {
					res.Count("ticket_assignee_not_attributed(expression)", 1)
				}
			}
		case "msg_created":
			if u := str(obj(obj(obj(e["msg"])["templating"])["template"])["uuid"]); u != "" {
				ev("msg_created.template", ref{Kind: "template", ID: u}, "send_msg")
			}
		case "service_called":
			if str(e["service"]) == "classifier" {
				if u := str(obj(e["classifier"])["uuid"]); u != "" {
					ev("service_called.classifier", ref{Kind: "classifier", ID: u}, "call_classifier")
				}
			}
		case "optin_requested":
			if u := str(obj(e["optin"])["uuid"]); u != "" {
				ev("optin_requested", ref{Kind: "optin", ID: u}, "request_optin")
			}
		}
	}
}
