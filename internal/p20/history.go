package p20

import (
	"encoding/json"
	"fmt"
	"reflect"
	"sort"

	"github.com/nyaruka/gocommon/i18n"
	"github.com/nyaruka/gocommon/uuids"
	"github.com/nyaruka/goflow/assets"
	"github.com/nyaruka/goflow/flows"
	"github.com/nyaruka/goflow/flows/definition"
	"github.com/nyaruka/goflow/flows/translation"

	"verif/internal/drive"
	"verif/internal/fw"
	"verif/internal/gen"
)

// Histories of the flow OBJECT that is inspected.
//
// The property is about "the inspection of a flow" and "runs of that flow". A flow in a host process is an in-memory
// object with a life of its own: it is read, inspected, handed to translators, given another base language, inspected
// again, run. Two such histories are produced here, both through goflow's public API only; in both the flow that is
// finally inspected is the flow the runs execute, only the way the object got there differs from "read, then inspect":
//
//   - late-translation: the flow is read WITHOUT its translations, inspected (as an editor does when the flow is saved),
//     then the translations are added to the same object in place - Localization().SetItemTranslation, or a PO file
//     extracted from a translated copy and imported with translation.ImportIntoFlows - and only then the scenario runs.
//     The monitor inspects the object again after the first sprint, as always; that inspection has to cover what the
//     runs do with the imported translations.
//
//   - change-language: the flow is read, Flow.ChangeLanguage(one of its translation languages) gives a new in-memory
//     flow, whose marshaled definition is what the scenario's assets hold and what the runs execute. The monitor
//     inspects the in-memory object ChangeLanguage returned (not the copy the session assets read from its JSON) - after
//     having checked that the two have the same definition, value for value.
//
// What is trusted: that marshal -> read gives the same flow (change-language only, and checked by comparing the
// definitions); SetItemTranslation / ImportIntoFlows / ChangeLanguage themselves are not judged, whatever they leave in
// the object is simply "the flow" from then on (the monitor's definition of it is its marshaled form at inspection time).
type history struct {
	mode string // "" | "late-translation" | "change-language"
	via  string // late-translation: "set" | "po"
	pre  string // late-translation: what is done to the object before the import: "inspect" | "inspect+extract"
	lang string // change-language, directed cases: the language to change to ("" = drawn per flow)
	r    *fw.Rand

	late    map[string]gen.M      // late-translation: flow uuid → the localization kept back from the assets
	objects map[string]flows.Flow // change-language: flow uuid → the object ChangeLanguage returned
	changed map[string][2]string  // change-language: flow uuid → {old base language, new base language}
	preView map[string]*inspView  // flow uuid → inspection before the history step (of the untranslated / the original flow)
	applied map[string]bool
}

func (h *history) describe() any {
	if h == nil || h.mode == "" {
		return nil
	}
	d := map[string]any{"mode": h.mode}
	if h.mode == "late-translation" {
		d["via"], d["before_import"] = h.via, h.pre
		d["note"] = "the scenario's flows were read without their localization, inspected, then given the localization shown in the scenario in place, then run"
	} else {
		d["changed"] = h.changed
		d["note"] = "the scenario's flows are the marshaled result of Flow.ChangeLanguage; the inspection judged is that of the in-memory flow ChangeLanguage returned"
	}
	return d
}

func (h *history) fingerprint() string {
	if h == nil || h.mode == "" {
		return ""
	}
	return "|history:" + h.mode + ":" + h.via + ":" + h.pre + ":" + h.lang
}

// drawHistory decides, from a stream of its own, whether a generated case gets a history (the base scenario stays what
// (seed, index) made it).
func drawHistory(seed int64, index int) *history {
	hr := fw.NewRand(seed, "C20/history", index)
	h := &history{r: hr}
	switch x := hr.Intn(100); {
	case x < 10:
		h.mode = "late-translation"
		h.via = []string{"set", "po"}[hr.Weighted([]int{65, 35})]
		h.pre = []string{"inspect", "inspect+extract"}[hr.Weighted([]int{80, 20})]
	case x < 20:
		h.mode = "change-language"
	}
	return h
}

func sortedKeys(m map[string]any) []string {
	ks := make([]string, 0, len(m))
	for k := range m {
		ks = append(ks, k)
	}
	sort.Strings(ks)
	return ks
}

func hasTranslations(loc map[string]any) bool {
	for _, lm := range loc {
		if len(asAnyMap(lm)) > 0 {
			return true
		}
	}
	return false
}

func asAnyMap(v any) map[string]any {
	m, _ := v.(map[string]any)
	return m
}

// prepare runs before the assets are loaded. It returns the scenario to load (a shallow copy when the flows differ
// from the witness scenario).
func (h *history) prepare(scen *gen.Scenario, res *fw.Result) *gen.Scenario {
	if h == nil || h.mode == "" {
		return scen
	}
	h.late, h.objects, h.changed = map[string]gen.M{}, map[string]flows.Flow{}, map[string][2]string{}
	h.preView, h.applied = map[string]*inspView{}, map[string]bool{}
	fl, _ := scen.Assets["flows"].([]any)
	switch h.mode {
	case "late-translation":
		// the flows as loaded: the same definitions with an empty localization
		var stripped []any
		for _, f := range fl {
			fm := asAnyMap(f)
			loc := asAnyMap(fm["localization"])
			if !hasTranslations(loc) {
				stripped = append(stripped, f)
				continue
			}
			cp := gen.M{}
			for k, v := range fm {
				cp[k] = v
			}
			cp["localization"] = gen.M{}
			stripped = append(stripped, cp)
			h.late[str(fm["uuid"])] = gen.M(loc)
		}
		if len(h.late) == 0 {
			res.Count("history.not_applicable(no_translations)", 1)
			h.mode = ""
			return scen
		}
		load := *scen
		load.Assets = gen.M{}
		for k, v := range scen.Assets {
			load.Assets[k] = v
		}
		load.Assets["flows"] = stripped
		return &load

	case "change-language":
		for i, f := range fl {
			fm := asAnyMap(f)
			langs := sortedKeys(asAnyMap(fm["localization"]))
			if len(langs) == 0 {
				continue
			}
			lang := h.lang
			if lang == "" {
				lang = langs[h.r.Intn(len(langs))]
			}
			m, obj, pre := changeLanguage(fm, lang, res)
			if m == nil {
				continue
			}
			fl[i] = m
			id := str(fm["uuid"])
			h.objects[id] = obj
			h.preView[id] = pre
			h.changed[id] = [2]string{str(fm["language"]), lang}
		}
		if len(h.objects) == 0 {
			res.Count("history.not_applicable(no_translations)", 1)
			h.mode = ""
		}
	}
	return scen
}

// changeLanguage reads the definition, changes its base language and returns the new definition (as JSON under
// construction), the in-memory flow it is the marshaled form of, and the inspection of the flow before the change.
func changeLanguage(def map[string]any, lang string, res *fw.Result) (m gen.M, obj flows.Flow, pre *inspView) {
	defer func() {
		if rec := recover(); rec != nil {
			// not C20's business (nothing was inspected or run yet): the flow stays as it was
			res.Count("history.change-language.panicked(flow_left_as_is)", 1)
			m, obj, pre = nil, nil, nil
		}
	}()
	b, err := json.Marshal(def)
	if err != nil {
		return nil, nil, nil
	}
	fw.SetDetail("ReadFlow for ChangeLanguage")
	f, err := definition.ReadFlow(b, nil)
	if err != nil {
		res.Count("history.change-language.unreadable(flow_left_as_is)", 1)
		return nil, nil, nil
	}
	if ij, err := json.Marshal(f.Inspect(nil)); err == nil {
		pre, _ = parseInspection(ij)
	}
	fw.SetDetail("ChangeLanguage " + lang)
	f2, err := f.ChangeLanguage(i18n.Language(lang))
	if err != nil {
		res.Count("history.change-language.refused(flow_left_as_is)", 1)
		return nil, nil, nil
	}
	b2, err := json.Marshal(f2)
	if err != nil {
		return nil, nil, nil
	}
	// a translation that is not valid as base text (an attachment, say) gives a flow that cannot be read back: no runs of it
	if _, err := definition.ReadFlow(b2, nil); err != nil {
		res.Count("history.change-language.result_not_readable(flow_left_as_is)", 1)
		return nil, nil, nil
	}
	var out map[string]any
	if json.Unmarshal(b2, &out) != nil {
		return nil, nil, nil
	}
	res.Count("history.change-language.flows", 1)
	return gen.M(out), f2, pre
}

// afterLoad runs when the assets are loaded and before anything runs (late-translation: inspect, then import).
// Clock / UUID sources are restored afterwards, so the runs see what they would have seen without the history.
func (h *history) afterLoad(rn *drive.Runner, res *fw.Result) {
	if h == nil || h.mode == "" {
		return
	}
	res.Count("history."+h.mode+".cases", 1)
	if h.mode != "late-translation" {
		return
	}
	st := rn.Src.Snapshot()
	defer rn.Src.Restore(st)
	ids := make([]string, 0, len(h.late))
	for id := range h.late {
		ids = append(ids, id)
	}
	sort.Strings(ids)
	for _, id := range ids {
		f, err := rn.SA.Flows().Get(assets.FlowUUID(id))
		if err != nil || f == nil {
			continue
		}
		func() {
			defer func() {
				if rec := recover(); rec != nil {
					res.Count("history.late-translation.panicked", 1)
				}
			}()
			fw.SetDetail("late-translation: first inspection of " + id)
			if ij, err := json.Marshal(f.Inspect(rn.SA)); err == nil {
				h.preView[id], _ = parseInspection(ij)
			}
			res.Count("history.late-translation.first_inspections", 1)
			if h.pre == "inspect+extract" {
				_ = f.ExtractTemplates()
				_ = f.ExtractLocalizables()
			}
			loc := h.late[id]
			imported := false
			if h.via == "po" {
				imported = importByPO(f, loc, id, res)
			}
			if !imported {
				n := 0
				for _, lang := range sortedKeys(loc) {
					lm := asAnyMap(loc[lang])
					for _, item := range sortedKeys(lm) {
						im := asAnyMap(lm[item])
						for _, prop := range sortedKeys(im) {
							f.Localization().SetItemTranslation(i18n.Language(lang), uuids.UUID(item), prop, stringsOfAny(im[prop]))
							n++
						}
					}
				}
				res.Count("history.late-translation.flows_translated_by_set", 1)
				res.Count("history.late-translation.items_set", int64(n))
			}
			h.applied[id] = true
			res.Count("history.late-translation.flows", 1)
		}()
	}
}

// importByPO: the translators' way. A copy of the flow WITH the translations is read, a PO file is extracted from it
// per language and imported into the untranslated object. (What a PO file cannot carry - translations of properties
// the base flow leaves empty - is not imported; the flow is then simply a flow with fewer translations.)
func importByPO(target flows.Flow, loc gen.M, id string, res *fw.Result) (ok bool) {
	defer func() {
		if rec := recover(); rec != nil {
			res.Count("history.late-translation.po_import_panicked(set_instead)", 1)
			ok = false
		}
	}()
	def, err := json.Marshal(target)
	if err != nil {
		return false
	}
	var dm map[string]any
	if json.Unmarshal(def, &dm) != nil {
		return false
	}
	dm["localization"] = map[string]any(loc)
	withLoc, err := json.Marshal(dm)
	if err != nil {
		return false
	}
	src, err := definition.ReadFlow(withLoc, nil)
	if err != nil {
		res.Count("history.late-translation.po_source_unreadable(set_instead)", 1)
		return false
	}
	for _, lang := range sortedKeys(loc) {
		if lang == string(target.Language()) {
			continue
		}
		fw.SetDetail("late-translation: PO " + lang + " of " + id)
		p, err := translation.ExtractFromFlows("", i18n.Language(lang), nil, src)
		if err != nil {
			return false
		}
		if err := translation.ImportIntoFlows(p, i18n.Language(lang), nil, target); err != nil {
			return false
		}
		res.Count("history.late-translation.po_files_imported", 1)
		res.Count("history.late-translation.po_entries", int64(len(p.Entries)))
	}
	res.Count("history.late-translation.flows_translated_by_po", 1)
	return true
}

// object returns the flow object whose inspection is judged for the given flow of the session assets: the object
// itself, or (change-language) the in-memory flow ChangeLanguage returned, if it is the same flow by definition.
func (h *history) object(f flows.Flow, defJSON []byte, res *fw.Result) (flows.Flow, string) {
	if h == nil || h.mode == "" {
		return f, ""
	}
	id := string(f.UUID())
	switch h.mode {
	case "late-translation":
		if h.applied[id] {
			return f, h.mode
		}
	case "change-language":
		o := h.objects[id]
		if o == nil {
			return f, ""
		}
		ob, err := json.Marshal(o)
		if err == nil && sameJSON(ob, defJSON) {
			res.Count("history.change-language.in_memory_flows_inspected", 1)
			return o, h.mode
		}
		res.Count("history.change-language.definition_differs_from_reread(in_memory_flow_not_judged)", 1)
	}
	return f, ""
}

func sameJSON(a, b []byte) bool {
	var x, y any
	if json.Unmarshal(a, &x) != nil || json.Unmarshal(b, &y) != nil {
		return false
	}
	return reflect.DeepEqual(x, y)
}

// freshView: the inspection of a flow just read from the given definition - the reference point that tells whether a
// gap is one of the inspection as such (the fresh one has it too) or one that only the object's history produced.
func freshView(defJSON []byte, sa flows.SessionAssets) (v *inspView) {
	defer func() {
		if recover() != nil {
			v = nil
		}
	}()
	f, err := definition.ReadFlow(defJSON, nil)
	if err != nil {
		return nil
	}
	ij, err := json.Marshal(f.Inspect(sa))
	if err != nil {
		return nil
	}
	v, _ = parseInspection(ij)
	return v
}

// historySig gives the signature of a gap found on a flow object with a history: when a flow freshly read from the
// same definition DOES list what is missing, the defect is not the missing declaration the plain signature stands for
// (by that action / router type) but staleness of the inspection after that history - one defect, whatever the runs
// happened to execute, so the signature names the history and the clause only.
func (ck *checker) historySig(fi *flowInfo, plain, clause string, listed func(v *inspView) bool) string {
	if fi.history == "" {
		return plain
	}
	if !fi.freshTried {
		fi.freshTried = true
		fi.fresh = freshView(fi.defJSON, ck.rn.SA)
	}
	if fi.fresh != nil && listed(fi.fresh) {
		ck.res.Count("history."+fi.history+".gaps_a_fresh_inspection_does_not_have", 1)
		return "coverage-gap|inspection-stale-after:" + fi.history + "|" + clause
	}
	return plain
}

func (h *history) String() string {
	if h == nil || h.mode == "" {
		return ""
	}
	return fmt.Sprintf("history %s %s %s", h.mode, h.via, h.pre)
}
