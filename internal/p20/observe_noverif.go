//go:build !verif

package p20

import "github.com/nyaruka/goflow/flows"

// Without the verif build tag goflow has no template observer: the "evaluated template" clause is vacuous and its
// floors are not demanded (see Floors).
const observerAvailable = false

func installObserver(f func(run flows.Run, template string)) {}

func removeObserver() {}
