package p20

import (
	"fmt"
	"sort"
	"strings"

	"verif/internal/fw"
	"verif/internal/gen"
)

// Planting: references to globals / contact fields that occur NOWHERE else in the scenario are written into the
// string properties of actions and routers - those the flow spec says are templates and those it says are not
// (say_msg.audio_url, set_run_result.category, names of references, category names, translations of any of them).
// A property that is not evaluated never reaches the template observer, so its planted reference demands nothing;
// a property that is evaluated (with or without an engine:"evaluated" tag) is seen by the observer and its planted
// reference can only be among the dependencies if inspection knows that this very property is a template.
//
// Planting only writes the scenario (the input); the oracle never looks at what was planted.

type planter struct {
	r     *fw.Rand
	p     float64 // probability that a given slot is planted
	quiet bool    // planted assets have empty values (the flow behaves as without them)
	trAll bool    // give every planted scalar/list property a translation in every language of the flow
	n     int
	scen  *gen.Scenario

	globals, fields []string
	where           map[string]bool // "type.prop" of every planted slot
	slots           int
}

const (
	kText     = iota // free text: " <ref>" is appended
	kURL             // URL-ish: "?z=<ref>" / "&z=<ref>" is appended (no spaces, no quotes)
	kAddEmail        // list of addresses: one more element "<ref>@nyaruka.com"
	kQuery           // contact query: " OR name = <ref>"
	kShort           // length-limited text (result category): short reference forms only
	kGlue            // "<ref>" appended without a separator (phone numbers)
)

type propSpec struct {
	name string
	kind int
	add  any // value given to the property when it is absent (nil: never added)
}

// every string-valued property of every action type that is not confined to an enumeration / pattern by validation
// (result_name, method, scheme, status, topic, urns cannot hold a reference and still load)
var plantProps = map[string][]propSpec{
	"send_msg":             {{"text", kText, nil}, {"attachments", kURL, nil}, {"quick_replies", kText, []string{"Yes", "No"}}, {"template_variables", kText, nil}},
	"send_broadcast":       {{"text", kText, nil}, {"attachments", kURL, []string{"image/jpeg:http://x.io/b.jpg"}}, {"quick_replies", kText, []string{"Ok"}}, {"contact_query", kQuery, nil}, {"legacy_vars", kText, []string{"Nobody"}}},
	"start_session":        {{"contact_query", kQuery, nil}, {"legacy_vars", kText, []string{"Nobody"}}},
	"say_msg":              {{"text", kText, nil}, {"audio_url", kURL, "http://x.io/say.mp3"}},
	"play_audio":           {{"audio_url", kURL, nil}},
	"call_webhook":         {{"url", kURL, nil}, {"headers", kText, gen.M{"X-Planted": "p"}}, {"body", kText, "{}"}},
	"call_classifier":      {{"input", kText, nil}},
	"open_ticket":          {{"body", kText, nil}},
	"send_email":           {{"addresses", kAddEmail, nil}, {"subject", kText, nil}, {"body", kText, nil}},
	"set_contact_field":    {{"value", kText, nil}},
	"set_contact_language": {{"language", kText, nil}},
	"set_contact_name":     {{"name", kText, nil}},
	"set_contact_timezone": {{"timezone", kText, nil}},
	"set_run_result":       {{"value", kText, nil}, {"category", kShort, "Set"}},
	"add_contact_urn":      {{"path", kText, nil}},
}

// properties that hold references ({uuid|key|email, name} or {name_match} / {email_match}): their free strings
var refListProps = []string{"groups", "labels", "contacts"}
var refProps = []string{"flow", "channel", "topic", "assignee", "template", "classifier", "optin", "field"}

func newPlanter(r *fw.Rand, scen *gen.Scenario, p float64, quiet, trAll bool) *planter {
	return &planter{r: r, p: p, quiet: quiet, trAll: trAll, scen: scen, where: map[string]bool{}}
}

var globalForms = []string{"@globals.%s", "@(globals.%s)", "@(upper(globals.%s))", "@(default(globals.%s, \"-\"))", "@(globals.%s & \"\")", "@GLOBALS.%s",
	// inside the body of an anonymous function
	"@(join(foreach(array(\"a\", \"b\"), (x) => globals.%s & x), \",\"))", "@(foreach(array(1), (v) => default(globals.%s, v))[0])"}
var fieldForms = []string{"@fields.%s", "@contact.fields.%s", "@(fields.%s)", "@(text(contact.fields.%s))", "@(default(parent.fields.%s, \"-\"))", "@(default(child.fields.%s, \"-\"))",
	"@(default(parent.contact.fields.%s, \"-\"))", "@(default(child.contact.fields.%s, \"-\"))", "@Contact.Fields.%s",
	"@(join(foreach(array(\"a\", \"b\"), (x) => x & fields.%s), \",\"))", "@(foreach(array(1), (v) => default(contact.fields.%s, v))[0])"}

// ref makes a reference to a fresh global / field. plain: no spaces / quotes (URLs, queries); short: identifier form.
func (pl *planter) ref(plain, short bool) string {
	pl.n++
	pl.slots++
	global := pl.r.Bool()
	forms := fieldForms
	if global {
		forms = globalForms
	}
	var form string
	switch {
	case short:
		form = forms[0]
	case plain:
		form = forms[pl.r.Intn(3)]
	default:
		form = forms[pl.r.Intn(len(forms))]
	}
	var k string
	if global {
		k = fmt.Sprintf("zg%d", pl.n)
		pl.globals = append(pl.globals, k)
	} else {
		k = fmt.Sprintf("zf%d", pl.n)
		pl.fields = append(pl.fields, k)
	}
	return fmt.Sprintf(form, k)
}

func (pl *planter) apply(s string, kind int) string {
	switch kind {
	case kURL:
		sep := "?z="
		if strings.Contains(s, "?") {
			sep = "&z="
		}
		return s + sep + pl.ref(true, false)
	case kQuery:
		return s + " OR name = " + pl.ref(true, false)
	case kShort:
		if len(s) > 20 {
			return s
		}
		return s + " " + pl.ref(true, true)
	case kGlue:
		return s + pl.ref(true, false)
	case kAddEmail:
		return pl.ref(true, false) + "@nyaruka.com"
	}
	return s + " " + pl.ref(false, false)
}

func (pl *planter) want(typ, prop string, scale float64) bool {
	if pl.p < 1 && !pl.r.Chance(pl.p*scale) { // p = 1 (directed corpus): every slot
		return false
	}
	pl.where[typ+"."+prop] = true
	return true
}

// plantValue returns v (a string, a list of strings or an object of strings) with references planted.
func (pl *planter) plantValue(typ, prop string, v any, kind int, scale float64) any {
	one := func(s string) string {
		if pl.want(typ, prop, scale) {
			return pl.apply(s, kind)
		}
		return s
	}
	switch t := v.(type) {
	case string:
		return one(t)
	case []string:
		out := make([]string, 0, len(t)+1)
		if kind == kAddEmail {
			out = append(out, t...)
			if pl.want(typ, prop, scale) {
				out = append(out, pl.apply("", kind))
			}
			return out
		}
		for _, s := range t {
			out = append(out, one(s))
		}
		return out
	case []any:
		out := make([]any, 0, len(t)+1)
		if kind == kAddEmail {
			out = append(out, t...)
			if pl.want(typ, prop, scale) {
				out = append(out, pl.apply("", kind))
			}
			return out
		}
		for _, x := range t {
			if s, ok := x.(string); ok {
				out = append(out, one(s))
			} else {
				out = append(out, x)
			}
		}
		return out
	case map[string]any:
		keys := make([]string, 0, len(t))
		for k := range t {
			keys = append(keys, k)
		}
		sort.Strings(keys)
		for _, k := range keys {
			if s, ok := t[k].(string); ok {
				t[k] = one(s)
			}
		}
		return t
	}
	return v
}

func asM(v any) gen.M {
	m, _ := v.(map[string]any)
	return m
}

func listOfM(v any) []gen.M {
	switch t := v.(type) {
	case []gen.M:
		return t
	case []any:
		var out []gen.M
		for _, x := range t {
			if m := asM(x); m != nil {
				out = append(out, m)
			}
		}
		return out
	}
	return nil
}

func (pl *planter) plantRef(typ, prop string, m gen.M) {
	if m == nil {
		return
	}
	for _, k := range []string{"name", "name_match", "email_match"} {
		if s, ok := m[k].(string); ok && s != "" {
			m[k] = pl.plantValue(typ, prop+"."+k, s, kText, 0.6)
		}
	}
}

// translation slots of one localizable item (action, case, category)
func (pl *planter) plantTranslations(loc gen.M, langs []string, typ, uuid, prop string, base any, kind int) {
	for _, l := range langs {
		lm := asM(loc[l])
		if lm == nil {
			continue
		}
		im := asM(lm[uuid])
		if cur, ok := im[prop]; ok && im != nil {
			im[prop] = pl.plantValue(typ, prop+"(translation)", cur, kind, 1)
			continue
		}
		if kind == kAddEmail || kind == kQuery || base == nil {
			continue
		}
		if !pl.trAll && !pl.r.Chance(0.3) {
			continue
		}
		var tr []string
		switch b := base.(type) {
		case string:
			tr = []string{b}
		case []string:
			tr = append(tr, b...)
		case []any:
			for _, x := range b {
				if s, ok := x.(string); ok {
					tr = append(tr, s)
				}
			}
		default:
			continue
		}
		if len(tr) == 0 {
			continue
		}
		// the base text already carries the base's planted reference: a translation gets its own, on a clean copy
		for i := range tr {
			tr[i] = stripPlanted(tr[i])
		}
		if im == nil {
			im = gen.M{}
			lm[uuid] = im
		}
		im[prop] = pl.plantValue(typ, prop+"(translation)", tr, kind, 1e9) // scale: always
	}
}

// stripPlanted removes what apply() appended (so that a translation made from a base text names only its own assets).
func stripPlanted(s string) string {
	for _, cut := range []string{" @", "?z=@", "&z=@", " OR name = @"} {
		if i := strings.LastIndex(s, cut); i >= 0 && (strings.Contains(s[i:], "zg") || strings.Contains(s[i:], "zf")) {
			return s[:i]
		}
	}
	return s
}

func (pl *planter) plantAction(a gen.M, loc gen.M, langs []string) {
	typ, _ := a["type"].(string)
	uuid, _ := a["uuid"].(string)
	for _, ps := range plantProps[typ] {
		v, has := a[ps.name]
		if (!has || v == nil) && ps.add != nil && pl.r.Chance(pl.p) {
			v, has = cloneValue(ps.add), true
		}
		if !has || v == nil {
			continue
		}
		a[ps.name] = pl.plantValue(typ, ps.name, v, ps.kind, 1)
		pl.plantTranslations(loc, langs, typ, uuid, ps.name, a[ps.name], ps.kind)
	}
	for _, p := range refListProps {
		for _, m := range listOfM(a[p]) {
			pl.plantRef(typ, p, m)
		}
	}
	for _, p := range refProps {
		pl.plantRef(typ, p, asM(a[p]))
	}
	if typ == "call_resthook" && pl.want(typ, "resthook", 0.5) {
		// a resthook whose slug looks like a template (the slug is not a template)
		slug := "hook-" + pl.ref(true, false)
		a["resthook"] = slug
		appendAsset(pl.scen.Assets, "resthooks", gen.M{"slug": slug, "subscribers": []string{"http://localhost/?cmd=success"}})
	}
}

func cloneValue(v any) any {
	switch t := v.(type) {
	case []string:
		return append([]string{}, t...)
	case gen.M:
		out := gen.M{}
		for k, x := range t {
			out[k] = x
		}
		return out
	}
	return v
}

func (pl *planter) plantRouter(rt gen.M, loc gen.M, langs []string) {
	if rt == nil {
		return
	}
	typ := "router:" + fmt.Sprint(rt["type"])
	for _, c := range listOfM(rt["categories"]) {
		if s, ok := c["name"].(string); ok {
			c["name"] = pl.plantValue(typ, "categories.name", s, kShort, 0.4)
			if u, _ := c["uuid"].(string); u != "" {
				pl.plantTranslations(loc, langs, typ, u, "name", c["name"], kShort)
			}
		}
	}
	if s, ok := rt["operand"].(string); ok {
		rt["operand"] = pl.plantValue(typ, "operand", s, kText, 0.25)
	}
	for _, c := range listOfM(rt["cases"]) {
		if args, ok := c["arguments"]; ok {
			c["arguments"] = pl.plantValue(typ, "cases.arguments", args, kText, 0.3)
			if u, _ := c["uuid"].(string); u != "" {
				pl.plantTranslations(loc, langs, typ, u, "arguments", c["arguments"], kText)
			}
		}
	}
	if w := asM(rt["wait"]); w != nil {
		if s, ok := w["phone"].(string); ok {
			w["phone"] = pl.plantValue(typ, "wait.phone", s, kGlue, 1)
		}
	}
}

func appendAsset(a gen.M, key string, item gen.M) {
	switch t := a[key].(type) {
	case []gen.M:
		a[key] = append(t, item)
	case []any:
		a[key] = append(t, item)
	default:
		a[key] = []gen.M{item}
	}
}

// plantScenario plants into every flow of the scenario and defines the planted assets (most of them).
func (pl *planter) plantScenario() {
	for _, f := range pl.scen.Flows() {
		loc := asM(f["localization"])
		if loc == nil {
			loc = gen.M{}
			f["localization"] = loc
		}
		if len(loc) == 0 && (pl.trAll || pl.r.Chance(0.3)) {
			l := "spa"
			if f["language"] == "spa" {
				l = "fra"
			}
			loc[l] = gen.M{}
		}
		langs := make([]string, 0, len(loc))
		for l := range loc {
			langs = append(langs, l)
		}
		sort.Strings(langs)
		for _, n := range listOfM(f["nodes"]) {
			for _, a := range listOfM(n["actions"]) {
				pl.plantAction(a, loc, langs)
			}
			pl.plantRouter(asM(n["router"]), loc, langs)
		}
	}
	missP := 0.12
	if pl.trAll {
		missP = 0
	}
	contact := asM(pl.scen.Trigger["contact"])
	for _, k := range pl.globals {
		if pl.r.Chance(missP) {
			continue // a reference to a global that does not exist: still a dependency (listed as missing)
		}
		v := ""
		if !pl.quiet {
			v = "v" + k
		}
		appendAsset(pl.scen.Assets, "globals", gen.M{"key": k, "name": "Planted " + k, "value": v})
	}
	for _, k := range pl.fields {
		if pl.r.Chance(missP) {
			continue
		}
		appendAsset(pl.scen.Assets, "fields", gen.M{"uuid": gen.NamedUUID("field:" + k), "key": k, "name": "Planted " + k, "type": "text"})
		if !pl.quiet && contact != nil && pl.r.Chance(0.6) {
			fv := asM(contact["fields"])
			if fv == nil {
				fv = gen.M{}
				contact["fields"] = fv
			}
			fv[k] = gen.M{"text": "v" + k}
		}
	}
}

// ---------------------------------------------------------------------------------------------------
// service outcome paths: resthooks over every combination of subscriber answers, webhooks over every answer

// resthookPool: slug → subscriber commands of the fake webhook transport ("gone-hook" stays undefined: missing resthook)
var resthookPool = []struct {
	slug string
	cmds []string
}{
	{"new-registration", []string{"success"}},
	{"two-ok", []string{"success", "success"}},
	{"no-subscribers", []string{}},
	{"all-gone", []string{"gone"}},
	{"all-gone-3", []string{"gone", "gone", "gone"}},
	{"gone-then-ok", []string{"gone", "success"}},
	{"ok-then-gone", []string{"success", "gone"}},
	{"unavailable", []string{"unavailable"}},
	{"ok-unavailable-gone", []string{"success", "unavailable", "gone"}},
	{"gone-unavailable", []string{"gone", "unavailable"}},
	{"conn-error", []string{"connerr"}},
	{"gone-conn-error", []string{"gone", "connerr"}},
	{"bad-json", []string{"badjson"}},
	{"ok-bad-json", []string{"success", "badjson"}},
	{"ok-echo", []string{"echo"}},
}

func resthookAssets() []gen.M {
	var out []gen.M
	for _, h := range resthookPool {
		subs := []string{}
		for i, c := range h.cmds {
			subs = append(subs, fmt.Sprintf("http://localhost/sub%d?cmd=%s", i, c))
		}
		out = append(out, gen.M{"slug": h.slug, "subscribers": subs})
	}
	return out
}

var webhookURLPool = []string{
	"http://localhost/?cmd=success", "http://localhost/?cmd=unavailable", "http://localhost/?cmd=badjson", "http://localhost/?cmd=gone", "http://localhost/?cmd=connerr",
	"http://localhost/?cmd=casekeys", "http://localhost/echo", "http://localhost/?cmd=success&n=@fields.age", "http://localhost/@(1/0)", "  ", "not a url",
}

// diversifyServices gives the scenario the whole resthook pool and re-draws which resthook / webhook URL the
// call_resthook / call_webhook actions use, so that every outcome path of the services is executed.
func diversifyServices(scen *gen.Scenario, r *fw.Rand) {
	scen.Assets["resthooks"] = resthookAssets()
	for _, f := range scen.Flows() {
		for _, n := range listOfM(f["nodes"]) {
			for _, a := range listOfM(n["actions"]) {
				switch a["type"] {
				case "call_resthook":
					if r.Chance(0.9) {
						a["resthook"] = resthookPool[r.Intn(len(resthookPool))].slug
					} else {
						a["resthook"] = "gone-hook"
					}
					if _, ok := a["result_name"]; !ok && r.Chance(0.6) {
						a["result_name"] = "Hook"
					}
				case "call_webhook":
					if r.Chance(0.6) {
						a["url"] = fw.Pick(r, webhookURLPool)
					}
				}
			}
		}
	}
}
