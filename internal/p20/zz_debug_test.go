//go:build verif

package p20

import (
	"encoding/json"
	"fmt"
	"os"
	"sort"
	"testing"

	"verif/internal/fw"
)

func TestDebugCase(t *testing.T) {
	name := os.Getenv("C20_CASE")
	if name == "" {
		t.Skip()
	}
	p := &c20{}
	res := p.Run(fw.Case{Directed: name, Seed: 1, Tier: "quick"})
	res.Fingerprint = ""
	b, _ := json.MarshalIndent(res, "", " ")
	fmt.Println(string(b))
	s := findDirected(name)
	b, _ = json.MarshalIndent(s.Assets["flows"], "", " ")
	fmt.Println(string(b))
}

func TestDirectedFloors(t *testing.T) {
	p := &c20{}
	tot := map[string]int64{}
	sigs := map[string]string{}
	for _, n := range p.Directed() {
		res := p.Run(fw.Case{Directed: n, Seed: 1, Tier: "quick"})
		if res.Discarded != "" {
			fmt.Println("DISCARDED", n, res.Discarded)
		}
		for k, v := range res.Counters {
			tot[k] += v
		}
		for _, v := range res.Violations {
			sigs[v.Signature] = n
		}
	}
	for _, f := range p.Floors("quick") {
		if tot[f] == 0 {
			fmt.Println("FLOOR NOT MET BY DIRECTED:", f)
		}
	}
	var ks []string
	for k := range sigs {
		ks = append(ks, k)
	}
	sort.Strings(ks)
	for _, k := range ks {
		fmt.Println("SIG", k, "e.g.", sigs[k])
	}
	fmt.Println("directed:", len(p.Directed()))
}
