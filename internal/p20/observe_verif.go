//go:build verif

package p20

import (
	"github.com/nyaruka/goflow/flows"
	"github.com/nyaruka/goflow/flows/runs"
)

// observerAvailable: this build of goflow exports the verif-guarded template observer (flows/runs/observe_verif.go).
const observerAvailable = true

// installObserver makes every template a run evaluates (EvaluateTemplateValue / EvaluateTemplateText) known to f.
// The hook is a process global: workers are single threaded, and Run removes it again after the case.
func installObserver(f func(run flows.Run, template string)) {
	runs.VerifTemplateObserver = func(run flows.Run, template string, isValue bool) {
		defer func() { _ = recover() }() // the monitor must never disturb the run it watches
		f(run, template)
	}
}

func removeObserver() { runs.VerifTemplateObserver = nil }
