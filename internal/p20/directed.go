package p20

import (
	"verif/internal/fw"
	"verif/internal/gen"
)

// Directed corpus for C20 (DESIGN.md appendix C): one flow per action type that saves a result or holds a fixed
// reference, each executed on the success and on the failure path of its fake service, followed by a msg wait
// with a timeout (left by msg / by timeout) or a dial wait; routers with result names; localized templates;
// one case per resthook of resthookPool (every combination of subscriber answers); planted-* (plantedDirected):
// every free string property of every action / router / wait carries a reference that occurs nowhere else.

type M = gen.M

var d = gen.D{}

type namedScen struct {
	name string
	scen *gen.Scenario
	hist *history // nil = the flows are read, then inspected
}

func sp(s string) *string { return &s }

func u(name string) string { return gen.NamedUUID(name) }

func refOf(kind, name, label string) M { return M{"uuid": u(kind + ":" + name), "name": label} }

// assets = the DSL's base assets + what C20 needs on top (templates, a channel with opt-ins, more topics / resthooks).
func c20Assets(flows ...M) M {
	a := d.BaseAssets(flows...)
	a["channels"] = []M{
		{"uuid": u("chan:android"), "name": "Android", "address": "+17036975131", "schemes": []string{"tel"}, "roles": []string{"send", "receive", "call", "answer"}, "country": "US"},
		{"uuid": u("chan:facebook"), "name": "Facebook", "address": "2353263", "schemes": []string{"facebook"}, "roles": []string{"send", "receive"}, "features": []string{"optins"}},
	}
	a["topics"] = []M{{"uuid": u("topic:general"), "name": "General"}, {"uuid": u("topic:weather"), "name": "Weather"}}
	a["users"] = []M{{"email": "bob@nyaruka.com", "name": "Bob"}, {"email": "jim@nyaruka.com", "name": "Jim"}}
	a["labels"] = []M{{"uuid": u("label:spam"), "name": "Spam"}, {"uuid": u("label:important"), "name": "Important"}}
	// every combination of subscriber answers ("gone-hook" is not defined: the missing-resthook path)
	a["resthooks"] = append(resthookAssets(),
		M{"slug": "flaky-hook", "subscribers": []string{"http://localhost/?cmd=unavailable", "http://localhost/?cmd=gone"}},
		M{"slug": "empty-hook", "subscribers": []string{}})
	a["templates"] = []M{{
		"uuid": u("template:affirmation"), "name": "affirmation",
		"translations": []M{
			{"channel": refOf("chan", "android", "Android"), "locale": "eng", "components": []M{{"name": "body", "type": "body/text", "content": "Hi {{1}}, are you still {{2}}?", "variables": M{"1": 0, "2": 1}}}, "variables": []M{{"type": "text"}, {"type": "text"}}},
			{"channel": refOf("chan", "android", "Android"), "locale": "spa", "components": []M{{"name": "body", "type": "body/text", "content": "Hola {{1}}, tienes {{2}}?", "variables": M{"1": 0, "2": 1}}}, "variables": []M{{"type": "text"}, {"type": "text"}}},
		},
	}}
	return a
}

func contact(kv M) M {
	c := d.Contact()
	for k, v := range kv {
		if v == nil {
			delete(c, k)
		} else {
			c[k] = v
		}
	}
	return c
}

// tail: a msg wait with timeout and a result, then a closing message that names a global and a field
func tail() []M {
	return []M{
		d.WaitNode("w1", "end", sp("end")),
		d.Node("end", []any{d.SendMsg("endm", "Bye from @globals.org_name, you are @fields.age and @(upper(contact.fields.gender))")}, nil, d.Exit("endx", "")),
	}
}

// single: flow A = [a1: the given actions] → w1 (msg wait with timeout, result) → end
func single(ftype string, actions []any, extraFlows ...M) M {
	nodes := append([]M{d.Node("a1", actions, nil, d.Exit("a1x", "w1"))}, tail()...)
	fl := []M{d.Flow("A", ftype, nodes...)}
	fl = append(fl, extraFlows...)
	return c20Assets(fl...)
}

func act(name, typ string, kv M) M { return d.Action(name, typ, kv) }

func directed() []namedScen {
	var out []namedScen
	add := func(name string, s *gen.Scenario) { out = append(out, namedScen{name: name, scen: s}) }
	msgThenTimeout := []M{d.MsgResume(0, "hello")}
	timeoutOnly := []M{d.Timeout(0)}
	alt := func(i int) []M {
		if i%2 == 0 {
			return msgThenTimeout
		}
		return timeoutOnly
	}
	n := 0
	simple := func(name string, a M, trig M, assetsFix func(M)) {
		as := single("messaging", []any{a})
		if assetsFix != nil {
			assetsFix(as)
		}
		if trig == nil {
			trig = d.Manual("A", nil)
		}
		add(name, &gen.Scenario{Assets: as, Trigger: trig, Resumes: alt(n)})
		n++
	}

	// ---- actions that save results --------------------------------------------------------------------
	{
		a := act("srr", "set_run_result", M{"name": "Color", "value": "@input.text @globals.org_name", "category": "Red"})
		as := single("messaging", []any{a})
		as["flows"].([]any)[0].(M)["localization"] = M{"spa": M{a["uuid"].(string): M{"category": []string{"Rojo"}}}}
		add("set_run_result-category-localized", &gen.Scenario{Assets: as, Trigger: d.Manual("A", contact(M{"language": "spa"})), Resumes: msgThenTimeout})
	}
	simple("set_run_result-no-category", act("srr", "set_run_result", M{"name": "Age Result", "value": "@fields.age"}), nil, nil)
	simple("set_run_result-value-error", act("srr", "set_run_result", M{"name": "Broken", "value": "@(1 / 0)", "category": "Red"}), nil, nil)
	for _, cmd := range []string{"success", "unavailable", "badjson", "connerr", "gone"} {
		simple("call_webhook-"+cmd, act("wh", "call_webhook", M{"method": "POST", "url": "http://localhost/?cmd=" + cmd, "headers": M{"X-Org": "@globals.org_name"}, "body": "{\"age\": @(json(fields.age))}", "result_name": "webhook"}), nil, nil)
	}
	simple("call_webhook-no-result-name", act("wh", "call_webhook", M{"method": "GET", "url": "http://localhost/?cmd=success&nick=@contact.fields.nick"}), nil, nil)
	for _, hook := range []string{"flaky-hook", "empty-hook", "gone-hook"} {
		simple("call_resthook-"+hook, act("rh", "call_resthook", M{"resthook": hook, "result_name": "Hook Result"}), nil, nil)
	}
	for _, h := range resthookPool {
		if h.slug == "new-registration" {
			simple("call_resthook-new-registration", act("rh", "call_resthook", M{"resthook": h.slug, "result_name": "Hook Result"}), nil, nil)
		} else {
			simple("call_resthook-subscribers-"+h.slug, act("rh", "call_resthook", M{"resthook": h.slug, "result_name": "Hook Result"}), nil, nil)
		}
	}
	simple("call_resthook-no-result-name", act("rh", "call_resthook", M{"resthook": "all-gone"}), nil, nil)
	{
		// two result keys, each first produced by a webhook / resthook and then by something that gives it a category of its
		// own: every key's listed categories are the union of its own producers', whatever the other key got
		as := single("messaging", []any{
			act("w1", "call_webhook", M{"method": "GET", "url": "http://localhost/?cmd=unavailable", "result_name": "Lookup"}),
			act("r1", "call_resthook", M{"resthook": "all-gone", "result_name": "Payment"}),
			act("s1", "set_run_result", M{"name": "Lookup", "value": "x", "category": "Cached"}),
			act("s2", "set_run_result", M{"name": "Payment", "value": "y", "category": "Deferred"}),
			act("w3", "call_webhook", M{"method": "GET", "url": "http://localhost/?cmd=success", "result_name": "Third"}),
			act("s3", "set_run_result", M{"name": "Third", "value": "z", "category": "Other One"}),
		})
		add("results-two-webhook-keys-with-extra-categories", &gen.Scenario{Assets: as, Trigger: d.Manual("A", nil), Resumes: msgThenTimeout})
	}
	{
		// attachments / quick replies / template variables that exist only in a translation (the base language has none) and
		// name globals and fields that occur nowhere else
		a := act("m", "send_msg", M{"text": "hi"})
		as := single("messaging", []any{a})
		as["flows"].([]any)[0].(M)["localization"] = M{"spa": M{a["uuid"].(string): M{"attachments": []string{"image/jpeg:http://x.io/@globals.only_in_translation_a.jpg"}, "quick_replies": []string{"@fields.only_in_translation_q", "@globals.only_in_translation_q"}}}}
		as["globals"] = append(listOfM(as["globals"]), M{"key": "only_in_translation_a", "name": "A", "value": "a"}, M{"key": "only_in_translation_q", "name": "Q", "value": "q"})
		as["fields"] = append(listOfM(as["fields"]), M{"uuid": gen.NamedUUID("field:oitq"), "key": "only_in_translation_q", "name": "OITQ", "type": "text"})
		add("send_msg-translation-only-attachments-and-quick-replies", &gen.Scenario{Assets: as, Trigger: d.Manual("A", contact(M{"language": "spa"})), Resumes: msgThenTimeout})
	}
	{
		// two hooks saving the same result one after the other: the first one's category is seen in the event only
		as := single("messaging", []any{act("rh1", "call_resthook", M{"resthook": "all-gone", "result_name": "Hook Result"}), act("rh2", "call_resthook", M{"resthook": "new-registration", "result_name": "Hook Result"})})
		add("call_resthook-gone-then-overwritten", &gen.Scenario{Assets: as, Trigger: d.Manual("A", nil), Resumes: timeoutOnly})
	}
	for _, cmd := range []string{"casekeys", "echo"} {
		simple("call_webhook-"+cmd, act("wh", "call_webhook", M{"method": "GET", "url": "http://localhost/?cmd=" + cmd, "result_name": "webhook"}), nil, nil)
	}
	simple("call_classifier-success", act("cl", "call_classifier", M{"classifier": refOf("classifier", "booking", "Booking"), "input": "book a flight to @fields.state", "result_name": "Intent"}), nil, nil)
	simple("call_classifier-failure", act("cl", "call_classifier", M{"classifier": refOf("classifier", "booking", "Booking"), "input": "please fail", "result_name": "Intent"}), nil, nil)
	simple("call_classifier-skipped", act("cl", "call_classifier", M{"classifier": refOf("classifier", "booking", "Booking"), "input": "@fields.nick", "result_name": "Intent"}), nil, nil)
	simple("call_classifier-missing", act("cl", "call_classifier", M{"classifier": refOf("classifier", "gone", "Gone"), "input": "book a flight", "result_name": "Intent"}), nil, nil)
	simple("transfer_airtime-success", act("ta", "transfer_airtime", M{"amounts": M{"RWF": 500, "USD": 0.5}, "result_name": "Airtime"}), nil, nil)
	simple("transfer_airtime-failure", act("ta", "transfer_airtime", M{"amounts": M{"USD": 1}, "result_name": "Airtime"}), nil, nil)
	simple("transfer_airtime-no-tel", act("ta", "transfer_airtime", M{"amounts": M{"RWF": 500}, "result_name": "Airtime"}), d.Manual("A", contact(M{"urns": nil})), nil)
	ticket := func(kv M) M {
		m := M{"body": "Help @contact.name of @globals.org_name", "result_name": "Ticket"}
		for k, v := range kv {
			m[k] = v
		}
		return act("ot", "open_ticket", m)
	}
	simple("open_ticket-success", ticket(M{"topic": refOf("topic", "weather", "Weather"), "assignee": M{"email": "bob@nyaruka.com", "name": "Bob"}}), nil, nil)
	simple("open_ticket-default-topic", ticket(M{"assignee": M{"email_match": "@(\"jim\" & \"@nyaruka.com\")"}}), nil, nil)
	simple("open_ticket-missing-topic", ticket(M{"topic": refOf("topic", "gone", "Gone"), "assignee": M{"email": "nobody@nyaruka.com", "name": "Nobody"}}), nil, nil)
	// same result name as the wait node's router: the key is listed (by the router) but not with the ticket's categories
	simple("open_ticket-result-name-shared-with-router", ticket(M{"topic": refOf("topic", "weather", "Weather"), "result_name": "Response w1"}), nil, nil)
	{
		t := d.Manual("A", nil)
		t["batch"] = true
		simple("open_ticket-batch-start", ticket(M{"topic": refOf("topic", "weather", "Weather")}), t, nil)
	}
	simple("send_email-success", act("se", "send_email", M{"addresses": []string{"bob@nyaruka.com"}, "subject": "Hi from @globals.org_name", "body": "Age @fields.age"}), nil, nil)
	simple("send_email-failure", act("se", "send_email", M{"addresses": []string{"fail@nyaruka.com"}, "subject": "Hi", "body": "Limit @globals.limit"}), nil, nil)

	// ---- routers with result names, waits with timeouts ---------------------------------------------
	{
		yes, no, other, tmo := d.Cat("Yes", "r1yes"), d.Cat("No", "r1no"), d.Cat("Other", "r1other"), d.Cat("No Response", "r1tmo")
		router := d.Switch("@input.text", []M{yes, no, other, tmo}, other, []M{
			{"type": "has_any_word", "arguments": []string{"yes yeah"}, "category_uuid": yes["uuid"]},
			{"type": "has_any_word", "arguments": []string{"no @globals.org_name"}, "category_uuid": no["uuid"]},
			{"type": "has_number_gt", "arguments": []string{"@globals.limit"}, "category_uuid": other["uuid"]},
		}, M{"type": "msg", "timeout": M{"seconds": 60, "category_uuid": tmo["uuid"]}}, "Answer")
		exits := []M{d.Exit("r1yes", "r1"), d.Exit("r1no", "r1"), d.Exit("r1other", "r1"), d.Exit("r1tmo", "")}
		fl := d.Flow("A", "messaging", d.Node("r1", []any{d.SendMsg("r1m", "Yes or no?")}, router, exits...))
		// Spanish arguments for the first case
		fl["localization"] = M{"spa": M{router["cases"].([]any)[0].(M)["uuid"].(string): M{"arguments": []string{"si @fields.nick"}}, yes["uuid"].(string): M{"name": []string{"Si"}}}}
		add("router-result-wait-timeout", &gen.Scenario{Assets: c20Assets(fl), Trigger: d.Manual("A", nil),
			Resumes: []M{d.MsgResume(0, "yes"), d.MsgResume(1, "no"), d.MsgResume(2, "42"), d.MsgResume(3, "whatever"), d.Timeout(4)}})
		add("router-result-wait-timeout-spa", &gen.Scenario{Assets: c20Assets(fl), Trigger: d.Manual("A", contact(M{"language": "spa"})),
			Resumes: []M{d.MsgResume(0, "si"), d.Timeout(1)}})
	}
	{
		a, b := d.Cat("Bucket A", "rndA"), d.Cat("Bucket B", "rndB")
		nodes := append([]M{d.Node("a1", nil, M{"type": "random", "categories": []any{a, b}, "result_name": "Bucket"}, d.Exit("rndA", "w1"), d.Exit("rndB", "w1"))}, tail()...)
		add("random-router-result", &gen.Scenario{Assets: c20Assets(d.Flow("A", "messaging", nodes...)), Trigger: d.Manual("A", nil), Resumes: timeoutOnly})
	}
	{
		// no-wait switch on a field with a result, same result name also set by an action with another category
		adult, minor := d.Cat("Adult", "ageA"), d.Cat("Minor", "ageM")
		router := d.Switch("@fields.age", []M{adult, minor}, minor, []M{{"type": "has_number_gte", "arguments": []string{"@globals.limit"}, "category_uuid": adult["uuid"]}}, nil, "Age Group")
		nodes := append([]M{
			d.Node("a0", []any{act("srr0", "set_run_result", M{"name": "age_group", "value": "preset", "category": "Unknown"})}, nil, d.Exit("a0x", "a1")),
			d.Node("a1", nil, router, d.Exit("ageA", "w1"), d.Exit("ageM", "w1"))}, tail()...)
		add("switch-result-merged-with-action", &gen.Scenario{Assets: c20Assets(d.Flow("A", "messaging", nodes...)), Trigger: d.Manual("A", nil), Resumes: msgThenTimeout})
	}
	// voice: dial waits
	voiceTrigger := func(c M) M {
		t := d.Manual("V", c)
		t["call"] = M{"uuid": u("call"), "channel": refOf("chan", "android", "Android"), "urn": "tel:+12065551212"}
		return t
	}
	dialFlow := func(phone string) M {
		dc, dn := d.Cat("Answered", "v1ans"), d.Cat("Other", "v1other")
		return d.Flow("V", "voice",
			d.Node("v1", []any{act("v1s", "say_msg", M{"text": "dialing for @globals.org_name"})},
				d.Switch("@(default(resume.dial.status, \"\"))", []M{dc, dn}, dn, []M{{"type": "has_only_text", "arguments": []string{"answered"}, "category_uuid": dc["uuid"]}}, M{"type": "dial", "phone": phone}, "Dial"),
				d.Exit("v1ans", "v2"), d.Exit("v1other", "")),
			d.Node("v2", []any{act("v2s", "say_msg", M{"text": "answered"}), act("v2p", "play_audio", M{"audio_url": "http://x.io/@(fields.gender).mp3"})}, nil, d.Exit("v2x", "")))
	}
	add("voice-dial-answered", &gen.Scenario{Assets: c20Assets(dialFlow("+12065551212")), Trigger: voiceTrigger(nil), Resumes: []M{d.MsgResume(0, "rejected"), d.Dial(1, "answered")}})
	add("voice-dial-busy", &gen.Scenario{Assets: c20Assets(dialFlow("+12065551212")), Trigger: voiceTrigger(nil), Resumes: []M{d.Dial(0, "busy")}})
	add("voice-dial-phone-from-field", &gen.Scenario{Assets: c20Assets(dialFlow("@fields.nick")), Trigger: voiceTrigger(contact(M{"fields": M{"nick": M{"text": "+12065553434"}}})), Resumes: []M{d.Dial(0, "answered")}})

	// ---- actions that hold fixed references --------------------------------------------------------
	simple("add_contact_groups", act("ag", "add_contact_groups", M{"groups": []any{refOf("group", "customers", "Customers"), refOf("group", "gone", "Gone Group"), M{"name_match": "@(\"Test\" & \"ers\")"}, M{"name_match": "@contact.fields.gender"}}}), nil, nil)
	simple("remove_contact_groups", act("rg", "remove_contact_groups", M{"groups": []any{refOf("group", "testers", "Testers"), refOf("group", "gone", "Gone Group")}}), nil, nil)
	simple("remove_contact_groups-all", act("rg", "remove_contact_groups", M{"groups": []any{}, "all_groups": true}), nil, nil)
	{
		// status change clears static groups; field change re-evaluates query groups: neither is a reference
		as := single("messaging", []any{act("st", "set_contact_status", M{"status": "blocked"}), act("sf", "set_contact_field", M{"field": M{"key": "age", "name": "Age"}, "value": "12"})})
		add("status-and-query-group-side-effects", &gen.Scenario{Assets: as, Trigger: d.Manual("A", nil), Resumes: timeoutOnly})
	}
	simple("set_contact_field", act("sf", "set_contact_field", M{"field": M{"key": "gender", "name": "Gender"}, "value": "@(lower(fields.nick))"}), nil, nil)
	simple("set_contact_field-missing", act("sf", "set_contact_field", M{"field": M{"key": "gone", "name": "Gone"}, "value": "x"}), nil, nil)
	simple("add_input_labels", act("al", "add_input_labels", M{"labels": []any{refOf("label", "spam", "Spam"), refOf("label", "gone", "Gone"), M{"name_match": "@(\"Impor\" & \"tant\")"}}}), d.MsgTrigger("A", nil, "buy now"), nil)
	{
		child := d.Flow("B", "messaging", d.Node("b1", []any{act("b1r", "set_run_result", M{"name": "Child Result", "value": "@parent.fields.age", "category": "Done"})}, nil, d.Exit("b1x", "")))
		as := single("messaging", []any{d.Enter("ef", "B", false)}, child)
		add("enter_flow-child", &gen.Scenario{Assets: as, Trigger: d.Manual("A", nil), Resumes: msgThenTimeout})
		as2 := single("messaging", []any{d.SendMsg("pre", "before @globals.limit"), d.Enter("ef", "Gone", false), act("post", "set_contact_field", M{"field": M{"key": "nick", "name": "Nick"}, "value": "never"})})
		add("enter_flow-missing", &gen.Scenario{Assets: as2, Trigger: d.Manual("A", nil)})
		as3 := single("messaging", []any{d.Enter("ef", "V", false)}, d.Flow("V", "voice", d.Node("v1", nil, nil, d.Exit("v1x", ""))))
		add("enter_flow-type-mismatch", &gen.Scenario{Assets: as3, Trigger: d.Manual("A", nil)})
		// child waits; parent's subflow router routes on a later resume
		done, exp := d.Cat("Complete", "sfC"), d.Cat("Expired", "sfE")
		childW := d.Flow("B", "messaging", d.WaitNode("bw", "", nil))
		parent := d.Flow("A", "messaging",
			d.Node("a1", []any{d.Enter("ef", "B", false)}, d.Switch("@child.status", []M{done, exp}, exp, []M{{"type": "has_only_text", "arguments": []string{"completed"}, "category_uuid": done["uuid"]}}, nil, "Subflow"), d.Exit("sfC", "end"), d.Exit("sfE", "end")),
			tail()[1])
		add("enter_flow-child-waits", &gen.Scenario{Assets: c20Assets(parent, childW), Trigger: d.Manual("A", nil), Resumes: []M{d.MsgResume(0, "in child")}})
		add("enter_flow-child-expires", &gen.Scenario{Assets: c20Assets(parent, childW), Trigger: d.Manual("A", nil), Resumes: []M{d.Expiration(0)}})
	}
	{
		other := d.Flow("B", "messaging", d.Node("b1", []any{d.SendMsg("b1m", "hi")}, nil, d.Exit("b1x", "")))
		simpleWith := func(name string, a M) {
			add(name, &gen.Scenario{Assets: single("messaging", []any{a}, other), Trigger: d.Manual("A", nil), Resumes: alt(n)})
			n++
		}
		simpleWith("start_session", act("ss", "start_session", M{"flow": refOf("flow", "B", "B"), "groups": []any{refOf("group", "customers", "Customers")}, "contact_query": "age > @fields.age", "exclusions": M{}}))
		simpleWith("start_session-missing-flow", act("ss", "start_session", M{"flow": refOf("flow", "Gone", "Gone"), "create_contact": true, "exclusions": M{}}))
	}
	simple("send_broadcast", act("sb", "send_broadcast", M{"text": "Hello from @globals.org_name", "groups": []any{refOf("group", "testers", "Testers"), M{"name_match": "Customers"}}, "legacy_vars": []string{"@contact.fields.nick"}}), nil, nil)
	simple("set_contact_channel", act("sc", "set_contact_channel", M{"channel": refOf("chan", "android", "Android")}), nil, nil)
	simple("set_contact_channel-missing", act("sc", "set_contact_channel", M{"channel": refOf("chan", "gone", "Gone")}), nil, nil)
	simple("send_msg-template", act("sm", "send_msg", M{"text": "Hi @contact.name, are you still @fields.age?", "template": refOf("template", "affirmation", "affirmation"), "template_variables": []string{"@contact.name", "@(fields.age & globals.limit)"}}), nil, nil)
	simple("send_msg-template-missing", act("sm", "send_msg", M{"text": "Hi", "template": refOf("template", "gone", "gone"), "template_variables": []string{"@contact.name"}}), nil, nil)
	simple("request_optin", act("ro", "request_optin", M{"optin": refOf("optin", "jokes", "Jokes")}), d.Manual("A", contact(M{"urns": []string{"facebook:1122334455"}})), nil)
	{
		// localized message: Spanish text names other assets than the base text
		a := act("sm", "send_msg", M{"text": "Welcome to @globals.org_name", "quick_replies": []string{"@fields.gender"}})
		as := single("messaging", []any{a})
		as["flows"].([]any)[0].(M)["localization"] = M{"spa": M{a["uuid"].(string): M{"text": []string{"Bienvenido @fields.nick, limite @globals.limit"}, "quick_replies": []string{"@(parent.fields.state)"}}}}
		add("send_msg-localized-spa", &gen.Scenario{Assets: as, Trigger: d.Manual("A", contact(M{"language": "spa"})), Resumes: msgThenTimeout})
		add("send_msg-localized-eng", &gen.Scenario{Assets: as, Trigger: d.Manual("A", nil), Resumes: timeoutOnly})
	}
	out = append(out, plantedDirected()...)
	out = append(out, historyDirected(out)...)
	return out
}

// historyDirected: scenarios in which the inspected flow OBJECT has a history (history.go).
//   - late-translation: scenarios of the corpus above whose translations name assets the base language does not, run
//     with a contact of the translated language, with the translations added to the already inspected object (in place
//     / through a PO file);
//   - change-language: flows whose routers save results and whose category names are translated, with the translation
//     made the base language by Flow.ChangeLanguage; every category is reached.
func historyDirected(corpus []namedScen) []namedScen {
	var out []namedScen
	find := func(name string) *gen.Scenario {
		for _, x := range corpus {
			if x.name == name {
				return x.scen
			}
		}
		panic("no directed scenario " + name)
	}
	for _, x := range []struct{ base, via, pre string }{
		{"send_msg-localized-spa", "set", "inspect"},
		{"send_msg-localized-spa", "po", "inspect"},
		{"router-result-wait-timeout-spa", "po", "inspect+extract"},
		{"planted-send_msg-spa", "set", "inspect+extract"},
		{"planted-router-switch-spa", "set", "inspect"},
	} {
		out = append(out, namedScen{name: "history-late-translation-" + x.via + "/" + x.base, scen: deepCopyScen(find(x.base)), hist: &history{mode: "late-translation", via: x.via, pre: x.pre}})
	}

	// a question asked again and again: every category of the router (incl. the timeout's) is reached, each has a
	// Spanish name, and the Spanish arguments differ from the English ones
	{
		yes, no, other, tmo := d.Cat("Yes", "hq1yes"), d.Cat("Never", "hq1no"), d.Cat("Other", "hq1other"), d.Cat("No Response", "hq1tmo")
		router := d.Switch("@input.text", []M{yes, no, other, tmo}, other, []M{
			{"type": "has_any_word", "arguments": []string{"yes yeah"}, "category_uuid": yes["uuid"]},
			{"type": "has_any_word", "arguments": []string{"no never"}, "category_uuid": no["uuid"]},
		}, M{"type": "msg", "timeout": M{"seconds": 60, "category_uuid": tmo["uuid"]}}, "Likes Fruit")
		ask := d.SendMsg("hq1m", "Do you like fruit, @contact.name?")
		fl := d.Flow("A", "messaging", d.Node("hq1", []any{ask}, router, d.Exit("hq1yes", "hq1"), d.Exit("hq1no", "hq1"), d.Exit("hq1other", "hq1"), d.Exit("hq1tmo", "")))
		cases := router["cases"].([]any)
		fl["localization"] = M{"spa": M{
			ask["uuid"].(string):          M{"text": []string{"¿Te gusta la fruta de @globals.org_name, @fields.nick?"}},
			yes["uuid"].(string):          M{"name": []string{"Claro"}},
			no["uuid"].(string):           M{"name": []string{"Nunca"}},
			other["uuid"].(string):        M{"name": []string{"Otro"}},
			tmo["uuid"].(string):          M{"name": []string{"Sin Respuesta"}},
			cases[0].(M)["uuid"].(string): M{"arguments": []string{"claro vale"}},
			cases[1].(M)["uuid"].(string): M{"arguments": []string{"no nunca"}},
		}}
		resumes := []M{d.MsgResume(0, "vale"), d.MsgResume(1, "nunca mas"), d.MsgResume(2, "quizas"), d.Timeout(3)}
		for _, lang := range []string{"eng", "spa"} {
			out = append(out, namedScen{name: "history-change-language/router-categories-contact-" + lang,
				scen: &gen.Scenario{Assets: c20Assets(deepCopy(fl).(M)), Trigger: d.Manual("A", contact(M{"language": lang})), Resumes: resumes}, hist: &history{mode: "change-language", lang: "spa"}})
		}
		// the same flow, translated late (the Spanish contact evaluates the imported question and arguments)
		out = append(out, namedScen{name: "history-late-translation-po/router-categories",
			scen: &gen.Scenario{Assets: c20Assets(deepCopy(fl).(M)), Trigger: d.Manual("A", contact(M{"language": "spa"})), Resumes: resumes}, hist: &history{mode: "late-translation", via: "po", pre: "inspect"}})
	}
	// a random router and a no-wait switch with translated category names
	{
		a, b := d.Cat("Bucket A", "hrndA"), d.Cat("Bucket B", "hrndB")
		adult, minor := d.Cat("Adult", "hageA"), d.Cat("Minor", "hageM")
		sw := d.Switch("@fields.age", []M{adult, minor}, minor, []M{{"type": "has_number_gte", "arguments": []string{"18"}, "category_uuid": adult["uuid"]}}, nil, "Age Group")
		nodes := append([]M{
			d.Node("h1", nil, M{"type": "random", "categories": []any{a, b}, "result_name": "Bucket"}, d.Exit("hrndA", "h2"), d.Exit("hrndB", "h2")),
			d.Node("h2", nil, sw, d.Exit("hageA", "w1"), d.Exit("hageM", "w1"))}, tail()...)
		fl := d.Flow("A", "messaging", nodes...)
		fl["localization"] = M{"spa": M{
			a["uuid"].(string): M{"name": []string{"Cubo A"}}, b["uuid"].(string): M{"name": []string{"Cubo B"}},
			adult["uuid"].(string): M{"name": []string{"Adulto"}}, minor["uuid"].(string): M{"name": []string{"Menor"}},
		}}
		out = append(out, namedScen{name: "history-change-language/random-and-switch-categories",
			scen: &gen.Scenario{Assets: c20Assets(fl), Trigger: d.Manual("A", nil), Resumes: []M{d.Timeout(0)}}, hist: &history{mode: "change-language", lang: "spa"}})
	}
	return out
}

func deepCopyScen(s *gen.Scenario) *gen.Scenario {
	cp := *s
	cp.Assets = deepCopy(s.Assets).(M)
	cp.Trigger = deepCopy(s.Trigger).(M)
	cp.Resumes = deepCopy(s.Resumes).([]M)
	return &cp
}

// plantedDirected: one scenario per action type (and one for routers / waits) in which EVERY free string property
// of the action - evaluated by the flow spec or not - and every translation of it names a global or field that occurs
// nowhere else; run once with an English and once with a Spanish contact (translations). The planted assets exist
// with empty values, so each action still takes its ordinary path.
func plantedDirected() []namedScen {
	var out []namedScen
	groups := []any{refOf("group", "customers", "Customers"), M{"name_match": "Testers"}}
	other := func() M { return d.Flow("B", "messaging", d.Node("b1", []any{d.SendMsg("b1m", "hi")}, nil, d.Exit("b1x", ""))) }
	type spec struct {
		ftype   string
		action  M
		trigger string // "", "msg", "call", "facebook"
	}
	specs := []spec{
		{"messaging", act("p", "send_msg", M{"text": "Hi", "attachments": []string{"image/jpeg:http://x.io/a.jpg"}, "quick_replies": []string{"Yes", "No"},
			"template": refOf("template", "affirmation", "affirmation"), "template_variables": []string{"@contact.name", "x"}, "topic": "event"}), ""},
		{"messaging", act("p", "send_broadcast", M{"text": "Hello", "attachments": []string{"image/jpeg:http://x.io/a.jpg"}, "quick_replies": []string{"Ok"}, "groups": groups,
			"contacts": []M{{"uuid": u("contact:eve"), "name": "Eve"}}, "contact_query": "age > 10", "legacy_vars": []string{"Testers"}, "urns": []string{"tel:+12065550000"}}), ""},
		{"messaging", act("p", "start_session", M{"flow": refOf("flow", "B", "B"), "groups": groups, "contacts": []M{{"uuid": u("contact:eve"), "name": "Eve"}},
			"contact_query": "age > 10", "legacy_vars": []string{"Testers"}, "exclusions": M{}}), ""},
		{"voice", act("p", "say_msg", M{"text": "Welcome", "audio_url": "http://x.io/welcome.mp3"}), "call"},
		{"voice", act("p", "play_audio", M{"audio_url": "http://x.io/jingle.mp3"}), "call"},
		{"messaging", act("p", "call_webhook", M{"method": "POST", "url": "http://localhost/?cmd=success", "headers": M{"Accept": "application/json", "X-Org": "org"}, "body": "{}", "result_name": "webhook"}), ""},
		{"messaging", act("p", "call_resthook", M{"resthook": "new-registration", "result_name": "Hook Result"}), ""},
		{"messaging", act("p", "call_classifier", M{"classifier": refOf("classifier", "booking", "Booking"), "input": "book a flight", "result_name": "Intent"}), ""},
		{"messaging", act("p", "open_ticket", M{"topic": refOf("topic", "weather", "Weather"), "body": "Help", "assignee": M{"email": "bob@nyaruka.com", "name": "Bob"}, "result_name": "Ticket"}), ""},
		{"messaging", act("p2", "open_ticket", M{"body": "Help", "assignee": M{"email_match": "jim@nyaruka.com"}, "result_name": "Ticket"}), ""},
		{"messaging", act("p", "send_email", M{"addresses": []string{"bob@nyaruka.com"}, "subject": "Hi", "body": "Body"}), ""},
		{"messaging", act("p", "set_contact_field", M{"field": M{"key": "gender", "name": "Gender"}, "value": "female"}), ""},
		{"messaging", act("p", "set_contact_language", M{"language": "spa"}), ""},
		{"messaging", act("p", "set_contact_name", M{"name": "Bobby"}), ""},
		{"messaging", act("p", "set_contact_timezone", M{"timezone": "Africa/Kigali"}), ""},
		{"messaging", act("p", "set_contact_status", M{"status": "stopped"}), ""},
		{"messaging", act("p", "set_contact_channel", M{"channel": refOf("chan", "android", "Android")}), ""},
		{"messaging", act("p", "set_run_result", M{"name": "Color", "value": "red", "category": "Red"}), ""},
		{"messaging", act("p", "add_contact_urn", M{"scheme": "tel", "path": "+12065559999"}), ""},
		{"messaging", act("p", "add_contact_groups", M{"groups": groups}), ""},
		{"messaging", act("p", "remove_contact_groups", M{"groups": []any{refOf("group", "testers", "Testers"), M{"name_match": "Customers"}}}), ""},
		{"messaging", act("p", "add_input_labels", M{"labels": []any{refOf("label", "spam", "Spam"), M{"name_match": "Important"}}}), "msg"},
		{"messaging", d.Enter("p", "B", false), ""},
		{"messaging", act("p", "transfer_airtime", M{"amounts": M{"RWF": 500}, "result_name": "Airtime"}), ""},
		{"messaging", act("p", "request_optin", M{"optin": refOf("optin", "jokes", "Jokes")}), "facebook"},
	}
	build := func(sp spec, lang string) *gen.Scenario {
		var as M
		var flowName string
		if sp.ftype == "voice" {
			flowName = "V"
			as = c20Assets(d.Flow("V", "voice", d.Node("a1", []any{sp.action}, nil, d.Exit("a1x", ""))), other())
		} else {
			flowName = "A"
			as = single("messaging", []any{sp.action}, other())
		}
		c := contact(M{"language": lang})
		if sp.trigger == "facebook" {
			c["urns"] = []string{"facebook:1122334455"}
		}
		t := d.Manual(flowName, c)
		switch sp.trigger {
		case "msg":
			t = d.MsgTrigger(flowName, c, "buy now")
		case "call":
			t["call"] = M{"uuid": u("call"), "channel": refOf("chan", "android", "Android"), "urn": "tel:+12065551212"}
		}
		s := &gen.Scenario{Assets: as, Trigger: t}
		if sp.ftype != "voice" {
			s.Resumes = []M{d.MsgResume(0, "hello")}
		}
		return s
	}
	plantAll := func(name string, s *gen.Scenario) {
		pl := newPlanter(fw.NewRand(7, "C20/directed-plant:"+name, 0), s, 1, true, true)
		pl.plantScenario()
		out = append(out, namedScen{name: name, scen: s})
	}
	seenType := map[string]int{}
	for _, sp := range specs {
		typ := sp.action["type"].(string)
		seenType[typ]++
		name := "planted-" + typ
		if seenType[typ] > 1 {
			name += "-" + string(rune('a'+seenType[typ]-1))
		}
		for _, lang := range []string{"eng", "spa"} {
			// the action is mutable JSON: build it afresh for each scenario
			fresh := plantedSpecAction(sp.action)
			sp2 := sp
			sp2.action = fresh
			plantAll(name+"-"+lang, build(sp2, lang))
		}
	}
	// routers and waits: operand, case arguments, category names, dial phone
	for _, lang := range []string{"eng", "spa"} {
		yes, othr, tmo := d.Cat("Yes", "pr1yes"), d.Cat("Other", "pr1other"), d.Cat("No Response", "pr1tmo")
		router := d.Switch("@input.text", []M{yes, othr, tmo}, othr, []M{
			{"type": "has_any_word", "arguments": []string{"yes yeah"}, "category_uuid": yes["uuid"]},
			{"type": "has_phrase", "arguments": []string{"of course"}, "category_uuid": yes["uuid"]},
		}, M{"type": "msg", "timeout": M{"seconds": 60, "category_uuid": tmo["uuid"]}}, "Answer")
		fl := d.Flow("A", "messaging", d.Node("r1", []any{d.SendMsg("r1m", "Yes or no?")}, router, d.Exit("pr1yes", ""), d.Exit("pr1other", "r1"), d.Exit("pr1tmo", "")))
		s := &gen.Scenario{Assets: c20Assets(fl), Trigger: d.Manual("A", contact(M{"language": lang})), Resumes: []M{d.MsgResume(0, "maybe"), d.MsgResume(1, "yes")}}
		plantAll("planted-router-switch-"+lang, s)

		a, b := d.Cat("Bucket A", "prndA"), d.Cat("Bucket B", "prndB")
		nodes := append([]M{d.Node("a1", nil, M{"type": "random", "categories": []any{a, b}, "result_name": "Bucket"}, d.Exit("prndA", "w1"), d.Exit("prndB", "w1"))}, tail()...)
		plantAll("planted-router-random-"+lang, &gen.Scenario{Assets: c20Assets(d.Flow("A", "messaging", nodes...)), Trigger: d.Manual("A", contact(M{"language": lang})), Resumes: []M{d.Timeout(0)}})

		dc, dn := d.Cat("Answered", "pv1ans"), d.Cat("Other", "pv1other")
		vf := d.Flow("V", "voice", d.Node("v1", []any{act("v1s", "say_msg", M{"text": "dialing"})},
			d.Switch("@(default(resume.dial.status, \"\"))", []M{dc, dn}, dn, []M{{"type": "has_only_text", "arguments": []string{"answered"}, "category_uuid": dc["uuid"]}}, M{"type": "dial", "phone": "+12065551212"}, "Dial"),
			d.Exit("pv1ans", ""), d.Exit("pv1other", "")))
		t := d.Manual("V", contact(M{"language": lang}))
		t["call"] = M{"uuid": u("call"), "channel": refOf("chan", "android", "Android"), "urn": "tel:+12065551212"}
		plantAll("planted-wait-dial-"+lang, &gen.Scenario{Assets: c20Assets(vf), Trigger: t, Resumes: []M{d.Dial(0, "answered")}})
	}
	return out
}

// plantedSpecAction deep-copies an action built from literals (maps, lists, strings, numbers).
func plantedSpecAction(a M) M {
	return deepCopy(a).(M)
}

func deepCopy(v any) any {
	switch t := v.(type) {
	case M:
		out := M{}
		for k, x := range t {
			out[k] = deepCopy(x)
		}
		return out
	case []any:
		out := make([]any, len(t))
		for i, x := range t {
			out[i] = deepCopy(x)
		}
		return out
	case []M:
		out := make([]M, len(t))
		for i, x := range t {
			out[i] = deepCopy(x).(M)
		}
		return out
	case []string:
		return append([]string{}, t...)
	}
	return v
}

var directedCache []namedScen

func allDirected() []namedScen {
	if directedCache == nil {
		directedCache = directed()
	}
	return directedCache
}

func directedNames() []string {
	ds := allDirected()
	out := make([]string, len(ds))
	for i, x := range ds {
		out[i] = x.name
	}
	return out
}

func findDirected(name string) (*gen.Scenario, *history) {
	// rebuilt every time: a scenario is mutable JSON and must not leak between cases
	for _, x := range directed() {
		if x.name == name {
			return x.scen, x.hist
		}
	}
	return nil, nil
}
