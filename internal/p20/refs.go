package p20

import (
	"regexp"
	"sort"
	"strings"

	"github.com/nyaruka/goflow/excellent"
)

// This file is the *reference model* of "which fixed assets does a piece of a flow definition name".
// It is written from the flow specification (action JSON shapes, template syntax) and deliberately does
// not use flows/inspect: the struct-tag reflection, Dependencies() methods and ExtractFromTemplate are the
// code under test.

// ref is one demanded dependency: type + identity as NewDependencies keys them (type:uuid|key|email).
type ref struct {
	Kind string // group field label flow channel topic user template classifier optin global
	ID   string
	Via  string // "reference" (fixed reference in the action JSON) or "template" (named inside a template)
}

func (r ref) key() string { return r.Kind + ":" + r.ID }

func str(v any) string {
	s, _ := v.(string)
	return s
}

func obj(v any) map[string]any {
	m, _ := v.(map[string]any)
	return m
}

func arr(v any) []any {
	a, _ := v.([]any)
	return a
}

// uuidRefs returns the fixed references (non-empty uuid) of a list of {uuid,name}|{name_match} objects.
func uuidRefs(kind string, list any) []ref {
	var out []ref
	for _, g := range arr(list) {
		if u := str(obj(g)["uuid"]); u != "" {
			out = append(out, ref{Kind: kind, ID: u, Via: "reference"})
		}
	}
	return out
}

func uuidRef(kind string, v any) []ref {
	if u := str(obj(v)["uuid"]); u != "" {
		return []ref{{Kind: kind, ID: u, Via: "reference"}}
	}
	return nil
}

// actionFixedRefs lists the fixed (non-expression) asset references an action's JSON holds.
// Expression references (name_match, email_match) and all_groups are not references to a fixed asset.
func actionFixedRefs(a map[string]any) []ref {
	switch str(a["type"]) {
	case "add_contact_groups":
		return uuidRefs("group", a["groups"])
	case "remove_contact_groups":
		if b, _ := a["all_groups"].(bool); b {
			return nil
		}
		return uuidRefs("group", a["groups"])
	case "send_broadcast":
		return uuidRefs("group", a["groups"])
	case "start_session":
		return append(uuidRef("flow", a["flow"]), uuidRefs("group", a["groups"])...)
	case "set_contact_field":
		if k := str(obj(a["field"])["key"]); k != "" {
			return []ref{{Kind: "field", ID: k, Via: "reference"}}
		}
	case "add_input_labels":
		return uuidRefs("label", a["labels"])
	case "enter_flow":
		return uuidRef("flow", a["flow"])
	case "set_contact_channel":
		return uuidRef("channel", a["channel"])
	case "open_ticket":
		out := uuidRef("topic", a["topic"])
		if e := str(obj(a["assignee"])["email"]); e != "" {
			out = append(out, ref{Kind: "user", ID: e, Via: "reference"})
		}
		return out
	case "send_msg":
		return uuidRef("template", a["template"])
	case "call_classifier":
		return uuidRef("classifier", a["classifier"])
	case "request_optin":
		return uuidRef("optin", a["optin"])
	}
	return nil
}

// tplField is one evaluated property of an action (flow spec: the properties that may hold templates).
type tplField struct {
	name      string
	localized bool
}

var actionTemplateFields = map[string][]tplField{
	"add_contact_urn":      {{"path", false}},
	"send_broadcast":       {{"text", true}, {"attachments", true}, {"quick_replies", true}, {"contact_query", false}, {"legacy_vars", false}},
	"start_session":        {{"contact_query", false}, {"legacy_vars", false}},
	"send_msg":             {{"text", true}, {"attachments", true}, {"quick_replies", true}, {"template_variables", true}},
	"call_classifier":      {{"input", false}},
	"call_webhook":         {{"url", false}, {"headers", false}, {"body", false}},
	"open_ticket":          {{"body", false}},
	"play_audio":           {{"audio_url", true}},
	"say_msg":              {{"text", true}},
	"send_email":           {{"addresses", false}, {"subject", true}, {"body", true}},
	"set_contact_field":    {{"value", false}},
	"set_contact_language": {{"language", false}},
	"set_contact_name":     {{"name", false}},
	"set_contact_timezone": {{"timezone", false}},
	"set_run_result":       {{"value", false}},
}

// strings held by a JSON value that is a string, a list of strings or an object of strings
func stringsOf(v any) []string {
	switch t := v.(type) {
	case string:
		return []string{t}
	case []any:
		var out []string
		for _, x := range t {
			if s, ok := x.(string); ok {
				out = append(out, s)
			}
		}
		return out
	case map[string]any:
		keys := make([]string, 0, len(t))
		for k := range t {
			keys = append(keys, k)
		}
		sort.Strings(keys)
		var out []string
		for _, k := range keys {
			if s, ok := t[k].(string); ok {
				out = append(out, s)
			}
		}
		return out
	}
	return nil
}

// translation lookup as the flow spec defines it: localization[lang][item uuid][property] = list of strings
type localization map[string]any

func (l localization) get(lang, uuid, prop string) []string {
	return stringsOf(obj(obj(l[lang])[uuid])[prop])
}

// usedTranslation follows the documented resolution order: the first of langs (contact language if allowed,
// then environment default) that is the flow's own language gives the base text, otherwise the first language
// with a non-empty translation of this item/property; else the base text. nil = base text was used.
func (l localization) usedTranslation(langs []string, flowLang, uuid, prop string) []string {
	for _, lang := range langs {
		if lang == "" {
			continue
		}
		if lang == flowLang {
			return nil
		}
		if tr := l.get(lang, uuid, prop); len(tr) > 0 {
			return tr
		}
	}
	return nil
}

// actionTemplates returns the templates of an action: base language always, plus the translation the run
// would use with the given language preference (langs == nil: base only).
func actionTemplates(a map[string]any, loc localization, langs []string, flowLang string) []string {
	var out []string
	uuid := str(a["uuid"])
	for _, f := range actionTemplateFields[str(a["type"])] {
		out = append(out, stringsOf(a[f.name])...)
		if f.localized && langs != nil {
			out = append(out, loc.usedTranslation(langs, flowLang, uuid, f.name)...)
		}
	}
	// expression references are templates too
	for _, listKey := range []string{"groups", "labels"} {
		for _, g := range arr(a[listKey]) {
			if nm := str(obj(g)["name_match"]); nm != "" {
				out = append(out, nm)
			}
		}
	}
	if em := str(obj(a["assignee"])["email_match"]); em != "" {
		out = append(out, em)
	}
	return out
}

// routerTemplates: operand and case arguments of a switch router.
func routerTemplates(rt map[string]any, loc localization, langs []string, flowLang string) []string {
	if str(rt["type"]) != "switch" {
		return nil
	}
	out := []string{str(rt["operand"])}
	for _, c := range arr(rt["cases"]) {
		cm := obj(c)
		out = append(out, stringsOf(cm["arguments"])...)
		if langs != nil {
			out = append(out, loc.usedTranslation(langs, flowLang, str(cm["uuid"]), "arguments")...)
		}
	}
	return out
}

// waitTemplates: the phone number of a dial wait is a template evaluated when the wait begins.
func waitTemplates(rt map[string]any) []string {
	w := obj(rt["wait"])
	if str(w["type"]) == "dial" {
		if p := str(w["phone"]); p != "" {
			return []string{p}
		}
	}
	return nil
}

// ---------------------------------------------------------------------------------------------------
// templates → referenced globals / contact fields

func isASCIIName(b byte) bool {
	return b == '_' || (b >= '0' && b <= '9') || (b >= 'a' && b <= 'z') || (b >= 'A' && b <= 'Z')
}

var (
	stringLit = regexp.MustCompile(`"[^"]*"`)
	// a dotted path that starts where no lookup / call / name can precede it
	dotted = regexp.MustCompile(`(^|[^A-Za-z0-9_.\])"])([A-Za-z_][A-Za-z0-9_]*(?:\.[A-Za-z0-9_]+)+)`)
	keyRe  = regexp.MustCompile(`^[a-z][a-z0-9_]*$`)
)

var fieldPrefixes = [][]string{
	{"fields"}, {"contact", "fields"}, {"parent", "fields"}, {"parent", "contact", "fields"}, {"child", "fields"}, {"child", "contact", "fields"},
}

// refsOfPath maps one dotted context path to the asset it names (the path itself and every longer path name it).
func refsOfPath(path []string) []ref {
	for i := range path {
		path[i] = strings.ToLower(path[i])
	}
	if len(path) >= 2 && path[0] == "globals" && keyRe.MatchString(path[1]) {
		return []ref{{Kind: "global", ID: path[1], Via: "template"}}
	}
	for _, p := range fieldPrefixes {
		if len(path) > len(p) {
			ok := true
			for i := range p {
				if path[i] != p[i] {
					ok = false
				}
			}
			if ok && keyRe.MatchString(path[len(p)]) {
				return []ref{{Kind: "field", ID: path[len(p)], Via: "template"}}
			}
		}
	}
	return nil
}

// exprRefs extracts the references of one expression body / identifier, provided it is plain enough for this
// model to be sure about it and the real parser accepts it (a syntactically invalid expression is never evaluated).
var lambdaParams = regexp.MustCompile(`\(([A-Za-z0-9_, ]*)\)\s*=>`)

func exprRefs(body string) (refs []ref, sure bool) {
	for i := 0; i < len(body); i++ {
		if body[i] >= 0x80 || body[i] == '\\' {
			return nil, false
		}
	}
	if strings.Contains(body, "=>") {
		// a lambda parameter that has the name of a top-level shadows it inside the body: only then is a dotted path in the
		// expression not known to be a context reference
		for _, m := range lambdaParams.FindAllStringSubmatch(body, -1) {
			for _, p := range strings.Split(m[1], ",") {
				switch strings.ToLower(strings.TrimSpace(p)) {
				case "globals", "fields", "contact", "parent", "child", "results", "run", "urns", "input", "trigger", "webhook", "node", "ticket", "resume", "legacy_extra":
					return nil, false
				}
			}
		}
	}
	if strings.Count(body, `"`)%2 != 0 {
		return nil, false
	}
	if !parses(body) {
		return nil, false
	}
	plain := stringLit.ReplaceAllString(body, `""`)
	for _, m := range dotted.FindAllStringSubmatch(plain, -1) {
		refs = append(refs, refsOfPath(strings.Split(m[2], "."))...)
	}
	return refs, true
}

func parses(expr string) (ok bool) {
	defer func() {
		if recover() != nil {
			ok = false
		}
	}()
	_, err := excellent.Parse(expr, nil)
	return err == nil
}

var topLevels = map[string]bool{"globals": true, "fields": true, "contact": true, "parent": true, "child": true}

// templateRefs scans a template left to right (template syntax: "@@" escapes, "@(" … ")" expression with
// quoted strings, "@name.name…" identifier) and returns the globals / fields it references. Only the pieces this
// model is sure about contribute; anything irregular (unbalanced parentheses, non-ASCII, backslashes) makes the
// whole template contribute nothing (demanding less is always safe).
func templateRefs(t string) (refs []ref, understood bool) {
	if !strings.Contains(t, "@") {
		return nil, true
	}
	i := 0
	for i < len(t) {
		if t[i] != '@' {
			i++
			continue
		}
		if i+1 >= len(t) {
			break
		}
		nx := t[i+1]
		switch {
		case nx == '@':
			i += 2
		case nx == '(':
			// find the closing parenthesis
			depth, j, inStr := 1, i+2, false
			for ; j < len(t) && depth > 0; j++ {
				c := t[j]
				switch {
				case c == '\\':
					return nil, false
				case c == '"':
					inStr = !inStr
				case inStr:
				case c == '(':
					depth++
				case c == ')':
					depth--
				}
			}
			if depth != 0 || inStr {
				return nil, false
			}
			body := t[i+2 : j-1]
			if rs, sure := exprRefs(body); sure {
				refs = append(refs, rs...)
			} // else: an expression this model is not sure about contributes nothing
			i = j
		case nx >= 0x80:
			return nil, false
		case isASCIIName(nx):
			j := i + 1
			for j < len(t) {
				if t[j] >= 0x80 {
					return nil, false
				}
				if isASCIIName(t[j]) {
					j++
				} else if t[j] == '.' && j+1 < len(t) && (isASCIIName(t[j+1]) || t[j+1] >= 0x80) {
					if t[j+1] >= 0x80 {
						return nil, false
					}
					j += 2
				} else {
					break
				}
			}
			ident := t[i+1 : j]
			top := strings.ToLower(strings.SplitN(ident, ".", 2)[0])
			if topLevels[top] {
				if rs, sure := exprRefs(ident); sure {
					refs = append(refs, rs...)
				}
			}
			i = j
		default:
			i++
		}
	}
	return refs, true
}
