package p19

import (
	"bytes"
	"encoding/json"
	"fmt"
	"sort"
	"strings"

	"github.com/nyaruka/gocommon/i18n"
	"github.com/nyaruka/gocommon/urns"
	"github.com/nyaruka/goflow/contactql"
	"github.com/nyaruka/goflow/envs"

	"verif/internal/fw"
	"verif/internal/gen"
)

// cloneScenario deep-copies a scenario into generic JSON values (map[string]any, []any, string, json.Number …).
func cloneScenario(s *gen.Scenario) (*gen.Scenario, error) {
	b, err := json.Marshal(s)
	if err != nil {
		return nil, err
	}
	out := &gen.Scenario{}
	dec := json.NewDecoder(bytes.NewReader(b))
	dec.UseNumber()
	if err := dec.Decode(out); err != nil {
		return nil, err
	}
	return out, nil
}

// ---------------------------------------------------------------------------------------------------
// URN rewriting: a twin differs from its sibling ONLY in the path and the display of the URNs that
// identify the contact(s): same scheme, same query (channel affinity, id, priority), same country for tel.

// rot is a bijective re-lettering of a URN: digits are rotated by d, ASCII letters by l. {0,0} = identity.
//
// ad / al (both 0 = off) make the re-lettering depend on the POSITION of a URN: the k-th repetition (k >= 1) of one
// identity (scheme + path) inside one contact's URN list is re-lettered by occ(k), a different rotation. A twin made
// that way has distinct URNs where its sibling has the same URN twice — the twins still differ only in URN paths and
// displays, and which of a contact's URNs have equal paths is part of the identifying information the policy hides.
type rot struct{ d, l, ad, al int }

// occ is the re-lettering of the k-th repetition of a URN within one list.
func (ro rot) occ(k int) rot {
	if k == 0 || (ro.ad == 0 && ro.al == 0) || ro.identity() {
		return rot{d: ro.d, l: ro.l}
	}
	return rot{d: 1 + (ro.d-1+k*ro.ad)%9, l: 1 + (ro.l-1+k*ro.al)%25}
}

// urnIdentity is the monitor's own reading of what makes two URNs "the same URN": scheme and path, letter case
// ignored, query (channel, id, priority) and display not counted.
func urnIdentity(u string) string {
	scheme, path, _, _, ok := splitURN(u)
	if !ok {
		return strings.ToLower(u)
	}
	return strings.ToLower(scheme + ":" + path)
}

// repeatedIdentities counts the entries of a URN list that repeat the identity of an earlier entry.
func repeatedIdentities(list []string) int {
	seen := map[string]bool{}
	n := 0
	for _, u := range list {
		id := urnIdentity(u)
		if seen[id] {
			n++
		}
		seen[id] = true
	}
	return n
}

func (ro rot) identity() bool { return ro.d%10 == 0 && ro.l%26 == 0 }

func (ro rot) chars(s string, lastDigitsOnly int) string {
	b := []byte(s)
	digitsSeen := 0
	for i := len(b) - 1; i >= 0; i-- {
		c := b[i]
		switch {
		case c >= '0' && c <= '9':
			if lastDigitsOnly > 0 && digitsSeen >= lastDigitsOnly {
				continue
			}
			digitsSeen++
			b[i] = '0' + byte((int(c-'0')+ro.d)%10)
		case lastDigitsOnly > 0:
		case c >= 'a' && c <= 'z':
			b[i] = 'a' + byte((int(c-'a')+ro.l)%26)
		case c >= 'A' && c <= 'Z':
			b[i] = 'A' + byte((int(c-'A')+ro.l)%26)
		}
	}
	return string(b)
}

func splitURN(u string) (scheme, path, query, display string, ok bool) {
	i := strings.IndexByte(u, ':')
	if i <= 0 {
		return "", "", "", "", false
	}
	scheme, rest := u[:i], u[i+1:]
	if j := strings.IndexByte(rest, '#'); j >= 0 {
		display, rest = rest[j+1:], rest[:j]
	}
	if j := strings.IndexByte(rest, '?'); j >= 0 {
		query, rest = rest[j+1:], rest[:j]
	}
	return scheme, rest, query, display, true
}

func joinURN(scheme, path, query, display string) string {
	s := scheme + ":" + path
	if query != "" {
		s += "?" + query
	}
	if display != "" {
		s += "#" + display
	}
	return s
}

// urn applies the re-lettering to one URN string. tel keeps the country and re-letters the last four digits and swaps the area code for another of the same country; other schemes re-letter the whole path; the display is re-lettered too.
func (ro rot) urn(u string) string {
	scheme, path, query, display, ok := splitURN(u)
	if !ok || ro.identity() {
		return u
	}
	if scheme == "tel" {
		path = ro.chars(path, 4)
		// … and, within one country, another area code: nothing the expressions see may depend on where in the country
		// a redacted number is (the swap is its own inverse, so the re-lettering stays a bijection)
		for _, sw := range [][2]string{{"+1206", "+1212"}, {"+1703", "+1415"}, {"1206", "1212"}} {
			if strings.HasPrefix(path, sw[0]) {
				path = sw[1] + path[len(sw[0]):]
				break
			} else if strings.HasPrefix(path, sw[1]) {
				path = sw[0] + path[len(sw[1]):]
				break
			}
		}
	} else {
		path = ro.chars(path, 0)
	}
	return joinURN(scheme, path, query, ro.chars(display, 0))
}

// maskURN keeps what both twins share (scheme and query) and hides what they differ in.
func maskURN(u string) string {
	scheme, _, query, _, ok := splitURN(u)
	if !ok {
		return u
	}
	return joinURN(scheme, "*", query, "")
}

// mapURNs rewrites every URN that identifies a contact in trigger / resume JSON: values of "urn" keys
// (msg.urn, call.urn) and the elements of "urns" arrays (contact.urns, run_summary.contact.urns,
// refreshed contacts).
func mapURNs(v any, f func(string) string) any {
	return mapURNsOcc(v, func(u string, occ int) string { return f(u) })
}

// mapURNsOcc is mapURNs for position-dependent rewritings: f is also told how many earlier elements of the same
// "urns" array have the same identity (0 for the first occurrence and for "urn" values).
func mapURNsOcc(v any, f func(u string, occ int) string) any {
	switch t := v.(type) {
	case map[string]any:
		for k, val := range t {
			switch {
			case k == "urn":
				if s, ok := val.(string); ok {
					t[k] = f(s, 0)
					continue
				}
			case k == "urns":
				if arr, ok := val.([]any); ok {
					seen := map[string]int{}
					for i, e := range arr {
						if s, ok := e.(string); ok {
							id := urnIdentity(s)
							arr[i] = f(s, seen[id])
							seen[id]++
						}
					}
					continue
				}
			}
			t[k] = mapURNsOcc(val, f)
		}
		return t
	case []any:
		for i := range t {
			t[i] = mapURNsOcc(t[i], f)
		}
		return t
	}
	return v
}

// urnLists returns every contact URN list of a (cloned) scenario: trigger contact, parent run summary contact,
// refreshed contacts of the resumes.
func urnLists(s *gen.Scenario) []map[string]any {
	var out []map[string]any
	add := func(v any) {
		if c, ok := v.(map[string]any); ok {
			if us, ok := c["urns"].([]any); ok && len(us) > 0 {
				out = append(out, c)
			}
		}
	}
	add(s.Trigger["contact"])
	if rs, ok := s.Trigger["run_summary"].(map[string]any); ok {
		add(rs["contact"])
	}
	for _, m := range s.Resumes {
		add(m["contact"])
	}
	return out
}

func stringsOf(arr []any) []string {
	var out []string
	for _, e := range arr {
		if s, ok := e.(string); ok {
			out = append(out, s)
		}
	}
	return out
}

// scenarioRepeats: how many URN list entries of the scenario repeat an earlier entry of their list.
func scenarioRepeats(s *gen.Scenario) int {
	n := 0
	for _, c := range urnLists(s) {
		n += repeatedIdentities(stringsOf(c["urns"].([]any)))
	}
	return n
}

// collectStrings gathers every string of a JSON value except contact-identifying URNs.
func collectStrings(v any, out *[]string) {
	switch t := v.(type) {
	case map[string]any:
		for k, val := range t {
			if k == "urn" {
				if _, ok := val.(string); ok {
					continue
				}
			}
			if k == "urns" {
				if _, ok := val.([]any); ok {
					continue
				}
			}
			*out = append(*out, k)
			collectStrings(val, out)
		}
	case []any:
		for _, e := range t {
			collectStrings(e, out)
		}
	case string:
		*out = append(*out, t)
	}
}

func scenarioURNs(s *gen.Scenario) []string {
	var out []string
	seen := map[string]bool{}
	f := func(u string) string {
		if !seen[u] {
			seen[u] = true
			out = append(out, u)
		}
		return u
	}
	mapURNs(s.Trigger, f)
	for _, m := range s.Resumes {
		mapURNs(m, f)
	}
	sort.Strings(out) // the walk visits map members in map order; callers draw from this list
	return out
}

func asAnySlice(ms []gen.M) []any {
	out := make([]any, len(ms))
	for i := range ms {
		out[i] = ms[i]
	}
	return out
}

// literalCorpus is every string a flow or an input could turn into a URN (add_contact_urn path, input text,
// field values …), lower-cased. A twin URN whose path occurs in it could collide with a URN *added* by the
// flow — a set-semantics effect (the contact ends with 1 URN in one twin and 2 in the other) that no
// redaction can hide and the statement does not speak about; such twins are avoided.
func literalCorpus(s *gen.Scenario) string {
	var strs []string
	collectStrings(map[string]any(s.Assets), &strs)
	collectStrings(map[string]any(s.Trigger), &strs)
	collectStrings(asAnySlice(s.Resumes), &strs)
	n := len(strs)
	for i := 0; i < n; i++ {
		strs = append(strs, squeeze(strs[i])) // "  +1 206 555 1212 " normalises to +12065551212
	}
	return strings.ToLower(strings.Join(strs, "\x00"))
}

func squeeze(s string) string {
	var b strings.Builder
	for _, c := range strings.ToLower(s) {
		if (c >= 'a' && c <= 'z') || (c >= '0' && c <= '9') {
			b.WriteRune(c)
		}
	}
	return b.String()
}

// needles: the forms under which a URN path could be written in a literal (as is; letters and digits only;
// for tel the national number, i.e. the last 8 digits).
func needles(u string) []string {
	scheme, path, _, _, ok := splitURN(u)
	if !ok {
		return nil
	}
	out := []string{strings.ToLower(strings.TrimLeft(path, "+")), squeeze(path)}
	if sq := squeeze(path); scheme == "tel" && len(sq) > 8 {
		out = append(out, sq[len(sq)-8:])
	}
	return out
}

// rotUsable: the re-lettered URNs are still valid where the originals were, tel URNs stay in the same country,
// and no path collides with a literal of the scenario.
func rotUsable(ro rot, all []string, corpus string) bool {
	if ro.ad != 0 || ro.al != 0 {
		// every rotation the position-dependent re-lettering may use
		for k := 0; k <= 3; k++ {
			if !rotUsable(ro.occ(k), all, corpus) {
				return false
			}
		}
		return true
	}
	for _, u := range all {
		nu := ro.urn(u)
		if urns.URN(u).Validate() == nil && urns.URN(nu).Validate() != nil {
			return false
		}
		scheme, path, _, _, _ := splitURN(u)
		if scheme == "tel" {
			_, npath, _, _, _ := splitURN(nu)
			if i18n.DeriveCountryFromTel(path) != i18n.DeriveCountryFromTel(npath) {
				return false
			}
		}
		for _, n := range needles(nu) {
			if len(n) >= 3 && strings.Contains(corpus, n) {
				return false
			}
		}
	}
	return true
}

// pickRots chooses the re-letterings of twin A (identity when it is collision free) and twin B.
func pickRots(r *fw.Rand, base *gen.Scenario) (a, b rot, ok bool) {
	all := scenarioURNs(base)
	corpus := literalCorpus(base)
	a = rot{}
	if r.Chance(0.25) || !rotUsable(a, all, corpus) {
		found := false
		for try := 0; try < 40; try++ {
			c := rot{d: r.Range(1, 9), l: r.Range(1, 25)}
			if rotUsable(c, all, corpus) {
				a, found = c, true
				break
			}
		}
		if !found {
			return a, b, false
		}
	}
	// a contact list that holds one URN more than once: twin A keeps the repetition (a rotation maps equal to equal),
	// twin B gets distinct URNs at those positions (extra draws only then, so that all other cases stay as they were)
	spread := scenarioRepeats(base) > 0
	for try := 0; try < 40; try++ {
		c := rot{d: r.Range(1, 9), l: r.Range(1, 25)}
		if c.d == a.d || c.l == a.l {
			continue
		}
		if spread {
			c.ad, c.al = r.Range(1, 8), r.Range(1, 24)
		}
		if rotUsable(c, all, corpus) {
			return a, c, true
		}
	}
	return a, b, false
}

// twinOf derives a twin: URNs re-lettered by ro, redaction policy forced to policy everywhere an environment is given
// ("" = the environments keep the policies the scenario wrote).
func twinOf(base *gen.Scenario, ro rot, policy string) *gen.Scenario {
	t, err := cloneScenario(base)
	if err != nil {
		panic(err)
	}
	f := func(u string, occ int) string { return ro.occ(occ).urn(u) }
	mapURNsOcc(map[string]any(t.Trigger), f)
	for _, m := range t.Resumes {
		mapURNsOcc(map[string]any(m), f)
	}
	if policy != "" {
		setPolicy(t, policy)
	}
	return t
}

func setPolicy(s *gen.Scenario, policy string) {
	env, ok := s.Trigger["environment"].(map[string]any)
	if !ok {
		env = map[string]any{"date_format": "YYYY-MM-DD", "time_format": "tt:mm", "timezone": "UTC", "allowed_languages": []any{"eng", "spa", "fra", "kin"}}
		s.Trigger["environment"] = env
	}
	env["redaction_policy"] = policy
	for _, m := range s.Resumes {
		if e, ok := m["environment"].(map[string]any); ok {
			e["redaction_policy"] = policy
		}
	}
}

// ---------------------------------------------------------------------------------------------------
// assets under redaction

var redactedEnv = envs.NewBuilder().WithRedactionPolicy(envs.RedactionPolicyURNs).Build()

// neutraliseURNGroups: the host loads assets with the organisation's environment (engine.NewSessionAssets(env, …)
// parses group queries with it), so under policy "urns" a query group over URN values cannot exist. The shared
// driver loads assets with a default environment, hence such groups are rewritten to a presence check here —
// decided by goflow's own parser under the redacted environment.
func neutraliseURNGroups(s *gen.Scenario) int {
	n := 0
	groups, _ := s.Assets["groups"].([]any)
	for _, g := range groups {
		gm, ok := g.(map[string]any)
		if !ok {
			continue
		}
		q, _ := gm["query"].(string)
		if q == "" {
			continue
		}
		_, err := contactql.ParseQuery(redactedEnv, q, nil)
		if err == nil {
			continue
		}
		if isQ, qe := contactql.IsQueryError(err); isQ {
			if qe.(*contactql.QueryError).Code() == contactql.ErrRedactedURNs {
				gm["query"] = `urn != ""`
				n++
			}
		}
	}
	return n
}

// ---------------------------------------------------------------------------------------------------
// planting URN-derived templates into the flows

var urnTemplates = []string{
	"@contact.urn", "@urns.tel", "@(format_urn(urns.tel))", "@input.urn", "@parent.contact.urn", "@child.contact.urns", "@(json(contact))",
	"@(foreach(contact.urns, (u) => urn_parts(u).path))", "@contact.urns", "@urns", "@(json(urns))", "@parent.urns.tel", "@child.urns", "@contact", "@run", "@parent", "@child",
	"@(urn_parts(contact.urn).path)", "@(urn_parts(contact.urn).display)", "@(default(urns.twitterid, urns.mailto))", `@(contact.urn & "|" & input.urn)`, `@(extract(contact, "urn"))`,
	`@(extract_object(contact, "urn", "urns", "name"))`, "@(text_length(contact.urn))", "@(text_slice(contact.urn, 4))", `@(regex_match(contact.urn, "\d+"))`, `@(join(contact.urns, ","))`,
	"@(count(contact.urns))", "@(format(contact))", "@(json(input))", "@(json(parent.contact))", "@(json(run))", "@(contact.urn = input.urn)", "@(url_encode(contact.urn))",
	`@(split(contact.urn, ":")[1])`, "@(sort(contact.urns))", "@(reverse(contact.urns))", `@(json(object("u", contact.urns)))`, "@results", "@(json(results))",
	"@(foreach_value(urns, (k, v) => v))", "@(format_urn(contact.urns[0]))", "@(format_urn(input.urn))", "@(urn_parts(input.urn))", "@(json(child))", "@run.contact.urn",
	"@(json(run.contact.urns))", "@(json(parent))", "@parent.contact", "@child.contact", "@(format_urn(parent.urns.tel))", "@(upper(urns.twitterid))", "@urns.mailto", "@urns.facebook",
	"@(word(contact.urn, 1))", `@(replace(contact.urn, "tel:", ""))`, "@(clean(contact.urn))", "@(title(urns.twitter))", `@(contains(contact.urns, contact.urn))`, "@(unique(contact.urns))",
	`@(filter(contact.urns, (u) => urn_parts(u).scheme = "tel"))`, "@(concat(contact.urns, parent.contact.urns))", "@(char(code(urn_parts(contact.urn).path)))",
}

var urnOperands = []string{"@contact.urn", "@urns.tel", "@input.urn", "@(urn_parts(contact.urn).path)", "@parent.contact.urn", "@(format_urn(contact.urn))", "@contact", "@results.urn_copy.value", "@child.results.urn_copy.value"}

func pickTpl(r *fw.Rand) string { return fw.Pick(r, urnTemplates) }

// plantTemplates replaces some templates of the generated flows by URN-derived ones, so that results, fields,
// names, webhook requests, emails, tickets, broadcasts and routing decisions copy URN-derived values.
func plantTemplates(r *fw.Rand, s *gen.Scenario, aURNs []string) int {
	planted := 0
	literal := "tel:+12065551212"
	if len(aURNs) > 0 {
		literal = strings.SplitN(fw.Pick(r, aURNs), "?", 2)[0]
	}
	flows := s.Flows()
	for _, f := range flows {
		nodes, _ := f["nodes"].([]any)
		for _, n := range nodes {
			nm := n.(map[string]any)
			acts, _ := nm["actions"].([]any)
			for _, a := range acts {
				am := a.(map[string]any)
				if len(flows) > 1 && r.Chance(0.1) {
					// more parent / child runs: turn the action into a sub-flow entry
					target := fw.Pick(r, flows)
					for k := range am {
						if k != "uuid" {
							delete(am, k)
						}
					}
					am["type"] = "enter_flow"
					am["flow"] = map[string]any{"uuid": target["uuid"], "name": target["name"]}
					continue
				}
				if !r.Chance(0.4) {
					continue
				}
				planted++
				switch am["type"] {
				case "send_msg", "say_msg":
					am["text"] = pickTpl(r) + " " + pickTpl(r)
					if r.Chance(0.2) {
						am["quick_replies"] = []any{pickTpl(r), "No"}
					}
				case "set_run_result":
					am["value"] = pickTpl(r)
					if r.Chance(0.5) {
						am["name"] = "URN Copy"
					}
				case "set_contact_field":
					am["value"] = pickTpl(r)
				case "set_contact_name":
					am["name"] = fw.Pick(r, []string{"@contact.urn", "@(format_urn(contact.urn))", "", "@(urn_parts(contact.urn).path)"})
				case "call_webhook":
					am["url"] = "http://localhost/?cmd=success&u=" + fw.Pick(r, []string{"@(url_encode(contact.urn))", "@(urn_parts(contact.urn).path)", "@(url_encode(input.urn))"})
					am["body"] = pickTpl(r)
					am["headers"] = map[string]any{"X-URN": "@contact.urn"}
				case "send_email":
					am["body"] = "Body " + pickTpl(r)
					am["subject"] = "Hi " + fw.Pick(r, []string{"@contact", "@contact.urn", "@(format_urn(contact.urn))"})
					if r.Chance(0.5) {
						am["addresses"] = []any{fw.Pick(r, []string{"@urns.mailto", "@(urn_parts(urns.mailto).path)", "@contact.urn"})}
					}
				case "open_ticket":
					am["body"] = pickTpl(r)
				case "send_broadcast":
					am["text"] = "B: " + pickTpl(r)
					am["legacy_vars"] = []any{fw.Pick(r, []string{"@contact.urn", "@(urn_parts(contact.urn).path)", "@urns.tel"})}
				case "start_session":
					am["legacy_vars"] = []any{fw.Pick(r, []string{"@contact.urn", "@(urn_parts(contact.urn).path)", "@parent.contact.urn"})}
					am["contact_query"] = fw.Pick(r, []string{"tel = @(urn_parts(contact.urn).path)", "urn = @contact.urn", "name = @contact"})
				case "add_contact_urn":
					am["path"] = fw.Pick(r, []string{"@(urn_parts(contact.urn).path)", "@(urn_parts(input.urn).path)", "@contact.urn"})
				case "call_classifier":
					am["input"] = pickTpl(r)
				case "play_audio":
					am["audio_url"] = "http://x.io/@(urn_parts(contact.urn).path).mp3"
				default:
					planted--
				}
			}
			if rt, ok := nm["router"].(map[string]any); ok && rt["type"] == "switch" && rt["wait"] == nil && f["type"] != "messaging_background" && r.Chance(0.5) {
				rt["wait"] = map[string]any{"type": "msg"} // longer histories: more sprints to compare
			}
			if rt, ok := nm["router"].(map[string]any); ok && rt["type"] == "switch" && r.Chance(0.3) {
				rt["operand"] = fw.Pick(r, urnOperands)
				cats, _ := rt["categories"].([]any)
				if len(cats) > 0 {
					cu := func() any { return fw.Pick(r, cats).(map[string]any)["uuid"] }
					cases, _ := rt["cases"].([]any)
					_, lpath, _, _, _ := splitURN(literal)
					cases = append([]any{
						map[string]any{"uuid": gen.UUID4(r), "type": "has_phrase", "arguments": []any{literal}, "category_uuid": cu()},
						map[string]any{"uuid": gen.UUID4(r), "type": "has_pattern", "arguments": []any{`\d\d\d\d`}, "category_uuid": cu()},
						map[string]any{"uuid": gen.UUID4(r), "type": "has_phone", "arguments": []any{"US"}, "category_uuid": cu()},
						map[string]any{"uuid": gen.UUID4(r), "type": "has_beginning", "arguments": []any{lpath}, "category_uuid": cu()},
					}[:r.Range(1, 4)], cases...)
					rt["cases"] = cases
				}
				planted++
				if w, ok := rt["wait"].(map[string]any); ok && w["type"] == "dial" && r.Chance(0.5) {
					w["phone"] = fw.Pick(r, []string{"@contact.urn", "@(urn_parts(contact.urn).path)", "@urns.tel"})
				}
			}
		}
	}
	return planted
}

func describeTwin(a, b rot, urnsA, urnsB []string) string {
	return fmt.Sprintf("A=%v B=%v %v / %v", a, b, urnsA, urnsB)
}
