package p19

import (
	"strings"

	"verif/internal/gen"
)

var d = gen.D{}

type M = gen.M

const allURNTemplates = "c=@contact cu=@contact.urn cus=@contact.urns u=@urns tel=@urns.tel tw=@urns.twitterid f=@(format_urn(urns.tel)) p=@(urn_parts(contact.urn).path) " +
	"fe=@(foreach(contact.urns, (u) => urn_parts(u).path)) j=@(json(contact)) ju=@(json(urns)) run=@run i=@input.urn ji=@(json(input))"

const parentTemplates = "p=@parent pc=@parent.contact pcu=@parent.contact.urn pcus=@parent.contact.urns pu=@parent.urns put=@parent.urns.tel jp=@(json(parent)) fp=@(format_urn(parent.urns.tel)) " +
	"pr=@parent.results jr=@(json(parent.results))"

const childTemplates = "ch=@child cc=@child.contact ccu=@child.contact.urn ccus=@child.contact.urns chu=@child.urns cht=@child.urns.tel jc=@(json(child)) cr=@child.results cv=@child.results.urn_copy.value"

func threeSchemeContact() M {
	c := d.Contact()
	c["urns"] = []string{"tel:+12065551212?channel=" + gen.NamedUUID("chan:android"), "twitterid:54784326227#nyaruka", "mailto:foo@bar.com", "facebook:1122334455?id=3&priority=10"}
	return c
}

func unnamed(c M) M {
	delete(c, "name")
	return c
}

func result(name, value string) M {
	return d.Action("r:"+name+":"+value, "set_run_result", M{"name": name, "value": value, "category": "Copied"})
}

func directedNames() []string {
	out := []string{"contactql-urn-conditions", "contactql-operator-grid", "unnamed-contact", "unnamed-contact-no-urns", "three-schemes", "msg-from-foreign-urn", "parent-child-runs", "result-holds-urn", "urn-into-everything",
		"flow-action-parent-summary", "voice-call-and-dial", "refreshed-contact", "add-urn-from-input", "start-session-summary", "child-of-trigger-parent"}
	// "contacts without a name are shown by id": every id shape x both ways of having no name x with / without URNs,
	// for the session contact (seen as @contact, @run, @parent.contact of its sub-flow, @child) and for the contact of
	// the parent run summary of a flow_action trigger (@parent, @parent.contact)
	for _, who := range []string{"session", "parent-summary"} {
		for _, id := range idShapes[1:] {
			for _, nm := range []string{"unset", "empty"} {
				for _, us := range []string{"urns", "no-urns"} {
					if who == "parent-summary" && us == "no-urns" && nm == "empty" {
						continue
					}
					out = append(out, "unnamed|"+who+"|"+id+"|"+nm+"|"+us)
				}
			}
		}
	}
	for _, h := range historyDirected {
		out = append(out, h.name)
	}
	out = append(out, widenedDirected...)
	return out
}

// ---------------------------------------------------------------------------------------------------
// directed policy histories: the redaction policy changes while the session is waiting

type histCase struct {
	name     string
	start    string   // policy of the trigger's environment: none | urns | absent (= none, key left out) | empty (= none, written as "") | null (= none, written as null)
	steps    []string // per resume: "" no environment | policy-only | policy+other | other-only | identical, suffixes: "+contact" refreshed contact, "+restart" read back first, "+absent" write none by leaving the key out, "+empty" write none as the empty string
	noisy    bool     // the flows copy URN-derived values into results / messages (leaves URN-derived state behind under policy none)
	trigger  string   // manual | msg | flow_action
	emptyEnv bool     // every other setting at its default (environment {} plus the policy)
}

var historyDirected = []histCase{
	{name: "policy-none-then-urns", start: "none", steps: []string{"policy-only", "", ""}, trigger: "msg"},
	{name: "policy-urns-then-none", start: "urns", steps: []string{"policy-only", "", ""}, trigger: "msg"},
	{name: "policy-flip-flop-with-restarts", start: "none", steps: []string{"policy-only+restart", "policy-only+restart", "policy-only+restart", "+restart", "policy-only"}, trigger: "manual"},
	{name: "policy-flip-flop-in-memory", start: "urns", steps: []string{"policy-only", "policy-only", "identical", "policy-only", ""}, trigger: "manual"},
	{name: "policy-switch-with-other-setting", start: "none", steps: []string{"policy+other", "other-only", "policy+other", ""}, trigger: "msg"},
	{name: "policy-switch-with-refreshed-contact", start: "none", steps: []string{"policy-only+contact", "+contact", "policy-only+contact+restart", ""}, trigger: "manual"},
	{name: "policy-absent-key-then-urns", start: "absent", steps: []string{"policy-only", "policy-only+absent", "policy-only+restart"}, trigger: "manual"},
	{name: "policy-switch-default-environment", start: "absent", steps: []string{"policy-only", "", "policy-only", ""}, trigger: "msg", emptyEnv: true},
	{name: "policy-switch-noisy-flow", start: "none", steps: []string{"policy-only", "", "policy-only", "policy-only+restart"}, noisy: true, trigger: "msg"},
	{name: "policy-switch-parent-summary", start: "none", steps: []string{"policy-only", "+restart", "policy-only", ""}, trigger: "flow_action"},
	{name: "policy-switch-parent-summary-noisy", start: "urns", steps: []string{"policy-only", "policy-only", ""}, noisy: true, trigger: "flow_action"},
	{name: "policy-late-switch-after-restart", start: "none", steps: []string{"", "+restart", "policy-only", ""}, trigger: "manual"},
	// "no policy" in the spellings ReadEnvironment admits besides "none" and a missing key: the empty string and null
	{name: "policy-empty-string-then-urns", start: "empty", steps: []string{"", "+restart", "policy-only", "policy-only+empty", "+restart"}, trigger: "msg"},
	{name: "policy-urns-then-empty-string", start: "urns", steps: []string{"policy-only+empty", "", "identical+empty+restart"}, trigger: "manual"},
	{name: "policy-empty-string-parent-summary", start: "empty", steps: []string{"", "other-only+empty"}, noisy: true, trigger: "flow_action"},
	{name: "policy-null-then-urns", start: "null", steps: []string{"", "policy-only", ""}, trigger: "msg", emptyEnv: true},
}

func historyCase(name string) *histCase {
	for i := range historyDirected {
		if historyDirected[i].name == name {
			return &historyDirected[i]
		}
	}
	return nil
}

// buildHistory makes the scenario of a directed policy history and the set of resumes preceded by a restart.
func buildHistory(h *histCase) (*gen.Scenario, map[int]bool) {
	quiet0, after, b0 := "Hi @contact.name, you said @input.text; so far @results / @run.status", "after child: @child.status @child.results", "in child of @parent.flow.name: @parent.results"
	a0 := []any{d.SendMsg("m0", quiet0), result("Echo", "@input.text")}
	b0acts := []any{d.SendMsg("mb0", b0)}
	if h.noisy {
		a0 = []any{d.SendMsg("m0", allURNTemplates), result("URN Copy", "@contact.urn"), result("All", "@(json(contact.urns))")}
		after = childTemplates
		b0acts = []any{d.SendMsg("mb0", parentTemplates), result("URN Copy", "@parent.contact.urn|@contact.urn")}
	}
	a0 = append(a0, d.Enter("e", "B", false))
	flows := []M{
		d.Flow("A", "messaging",
			d.Node("a0", a0, nil, d.Exit("a0x", "a1")),
			d.Node("a1", []any{d.SendMsg("m1", after)}, nil, d.Exit("a1x", "a2")),
			d.WaitNode("a2", "a0", nil)),
		d.Flow("B", "messaging",
			d.Node("b0", b0acts, nil, d.Exit("b0x", "b1")),
			d.WaitNode("b1", "b2", nil),
			d.Node("b2", []any{d.SendMsg("mb2", "bye from child, you said @input.text")}, nil, d.Exit("b2x", "")))}

	c := threeSchemeContact()
	var t M
	switch h.trigger {
	case "msg":
		t = d.MsgTrigger("A", c, "hello")
	case "flow_action":
		t = d.Manual("A", c)
		t["type"] = "flow_action"
		pc := unnamed(d.Contact())
		pc["uuid"] = gen.NamedUUID("contact:parent")
		pc["id"] = 5678
		pc["urns"] = []string{"tel:+12065553434", "twitter:bobby", "mailto:parent@bar.com"}
		t["run_summary"] = M{"uuid": gen.NamedUUID("run:parent"), "flow": M{"uuid": gen.NamedUUID("flow:P"), "name": "Parent"}, "contact": pc, "status": "active",
			"results": M{"role": M{"name": "Role", "value": "reporter", "category": "Reporter", "node_uuid": gen.NamedUUID("node:p1"), "input": "a reporter", "created_on": "2000-01-01T00:00:00Z"}}}
		t["history"] = M{"parent_uuid": gen.NamedUUID("session:parent"), "ancestors": 1, "ancestors_since_input": 0}
	default:
		t = d.Manual("A", c)
	}
	env := map[string]any{"date_format": "DD-MM-YYYY", "time_format": "h:mm aa", "timezone": "Africa/Kigali", "allowed_languages": []any{"eng", "spa"}, "default_country": "RW",
		"number_format": map[string]any{"decimal_symbol": ",", "digit_grouping_symbol": "."}, "input_collation": "confusables"}
	if h.emptyEnv {
		env = map[string]any{}
	}
	policy := "none"
	switch h.start {
	case "urns":
		policy = "urns"
		env["redaction_policy"] = "urns"
	case "none":
		env["redaction_policy"] = "none"
	case "empty":
		env["redaction_policy"] = ""
	case "null":
		env["redaction_policy"] = nil
	}
	t["environment"] = cloneJSON(env)

	restarts := map[int]bool{}
	var resumes []M
	others := []func(map[string]any){
		func(e map[string]any) { e["timezone"] = "America/Guayaquil" },
		func(e map[string]any) { e["date_format"] = "MM-DD-YYYY" },
		func(e map[string]any) { delete(e, "number_format") },
		func(e map[string]any) { e["default_country"] = "US" },
	}
	nOther := 0
	for i, step := range h.steps {
		m := d.MsgResume(i, []string{"yes", "Jim", "23", "no", "again", "more"}[i%6])
		parts := strings.Split(step, "+")
		kind := parts[0]
		if len(parts) > 1 && parts[1] == "other" {
			kind = "policy+other"
		}
		has := func(f string) bool {
			for _, p := range parts[1:] {
				if p == f {
					return true
				}
			}
			return false
		}
		if kind != "" {
			switch kind {
			case "policy-only":
				policy = flip(policy)
			case "policy+other":
				policy = flip(policy)
				others[nOther%len(others)](env)
				nOther++
			case "other-only":
				others[nOther%len(others)](env)
				nOther++
			}
			if policy == "none" && has("absent") {
				delete(env, "redaction_policy")
			} else if policy == "none" && has("empty") {
				env["redaction_policy"] = ""
			} else {
				env["redaction_policy"] = policy
			}
			m["environment"] = cloneJSON(env)
		}
		if has("contact") {
			rc := unnamed(d.Contact())
			rc["urns"] = [][]string{{"mailto:new@bar.com", "tel:+12065558989", "facebook:99887766"}, {"tel:+250788123123", "twitterid:54784326227#nyaruka"}, {"telegram:5478432#bobbyt"}}[i%3]
			if i%2 == 1 {
				rc["name"] = "Bobby"
			}
			m["contact"] = rc
			m["msg"].(M)["urn"] = rc["urns"].([]string)[0]
		}
		if has("restart") {
			restarts[i] = true
		}
		resumes = append(resumes, m)
	}
	return &gen.Scenario{Assets: d.BaseAssets(flows...), Trigger: t, Resumes: resumes}, restarts
}

// unnamedCase builds the scenario of one point of the "shown by id" grid.
func unnamedCase(name string) *gen.Scenario {
	parts := strings.Split(name, "|") // unnamed|who|id|name|urns
	who, id, nm, us := parts[1], parts[2], parts[3], parts[4]
	shape := func(c M) {
		applyID(c, id)
		applyName(c, nm)
		if us == "no-urns" {
			delete(c, "urns")
		}
	}
	var s *gen.Scenario
	if who == "session" {
		s = directedScenario("parent-child-runs")
		shape(s.Trigger["contact"].(M))
		// the name comes and goes: a refreshed contact with a name, then again without
		r0 := s.Resumes[0]
		rc := threeSchemeContact()
		rc["name"] = "Bob Again"
		applyID(rc, id)
		r0["contact"] = rc
		r1 := s.Resumes[1]
		rc2 := threeSchemeContact()
		shape(rc2)
		r1["contact"] = rc2
	} else {
		s = directedScenario("child-of-trigger-parent")
		shape(s.Trigger["run_summary"].(M)["contact"].(M))
	}
	return s
}

func directedScenario(name string) *gen.Scenario {
	act := d.Action
	if strings.HasPrefix(name, "unnamed|") {
		return unnamedCase(name)
	}
	switch name {
	case "unnamed-contact", "unnamed-contact-no-urns":
		c := unnamed(threeSchemeContact())
		if name == "unnamed-contact-no-urns" {
			delete(c, "urns")
		}
		return &gen.Scenario{Assets: d.BaseAssets(d.Flow("A", "messaging",
			d.Node("a0", []any{d.SendMsg("m0", "Hi @contact / @run / @(format(contact)) / @contact.name| "+allURNTemplates)}, nil, d.Exit("a0x", "a1")),
			d.WaitNode("a1", "a2", nil),
			d.Node("a2", []any{act("n", "set_contact_name", M{"name": "@input.text"}), d.SendMsg("m2", "Now @contact / @run")}, nil, d.Exit("a2x", "a3")),
			d.WaitNode("a3", "a4", nil),
			d.Node("a4", []any{act("n2", "set_contact_name", M{"name": ""}), d.SendMsg("m4", "Again @contact / @run / @(json(run))")}, nil, d.Exit("a4x", "")))),
			Trigger: d.Manual("A", c), Resumes: []M{d.MsgResume(0, "Jim"), d.MsgResume(1, "x")}}
	case "three-schemes":
		return &gen.Scenario{Assets: d.BaseAssets(d.Flow("A", "messaging",
			d.Node("a0", []any{d.SendMsg("m0", allURNTemplates), result("URN Copy", "@contact.urn"), result("All", "@(json(contact.urns))"), result("Tw", "@(format_urn(urns.twitterid))")}, nil, d.Exit("a0x", "a1")),
			d.Node("a1", nil, d.Switch("@results.urn_copy.value", []M{d.Cat("Digits", "a1:d"), d.Cat("Other", "a1:o")}, d.Cat("Other", "a1:o"),
				[]M{{"type": "has_pattern", "arguments": []string{`\d\d\d\d`}, "category_uuid": d.Cat("Digits", "a1:d")["uuid"]}, {"type": "has_phrase", "arguments": []string{"tel:+12065551212"}, "category_uuid": d.Cat("Digits", "a1:d")["uuid"]}}, nil, "Routed"),
				d.Exit("a1:d", "a2"), d.Exit("a1:o", "a3")),
			d.Node("a2", []any{d.SendMsg("m2", "digits seen: @results")}, nil, d.Exit("a2x", "")),
			d.Node("a3", []any{d.SendMsg("m3", "nothing seen: @results @(json(results)) @results.routed.input")}, nil, d.Exit("a3x", "a4")),
			d.WaitNode("a4", "a0", nil))),
			Trigger: d.Manual("A", threeSchemeContact()), Resumes: []M{d.MsgResume(0, "again")}}
	case "msg-from-foreign-urn":
		t := d.MsgTrigger("A", threeSchemeContact(), "hello")
		t["msg"].(M)["urn"] = "tel:+12065557777"
		r0 := d.MsgResume(0, "second")
		r0["msg"].(M)["urn"] = "twitterid:998877665#stranger"
		r1 := d.MsgResume(1, "third")
		delete(r1["msg"].(M), "urn")
		return &gen.Scenario{Assets: d.BaseAssets(d.Flow("A", "messaging",
			d.Node("a0", []any{d.SendMsg("m0", "in=@input.urn same=@(contact.urn = input.urn) has=@(contains(contact.urns, input.urn)) j=@(json(input)) f=@(format_urn(input.urn)) p=@(urn_parts(input.urn))"), result("From", "@input.urn")}, nil, d.Exit("a0x", "a1")),
			d.WaitNode("a1", "a0", nil))),
			Trigger: t, Resumes: []M{r0, r1}}
	case "parent-child-runs":
		return &gen.Scenario{Assets: d.BaseAssets(
			d.Flow("A", "messaging",
				d.Node("a0", []any{result("URN Copy", "@contact.urn"), d.Enter("e", "B", false)}, nil, d.Exit("a0x", "a1")),
				d.Node("a1", []any{d.SendMsg("m1", childTemplates+" "+allURNTemplates), result("From Child", "@child.results.urn_copy.value @child.contact.urn")}, nil, d.Exit("a1x", "a2")),
				d.WaitNode("a2", "a3", nil),
				d.Node("a3", []any{d.SendMsg("m3", childTemplates+" @results")}, nil, d.Exit("a3x", ""))),
			d.Flow("B", "messaging",
				d.Node("b0", []any{d.SendMsg("mb0", parentTemplates+" "+allURNTemplates), result("URN Copy", "@parent.contact.urn|@contact.urn|@parent.results.urn_copy.value")}, nil, d.Exit("b0x", "b1")),
				d.WaitNode("b1", "b2", nil),
				d.Node("b2", []any{d.SendMsg("mb2", parentTemplates+" i=@input.urn"), result("Late", "@(format_urn(parent.urns.tel))")}, nil, d.Exit("b2x", "")))),
			Trigger: d.MsgTrigger("A", threeSchemeContact(), "go"), Resumes: []M{d.MsgResume(0, "one"), d.MsgResume(1, "two")}}
	case "result-holds-urn":
		return &gen.Scenario{Assets: d.BaseAssets(d.Flow("A", "messaging",
			d.Node("a0", []any{result("URN Copy", "@contact.urn"), result("Path", "@(urn_parts(contact.urn).path)"), result("Formatted", "@(format_urn(contact.urn))"), result("Each", "@(foreach(contact.urns, (u) => urn_parts(u).path))")}, nil, d.Exit("a0x", "a1")),
			d.Node("a1", []any{d.SendMsg("m1", "@results.urn_copy @results.path.value @results.formatted.value @results.each.value @(json(results)) @run.results.urn_copy.value"),
				act("f", "set_contact_field", M{"field": M{"key": "nick", "name": "Nick Name"}, "value": "@results.urn_copy.value"})}, nil, d.Exit("a1x", "a2")),
			d.WaitNode("a2", "a3", nil),
			d.Node("a3", []any{d.SendMsg("m3", "@fields.nick @contact.fields.nick @results @(json(run))")}, nil, d.Exit("a3x", "")))),
			Trigger: d.Manual("A", threeSchemeContact()), Resumes: []M{d.MsgResume(0, "ok")}}
	case "urn-into-everything":
		return &gen.Scenario{Assets: d.BaseAssets(d.Flow("A", "messaging",
			d.Node("a0", []any{
				act("w", "call_webhook", M{"method": "POST", "url": "http://localhost/?cmd=success&u=@(url_encode(contact.urn))", "headers": M{"X-URN": "@contact.urn"}, "body": "@(json(contact))", "result_name": "webhook"}),
				act("rh", "call_resthook", M{"resthook": "new-registration", "result_name": "Hook"}),
				act("em", "send_email", M{"addresses": []string{"@urns.mailto", "bob@nyaruka.com"}, "subject": "Hi @contact.urn", "body": "Body @(json(urns))"}),
				act("tk", "open_ticket", M{"topic": M{"uuid": gen.NamedUUID("topic:weather"), "name": "Weather"}, "body": "Ticket for @contact.urn / @contact", "result_name": "Ticket"}),
				act("bc", "send_broadcast", M{"text": "B: @contact.urn", "groups": []M{{"uuid": gen.NamedUUID("group:testers"), "name": "Testers"}}, "legacy_vars": []string{"@contact.urn", "@(urn_parts(contact.urn).path)"}, "contact_query": "tel = @(urn_parts(contact.urn).path)"}),
				act("nm", "set_contact_name", M{"name": "@(format_urn(contact.urn))"}),
				act("fl", "set_contact_field", M{"field": M{"key": "gender", "name": "Gender"}, "value": "@urns.twitterid"}),
				act("cl", "call_classifier", M{"classifier": M{"uuid": gen.NamedUUID("classifier:booking"), "name": "Booking"}, "input": "book for @contact.urn", "result_name": "Intent"}),
				act("au", "add_contact_urn", M{"scheme": "tel", "path": "@(urn_parts(contact.urn).path)"}),
				act("oi", "request_optin", M{"optin": M{"uuid": gen.NamedUUID("optin:jokes"), "name": "Jokes"}}),
				act("at", "transfer_airtime", M{"amounts": M{"RWF": 500}, "result_name": "Airtime"}),
				d.SendMsg("m0", "@webhook @results @contact @fields.gender"),
			}, nil, d.Exit("a0x", "a1")),
			d.WaitNode("a1", "a2", nil),
			d.Node("a2", []any{d.SendMsg("m2", "@(json(results)) @legacy_extra @contact @fields")}, nil, d.Exit("a2x", "")))),
			Trigger: d.Manual("A", threeSchemeContact()), Resumes: []M{d.MsgResume(0, "ok")}}
	case "flow-action-parent-summary", "child-of-trigger-parent":
		t := d.Manual("A", threeSchemeContact())
		t["type"] = "flow_action"
		pc := unnamed(d.Contact())
		pc["uuid"] = gen.NamedUUID("contact:parent")
		pc["id"] = 5678
		pc["urns"] = []string{"tel:+12065553434", "twitter:bobby", "mailto:parent@bar.com"}
		t["run_summary"] = M{"uuid": gen.NamedUUID("run:parent"), "flow": M{"uuid": gen.NamedUUID("flow:P"), "name": "Parent"}, "contact": pc, "status": "active",
			"results": M{"role": M{"name": "Role", "value": "reporter", "category": "Reporter", "node_uuid": gen.NamedUUID("node:p1"), "input": "a reporter", "created_on": "2000-01-01T00:00:00Z"}}}
		t["history"] = M{"parent_uuid": gen.NamedUUID("session:parent"), "ancestors": 1, "ancestors_since_input": 0}
		flows := []M{d.Flow("A", "messaging",
			d.Node("a0", []any{d.SendMsg("m0", parentTemplates+" "+allURNTemplates), result("Parent URN", "@parent.contact.urn")}, nil, d.Exit("a0x", "a1")),
			d.WaitNode("a1", "a2", nil),
			d.Node("a2", []any{d.SendMsg("m2", parentTemplates+" @results")}, nil, d.Exit("a2x", "")))}
		if name == "child-of-trigger-parent" {
			flows = []M{d.Flow("A", "messaging",
				d.Node("a0", []any{d.SendMsg("m0", parentTemplates), d.Enter("e", "B", false)}, nil, d.Exit("a0x", "a1")),
				d.Node("a1", []any{d.SendMsg("m1", childTemplates+" "+parentTemplates)}, nil, d.Exit("a1x", ""))),
				d.Flow("B", "messaging", d.Node("b0", []any{d.SendMsg("mb0", parentTemplates), result("URN Copy", "@parent.contact.urn")}, nil, d.Exit("b0x", "b1")), d.WaitNode("b1", "", nil))}
		}
		return &gen.Scenario{Assets: d.BaseAssets(flows...), Trigger: t, Resumes: []M{d.MsgResume(0, "ok")}}
	case "voice-call-and-dial":
		t := d.Manual("V", threeSchemeContact())
		t["call"] = M{"uuid": gen.NamedUUID("call:1"), "channel": M{"uuid": gen.NamedUUID("chan:android"), "name": "Android"}, "urn": "tel:+12065551212"}
		dialNode := func(name, phone, dest string) M {
			ans, other := d.Cat("Answered", name+":a"), d.Cat("Other", name+":o")
			return d.Node(name, nil, d.Switch("@(default(resume.dial.status, \"\"))", []M{ans, other}, other,
				[]M{{"type": "has_only_text", "arguments": []string{"answered"}, "category_uuid": ans["uuid"]}}, M{"type": "dial", "phone": phone}, "Dial "+name),
				d.Exit(name+":a", dest), d.Exit(name+":o", dest))
		}
		return &gen.Scenario{Assets: d.BaseAssets(d.Flow("V", "voice",
			d.Node("v0", []any{act("s", "say_msg", M{"text": "Hello @contact.urn @(format_urn(urns.tel)) @contact"})}, nil, d.Exit("v0x", "v1")),
			dialNode("v1", "@contact.urn", "v2"),
			d.Node("v2", []any{act("s2", "say_msg", M{"text": "after dial @results @resume.dial"})}, nil, d.Exit("v2x", "v3")),
			dialNode("v3", "+12065550000", "v4"),
			d.Node("v4", []any{act("s4", "say_msg", M{"text": "done @results @(json(resume)) @contact.urn"})}, nil, d.Exit("v4x", "")))),
			Trigger: t, Resumes: []M{d.Dial(0, "answered"), d.Dial(1, "busy")}}
	case "refreshed-contact":
		r0 := d.MsgResume(0, "one")
		rc := unnamed(d.Contact())
		rc["urns"] = []string{"mailto:new@bar.com", "tel:+12065558989", "facebook:99887766"}
		r0["contact"] = rc
		r0["msg"].(M)["urn"] = "tel:+12065558989"
		return &gen.Scenario{Assets: d.BaseAssets(d.Flow("A", "messaging",
			d.Node("a0", []any{d.SendMsg("m0", allURNTemplates), result("URN Copy", "@contact.urns")}, nil, d.Exit("a0x", "a1")),
			d.WaitNode("a1", "a0", nil))),
			Trigger: d.Manual("A", threeSchemeContact()), Resumes: []M{r0, d.MsgResume(1, "two")}}
	case "add-urn-from-input":
		return &gen.Scenario{Assets: d.BaseAssets(d.Flow("A", "messaging",
			d.WaitNode("a0", "a1", nil),
			d.Node("a1", []any{act("au", "add_contact_urn", M{"scheme": "tel", "path": "@input.text"}), act("au2", "add_contact_urn", M{"scheme": "twitter", "path": "someoneelse"}),
				d.SendMsg("m1", allURNTemplates+" n=@(count(contact.urns))")}, nil, d.Exit("a1x", "a0")))),
			Trigger: d.Manual("A", threeSchemeContact()), Resumes: []M{d.MsgResume(0, "+12065550101"), d.MsgResume(1, "not a phone")}}
	case "start-session-summary":
		return &gen.Scenario{Assets: d.BaseAssets(d.Flow("A", "messaging",
			d.Node("a0", []any{result("URN Copy", "@contact.urn"),
				act("ss", "start_session", M{"flow": M{"uuid": gen.NamedUUID("flow:A"), "name": "A"}, "groups": []M{{"uuid": gen.NamedUUID("group:testers"), "name": "Testers"}}, "legacy_vars": []string{"@contact.urn"}, "exclusions": M{}}),
				d.SendMsg("m0", "started @results")}, nil, d.Exit("a0x", "")))),
			Trigger: d.Manual("A", threeSchemeContact())}
	}
	return directedWidened(name)
}
