package p19

import (
	"fmt"
	"hash/fnv"
	"strconv"
	"strings"

	"github.com/nyaruka/goflow/envs"
	"github.com/nyaruka/goflow/excellent/types"
)

// One node of the expression context as an expression could see it: its canonical text (what a bare
// @path renders to), its Format(env) (what format()/default formatting gives) and its JSON (what json() gives).
type wnode struct {
	path   string // contact.urns[0], parent.contact.__default__, …
	expr   string // the Excellent path that reaches the node ("" for defaults, which are reached through their owner)
	kind   string // text / number / object / array / null / …
	leaf   bool
	hash   uint64 // over render \x00 format \x00 json (full length)
	render string // truncated for reports
	format string
	json   string
}

const (
	walkMaxDepth = 8
	walkMaxNodes = 40000
	keepChars    = 400
)

type walker struct {
	env       envs.Environment
	nodes     []wnode
	truncated bool // node cap reached
	deepest   int

	caseAmbiguous int
}

func trunc(s string, n int) string {
	if len(s) <= n {
		return s
	}
	return s[:n] + "…"
}

func isIdent(s string) bool {
	if s == "" {
		return false
	}
	for i, c := range s {
		switch {
		case c >= 'a' && c <= 'z', c >= 'A' && c <= 'Z', c == '_':
		case c >= '0' && c <= '9' && i > 0:
		default:
			return false
		}
	}
	return true
}

// walkContext walks every node reachable from root (properties of objects incl. their default, elements of
// arrays), expanding lazy objects/arrays, down to walkMaxDepth.
func walkContext(env envs.Environment, root *types.XObject) *walker {
	w := &walker{env: env}
	w.visit(root, "", "", 0)
	return w
}

func (w *walker) visit(v types.XValue, path, expr string, depth int) {
	if len(w.nodes) >= walkMaxNodes {
		w.truncated = true
		return
	}
	if depth > w.deepest {
		w.deepest = depth
	}
	n := wnode{path: path, expr: expr, kind: kindOf(v)}
	render := types.Render(v)
	format := types.Format(w.env, v)
	js := ""
	if j, xerr := types.ToXJSON(v); xerr != nil {
		js = "<error: " + xerr.Error() + ">"
	} else {
		js = j.Native()
	}
	h := fnv.New64a()
	h.Write([]byte(render))
	h.Write([]byte{0})
	h.Write([]byte(format))
	h.Write([]byte{0})
	h.Write([]byte(js))
	h.Write([]byte{0})
	h.Write([]byte(types.Describe(v))) // what error messages quote
	n.hash = h.Sum64()
	n.render, n.format, n.json = trunc(render, keepChars), trunc(format, keepChars), trunc(js, keepChars)

	switch t := v.(type) {
	case *types.XObject:
		if types.IsNil(v) {
			n.leaf = true
			w.nodes = append(w.nodes, n)
			return
		}
		w.nodes = append(w.nodes, n)
		if depth >= walkMaxDepth {
			return
		}
		if def := t.Default(); def != types.XValue(t) {
			w.visit(def, path+".__default__", "", depth+1)
		}
		props := t.Properties()
		lower := map[string]int{}
		for _, k := range props {
			lower[strings.ToLower(k)]++
		}
		for _, k := range props {
			if lower[strings.ToLower(k)] > 1 {
				// XObject.Get is case-insensitive and scans a map: with keys that differ only in case the
				// value it returns is not determined (C08's business) — not comparable here
				w.caseAmbiguous++
				continue
			}
			child, _ := t.Get(k)
			ce := ""
			switch {
			case expr == "" && path != "":
				// below a default: not addressable
			case isIdent(k):
				if path == "" {
					ce = k
				} else {
					ce = expr + "." + k
				}
			default:
				if path != "" {
					ce = expr + "[" + strconv.Quote(k) + "]"
				}
			}
			cp := k
			if path != "" {
				cp = path + "." + k
			}
			w.visit(child, cp, ce, depth+1)
		}
	case *types.XArray:
		if types.IsNil(v) {
			n.leaf = true
			w.nodes = append(w.nodes, n)
			return
		}
		w.nodes = append(w.nodes, n)
		if depth >= walkMaxDepth {
			return
		}
		for i := 0; i < t.Count(); i++ {
			ce := ""
			if expr != "" {
				ce = fmt.Sprintf("%s[%d]", expr, i)
			}
			w.visit(t.Get(i), fmt.Sprintf("%s[%d]", path, i), ce, depth+1)
		}
	default:
		n.leaf = true
		w.nodes = append(w.nodes, n)
	}
}

func kindOf(v types.XValue) string {
	if types.IsNil(v) {
		return "null"
	}
	switch v.(type) {
	case *types.XText:
		return "text"
	case *types.XNumber:
		return "number"
	case *types.XBoolean:
		return "boolean"
	case *types.XDateTime:
		return "datetime"
	case *types.XDate:
		return "date"
	case *types.XTime:
		return "time"
	case *types.XObject:
		return "object"
	case *types.XArray:
		return "array"
	case *types.XFunction:
		return "function"
	case *types.XError:
		return "error"
	}
	return fmt.Sprintf("%T", v)
}

// urnBearing says whether a context path names a URN value by construction of the context:
// *.urn, *.urns[i], urns.<scheme>, and the same below parent/child/run.
func urnBearing(path string) bool {
	segs := strings.Split(path, ".")
	last := segs[len(segs)-1]
	if last == "urn" {
		return true
	}
	if strings.HasPrefix(last, "urns[") {
		return true
	}
	if len(segs) >= 2 && segs[len(segs)-2] == "urns" {
		return true
	}
	return false
}

// genericPath strips indices so that a path can be part of a signature.
func genericPath(p string) string {
	var b strings.Builder
	in := false
	for _, c := range p {
		switch {
		case c == '[':
			in = true
			b.WriteString("[]")
		case c == ']':
			in = false
		case in:
		default:
			b.WriteRune(c)
		}
	}
	return b.String()
}

// diffWalks compares two walks node by node. Returns the first difference ("" if none).
type walkDiff struct {
	path, aspect, a, b string
	rank               int // lower = closer to the source of the leak
}

func diffWalks(a, b []wnode) *walkDiff {
	n := len(a)
	if len(b) < n {
		n = len(b)
	}
	var firstComposite, bestLeaf *walkDiff
	bestSegs := 0
	for i := 0; i < n; i++ {
		x, y := a[i], b[i]
		if (x.path != y.path || x.kind != y.kind) && bestLeaf != nil {
			break // the contexts have different shapes from here on; a differing leaf was already found
		}
		if x.path != y.path {
			// name the place by the URN-bearing path of the two, if one is (an element one twin's list lacks)
			at := x.path
			if !urnBearing(at) && urnBearing(y.path) {
				at = y.path
			}
			return &walkDiff{path: at, aspect: "structure", a: x.path, b: y.path, rank: 500}
		}
		if x.kind != y.kind {
			return &walkDiff{path: x.path, aspect: "type", a: x.kind, b: y.kind, rank: 500}
		}
		if x.hash != y.hash || x.render != y.render || x.format != y.format || x.json != y.json {
			d := &walkDiff{path: x.path}
			switch {
			case x.render != y.render:
				d.aspect, d.a, d.b = "text", x.render, y.render
			case x.format != y.format:
				d.aspect, d.a, d.b = "format", x.format, y.format
			case x.json != y.json:
				d.aspect, d.a, d.b = "json", x.json, y.json
			default:
				d.aspect, d.a, d.b = "text-beyond-preview", x.render, y.render
			}
			if x.leaf {
				// report the differing leaf closest to the root (first in walk order among those): the most
				// stable name for the place where the secret shows
				// — preferring URN-bearing leaves (the source) over copies of them in results / fields
				segs := strings.Count(x.path, ".")
				if !urnBearing(x.path) {
					segs += 100
				}
				if bestLeaf == nil || segs < bestSegs {
					bestLeaf, bestSegs = d, segs
				}
			} else if firstComposite == nil {
				firstComposite = d
			}
		}
	}
	if bestLeaf != nil {
		bestLeaf.rank = bestSegs
		return bestLeaf
	}
	if len(a) != len(b) {
		return &walkDiff{path: "<end>", aspect: "structure", a: fmt.Sprint(len(a), " nodes"), b: fmt.Sprint(len(b), " nodes"), rank: 500}
	}
	if firstComposite != nil {
		firstComposite.rank = 1000
	}
	return firstComposite
}

// sigPath makes a context path coarse enough for a signature: no indices, no scheme / result / field names.
func sigPath(p string) string {
	segs := strings.Split(genericPath(p), ".")
	for i := 1; i < len(segs); i++ {
		switch segs[i-1] {
		case "urns":
			segs[i] = "<scheme>"
		case "results":
			segs[i] = "<result>"
		case "fields":
			segs[i] = "<field>"
		}
	}
	return strings.Join(segs, ".")
}

// countDiffs counts the nodes that differ, matched by path (used by the policy=none control, where the twins
// may legitimately end up with differently shaped contexts).
func countDiffs(a, b []wnode) (differing int, urnPaths int) {
	byPath := make(map[string]*wnode, len(b))
	for i := range b {
		byPath[b[i].path] = &b[i]
	}
	for i := range a {
		o, ok := byPath[a[i].path]
		if !ok {
			differing++
			continue
		}
		if a[i].hash != o.hash {
			differing++
			if a[i].leaf && urnBearing(a[i].path) {
				urnPaths++
			}
		}
	}
	if len(a) != len(b) {
		differing++
	}
	return
}
