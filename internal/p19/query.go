package p19

import (
	"fmt"
	"runtime/debug"
	"strings"

	"github.com/nyaruka/gocommon/i18n"
	"github.com/nyaruka/goflow/contactql"
	"github.com/nyaruka/goflow/envs"

	"verif/internal/fw"
)

// A URN condition in one of the surface forms ContactQL has for it.
type urnQuery struct {
	text  string
	route string // scheme | urn-attribute | urns-prefix | implicit-phone | implicit-urn | whole-query-phone
	// valued: the condition compares against a non-empty value. Presence checks (= "" / != "") are allowed by
	// the parser under redaction (visitor.go tests value != ""), the statement is silent about them.
	valued bool
}

var qSchemes = []string{"tel", "twitter", "twitterid", "mailto", "facebook", "whatsapp", "telegram", "viber", "ext"}

func quoteQ(r *fw.Rand, v string) string {
	if r.Bool() || strings.ContainsAny(v, " @:+()") {
		return `"` + v + `"`
	}
	return v
}

func caseMix(r *fw.Rand, s string) string {
	switch r.Intn(3) {
	case 0:
		return strings.ToUpper(s)
	case 1:
		b := []byte(s)
		for i := range b {
			if r.Bool() && b[i] >= 'a' && b[i] <= 'z' {
				b[i] -= 32
			}
		}
		return string(b)
	}
	return s
}

func valueFor(r *fw.Rand, scheme string) string {
	switch scheme {
	case "tel", "whatsapp", "viber":
		return fw.Pick(r, []string{"+12065551212", "12065551212", "+250788123123", "2065551212", "0788123123", "1212"})
	case "mailto":
		return fw.Pick(r, []string{"foo@bar.com", "foo", "bar.com"})
	case "twitterid", "facebook", "telegram":
		return fw.Pick(r, []string{"54784326227", "1122334455", "5478"})
	}
	return fw.Pick(r, []string{"bobby", "nyaruka", "bob"})
}

func genURNQuery(r *fw.Rand) urnQuery {
	scheme := fw.Pick(r, qSchemes)
	val := valueFor(r, scheme)
	op := fw.Pick(r, []string{"=", "!=", "~"})
	if op == "~" && len(val) < 3 {
		op = "="
	}
	sp := fw.Pick(r, []string{" ", "", "  "})
	var q urnQuery
	switch r.Intn(9) {
	case 0, 1:
		q = urnQuery{text: caseMix(r, scheme) + sp + op + sp + quoteQ(r, val), route: "scheme", valued: true}
	case 2:
		q = urnQuery{text: caseMix(r, "urn") + sp + op + sp + quoteQ(r, val), route: "urn-attribute", valued: true}
	case 3, 4:
		q = urnQuery{text: caseMix(r, "urns."+scheme) + sp + op + sp + quoteQ(r, val), route: "urns-prefix", valued: true}
	case 5:
		// bare phone number: implicit condition (or whole-query rewrite)
		v := fw.Pick(r, []string{"+12065551212", "0788123123", "12065551212", "(206) 555-1212", "+250788123123"})
		q = urnQuery{text: v, route: "implicit-phone", valued: true}
	case 6:
		v := fw.Pick(r, []string{"tel:+12065551212", "twitter:bobby", "mailto:foo@bar.com", "facebook:1122334455"})
		q = urnQuery{text: quoteQ(r, v), route: "implicit-urn", valued: true}
	case 7:
		eq := fw.Pick(r, []string{"=", "!="})
		prop := fw.Pick(r, []string{scheme, "urn", "urns." + scheme})
		q = urnQuery{text: caseMix(r, prop) + sp + eq + sp + `""`, route: "presence", valued: false}
	default:
		q = urnQuery{text: caseMix(r, scheme) + sp + op + sp + quoteQ(r, val), route: "scheme", valued: true}
	}
	// embed in a combination sometimes
	switch r.Intn(5) {
	case 0:
		q.text = `name ~ "bob" AND ` + q.text
	case 1:
		q.text = q.text + ` OR language = "eng"`
	case 2:
		q.text = `(` + q.text + `) AND (age > 10 OR name = "x")`
	}
	return q
}

var directedURNQueries = []urnQuery{
	{`tel = "+12065551212"`, "scheme", true}, {`tel = +12065551212`, "scheme", true}, {`TEL ~ 1206`, "scheme", true}, {`tel != 123`, "scheme", true},
	{`twitter = bobby`, "scheme", true}, {`twitterid = 54784326227`, "scheme", true}, {`mailto ~ "foo@bar.com"`, "scheme", true}, {`facebook = 1122334455`, "scheme", true},
	{`urn ~ "1206"`, "urn-attribute", true}, {`urn = "+12065551212"`, "urn-attribute", true}, {`URN != "x"`, "urn-attribute", true},
	{`urns.tel = "+12065551212"`, "urns-prefix", true}, {`URNS.TEL ~ 1206`, "urns-prefix", true}, {`urns.twitter = bobby`, "urns-prefix", true}, {`urns.mailto != "foo@bar.com"`, "urns-prefix", true},
	{`+12065551212`, "implicit-phone", true}, {`0788123123`, "implicit-phone", true}, {`(206) 555-1212`, "implicit-phone", true}, {`bobby 12065551212`, "implicit-phone", true},
	{`tel:+12065551212`, "implicit-urn", true}, {`"twitter:bobby"`, "implicit-urn", true},
	{`name = bob OR tel = 123`, "scheme", true}, {`tel ~ 1206 AND name ~ bob`, "scheme", true}, {`name ~ bob AND (urn ~ 1206 OR age > 3)`, "urn-attribute", true},
	{`name ~ bob AND urns.tel ~ 1206`, "urns-prefix", true},
	{`urn = ""`, "presence", false}, {`tel != ""`, "presence", false}, {`urns.tel = ""`, "presence", false}, {`twitter = ""`, "presence", false},
}

// valuedURNConditions lists the conditions of a parsed query that compare a URN against a non-empty value.
func valuedURNConditions(n contactql.QueryNode, out *[]string) {
	switch t := n.(type) {
	case *contactql.Condition:
		isURN := t.PropertyType() == contactql.PropertyTypeURN || (t.PropertyType() == contactql.PropertyTypeAttribute && t.PropertyKey() == contactql.AttributeURN)
		if isURN && t.Value() != "" {
			*out = append(*out, t.String())
		}
	case *contactql.BoolCombination:
		for _, c := range t.Children() {
			valuedURNConditions(c, out)
		}
	}
}

func parseQ(env envs.Environment, text string) (q *contactql.ContactQuery, err error, panicked string) {
	defer func() {
		if rec := recover(); rec != nil {
			panicked = fw.PanicSignature("contactql.ParseQuery", rec, string(debug.Stack()))
		}
	}()
	q, err = contactql.ParseQuery(env, text, nil)
	return
}

// checkQueries: under policy urns a query must not come back with a valued URN condition; under policy none the
// same text does (control: the generator really writes URN conditions).
func checkQueries(res *fw.Result, r *fw.Rand, qs []urnQuery) {
	for _, q := range qs {
		country := i18n.Country(fw.Pick(r, []string{"US", "RW", ""}))
		red := envs.NewBuilder().WithRedactionPolicy(envs.RedactionPolicyURNs).WithDefaultCountry(country).Build()
		non := envs.NewBuilder().WithRedactionPolicy(envs.RedactionPolicyNone).WithDefaultCountry(country).Build()
		res.Seen("query_routes", q.route)

		pn, errN, panN := parseQ(non, q.text)
		pr, errR, panR := parseQ(red, q.text)
		if panN != "" || panR != "" {
			res.Count("query.panics", 1)
			continue
		}
		var condsN, condsR []string
		if errN == nil {
			valuedURNConditions(pn.Root(), &condsN)
		}
		if errR == nil {
			valuedURNConditions(pr.Root(), &condsR)
		}
		if len(condsN) > 0 {
			res.Count("control.query_sees_urn_under_none", 1)
		}
		if !q.valued {
			res.Count("query.presence_checks", 1)
			if errR == nil {
				res.Count("query.presence_accepted_under_redaction", 1)
			}
			continue
		}
		if len(condsN) == 0 {
			// not a URN condition even without redaction (e.g. a value the parser reads differently): nothing to demand
			res.Count("query.not_a_urn_condition", 1)
			continue
		}
		res.Count("clause.query_rejected", 1)
		res.Count("clause.query_rejected."+q.route, 1)
		if errR != nil {
			code := ""
			if isQ, qe := contactql.IsQueryError(errR); isQ {
				code = qe.(*contactql.QueryError).Code()
			}
			res.Seen("query_reject_codes", code)
			res.Count("query.rejected", 1)
			continue
		}
		if len(condsR) == 0 {
			// accepted, but re-read as something that does not touch URNs (id / name condition)
			res.Count("query.reinterpreted_without_urn", 1)
			continue
		}
		res.Violate("C19|query-accepted|"+q.route,
			fmt.Sprintf("under redaction policy urns ParseQuery accepts %q as %q: a condition on a URN value", q.text, pr.String()),
			map[string]any{"query": q.text, "route": q.route, "default_country": string(country), "parsed_under_urns": pr.String(), "urn_conditions": condsR, "parsed_under_none": pn.String()})
	}
}
