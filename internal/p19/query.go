package p19

import (
	"fmt"
	"runtime/debug"
	"sort"
	"strings"

	"github.com/nyaruka/gocommon/i18n"
	"github.com/nyaruka/gocommon/urns"
	"github.com/nyaruka/goflow/contactql"
	"github.com/nyaruka/goflow/envs"

	"verif/internal/fw"
)

// A URN condition in one of the surface forms ContactQL has for it.
type urnQuery struct {
	text  string
	route string // scheme | urn-attribute | urns-prefix | implicit-phone | implicit-urn | presence
	// valued: the condition compares against a non-empty value. Presence checks (= "" / != "") are allowed by
	// the parser under redaction (visitor.go tests value != ""), the statement is silent about them.
	valued bool
	op     string // comparator as written (any case); "" for implicit conditions
	nested int    // how many AND / OR / parenthesis layers surround the condition
	// a second URN condition written next to the first one (its own route / comparator / property key / value)
	extra *urnQuery
	key   string // property key the condition is about once parsed: the scheme, or "urn"
	value string
}

// every scheme the URN library knows (urns.<scheme> and <scheme> are property spellings for each of them)
var qSchemes = func() []string {
	var out []string
	for _, s := range urns.Schemes {
		out = append(out, s.Prefix)
	}
	sort.Strings(out)
	return out
}()

// every comparator the grammar admits (antlr/ContactQL.g4 COMPARATOR): the symbolic ones and the word aliases
// HAS / IS, which the lexer accepts in any letter case (contactql/visitor.go operatorAliases: has -> ~, is -> =).
var qSymbolicOps = []string{"=", "!=", "~", ">", ">=", "<", "<="}
var qAliasOps = []string{"has", "is"}

func opClass(op string) string {
	switch {
	case op == "":
		return "implicit"
	case isAliasOp(op):
		return "alias"
	}
	return "symbolic"
}

func isAliasOp(op string) bool {
	l := strings.ToLower(op)
	return l == "has" || l == "is"
}

func quoteQ(r *fw.Rand, v string) string {
	if r.Bool() || strings.ContainsAny(v, " @:+()") {
		return `"` + v + `"`
	}
	return v
}

func caseMix(r *fw.Rand, s string) string {
	switch r.Intn(4) {
	case 0:
		return strings.ToUpper(s)
	case 1:
		b := []byte(s)
		for i := range b {
			if r.Bool() && b[i] >= 'a' && b[i] <= 'z' {
				b[i] -= 32
			}
		}
		return string(b)
	case 2:
		return strings.ToUpper(s[:1]) + s[1:]
	}
	return s
}

func valueFor(r *fw.Rand, scheme string) string {
	switch scheme {
	case "tel", "whatsapp", "viber":
		return fw.Pick(r, []string{"+12065551212", "12065551212", "+250788123123", "2065551212", "0788123123", "1212", "1206555"})
	case "mailto":
		return fw.Pick(r, []string{"foo@bar.com", "foo", "bar.com"})
	case "twitterid", "facebook", "telegram", "instagram", "vk", "fcm":
		return fw.Pick(r, []string{"54784326227", "1122334455", "5478"})
	}
	return fw.Pick(r, []string{"bobby", "nyaruka", "bob", "U0123ABC"})
}

// condition writes PROPERTY COMPARATOR literal. The word comparators need white space before them (otherwise the
// lexer reads one longer PROPERTY) and, before a bare value, after them.
func condition(r *fw.Rand, prop, op, val string, quoted bool) string {
	lit := val
	if quoted || strings.ContainsAny(val, " @:+()") || val == "" {
		lit = `"` + val + `"`
		quoted = true
	}
	before, after := fw.Pick(r, []string{" ", "", "  ", "\t"}), fw.Pick(r, []string{" ", "", "  "})
	if isAliasOp(op) {
		before = fw.Pick(r, []string{" ", "  ", "\t"})
		if !quoted || after == "" && r.Bool() {
			after = " "
		}
	}
	return prop + before + op + after + lit
}

var qFillers = []string{`name ~ "bob"`, `language = "eng"`, `age > 10`, `gender = male`, `name is bob`, `name HAS "bob"`, `created_on > "2018-01-01"`, `(age > 10 OR name = "x")`, `age != ""`, `uuid = "f7a3d1c2-0b1e-4c55-9d0e-3d6a0d2f1a11"`}

// nest wraps a condition into AND / OR / implicit-AND combinations and parentheses, depth layers deep.
func nest(r *fw.Rand, text string, depth int) string {
	for i := 0; i < depth; i++ {
		f := fw.Pick(r, qFillers)
		and, or := fw.Pick(r, []string{"AND", "and", "And"}), fw.Pick(r, []string{"OR", "or", "oR"})
		switch r.Intn(9) {
		case 0:
			text = f + " " + and + " " + text
		case 1:
			text = text + " " + and + " " + f
		case 2:
			text = text + " " + or + " " + f
		case 3:
			text = f + " " + or + " " + text
		case 4:
			text = "(" + text + ")"
		case 5:
			text = "( (" + text + ") )"
		case 6:
			text = "(" + f + " " + or + " " + text + ") " + and + " " + fw.Pick(r, qFillers)
		case 7:
			text = f + " " + text // implicit AND
		default:
			text = "(" + text + " " + and + " " + f + ") " + or + " (" + fw.Pick(r, qFillers) + ")"
		}
	}
	return text
}

func genURNQuery(r *fw.Rand) urnQuery {
	scheme := fw.Pick(r, qSchemes)
	if r.Chance(0.35) {
		scheme = fw.Pick(r, []string{"tel", "twitter", "twitterid", "mailto", "facebook", "whatsapp", "telegram"})
	}
	val := valueFor(r, scheme)
	var op string
	switch r.Weighted([]int{45, 40, 15}) {
	case 0:
		op = fw.Pick(r, []string{"=", "!=", "~"})
	case 1:
		op = caseMix(r, fw.Pick(r, qAliasOps))
	default:
		op = fw.Pick(r, qSymbolicOps)
	}
	if (op == "~" || strings.EqualFold(op, "has")) && len(val) < 3 {
		op = "="
	}
	quoted := r.Bool()
	var q urnQuery
	switch r.Intn(9) {
	case 0, 1, 8:
		q = urnQuery{text: condition(r, caseMix(r, scheme), op, val, quoted), route: "scheme", valued: true, op: op}
	case 2:
		q = urnQuery{text: condition(r, caseMix(r, "urn"), op, val, quoted), route: "urn-attribute", valued: true, op: op}
	case 3, 4:
		q = urnQuery{text: condition(r, caseMix(r, "urns."+scheme), op, val, quoted), route: "urns-prefix", valued: true, op: op}
	case 5:
		// bare phone number: implicit condition (or whole-query rewrite)
		v := fw.Pick(r, []string{"+12065551212", "0788123123", "12065551212", "(206) 555-1212", "+250788123123"})
		q = urnQuery{text: v, route: "implicit-phone", valued: true}
	case 6:
		v := fw.Pick(r, []string{"tel:+12065551212", "twitter:bobby", "mailto:foo@bar.com", "facebook:1122334455", "telegram:5478432", "whatsapp:250788123123"})
		q = urnQuery{text: quoteQ(r, v), route: "implicit-urn", valued: true}
	default:
		eq := fw.Pick(r, []string{"=", "!=", caseMix(r, "is")})
		prop := fw.Pick(r, []string{scheme, "urn", "urns." + scheme})
		q = urnQuery{text: condition(r, caseMix(r, prop), eq, "", true), route: "presence", valued: false, op: eq}
	}
	// embed in combinations, sometimes deeply, sometimes next to a second URN condition
	q.nested = r.Weighted([]int{40, 30, 20, 10})
	if q.route == "implicit-phone" && q.nested > 0 && r.Bool() {
		q.nested = 0 // a bare phone number is also re-read when it is the whole query
	}
	q.text = nest(r, q.text, q.nested)
	q.value = val
	switch q.route {
	case "scheme", "urns-prefix":
		q.key = scheme
	case "urn-attribute":
		q.key = "urn"
	}
	if q.valued && r.Chance(0.1) {
		ex := fw.Pick(r, []urnQuery{{route: "scheme", text: "tel", key: "tel"}, {route: "urn-attribute", text: "urn", key: "urn"}, {route: "urns-prefix", text: "urns.twitter", key: "twitter"}})
		ex.op, ex.value, ex.valued = fw.Pick(r, []string{"=", "~", "has", "IS"}), "7788990", true
		ex.text = condition(r, caseMix(r, ex.text), ex.op, ex.value, r.Bool())
		q.text = q.text + fw.Pick(r, []string{" AND ", " OR ", " "}) + ex.text
		q.nested++
		q.extra = &ex
	}
	return q
}

var directedURNQueries = []urnQuery{
	{text: `tel = "+12065551212"`, route: "scheme", valued: true, op: "="}, {text: `tel = +12065551212`, route: "scheme", valued: true, op: "="}, {text: `TEL ~ 1206`, route: "scheme", valued: true, op: "~"}, {text: `tel != 123`, route: "scheme", valued: true, op: "!="},
	{text: `twitter = bobby`, route: "scheme", valued: true, op: "="}, {text: `twitterid = 54784326227`, route: "scheme", valued: true, op: "="}, {text: `mailto ~ "foo@bar.com"`, route: "scheme", valued: true, op: "~"}, {text: `facebook = 1122334455`, route: "scheme", valued: true, op: "="},
	{text: `urn ~ "1206"`, route: "urn-attribute", valued: true, op: "~"}, {text: `urn = "+12065551212"`, route: "urn-attribute", valued: true, op: "="}, {text: `URN != "x"`, route: "urn-attribute", valued: true, op: "!="},
	{text: `urns.tel = "+12065551212"`, route: "urns-prefix", valued: true, op: "="}, {text: `URNS.TEL ~ 1206`, route: "urns-prefix", valued: true, op: "~"}, {text: `urns.twitter = bobby`, route: "urns-prefix", valued: true, op: "="}, {text: `urns.mailto != "foo@bar.com"`, route: "urns-prefix", valued: true, op: "!="},
	{text: `+12065551212`, route: "implicit-phone", valued: true}, {text: `0788123123`, route: "implicit-phone", valued: true}, {text: `(206) 555-1212`, route: "implicit-phone", valued: true}, {text: `bobby 12065551212`, route: "implicit-phone", valued: true, nested: 1},
	{text: `tel:+12065551212`, route: "implicit-urn", valued: true}, {text: `"twitter:bobby"`, route: "implicit-urn", valued: true},
	{text: `name = bob OR tel = 123`, route: "scheme", valued: true, op: "=", nested: 1}, {text: `tel ~ 1206 AND name ~ bob`, route: "scheme", valued: true, op: "~", nested: 1}, {text: `name ~ bob AND (urn ~ 1206 OR age > 3)`, route: "urn-attribute", valued: true, op: "~", nested: 2},
	{text: `name ~ bob AND urns.tel ~ 1206`, route: "urns-prefix", valued: true, op: "~", nested: 1},
	{text: `urn = ""`, route: "presence", op: "="}, {text: `tel != ""`, route: "presence", op: "!="}, {text: `urns.tel = ""`, route: "presence", op: "="}, {text: `twitter = ""`, route: "presence", op: "="},
}

// operatorGrid is the directed sweep of the query-rejection clause: every comparator spelling the grammar admits
// (symbolic; HAS / IS in every letter case) x every URN property spelling (each scheme, urn, urns.<scheme>; lower,
// upper and mixed case) x quoted / bare value x {alone, AND, OR, parenthesised, nested}.
func operatorGrid() []urnQuery {
	var ops []string
	ops = append(ops, qSymbolicOps...)
	for _, w := range qAliasOps {
		// every letter-case spelling of the word
		for mask := 0; mask < 1<<len(w); mask++ {
			b := []byte(w)
			for i := range b {
				if mask&(1<<i) != 0 {
					b[i] -= 32
				}
			}
			ops = append(ops, string(b))
		}
	}
	type prop struct{ text, route, scheme string }
	var props []prop
	spell := func(s string, i int) string {
		switch i % 3 {
		case 1:
			return strings.ToUpper(s)
		case 2:
			return strings.ToUpper(s[:1]) + s[1:len(s)-1] + strings.ToUpper(s[len(s)-1:])
		}
		return s
	}
	for i, s := range qSchemes {
		props = append(props, prop{spell(s, i), "scheme", s}, prop{spell("urns."+s, i+1), "urns-prefix", s})
	}
	for i := 0; i < 3; i++ {
		props = append(props, prop{spell("urn", i), "urn-attribute", "tel"})
	}
	wraps := []func(string) (string, int){
		func(c string) (string, int) { return c, 0 },
		func(c string) (string, int) { return `name ~ "bob" AND ` + c, 1 },
		func(c string) (string, int) { return c + ` or language = "eng"`, 1 },
		func(c string) (string, int) { return `(` + c + `)`, 1 },
		func(c string) (string, int) { return `age > 10 AND (name = "x" OR (` + c + `))`, 3 },
		func(c string) (string, int) { return `name is bob ` + c, 1 },
	}
	var out []urnQuery
	n := 0
	for _, p := range props {
		for _, op := range ops {
			val := map[string]string{"tel": "1206555", "whatsapp": "250788123", "viber": "250788123", "mailto": "foo@bar.com", "twitterid": "54784326", "facebook": "11223344", "telegram": "54784326"}[p.scheme]
			if val == "" {
				val = "bobby"
			}
			for _, quoted := range []bool{false, true} {
				lit := val
				if quoted || strings.ContainsAny(val, "@") {
					lit = `"` + val + `"`
				}
				w := wraps[n%len(wraps)]
				n++
				text, depth := w(p.text + " " + op + " " + lit)
				out = append(out, urnQuery{text: text, route: p.route, valued: true, op: op, nested: depth})
			}
		}
	}
	return out
}

// valuedURNConditions lists the conditions of a parsed query that compare a URN against a non-empty value.
func valuedURNConditions(n contactql.QueryNode, out *[]*contactql.Condition) {
	switch t := n.(type) {
	case *contactql.Condition:
		isURN := t.PropertyType() == contactql.PropertyTypeURN || (t.PropertyType() == contactql.PropertyTypeAttribute && t.PropertyKey() == contactql.AttributeURN)
		if isURN && t.Value() != "" {
			*out = append(*out, t)
		}
	case *contactql.BoolCombination:
		for _, c := range t.Children() {
			valuedURNConditions(c, out)
		}
	}
}

func parseQ(env envs.Environment, text string) (q *contactql.ContactQuery, err error, panicked string) {
	defer func() {
		if rec := recover(); rec != nil {
			panicked = fw.PanicSignature("contactql.ParseQuery", rec, string(debug.Stack()))
		}
	}()
	q, err = contactql.ParseQuery(env, text, nil)
	return
}

// checkQueries: under policy urns a query must not come back with a valued URN condition; under policy none the
// same text does (control: the generator really writes URN conditions).
func checkQueries(res *fw.Result, r *fw.Rand, qs []urnQuery) {
	for _, q := range qs {
		country := i18n.Country(fw.Pick(r, []string{"US", "RW", ""}))
		red := envs.NewBuilder().WithRedactionPolicy(envs.RedactionPolicyURNs).WithDefaultCountry(country).Build()
		non := envs.NewBuilder().WithRedactionPolicy(envs.RedactionPolicyNone).WithDefaultCountry(country).Build()
		res.Seen("query_routes", q.route)

		pn, errN, panN := parseQ(non, q.text)
		pr, errR, panR := parseQ(red, q.text)
		if panN != "" || panR != "" {
			res.Count("query.panics", 1)
			continue
		}
		var condsN, condsR []*contactql.Condition
		if errN == nil {
			valuedURNConditions(pn.Root(), &condsN)
		}
		if errR == nil {
			valuedURNConditions(pr.Root(), &condsR)
		}
		if len(condsN) > 0 {
			res.Count("control.query_sees_urn_under_none", 1)
		}
		if !q.valued {
			res.Count("query.presence_checks", 1)
			if errR == nil {
				res.Count("query.presence_accepted_under_redaction", 1)
			}
			continue
		}
		if q.route == "implicit-literal" {
			res.Count("query.implicit_literal."+q.key, 1)
		}
		if errR == nil {
			// stated by itself, whatever the text means without the policy: what ParseQuery returns under policy urns
			// holds no condition on a URN value
			res.Count("clause.query_no_urn_condition_under_urns", 1)
		}
		if len(condsN) == 0 && len(condsR) == 0 {
			// not a URN condition, with or without redaction (e.g. a value the parser reads as a name): nothing to demand
			res.Count("query.not_a_urn_condition", 1)
			continue
		}
		res.Count("clause.query_rejected", 1)
		res.Count("clause.query_rejected."+q.route, 1)
		res.Count("clause.query_rejected.operator_"+opClass(q.op), 1)
		if q.op != "" {
			res.Seen("query_operators", strings.ToLower(q.op))
			res.Seen("query_operator_spellings", q.op)
		}
		if q.extra != nil {
			res.Count("clause.query_rejected.two_urn_conditions", 1)
			res.Count("clause.query_rejected.operator_"+opClass(q.extra.op), 1)
			res.Seen("query_operator_spellings", q.extra.op)
		}
		if q.nested > 0 {
			res.Count("clause.query_rejected.nested", 1)
		}
		if q.nested >= 2 {
			res.Count("clause.query_rejected.nested_deep", 1)
		}
		if errR != nil {
			code := ""
			if isQ, qe := contactql.IsQueryError(errR); isQ {
				code = qe.(*contactql.QueryError).Code()
			}
			res.Seen("query_reject_codes", code)
			res.Count("query.rejected", 1)
			continue
		}
		if len(condsR) == 0 {
			// accepted, but re-read as something that does not touch URNs (id / name condition)
			res.Count("query.reinterpreted_without_urn", 1)
			continue
		}
		// name the condition that got through (a query may hold two)
		got := q
		if q.extra != nil && !(condsR[0].PropertyKey() == q.key && condsR[0].Value() == q.value) && condsR[0].PropertyKey() == q.extra.key && condsR[0].Value() == q.extra.value {
			got = *q.extra
		}
		var accepted []string
		for _, c := range condsR {
			accepted = append(accepted, c.String())
		}
		underNone := "<rejected: " + fmt.Sprint(errN) + ">"
		if errN == nil {
			underNone = pn.String()
		}
		res.Violate("C19|query-accepted|"+got.route+"|"+opClass(got.op)+"-operator",
			fmt.Sprintf("under redaction policy urns ParseQuery accepts %q as %q: a condition on a URN value", q.text, pr.String()),
			map[string]any{"query": q.text, "route": got.route, "operator": got.op, "nesting": q.nested, "default_country": string(country), "parsed_under_urns": pr.String(), "urn_conditions": accepted, "parsed_under_none": underNone})
	}
}
