package p19

import (
	"fmt"
	"sort"
	"testing"

	"verif/internal/fw"
)

func TestDirectedFloors(t *testing.T) {
	p := &c19{}
	tot := map[string]int64{}
	for _, name := range p.Directed() {
		res := p.Run(fw.Case{Directed: name, Seed: 1, Tier: "quick"})
		for k, v := range res.Counters {
			tot[k] += v
		}
		if len(res.Violations) > 0 || res.Discarded != "" {
			fmt.Println("!!", name, res.Discarded, len(res.Violations))
			for _, v := range res.Violations {
				fmt.Println("   ", v.Signature, v.What)
			}
		}
		if historyCase(name) != nil {
			fmt.Println(name, "tainted:", res.Counters["history.tainted_from_here"], "n2u:", res.Counters["switch.none_to_urns"], "u2n:", res.Counters["switch.urns_to_none"], "full-after-switch:", res.Counters["clause.full_comparison_after_switch_to_urns"], "taint-leaves:", res.Counters["clause.urn_leaves_equal_after_taint"], "none-sees:", res.Counters["clause.none_sees_urns"], "nontrivial", res.NonTrivial)
		}
	}
	for _, f := range p.Floors("quick") {
		fmt.Println("floor", f, tot[f])
		if tot[f] == 0 {
			t.Errorf("floor %s not guaranteed by directed cases", f)
		}
	}
	var ks []string
	for k := range tot {
		ks = append(ks, k)
	}
	sort.Strings(ks)
}
