package p19

import (
	"encoding/json"
	"strings"

	"verif/internal/fw"
	"verif/internal/gen"
)

// Input classes added after seeded regressions were missed. Each class has a generated part (independent random
// streams, so that the cases that do not draw the class stay exactly as they were) and directed cases.
//
//  1. repeated URNs: a contact read from JSON that holds one URN (scheme + path) more than once, next to a twin that
//     has distinct URNs at those positions (rot.occ). Which URNs of a contact are equal is identifying information.
//  2. implicit query literals: a bare / quoted literal without property and comparator that looks like the path of a
//     URN of some scheme (email address, handle, numeric id, phone number).
//  3. spellings of "no policy": ReadEnvironment admits redaction_policy "" (validate omitempty) and null besides
//     "none" and a missing key; the monitor's own model (policyOf) reads everything but "urns" as no policy.

// ---------------------------------------------------------------------------------------------------
// 1. repeated URNs

// repeatOf writes a URN again: same scheme and path, and — since query and display are not part of what makes a URN
// the same URN — sometimes another query, display or letter case.
func repeatOf(r *fw.Rand, u string) string {
	scheme, path, query, display, ok := splitURN(u)
	if !ok {
		return u
	}
	switch r.Weighted([]int{40, 20, 15, 15, 10}) {
	case 1:
		query = ""
	case 2:
		query = "id=" + []string{"7", "31", "12345"}[r.Intn(3)] + "&priority=" + []string{"1", "50", "90"}[r.Intn(3)]
	case 3:
		if display == "" {
			display = "second"
		} else {
			display = ""
		}
	case 4:
		query, display = "", ""
	}
	return joinURN(scheme, path, query, display)
}

// plantRepeats repeats one URN in some of the scenario's contact URN lists (at least in one, if there is any).
func plantRepeats(r *fw.Rand, s *gen.Scenario) int {
	lists := urnLists(s)
	if len(lists) == 0 {
		return 0
	}
	must := r.Intn(len(lists))
	n := 0
	for li, c := range lists {
		if li != must && !r.Chance(0.4) {
			continue
		}
		arr := c["urns"].([]any)
		times := r.Weighted([]int{0, 75, 25})
		for t := 0; t < times; t++ {
			i := r.Intn(len(arr))
			src, ok := arr[i].(string)
			if !ok {
				continue
			}
			j := i + 1 + r.Intn(len(arr)-i) // somewhere after the original: directly behind it … at the end
			dup := repeatOf(r, src)
			arr = append(arr, nil)
			copy(arr[j+1:], arr[j:])
			arr[j] = dup
			n++
		}
		c["urns"] = arr
	}
	return n
}

func repeatedContact() M {
	c := d.Contact()
	ch := gen.NamedUUID("chan:android")
	c["urns"] = []string{"tel:+12065551212?channel=" + ch, "twitterid:54784326227#nyaruka", "tel:+12065551212", "mailto:foo@bar.com", "twitterid:54784326227#other", "tel:+12065551212?id=3&priority=10"}
	return c
}

const listTemplates = "n=@(count(contact.urns)) l=@contact.urns j=@(json(contact.urns)) fe=@(foreach(contact.urns, (u) => format_urn(u))) un=@(count(unique(contact.urns))) rn=@(count(run.contact.urns)) jc=@(json(contact)) last=@(contact.urns[count(contact.urns) - 1])"

func directedWidened(name string) *gen.Scenario {
	switch name {
	case "repeated-urn-in-contact":
		// the session contact holds tel and twitterid URNs three / two times; seen from a sub-flow as @parent.contact and
		// after it as @child.contact; the first resume refreshes the contact with another list that repeats a URN
		r0 := d.MsgResume(0, "one")
		rc := unnamed(d.Contact())
		rc["urns"] = []string{"mailto:new@bar.com", "mailto:new@bar.com", "facebook:99887766", "tel:+12065558989#x", "tel:+12065558989"}
		r0["contact"] = rc
		return &gen.Scenario{Assets: d.BaseAssets(
			d.Flow("A", "messaging",
				d.Node("a0", []any{d.SendMsg("m0", listTemplates+" "+allURNTemplates), result("Count", "@(count(contact.urns))"), d.Enter("e", "B", false)}, nil, d.Exit("a0x", "a1")),
				d.Node("a1", []any{d.SendMsg("m1", "cn=@(count(child.contact.urns)) "+childTemplates+" "+listTemplates)}, nil, d.Exit("a1x", "a2")),
				d.WaitNode("a2", "a0", nil)),
			d.Flow("B", "messaging",
				d.Node("b0", []any{d.SendMsg("mb0", "pn=@(count(parent.contact.urns)) "+parentTemplates+" "+listTemplates)}, nil, d.Exit("b0x", "b1")),
				d.WaitNode("b1", "", nil))),
			Trigger: d.MsgTrigger("A", unnamed(repeatedContact()), "go"), Resumes: []M{r0, d.MsgResume(1, "two"), d.MsgResume(2, "three")}}
	case "repeated-urn-in-parent-summary":
		s := directedScenario("flow-action-parent-summary")
		pc := s.Trigger["run_summary"].(M)["contact"].(M)
		pc["urns"] = []string{"tel:+12065553434", "twitter:bobby", "tel:+12065553434?id=9&priority=1", "twitter:bobby", "mailto:parent@bar.com"}
		flow := s.Assets["flows"].([]any)[0].(M)
		node := flow["nodes"].([]any)[0].(M)
		node["actions"] = append(node["actions"].([]any), d.SendMsg("m0n", "pn=@(count(parent.contact.urns)) pl=@parent.contact.urns pj=@(json(parent.contact)) pf=@(foreach(parent.contact.urns, (u) => format_urn(u)))"))
		s.Trigger["contact"] = repeatedContact()
		return s
	}
	return nil
}

var widenedDirected = []string{"repeated-urn-in-contact", "repeated-urn-in-parent-summary", "contactql-implicit-literals"}

// ---------------------------------------------------------------------------------------------------
// 2. implicit query literals

// what the path of a URN of the scheme looks like, written as a query literal
var literalShapes = []struct {
	kind string
	pool []string
}{
	{"email", []string{"foo@bar.com", "jim.w@example.org", "ANNA@Mail.Example.NET", "a_b-c@x.io", "kofi77@mail.example.co.rw"}},
	{"handle", []string{"@bobby", "bobby", "nyaruka_1"}},
	{"numeric-id", []string{"54784326227", "1122334455", "5478432"}},
	{"phone", []string{"+12065551212", "0788123123", "+250788123123", "12065551212"}},
	{"scheme-prefixed", []string{"mailto:foo@bar.com", "twitter:bobby", "telegram:5478432", "tel:+250788123123", "ext:abc7788", "MAILTO:jim.w@example.org"}},
}

func genImplicitLiteral(r *fw.Rand) urnQuery {
	sh := literalShapes[r.Weighted([]int{40, 15, 15, 10, 20})]
	v := fw.Pick(r, sh.pool)
	text := v
	if r.Chance(0.45) || strings.ContainsAny(v, " :+()") {
		text = `"` + v + `"`
	}
	q := urnQuery{route: "implicit-literal", valued: true, value: v, key: sh.kind}
	q.nested = r.Weighted([]int{35, 35, 20, 10})
	q.text = nest(r, text, q.nested)
	return q
}

// implicitLiteralGrid: every literal shape x bare / quoted x alone / in combinations.
func implicitLiteralGrid() []urnQuery {
	wraps := []func(string) (string, int){
		func(c string) (string, int) { return c, 0 },
		func(c string) (string, int) { return "will " + c, 1 },
		func(c string) (string, int) { return `name ~ "jim" OR ` + c, 1 },
		func(c string) (string, int) { return "(" + c + ")", 1 },
		func(c string) (string, int) { return c + ` AND language = "eng"`, 1 },
		func(c string) (string, int) { return `age > 10 and (` + c + ` or (name is bob ` + c + `))`, 3 },
	}
	var out []urnQuery
	for _, sh := range literalShapes {
		for _, v := range sh.pool {
			for _, quoted := range []bool{false, true} {
				if !quoted && strings.ContainsAny(v, " :+()") && sh.kind != "scheme-prefixed" && sh.kind != "phone" {
					continue
				}
				lit := v
				if quoted {
					lit = `"` + v + `"`
				}
				for _, w := range wraps {
					text, depth := w(lit)
					out = append(out, urnQuery{text: text, route: "implicit-literal", valued: true, nested: depth, value: v, key: sh.kind})
				}
			}
		}
	}
	return out
}

// ---------------------------------------------------------------------------------------------------
// 3. spellings of "no policy"

// respellNone rewrites some (p = 1: all) environments of the scenario that say redaction_policy "none" to say it as
// the empty string or as null. It returns how many were rewritten as "" and as null.
func respellNone(r *fw.Rand, s *gen.Scenario, p float64) (empty, null int) {
	re := func(v any) {
		env, ok := v.(map[string]any)
		if !ok {
			return
		}
		if cur, ok := env["redaction_policy"].(string); !ok || cur != "none" {
			return
		}
		if !r.Chance(p) {
			return
		}
		if r.Chance(0.8) {
			env["redaction_policy"] = ""
			empty++
		} else {
			env["redaction_policy"] = nil
			null++
		}
	}
	re(s.Trigger["environment"])
	for _, m := range s.Resumes {
		re(m["environment"])
	}
	return
}

// policySpelling: how an environment's JSON writes its policy (for the evidence).
func policySpelling(env map[string]any) string {
	v, has := env["redaction_policy"]
	switch t := v.(type) {
	case nil:
		if has {
			return "null"
		}
		return "absent"
	case string:
		if t == "" {
			return "empty"
		}
		return t
	case json.Number:
		return "number"
	}
	return "other"
}
