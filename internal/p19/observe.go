package p19

import (
	"encoding/json"
	"fmt"
	"hash/fnv"
	"regexp"
	"runtime/debug"
	"sort"
	"strings"

	"github.com/nyaruka/goflow/excellent/types"
	"github.com/nyaruka/goflow/flows"

	"verif/internal/drive"
	"verif/internal/fw"
	"verif/internal/gen"
)

// tplSpec is one generated template together with what it was built from (for signatures).
type tplSpec struct {
	Tpl     string `json:"template"`
	Wrapper string `json:"wrapper"`
	Path    string `json:"path"`
}

type runObs struct {
	uuid, flow, status string
	nodes              []wnode
	urnLeaves          int // non-null URN-bearing leaves visited
	ctxPanic           string
	tplOut             []string
	truncated          bool
	caseAmbiguous      int
	deepest            int
}

type sprintObs struct {
	kind     string
	err      string
	events   []string // masked event JSON
	runs     []runObs
	urnShape string // schemes+queries of the session contact's URNs (what both twins share)
	urnRaw   string // the same URNs in full
	hasURNs  bool
	status   string

	spell     string // how the environment in force writes that policy: urns | none | absent | empty | null
	policy    string // redaction policy in force during the sprint according to the scenario: urns | none | unknown
	restarted bool   // the session was marshalled and read back before this call
	envKind   string // what the environment of the applied resume changed relative to the one in force: policy-only | policy+other | other-only | identical (+contact), "" = no environment
	state     string // masked state digest after the sprint (obsOpts.digest)
}

type twinObs struct {
	sprints    []sprintObs
	unreadable string
}

// what an expression template evaluates to, in one comparable string
func evalTemplate(run flows.Run, tpl string) (out string) {
	defer func() {
		if rec := recover(); rec != nil {
			out = "PANIC " + fw.PanicSignature("EvaluateTemplate", rec, string(debug.Stack()))
		}
	}()
	var logs []string
	text, ok := run.EvaluateTemplate(tpl, func(e flows.Event) {
		b, _ := json.Marshal(e)
		var m map[string]any
		json.Unmarshal(b, &m)
		logs = append(logs, fmt.Sprintf("%v:%v", m["type"], m["text"]))
	})
	return fmt.Sprintf("ok=%v text=%q logs=%q", ok, text, logs)
}

func buildContext(run flows.Run) (ctx *types.XObject, panicked string) {
	defer func() {
		if rec := recover(); rec != nil {
			panicked = fw.PanicSignature("RootContext", rec, string(debug.Stack()))
		}
	}()
	env := run.Session().MergedEnvironment()
	return types.NewXObject(run.RootContext(env)), ""
}

// liveURNLeaf: a URN-bearing leaf that really holds a URN (scheme:…). input.urn of a message without URN is
// the empty text (":********" under redaction) and does not count.
func liveURNLeaf(n wnode) bool {
	if !n.leaf || n.kind == "null" || !urnBearing(n.path) {
		return false
	}
	i := strings.IndexByte(n.render, ':')
	if i <= 0 {
		return false
	}
	for _, c := range n.render[:i] {
		if c < 'a' || c > 'z' {
			return false
		}
	}
	return true
}

// obsOpts: how a twin is driven and what is recorded besides the walk.
type obsOpts struct {
	withEvents bool
	restarts   map[int]bool // before these resumes (0-based) the session is marshalled and read back
	digest     bool         // record the masked state digest after every sprint (taint detection for policy histories)
}

// observeTwin runs one twin to completion from a fresh drive.Load (which installs fresh deterministic
// clock / UUID / random sources), walking the context of every run after every sprint.
//   - tpls == nil: no templates; genTpl != nil: templates are generated from this twin's walk and recorded in tpls;
//     genTpl == nil && tpls != nil: the recorded templates are evaluated.
//
// Every sprint is labelled with the redaction policy that the scenario says is in force (sprintObs.policy): the
// policy of the trigger's environment, replaced by the policy of the environment of every resume that was applied.
// This is the monitor's own model — the session's Environment() is what is under test.
func observeTwin(scen *gen.Scenario, seed int64, tpls map[[2]int][]tplSpec, genTpl func(si, ri int, nodes []wnode) []tplSpec, o obsOpts) (*twinObs, error) {
	rn, err := drive.Load(scen, seed)
	if err != nil {
		return nil, err
	}
	obs := &twinObs{}
	si := 0
	curSpell := ""
	after := func(rec *drive.CallRecord, policy string, restarted bool) {
		sp := sprintObs{kind: rec.Kind, policy: policy, restarted: restarted, spell: curSpell}
		if rec.ResumeType != "" {
			sp.kind += ":" + rec.ResumeType
		}
		switch {
		case rec.Kind == "unreadable":
			sp.err = "unreadable: " + errClass(rec.Err.Error())
			if si == 0 {
				obs.unreadable = sp.err
			}
		case rec.Panic != nil:
			sp.err = fw.PanicSignature(rec.Kind, rec.Panic, rec.PanicStack)
		case rec.Budget:
			sp.err = "budget"
		case rec.Err != nil:
			sp.err = "error: " + errClass(rec.Err.Error())
		}
		if o.withEvents {
			for _, ej := range rec.EventsJSON {
				sp.events = append(sp.events, maskEvent(ej))
			}
		}
		if rec.OK() && rec.Session != nil {
			st := rn.Src.Snapshot()
			s := rec.Session
			sp.status = string(s.Status())
			if c := s.Contact(); c != nil {
				var shape, raw []string
				for _, u := range c.URNs() {
					shape = append(shape, maskURN(u.String()))
					raw = append(raw, u.String())
				}
				sp.urnShape = strings.Join(shape, " ")
				sp.urnRaw = strings.Join(raw, " ")
				sp.hasURNs = len(shape) > 0
			}
			if o.digest {
				sp.state = stateDigest(rec.SessionAfter, st)
			}
			for ri, run := range s.Runs() {
				ro := runObs{uuid: string(run.UUID()), status: string(run.Status())}
				if run.Flow() != nil {
					ro.flow = run.Flow().Name()
				}
				fw.SetDetail(fmt.Sprintf("context walk sprint %d run %d", si, ri))
				ctx, p := buildContext(run)
				if p != "" {
					ro.ctxPanic = p
					sp.runs = append(sp.runs, ro)
					continue
				}
				func() {
					defer func() {
						if rec := recover(); rec != nil {
							ro.ctxPanic = fw.PanicSignature("context-walk", rec, string(debug.Stack()))
						}
					}()
					w := walkContext(s.MergedEnvironment(), ctx)
					ro.nodes, ro.truncated, ro.caseAmbiguous, ro.deepest = w.nodes, w.truncated, w.caseAmbiguous, w.deepest
				}()
				for _, n := range ro.nodes {
					if n.leaf && n.kind != "null" && urnBearing(n.path) {
						ro.urnLeaves++
					}
				}
				if tpls != nil && ro.ctxPanic == "" {
					key := [2]int{si, ri}
					if genTpl != nil {
						tpls[key] = genTpl(si, ri, ro.nodes)
					}
					for _, t := range tpls[key] {
						fw.SetDetail("EvaluateTemplate " + t.Tpl)
						ro.tplOut = append(ro.tplOut, evalTemplate(run, t.Tpl))
					}
				}
				sp.runs = append(sp.runs, ro)
			}
			rn.Src.Restore(st)
		}
		obs.sprints = append(obs.sprints, sp)
		si++
	}

	trigEnv, _ := asMap(scen.Trigger["environment"])
	cur, curRest := policyOf(trigEnv), otherSettings(trigEnv)
	curSpell = policySpelling(trigEnv)
	rec := rn.Start()
	after(rec, cur, false)
	if !rec.OK() {
		return obs, nil
	}
	for k, m := range scen.Resumes {
		if !rn.Waiting() {
			break
		}
		restarted := false
		if o.restarts[k] {
			fw.SetDetail(fmt.Sprintf("ReadSession(marshal) before resume %d", k))
			if err := rn.Restart(); err != nil {
				// the session does not read back: the persistence properties' business; here both twins must agree
				obs.sprints = append(obs.sprints, sprintObs{kind: "restart", err: "restart: " + errClass(err.Error()), policy: "unknown"})
				break
			}
			restarted = true
		}
		want, wantRest, envKind := cur, curRest, ""
		if e, ok := asMap(map[string]any(m)["environment"]); ok {
			want, wantRest = policyOf(e), otherSettings(e)
			switch {
			case want != cur && wantRest == curRest:
				envKind = "policy-only"
			case want != cur:
				envKind = "policy+other"
			case wantRest != curRest:
				envKind = "other-only"
			default:
				envKind = "identical"
			}
			if _, ok := asMap(map[string]any(m)["contact"]); ok {
				envKind += "+contact"
			}
		}
		rec := rn.Resume(m)
		eff := cur
		switch {
		case !rec.OK():
			// not read / rejected by the wait / error: the resume was not applied, the session keeps its environment
			envKind = ""
		case want != cur && rec.Session != nil && rec.Session.Status() == flows.SessionStatusFailed:
			// the session may have been failed before the resume was applied (missing flow, resume limit …): which
			// environment the contexts are built with is not determined by the scenario alone
			eff, cur, curRest = "unknown", "unknown", "unknown"
		default:
			eff, cur, curRest = want, want, wantRest
			if e, ok := asMap(map[string]any(m)["environment"]); ok {
				curSpell = policySpelling(e)
			}
		}
		after(rec, eff, restarted)
		obs.sprints[len(obs.sprints)-1].envKind = envKind
		if rec.Panic != nil || rec.Budget {
			break
		}
	}
	return obs, nil
}

// otherSettings is the canonical text of an environment's JSON without the redaction policy.
func otherSettings(env map[string]any) string {
	rest := map[string]any{}
	for k, v := range env {
		if k != "redaction_policy" {
			rest[k] = v
		}
	}
	b, _ := json.Marshal(rest)
	return string(b)
}

// stateDigest is a hash of everything a session persists (plus the position of the clock / UUID / random sources),
// with the places that hold a contact's raw URNs reduced to what both twins share (scheme and query). Two twins with
// equal digests after a sprint have stored nothing that was derived from the URNs' identifying part.
func stateDigest(sessionJSON []byte, src drive.SourceState) string {
	var m map[string]any
	if err := json.Unmarshal(sessionJSON, &m); err != nil {
		return "unparseable:" + string(sessionJSON)
	}
	maskAt(m, "contact", "urns")
	maskAt(m, "input", "urn")
	maskAt(m, "trigger", "contact", "urns")
	maskAt(m, "trigger", "msg", "urn")
	maskAt(m, "trigger", "call", "urn")
	maskAt(m, "trigger", "run_summary", "contact", "urns")
	if rs, ok := m["runs"].([]any); ok {
		for _, r := range rs {
			rm, ok := r.(map[string]any)
			if !ok {
				continue
			}
			evs, _ := rm["events"].([]any)
			for i, e := range evs {
				if em, ok := e.(map[string]any); ok {
					maskEventMap(em)
					evs[i] = em
				}
			}
		}
	}
	b, _ := json.Marshal(m)
	h := fnv.New64a()
	h.Write(b)
	return fmt.Sprintf("%016x/%d/%d/%d", h.Sum64(), src.Ticks, src.UUIDN, src.Rnd)
}

// ---------------------------------------------------------------------------------------------------
// events: everything an event carries must be equal in both twins, except the fields that hand the raw URN
// to the caller (they are not expression outputs): there only scheme and query must agree.

func maskAt(m map[string]any, keys ...string) {
	cur := m
	for i, k := range keys {
		if i == len(keys)-1 {
			switch v := cur[k].(type) {
			case string:
				cur[k] = maskURN(v)
			case []any:
				for j, e := range v {
					if s, ok := e.(string); ok {
						v[j] = maskURN(s)
					}
				}
			}
			return
		}
		next, ok := cur[k].(map[string]any)
		if !ok {
			return
		}
		cur = next
	}
}

func maskEvent(ej []byte) string {
	var m map[string]any
	if err := json.Unmarshal(ej, &m); err != nil {
		return string(ej)
	}
	maskEventMap(m)
	b, _ := json.Marshal(m)
	return string(b)
}

func maskEventMap(m map[string]any) {
	switch m["type"] {
	case "msg_created", "ivr_created", "msg_received":
		maskAt(m, "msg", "urn") // destination / source of the message
	case "contact_urns_changed":
		maskAt(m, "urns") // the contact's new raw URN list, for the caller to persist
	case "optin_requested":
		maskAt(m, "urn") // destination
	case "airtime_transferred":
		maskAt(m, "recipient") // the contact's tel URN handed to the airtime service
	case "session_triggered":
		maskAt(m, "run_summary", "contact", "urns") // marshalled parent contact
	case "contact_refreshed":
		maskAt(m, "contact", "urns") // marshalled contact
	}
}

// ---------------------------------------------------------------------------------------------------
// template generation from a walk

type wrapper struct {
	name string
	f    func(p, q string) string
	on   string // "" any, "array", "object", "text"
}

var wrappers = []wrapper{
	{"bare", func(p, q string) string { return "@(" + p + ")" }, ""},
	{"text", func(p, q string) string { return "@(text(" + p + "))" }, ""},
	{"json", func(p, q string) string { return "@(json(" + p + "))" }, ""},
	{"format", func(p, q string) string { return "@(format(" + p + "))" }, ""},
	{"format_urn", func(p, q string) string { return "@(format_urn(" + p + "))" }, ""},
	{"urn_parts", func(p, q string) string { return "@(urn_parts(" + p + "))" }, ""},
	{"urn_parts.path", func(p, q string) string { return "@(urn_parts(" + p + ").path)" }, ""},
	{"urn_parts.display", func(p, q string) string { return "@(urn_parts(" + p + ").display)" }, ""},
	{"urn_parts.scheme", func(p, q string) string { return "@(urn_parts(" + p + ").scheme)" }, ""},
	{"foreach.urn_parts", func(p, q string) string { return "@(foreach(" + p + ", (u) => urn_parts(u).path))" }, "array"},
	{"foreach.format_urn", func(p, q string) string { return "@(foreach(" + p + ", (u) => format_urn(u)))" }, "array"},
	{"foreach.text", func(p, q string) string { return "@(foreach(" + p + ", (u) => u & \"!\"))" }, "array"},
	{"foreach_value", func(p, q string) string { return "@(foreach_value(" + p + ", (k, v) => k & \"=\" & v))" }, "object"},
	{"extract.urn", func(p, q string) string { return "@(extract(" + p + ", \"urn\"))" }, "object"},
	{"extract.urns", func(p, q string) string { return "@(extract(" + p + ", \"urns\"))" }, "object"},
	{"extract.contact", func(p, q string) string { return "@(json(extract(" + p + ", \"contact\")))" }, "object"},
	{"extract_object", func(p, q string) string {
		return "@(extract_object(" + p + ", \"urn\", \"urns\", \"contact\", \"tel\"))"
	}, "object"},
	{"default", func(p, q string) string { return "@(default(" + p + ", \"none\"))" }, ""},
	{"default.other", func(p, q string) string { return "@(default(null, " + p + "))" }, ""},
	{"concat-op", func(p, q string) string { return "@(" + p + " & \"|\" & " + q + ")" }, ""},
	{"equals-op", func(p, q string) string { return "@(" + p + " = " + q + ")" }, ""},
	{"text_length", func(p, q string) string { return "@(text_length(" + p + "))" }, ""},
	{"text_slice", func(p, q string) string { return "@(text_slice(" + p + ", 4))" }, ""},
	{"text_slice.neg", func(p, q string) string { return "@(text_slice(" + p + ", -4))" }, ""},
	{"regex_match", func(p, q string) string { return "@(regex_match(" + p + ", \"[0-9]+\"))" }, ""},
	{"split", func(p, q string) string { return "@(split(" + p + ", \":\"))" }, ""},
	{"upper", func(p, q string) string { return "@(upper(" + p + "))" }, ""},
	{"url_encode", func(p, q string) string { return "@(url_encode(" + p + "))" }, ""},
	{"clean", func(p, q string) string { return "@(clean(" + p + "))" }, ""},
	{"code", func(p, q string) string { return "@(code(text_slice(" + p + ", 5)))" }, ""},
	{"text_compare", func(p, q string) string { return "@(text_compare(" + p + ", " + q + "))" }, ""},
	{"join", func(p, q string) string { return "@(join(" + p + ", \"+\"))" }, "array"},
	{"count", func(p, q string) string { return "@(count(" + p + "))" }, ""},
	{"sort", func(p, q string) string { return "@(sort(" + p + "))" }, "array"},
	{"reverse", func(p, q string) string { return "@(reverse(" + p + "))" }, "array"},
	{"unique", func(p, q string) string { return "@(unique(" + p + "))" }, "array"},
	{"contains", func(p, q string) string { return "@(contains(" + p + ", " + q + "))" }, "array"},
	{"filter", func(p, q string) string { return "@(filter(" + p + ", (u) => u != " + q + "))" }, "array"},
	{"object", func(p, q string) string { return "@(json(object(\"v\", " + p + ")))" }, ""},
	{"array", func(p, q string) string { return "@(json(array(" + p + ", " + q + ")))" }, ""},
	{"has_phone", func(p, q string) string { return "@(has_phone(" + p + ").match)" }, ""},
	{"has_pattern", func(p, q string) string { return "@(has_pattern(" + p + ", \"\\d{4}\").match)" }, ""},
	{"has_text", func(p, q string) string { return "@(has_text(" + p + ").match)" }, ""},
	{"has_number", func(p, q string) string { return "@(has_number(" + p + ").match)" }, ""},
	{"if-truthy", func(p, q string) string { return "@(if(" + p + ", \"T\", \"F\"))" }, ""},
	{"is_error", func(p, q string) string { return "@(is_error(" + p + "))" }, ""},
	{"number", func(p, q string) string { return "@(number(" + p + "))" }, ""},
	{"compare-lt", func(p, q string) string { return "@(text_compare(" + p + ", \"tel:+12065555555\"))" }, ""},
}

func wrappersFor(kind string) []wrapper {
	var out []wrapper
	for _, w := range wrappers {
		if w.on == "" || w.on == kind {
			out = append(out, w)
		}
	}
	return out
}

var compositeRoots = map[string]bool{"contact": true, "urns": true, "input": true, "parent": true, "child": true, "run": true, "parent.contact": true, "child.contact": true,
	"run.contact": true, "parent.urns": true, "child.urns": true, "results": true, "trigger": true, "resume": true, "contact.urns": true, "parent.contact.urns": true, "child.contact.urns": true,
	"fields": true, "parent.results": true, "child.results": true, "run.results": true}

// genTemplates builds k templates over the paths of a walk: URN-bearing paths, the composites that contain
// them, and any other path, each under a seeded wrapper.
func genTemplates(r *fw.Rand, nodes []wnode, k int) []tplSpec {
	var urn, comp, other []wnode
	for _, n := range nodes {
		if n.expr == "" {
			continue
		}
		switch {
		case urnBearing(n.path):
			urn = append(urn, n)
		case compositeRoots[n.path]:
			comp = append(comp, n)
		default:
			other = append(other, n)
		}
	}
	pick := func() (wnode, bool) {
		pools := [][]wnode{urn, comp, other}
		ws := []int{55, 30, 15}
		for i := range pools {
			if len(pools[i]) == 0 {
				ws[i] = 0
			}
		}
		if ws[0]+ws[1]+ws[2] == 0 {
			return wnode{}, false
		}
		return fw.Pick(r, pools[r.Weighted(ws)]), true
	}
	var out []tplSpec
	for i := 0; i < k; i++ {
		p, ok := pick()
		if !ok {
			break
		}
		q, _ := pick()
		ws := wrappersFor(p.kind)
		w := fw.Pick(r, ws)
		t := w.f(p.expr, q.expr)
		if w.name == "bare" && !strings.ContainsAny(p.expr, "[\"") && r.Bool() {
			t = "x @" + p.expr + " y"
		}
		out = append(out, tplSpec{Tpl: t, Wrapper: w.name, Path: p.path})
	}
	return out
}

// ---------------------------------------------------------------------------------------------------
// helpers copied from package props (not importable: it registers the other properties)

var reUUID = regexp.MustCompile(`[0-9a-f]{8}-[0-9a-f]{4}-[0-9a-f]{4}-[0-9a-f]{4}-[0-9a-f]{12}`)

func errClass(msg string) string {
	msg = reUUID.ReplaceAllString(msg, "<uuid>")
	var b strings.Builder
	skip := false
	for _, r := range msg {
		switch {
		case r == '\'' || r == '"':
			skip = !skip
		case skip:
		case r >= '0' && r <= '9':
		default:
			b.WriteRune(r)
		}
		if b.Len() > 90 {
			break
		}
	}
	return strings.Join(strings.Fields(b.String()), " ")
}

func jsonDiffPath(a, b string) string {
	var va, vb any
	if json.Unmarshal([]byte(a), &va) != nil || json.Unmarshal([]byte(b), &vb) != nil {
		return "<unparseable>"
	}
	return diffPath(va, vb, "")
}

func diffPath(a, b any, path string) string {
	switch ta := a.(type) {
	case map[string]any:
		tb, ok := b.(map[string]any)
		if !ok {
			return path + "<type>"
		}
		keys := map[string]bool{}
		for k := range ta {
			keys[k] = true
		}
		for k := range tb {
			keys[k] = true
		}
		var ks []string
		for k := range keys {
			ks = append(ks, k)
		}
		sort.Strings(ks)
		for _, k := range ks {
			va, oka := ta[k]
			vb, okb := tb[k]
			if oka != okb {
				return path + "." + k + "<presence>"
			}
			if d := diffPath(va, vb, path+"."+k); d != "" {
				return d
			}
		}
		return ""
	case []any:
		tb, ok := b.([]any)
		if !ok {
			return path + "<type>"
		}
		if len(ta) != len(tb) {
			return path + "<length>"
		}
		for i := range ta {
			if d := diffPath(ta[i], tb[i], fmt.Sprintf("%s[%d]", path, i)); d != "" {
				return d
			}
		}
		return ""
	default:
		if a != b {
			return path
		}
		return ""
	}
}

func eventType(ej string) string {
	var m struct {
		Type string `json:"type"`
	}
	json.Unmarshal([]byte(ej), &m)
	return m.Type
}
