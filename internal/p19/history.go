package p19

import (
	"encoding/json"
	"fmt"
	"sort"
	"strings"

	"verif/internal/fw"
	"verif/internal/gen"
)

// ---------------------------------------------------------------------------------------------------
// Contact identity shapes: "contacts without a name are shown by id" quantifies over every id a contact can carry
// (0, absent from the JSON = 0, 1, beyond int32, negative) and over both ways of having no name (key absent, empty
// text), for the session contact, its refreshed versions and the contact of a parent run summary.

var idShapes = []string{"keep", "zero", "absent", "one", "int32+1", "large", "negative"}

func applyID(c map[string]any, shape string) {
	switch shape {
	case "zero":
		c["id"] = json.Number("0")
	case "absent":
		delete(c, "id")
	case "one":
		c["id"] = json.Number("1")
	case "int32+1":
		c["id"] = json.Number("2147483648")
	case "large":
		c["id"] = json.Number("9007199254740993")
	case "negative":
		c["id"] = json.Number("-1")
	}
}

func applyName(c map[string]any, shape string) {
	switch shape {
	case "unset":
		delete(c, "name")
	case "empty":
		c["name"] = ""
	}
}

func asMap(v any) (map[string]any, bool) {
	switch t := v.(type) {
	case map[string]any:
		return t, t != nil
	}
	return nil, false
}

// shapeContacts varies id and name of the contacts of a (cloned) scenario. The session contact keeps one id through
// its refreshes (it is the same contact); its name may come and go.
func shapeContacts(r *fw.Rand, s *gen.Scenario, res *fw.Result) {
	idw := []int{45, 14, 14, 8, 6, 8, 5}
	namew := []int{50, 28, 22}
	names := []string{"keep", "unset", "empty"}
	sid := idShapes[r.Weighted(idw)]
	if c, ok := asMap(s.Trigger["contact"]); ok {
		applyID(c, sid)
		nm := names[r.Weighted(namew)]
		applyName(c, nm)
		res.Seen("contact_id_shapes", "session:"+sid)
		res.Seen("contact_name_shapes", "session:"+nm)
	}
	for _, m := range s.Resumes {
		if c, ok := asMap(m["contact"]); ok {
			applyID(c, sid)
			if sid == "keep" {
				if tc, ok := asMap(s.Trigger["contact"]); ok {
					if id, has := tc["id"]; has {
						c["id"] = id
					}
				}
			}
			nm := names[r.Weighted(namew)]
			applyName(c, nm)
			res.Seen("contact_name_shapes", "refreshed:"+nm)
		}
	}
	if rs, ok := asMap(s.Trigger["run_summary"]); ok {
		if c, ok := asMap(rs["contact"]); ok {
			pid := idShapes[r.Weighted(idw)]
			applyID(c, pid)
			nm := names[r.Weighted(namew)]
			applyName(c, nm)
			res.Seen("contact_id_shapes", "parent-summary:"+pid)
			res.Seen("contact_name_shapes", "parent-summary:"+nm)
		}
	}
}

// ---------------------------------------------------------------------------------------------------
// Policy histories: the redaction policy is a setting of the session's environment, and every resume may bring a new
// environment. policyOf is the monitor's own reading of an environment's JSON.

func policyOf(env map[string]any) string {
	if env == nil {
		return "none"
	}
	if p, ok := env["redaction_policy"].(string); ok && p == "urns" {
		return "urns"
	}
	return "none"
}

func flip(p string) string {
	if p == "urns" {
		return "none"
	}
	return "urns"
}

func cloneJSON(v map[string]any) map[string]any {
	b, _ := json.Marshal(v)
	out := map[string]any{}
	json.Unmarshal(b, &out)
	return out
}

// writePolicy sets the policy of an environment; "none" is written either explicitly or by leaving the key out.
func writePolicy(r *fw.Rand, env map[string]any, p string) {
	if p == "none" && r.Chance(0.3) {
		delete(env, "redaction_policy")
		return
	}
	env["redaction_policy"] = p
}

// changeOtherSetting changes one setting other than the redaction policy.
func changeOtherSetting(r *fw.Rand, env map[string]any) string {
	other := func(cur any, pool []string) string {
		for try := 0; try < 8; try++ {
			if v := fw.Pick(r, pool); v != fmt.Sprint(cur) {
				return v
			}
		}
		return pool[0]
	}
	switch r.Intn(6) {
	case 0:
		env["timezone"] = other(env["timezone"], []string{"UTC", "America/Guayaquil", "Africa/Kigali", "Asia/Kolkata"})
		return "timezone"
	case 1:
		env["date_format"] = other(env["date_format"], []string{"YYYY-MM-DD", "MM-DD-YYYY", "DD-MM-YYYY"})
		return "date_format"
	case 2:
		env["time_format"] = other(env["time_format"], []string{"tt:mm", "h:mm aa", "tt:mm:ss"})
		return "time_format"
	case 3:
		env["default_country"] = other(env["default_country"], []string{"US", "RW", "EC"})
		return "default_country"
	case 4:
		if _, has := env["number_format"]; has {
			delete(env, "number_format")
		} else {
			env["number_format"] = map[string]any{"decimal_symbol": ",", "digit_grouping_symbol": "."}
		}
		return "number_format"
	}
	env["input_collation"] = other(env["input_collation"], []string{"default", "confusables", "arabic_variants"})
	return "input_collation"
}

// planPolicies writes a policy history into a (cloned) scenario: the trigger's environment gets a start policy, and
// resumes get environments that are — relative to the environment in force before them —
//
//	policy-only:  identical in every setting but the redaction policy (flipped)
//	policy+other: policy flipped and one more setting changed
//	other-only:   same policy, one other setting changed
//	identical:    an exact copy
//	(none):       the resume carries no environment
//
// It returns, per resume, which of these it carries. Environments the generator had put on resumes are replaced.
func planPolicies(r *fw.Rand, s *gen.Scenario) []string {
	env, ok := asMap(s.Trigger["environment"])
	if !ok {
		env = map[string]any{"date_format": "YYYY-MM-DD", "time_format": "tt:mm", "timezone": "UTC", "allowed_languages": []any{"eng", "spa", "fra", "kin"}}
		s.Trigger["environment"] = env
	}
	p := fw.Pick(r, []string{"none", "urns"})
	writePolicy(r, env, p)
	cur := env
	kinds := make([]string, len(s.Resumes))
	for k, m := range s.Resumes {
		delete(m, "environment")
		kind := []string{"", "policy-only", "policy+other", "other-only", "identical"}[r.Weighted([]int{34, 34, 14, 9, 9})]
		kinds[k] = kind
		if kind == "" {
			continue
		}
		e := cloneJSON(cur)
		switch kind {
		case "policy-only":
			p = flip(p)
		case "policy+other":
			p = flip(p)
			changeOtherSetting(r, e)
		case "other-only":
			changeOtherSetting(r, e)
		}
		delete(e, "redaction_policy")
		writePolicy(r, e, p)
		m["environment"] = e
		cur = e
	}
	return kinds
}

// ---------------------------------------------------------------------------------------------------
// History scenarios: a flow that loops through a wait (optionally through a sub-flow with its own wait), so that
// every resume of the history is consumed and a policy change is followed by sprints that show its effect.

var historyURNPool = []string{"tel:+12065551212", "tel:+250788123123", "twitterid:54784326227#nyaruka", "mailto:foo@bar.com", "facebook:1122334455", "twitter:bobby", "telegram:5478432#bobbyt",
	"tel:+12065553434?id=3&priority=10", "whatsapp:250788123123", "viber:Zx81bobby", "ext:abc7788", "tel:+12065551212?channel=" + gen.NamedUUID("chan:android")}

func historyURNs(r *fw.Rand, min int) []string {
	n := r.Range(min, 4)
	var out []string
	seen := map[string]bool{}
	for try := 0; len(out) < n && try < 20; try++ {
		u := fw.Pick(r, historyURNPool)
		key := strings.SplitN(strings.SplitN(u, "?", 2)[0], "#", 2)[0]
		if !seen[key] {
			seen[key] = true
			out = append(out, u)
		}
	}
	return out
}

func historyContact(r *fw.Rand, name string, minURNs int) M {
	c := d.Contact()
	c["uuid"] = gen.NamedUUID("contact:" + name)
	if us := historyURNs(r, minURNs); len(us) > 0 {
		c["urns"] = us
	} else {
		delete(c, "urns")
	}
	if r.Chance(0.3) {
		c["language"] = fw.Pick(r, []string{"eng", "spa", "fra"})
	}
	if r.Chance(0.3) {
		c["timezone"] = fw.Pick(r, []string{"America/Guayaquil", "Africa/Kigali"})
	}
	return c
}

func someTemplates(r *fw.Rand, n int) string {
	var parts []string
	for i := 0; i < n; i++ {
		parts = append(parts, pickTpl(r))
	}
	return strings.Join(parts, " | ")
}

// historyScenario builds the looping scenario. quiet = the flows themselves never touch URNs (the monitor's own
// templates and the walk do), so that a stretch of history under policy none leaves no URN-derived value behind.
func historyScenario(r *fw.Rand) (*gen.Scenario, bool) {
	quiet := r.Chance(0.5)
	sub := r.Chance(0.45)
	withTimeout := r.Chance(0.3)
	var timeoutDest *string
	if withTimeout {
		s := "a0"
		timeoutDest = &s
	}
	act := d.Action

	var a0 []any
	if quiet {
		a0 = append(a0, d.SendMsg("m0", "Hi @contact.name (@contact.language), you said @input.text; so far @results / @run.status / @(count(contact.groups))"))
		if r.Chance(0.5) {
			a0 = append(a0, result("Echo", "@input.text"))
		}
	} else {
		a0 = append(a0, d.SendMsg("m0", someTemplates(r, r.Range(2, 5))))
		if r.Chance(0.45) {
			a0 = append(a0, result(fw.Pick(r, []string{"URN Copy", "Seen"}), pickTpl(r)))
		}
		if r.Chance(0.15) {
			a0 = append(a0, act("nm", "set_contact_name", M{"name": fw.Pick(r, []string{"@(format_urn(contact.urn))", "", "@contact"})}))
		}
		if r.Chance(0.15) {
			a0 = append(a0, act("fl", "set_contact_field", M{"field": M{"key": "nick", "name": "Nick Name"}, "value": pickTpl(r)}))
		}
	}
	if sub {
		a0 = append(a0, d.Enter("e", "B", false))
	}
	after := "after child: @child.status @child.results"
	if !quiet {
		after = childTemplates
	}
	flows := []M{d.Flow("A", "messaging",
		d.Node("a0", a0, nil, d.Exit("a0x", "a1")),
		d.Node("a1", []any{d.SendMsg("m1", after)}, nil, d.Exit("a1x", "a2")),
		d.WaitNode("a2", "a0", timeoutDest))}
	if sub {
		b0 := "in child of @parent.flow.name: @parent.results @parent.status"
		if !quiet {
			b0 = parentTemplates + " " + someTemplates(r, 2)
		}
		b0acts := []any{d.SendMsg("mb0", b0)}
		if !quiet && r.Chance(0.4) {
			b0acts = append(b0acts, result("URN Copy", fw.Pick(r, []string{"@parent.contact.urn", "@contact.urn", "@(format_urn(parent.urns.tel))"})))
		}
		flows = append(flows, d.Flow("B", "messaging",
			d.Node("b0", b0acts, nil, d.Exit("b0x", "b1")),
			d.WaitNode("b1", "b2", nil),
			d.Node("b2", []any{d.SendMsg("mb2", "bye from child, you said @input.text")}, nil, d.Exit("b2x", ""))))
	}

	c := historyContact(r, "bob", 1)
	var urnsOf []string
	if us, ok := c["urns"].([]string); ok {
		urnsOf = us
	}
	msgURN := func(m M) {
		switch {
		case len(urnsOf) > 0 && r.Chance(0.7):
			m["urn"] = strings.SplitN(fw.Pick(r, urnsOf), "?", 2)[0]
		case r.Chance(0.5):
			m["urn"] = "tel:+12065557777"
		default:
			delete(m, "urn")
		}
	}
	var t M
	switch r.Weighted([]int{40, 35, 25}) {
	case 0:
		t = d.Manual("A", c)
	case 1:
		t = d.MsgTrigger("A", c, fw.Pick(r, []string{"hello", "start", "+12065550000"}))
		msgURN(t["msg"].(M))
	default:
		t = d.Manual("A", c)
		t["type"] = "flow_action"
		pc := historyContact(r, "parent", 0)
		pc["id"] = 5678
		pc["name"] = "Pat Parent"
		t["run_summary"] = M{"uuid": gen.NamedUUID("run:parent"), "flow": M{"uuid": gen.NamedUUID("flow:P"), "name": "Parent"}, "contact": pc, "status": "active",
			"results": M{"role": M{"name": "Role", "value": "reporter", "category": "Reporter", "node_uuid": gen.NamedUUID("node:p1"), "input": "a reporter", "created_on": "2000-01-01T00:00:00Z"}}}
		t["history"] = M{"parent_uuid": gen.NamedUUID("session:parent"), "ancestors": 1, "ancestors_since_input": 0}
	}
	env := M{"date_format": fw.Pick(r, []string{"YYYY-MM-DD", "DD-MM-YYYY"}), "time_format": fw.Pick(r, []string{"tt:mm", "h:mm aa"}), "timezone": fw.Pick(r, []string{"UTC", "Africa/Kigali", "America/Guayaquil"}),
		"allowed_languages": []string{"eng", "spa", "fra"}}
	if r.Chance(0.7) {
		env["default_country"] = fw.Pick(r, []string{"US", "RW"})
	}
	if r.Chance(0.3) {
		env["number_format"] = M{"decimal_symbol": ",", "digit_grouping_symbol": "."}
	}
	if r.Chance(0.3) {
		env["input_collation"] = fw.Pick(r, []string{"default", "confusables"})
	}
	if r.Chance(0.15) {
		env = M{} // every setting at its default
	}
	t["environment"] = env

	var resumes []M
	n := r.Range(2, 6)
	for i := 0; i < n; i++ {
		var m M
		if withTimeout && r.Chance(0.2) {
			m = d.Timeout(i)
		} else {
			m = d.MsgResume(i, fw.Pick(r, []string{"yes", "no", "23", "hello again", "+12065550101", "Jim"}))
			msgURN(m["msg"].(M))
		}
		if r.Chance(0.22) {
			rc := historyContact(r, "bob", 0)
			rc["id"] = c["id"]
			rc["name"] = fw.Pick(r, []string{"Bob Smith", "Robert", "Bob Smith"})
			m["contact"] = rc
			if us, ok := rc["urns"].([]string); ok {
				urnsOf = us
			} else {
				urnsOf = nil
			}
		}
		resumes = append(resumes, m)
	}
	return &gen.Scenario{Assets: d.BaseAssets(flows...), Trigger: t, Resumes: resumes}, quiet
}

// restartPlan: before which resumes the session is marshalled and read back (host restart), as a sorted list.
func restartPlan(r *fw.Rand, nResumes int, p float64) map[int]bool {
	out := map[int]bool{}
	for k := 0; k < nResumes; k++ {
		if r.Chance(p) {
			out[k] = true
		}
	}
	return out
}

func sortedKeys(m map[int]bool) []int {
	var out []int
	for k := range m {
		out = append(out, k)
	}
	sort.Ints(out)
	return out
}

// ---------------------------------------------------------------------------------------------------
// Query groups over URN values, in every spelling: under redaction the host cannot have them (ParseQuery rejects them,
// see neutraliseURNGroups, which asks goflow's own parser). Planting them closes the loop between the query clause and
// the differential clause: a spelling that slips through the parser's redaction check stays in the assets and makes
// contact.groups depend on the URN path.

var urnGroupQueries = []string{`tel has 5551212`, `TEL IS "+12065551212"`, `urn HAS 2065551`, `urns.twitter is bobby`, `urns.tel Has "5551"`, `tel ~ 1206555`, `mailto = "foo@bar.com"`, `URNS.MAILTO has "foo@bar"`,
	`twitterid is 54784326227`, `urn = "+250788123123"`, `facebook iS 1122334455`, `name ~ "bob" OR tel has 5551212`, `(urn has 3434 AND age > 1) OR urns.telegram HAS 5478432`, `tel != 12065551212`, `whatsapp hAs 250788`,
	`urn is "bobby"`, `viber has Zx81`, `ext IS abc7788`}

func plantURNGroups(r *fw.Rand, s *gen.Scenario) int {
	groups, _ := s.Assets["groups"].([]any)
	n := r.Range(1, 3)
	for i := 0; i < n; i++ {
		groups = append(groups, map[string]any{"uuid": gen.UUID4(r), "name": fmt.Sprintf("URN Query %d", i), "query": fw.Pick(r, urnGroupQueries)})
	}
	s.Assets["groups"] = groups
	return n
}
