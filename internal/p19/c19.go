// Package p19 is the runtime monitor for C19 — "Redacted URNs are invisible to expressions".
//
// Oracle = non-interference by twin sessions: two executions of the same scenario (assets, flows, trigger,
// history, clock / UUID / random sources) whose contacts and messages differ ONLY in URN path and display must be
// indistinguishable through the expression context when the environment's redaction policy is "urns".
package p19

import (
	"fmt"
	"regexp"
	"sort"
	"strings"

	"verif/internal/fw"
	"verif/internal/gen"
)

var reLang = regexp.MustCompile(`\.translations\.[a-z]{3}\.`)

type c19 struct{}

func init() { fw.Register(&c19{}) }

func (p *c19) ID() string { return "C19" }

func (p *c19) Rule() string {
	return "case = one twin pair: a generated scenario (gen.Scen with URNPolicy=urns, deterministic templates, no random routers; 1-4 flows with sub-flows, msg/manual/flow_action triggers with parent summaries, " +
		"0-6 resumes incl. refreshed contacts) in which ~40% of the action templates and ~30% of the switch operands are replaced by URN-derived ones (@contact.urn, @urns.tel, format_urn, urn_parts, foreach, json(contact), " +
		"@parent.contact.urn, @child.contact.urns …); URN-valued query groups are rewritten to presence checks (the host parses group queries with the redacted environment). Twin A keeps the generated URNs (or a re-lettering " +
		"when they collide with a literal of the scenario), twin B re-letters path and display of every URN in trigger contact, trigger msg, call, run_summary contact, resume msgs and refreshed contacts (bijective digit/letter rotation; " +
		"tel keeps all but the last 4 digits, same country). Each twin runs to completion from a fresh drive.Load with the same seed; after every sprint, for every run, NewXObject(run.RootContext(MergedEnvironment())) is walked " +
		"(every property, __default__, array element, depth<=8; text, Format, JSON) and 12 (quick) / 24 (thorough) templates built from the walked paths x wrappers are evaluated through run.EvaluateTemplate; walks, template outputs " +
		"and masked event JSON must be equal. The same pair is run under policy none as a control (walks must differ). 6 generated ContactQL URN conditions per case are parsed under both policies. " +
		"Non-trivial = the twins' URN lists differ textually AND the walk under policy urns visited >= 1 non-null URN-bearing leaf (path *.urn, *.urns[i], urns.<scheme>) in >= 1 run (counter nontrivial.two_runs: in >= 2 distinct runs); " +
		"distinct = SHA of (twin A scenario, re-lettering of B)."
}

func (p *c19) Directed() []string { return directedNames() }

func (p *c19) NumGenerated(tier string) int {
	if tier == "thorough" {
		return 20000
	}
	return 2000
}

func (p *c19) BatchSize(tier string) int {
	if tier == "thorough" {
		return 400
	}
	return 50
}

func (p *c19) CaseTimeoutS() int { return 120 }

func (p *c19) Floors(tier string) []string {
	return []string{"clause.walk_equal", "clause.templates_equal", "clause.events_equal", "clause.unnamed_by_id", "clause.unnamed_run_by_id", "clause.query_rejected", "control.none_differs",
		"control.query_sees_urn_under_none", "nontrivial.two_runs", "seen.parent_urn", "seen.child_urn", "seen.input_urn", "seen.result_from_urn_template", "walk.urn_leaves", "events.masked_raw_urn"}
}

func tplsPerRun(tier string) int {
	if tier == "thorough" {
		return 24
	}
	return 12
}

func (p *c19) Run(c fw.Case) fw.Result {
	res := fw.Result{}
	var r *fw.Rand
	seed := c.Seed
	if c.Directed != "" {
		r = fw.NewRand(19, "C19:"+c.Directed, 0) // directed cases are seed independent
		seed = 1
	} else {
		r = fw.NewRand(c.Seed, "C19", c.Index)
	}

	if c.Directed == "contactql-urn-conditions" {
		res.Fingerprint = "contactql-urn-conditions"
		checkQueries(&res, r, directedURNQueries)
		res.NonTrivial = true
		res.Sample = map[string]any{"queries": len(directedURNQueries)}
		return res
	}

	var scen *gen.Scenario
	if c.Directed != "" {
		scen = directedScenario(c.Directed)
	} else {
		o := gen.ScenOpts{URNPolicy: "urns", Deterministic: true, NoRandom: true, NoHostileTpl: r.Chance(0.7), MaxNodes: r.Range(3, 8), MaxResumes: r.Range(2, 6),
			LoopHeavy: r.Chance(0.35), ContactChanges: r.Chance(0.3), Localized: r.Chance(0.2), QueryGroups: r.Chance(0.3)}
		scen = gen.Scen(r, o)
	}
	base, err := cloneScenario(scen)
	if err != nil {
		res.Discarded = "scenario not JSON-able: " + err.Error()
		return res
	}
	res.Count("assets.urn_query_groups_neutralised", int64(neutraliseURNGroups(base)))

	ra, rb, ok := pickRots(r, base)
	if !ok {
		res.Fingerprint = base.Fingerprint()
		res.Discarded = "no collision-free re-lettering of the URNs found"
		return res
	}
	orig := scenarioURNs(base)
	var urnsA, urnsB []string
	for _, u := range orig {
		urnsA = append(urnsA, ra.urn(u))
		urnsB = append(urnsB, rb.urn(u))
	}
	if c.Directed == "" {
		res.Count("templates_planted", int64(plantTemplates(r, base, urnsA)))
	}
	twinA, twinB := twinOf(base, ra, "urns"), twinOf(base, rb, "urns")
	res.Fingerprint = twinA.Fingerprint() + fmt.Sprint(rb)
	twinsDiffer := strings.Join(urnsA, " ") != strings.Join(urnsB, " ")
	if !ra.identity() {
		res.Count("twin_a_relettered", 1)
	}
	for _, u := range orig {
		s, _, _, _, _ := splitURN(u)
		res.Seen("urn_schemes", s)
	}

	witness := func(extra map[string]any) map[string]any {
		w := map[string]any{"scenario": twinA, "twin_b": map[string]any{"trigger": twinB.Trigger, "resumes": twinB.Resumes}, "urns_a": urnsA, "urns_b": urnsB, "policy": "urns"}
		for k, v := range extra {
			w[k] = v
		}
		return w
	}

	// --- twin A, then twin B, each from a fresh Load with the same seed
	tpls := map[[2]int][]tplSpec{}
	tr := r.Fork("templates")
	k := tplsPerRun(c.Tier)
	obsA, err := observeTwin(twinA, seed, tpls, func(si, ri int, nodes []wnode) []tplSpec { return genTemplates(tr, nodes, k) }, obsOpts{withEvents: true})
	if err != nil {
		res.Discarded = "unloadable: " + errClass(err.Error())
		return res
	}
	if obsA.unreadable != "" {
		res.Discarded = "unreadable trigger: " + obsA.unreadable
		return res
	}
	obsB, err := observeTwin(twinB, seed, tpls, nil, obsOpts{withEvents: true})
	if err != nil {
		// same assets: cannot happen unless loading depends on the URNs
		res.Violate("C19|twins-diverge|assets-load", "twin B does not load although twin A does: "+err.Error(), witness(nil))
		return res
	}
	res.Count("twin_pairs", 1)
	res.Seen("trigger_types", fmt.Sprint(base.Trigger["type"]))

	runsWithURN := compareTwins(&res, obsA, obsB, tpls, witness)
	if res.Discarded != "" {
		return res
	}
	if len(runsWithURN) >= 1 && twinsDiffer {
		res.NonTrivial = true
		res.Count("nontrivial.one_run", 1)
	}
	if len(runsWithURN) >= 2 && twinsDiffer {
		res.Count("nontrivial.two_runs", 1)
	}

	// --- control: the same pair without redaction must be told apart by the same walk
	ctlA, errA := observeTwin(twinOf(base, ra, "none"), seed, nil, nil, obsOpts{})
	ctlB, errB := observeTwin(twinOf(base, rb, "none"), seed, nil, nil, obsOpts{})
	if errA == nil && errB == nil {
		control(&res, ctlA, ctlB, contactURNsDiffer(twinA, twinB), func(extra map[string]any) map[string]any {
			w := witness(extra)
			w["policy"] = "none"
			return w
		})
	}

	// --- contact queries on URNs
	qr := r.Fork("queries")
	var qs []urnQuery
	for i := 0; i < 6; i++ {
		qs = append(qs, genURNQuery(qr))
	}
	checkQueries(&res, qr, qs)

	if res.NonTrivial {
		var paths []string
		for p := range runsWithURN {
			paths = append(paths, p)
		}
		sort.Strings(paths)
		res.Sample = map[string]any{"trigger": base.Trigger["type"], "engine_calls": len(obsA.sprints), "runs_with_urn_leaves": len(runsWithURN), "urns_a": urnsA, "urns_b": urnsB, "flows": len(base.Flows())}
	}
	return res
}

// compareTwins checks clause by clause that the two observations are equal. It returns the set of runs in which
// a non-null URN-bearing leaf was visited.
func compareTwins(res *fw.Result, A, B *twinObs, tpls map[[2]int][]tplSpec, witness func(map[string]any) map[string]any) map[string]bool {
	runsWithURN := map[string]bool{}
	// One root cause shows in many places (the context, every template over it, every event text built from it).
	// Per case only the finding closest to the source is reported: a context difference (URN-bearing leaf nearest to
	// the root) before a template difference before an event difference before a mere divergence of the executions.
	type finding struct {
		prio, rank int
		sig, what  string
		wit        map[string]any
	}
	var found []finding
	add := func(prio, rank int, sig, what string, wit map[string]any) {
		found = append(found, finding{prio, rank, sig, what, wit})
	}
	defer func() {
		if res.Discarded != "" || len(found) == 0 {
			return
		}
		best := found[0]
		for _, f := range found[1:] {
			if f.prio < best.prio || (f.prio == best.prio && f.rank < best.rank) {
				best = f
			}
		}
		best.wit["other_differences_in_this_case"] = len(found) - 1
		res.Violate(best.sig, best.what, best.wit)
	}()
	if len(A.sprints) != len(B.sprints) {
		add(3, 0, "C19|twins-diverge|number-of-engine-calls", fmt.Sprintf("twin A made %d engine calls, twin B %d", len(A.sprints), len(B.sprints)), witness(nil))
	}
	n := len(A.sprints)
	if len(B.sprints) < n {
		n = len(B.sprints)
	}
	for i := 0; i < n; i++ {
		a, b := A.sprints[i], B.sprints[i]
		where := map[string]any{"sprint": i, "call": a.kind}
		res.Count("engine_calls", 1)
		res.Count("engine_calls."+a.kind, 1)
		if a.err != "" {
			res.Count("engine_calls.failed", 1)
			res.Seen("engine_error_kinds", a.err)
		}
		res.Seen("session_status_after_call", a.status)
		if a.urnShape != b.urnShape {
			// a URN added by the flow was already present in one twin only (identity collision): set semantics, not redaction
			res.Count("skipped.urn_shape_diverged", 1)
			res.Discarded = "twin URN lists diverged in shape (identity collision with a URN added by the flow)"
			return runsWithURN
		}
		if a.err != b.err {
			add(3, 0, "C19|twins-diverge|engine-error", fmt.Sprintf("sprint %d: twin A: %q, twin B: %q", i, a.err, b.err), witness(where))
			continue
		}
		if a.status != b.status {
			add(3, 0, "C19|twins-diverge|session-status", fmt.Sprintf("sprint %d: session status %s vs %s", i, a.status, b.status), witness(where))
		}
		// events
		if len(a.events) != len(b.events) {
			add(2, 0, "C19|event-differs|number-of-events", fmt.Sprintf("sprint %d: %d events vs %d", i, len(a.events), len(b.events)), witness(map[string]any{"sprint": i, "events_a": a.events, "events_b": b.events}))
		} else {
			for j := range a.events {
				res.Count("clause.events_equal", 1)
				if strings.Contains(a.events[j], `:*`) {
					res.Count("events.masked_raw_urn", 1)
				}
				if a.events[j] != b.events[j] {
					ta, tb := eventType(a.events[j]), eventType(b.events[j])
					if ta != tb {
						add(2, 0, "C19|event-differs|event-type", fmt.Sprintf("sprint %d event %d: %s vs %s", i, j, ta, tb), witness(map[string]any{"sprint": i, "event_a": a.events[j], "event_b": b.events[j]}))
					} else {
						path := jsonDiffPath(a.events[j], b.events[j])
						add(2, 0, "C19|event-differs|"+ta+"|"+reLang.ReplaceAllString(genericPath(path), ".translations.<lang>."), fmt.Sprintf("sprint %d: %s event differs between the twins at %s", i, ta, path),
							witness(map[string]any{"sprint": i, "event_a": a.events[j], "event_b": b.events[j], "json_path": path}))
					}
					break
				}
			}
		}
		// runs
		if len(a.runs) != len(b.runs) {
			add(3, 0, "C19|twins-diverge|number-of-runs", fmt.Sprintf("sprint %d: %d runs vs %d", i, len(a.runs), len(b.runs)), witness(where))
			continue
		}
		for j := range a.runs {
			x, y := a.runs[j], b.runs[j]
			rw := map[string]any{"sprint": i, "call": a.kind, "run": j, "flow": x.flow, "run_status": x.status}
			if x.ctxPanic != "" || y.ctxPanic != "" {
				res.Count("walk.context_panics", 1)
				res.Seen("context_panic_kinds", x.ctxPanic+y.ctxPanic)
				if x.ctxPanic != y.ctxPanic {
					add(3, 0, "C19|twins-diverge|context-panic", fmt.Sprintf("building/walking the context panics in one twin only: %q vs %q", x.ctxPanic, y.ctxPanic), witness(rw))
				}
				continue
			}
			if x.status != y.status || x.flow != y.flow {
				add(3, 0, "C19|twins-diverge|run-status", fmt.Sprintf("sprint %d run %d: %s/%s vs %s/%s", i, j, x.flow, x.status, y.flow, y.status), witness(rw))
			}
			res.Count("walk.contexts", 1)
			res.Count("clause.walk_equal", int64(len(x.nodes)))
			res.Count("walk.urn_leaves", int64(x.urnLeaves))
			if x.truncated || y.truncated {
				res.Count("walk.node_cap_reached", 1)
			}
			if x.deepest >= walkMaxDepth {
				res.Count("walk.depth_bound_reached", 1)
			}
			res.Count("walk.case_ambiguous_keys_skipped", int64(x.caseAmbiguous))
			if x.urnLeaves > 0 {
				runsWithURN[x.uuid] = true
			}
			observePaths(res, x.nodes)
			if dd := diffWalks(x.nodes, y.nodes); dd != nil {
				add(0, dd.rank, "C19|context-differs|"+sigPath(dd.path)+"|"+dd.aspect,
					fmt.Sprintf("under policy urns the context of run %d (%s) after sprint %d differs between the twins at %s (%s): %q vs %q", j, x.flow, i, dd.path, dd.aspect, trunc(dd.a, 120), trunc(dd.b, 120)),
					witness(map[string]any{"sprint": i, "run": j, "flow": x.flow, "path": dd.path, "aspect": dd.aspect, "twin_a": dd.a, "twin_b": dd.b}))
			}
			checkUnnamed(res, x.nodes, witness, rw)
			checkUnnamed(res, y.nodes, witness, rw)
			// templates
			specs := tpls[[2]int{i, j}]
			for t := range x.tplOut {
				if t >= len(y.tplOut) || t >= len(specs) {
					break
				}
				res.Count("clause.templates_equal", 1)
				res.Seen("template_wrappers", specs[t].Wrapper)
				if urnBearing(specs[t].Path) {
					res.Count("templates.over_urn_paths", 1)
				}
				if strings.HasPrefix(x.tplOut[t], "ok=true") {
					res.Count("templates.evaluated_without_error", 1)
				}
				if x.tplOut[t] != y.tplOut[t] {
					add(1, 0, "C19|template-differs|"+specs[t].Wrapper+"|"+sigPath(specs[t].Path),
						fmt.Sprintf("template %q evaluates differently in the twins: %s vs %s", specs[t].Tpl, trunc(x.tplOut[t], 200), trunc(y.tplOut[t], 200)),
						witness(map[string]any{"sprint": i, "run": j, "flow": x.flow, "template": specs[t], "twin_a": x.tplOut[t], "twin_b": y.tplOut[t]}))
				}
			}
		}
	}
	return runsWithURN
}

// observePaths records which URN-bearing places the walk really visited.
func observePaths(res *fw.Result, nodes []wnode) {
	for _, n := range nodes {
		if !n.leaf || n.kind == "null" {
			if n.kind == "null" && urnBearing(n.path) {
				res.Count("walk.urn_paths_null", 1)
			}
			continue
		}
		if urnBearing(n.path) && !liveURNLeaf(n) {
			res.Count("walk.urn_paths_empty_urn", 1) // input.urn of a message without URN
		}
		if liveURNLeaf(n) {
			sp := sigPath(n.path)
			res.Seen("urn_paths", sp)
			switch {
			case strings.HasPrefix(n.path, "parent."):
				res.Count("seen.parent_urn", 1)
			case strings.HasPrefix(n.path, "child."):
				res.Count("seen.child_urn", 1)
			case strings.HasPrefix(n.path, "input."):
				res.Count("seen.input_urn", 1)
			}
			if !strings.Contains(n.render, "********") {
				res.Count("walk.urn_leaf_without_mask", 1) // e.g. input.urn of a msg without URN; informational
			}
		}
		// a result / field whose value was produced by a URN template shows the mask
		if strings.Contains(n.render, "********") && (strings.HasPrefix(n.path, "results.") || strings.HasPrefix(n.path, "fields.")) {
			res.Count("seen.result_from_urn_template", 1)
		}
	}
}

// checkUnnamed: "contacts without a name are shown by id" — for every contact object in the context (contact,
// run.contact, parent.contact, child.contact) whose name is empty, the default (what @contact renders to) is the id;
// and the run / parent / child default, which is "<contact>@<flow>", starts with the id.
func checkUnnamed(res *fw.Result, nodes []wnode, witness func(map[string]any) map[string]any, where map[string]any) {
	name, id, def := map[string]string{}, map[string]string{}, map[string]string{}
	for _, n := range nodes {
		i := strings.LastIndexByte(n.path, '.')
		if i < 0 {
			continue
		}
		owner, prop := n.path[:i], n.path[i+1:]
		switch prop {
		case "name":
			name[owner] = n.render
		case "id":
			id[owner] = n.render
		case "__default__":
			def[owner] = n.render
		}
	}
	for owner, nm := range name {
		if owner != "contact" && !strings.HasSuffix(owner, ".contact") {
			continue
		}
		idv, hasID := id[owner]
		dv, hasDef := def[owner]
		if !hasID || !hasDef {
			continue
		}
		if nm != "" {
			res.Count("walk.named_contacts", 1)
			continue
		}
		res.Count("clause.unnamed_by_id", 1)
		if dv != idv {
			res.Violate("C19|unnamed-contact-not-shown-by-id|contact", fmt.Sprintf("contact without a name at %s renders as %q, id is %q", owner, dv, idv),
				witness(merge(where, map[string]any{"path": owner, "rendered": dv, "id": idv})))
		}
		// the run summary default
		runOwner := strings.TrimSuffix(owner, ".contact")
		if runOwner != owner && (runOwner == "run" || runOwner == "parent" || runOwner == "child") {
			if rd, ok := def[runOwner]; ok {
				res.Count("clause.unnamed_run_by_id", 1)
				if !strings.HasPrefix(rd, idv+"@") {
					res.Violate("C19|unnamed-contact-not-shown-by-id|run-summary", fmt.Sprintf("@%s renders as %q for a contact without a name whose id is %q", runOwner, rd, idv),
						witness(merge(where, map[string]any{"path": runOwner, "rendered": rd, "id": idv})))
				}
			}
		}
	}
}

// contactURNsDiffer: the trigger contact has URNs and they are not textually the same in both twins.
func contactURNsDiffer(a, b *gen.Scenario) bool {
	get := func(s *gen.Scenario) string {
		c, _ := s.Trigger["contact"].(map[string]any)
		us, _ := c["urns"].([]any)
		return fmt.Sprint(us...)
	}
	ua, ub := get(a), get(b)
	return ua != "" && ua != ub
}

func merge(a, b map[string]any) map[string]any {
	out := map[string]any{}
	for k, v := range a {
		out[k] = v
	}
	for k, v := range b {
		out[k] = v
	}
	return out
}

// control: under policy none the walk must tell the twins apart wherever the contact has URNs.
func control(res *fw.Result, A, B *twinObs, contactDiffers bool, witness func(map[string]any) map[string]any) {
	res.Count("control.pairs", 1)
	n := len(A.sprints)
	if len(B.sprints) < n {
		n = len(B.sprints)
	}
	total, urnDiffs, demanded := 0, 0, false
	for i := 0; i < n; i++ {
		a, b := A.sprints[i], B.sprints[i]
		m := len(a.runs)
		if len(b.runs) < m {
			m = len(b.runs)
		}
		for j := 0; j < m; j++ {
			if a.runs[j].ctxPanic != "" || b.runs[j].ctxPanic != "" {
				continue
			}
			dn, du := countDiffs(a.runs[j].nodes, b.runs[j].nodes)
			total += dn
			urnDiffs += du
			if i == 0 && a.runs[j].urnLeaves > 0 && b.runs[j].urnLeaves > 0 {
				demanded = true // the trigger contact has URNs (contactDiffers): contact.urns[i] shows them to every run of the first sprint
			}
		}
		if a.status != b.status || len(a.runs) != len(b.runs) {
			res.Count("control.twins_took_different_paths", 1)
		}
	}
	if len(A.sprints) != len(B.sprints) {
		res.Count("control.twins_took_different_paths", 1)
	}
	res.Count("control.none_differing_nodes", int64(total))
	res.Count("control.none_differing_urn_leaves", int64(urnDiffs))
	if total > 0 {
		res.Count("control.none_differs", 1)
	}
	if demanded && contactDiffers {
		res.Count("clause.none_sees_urns", 1)
		if urnDiffs == 0 {
			res.Violate("C19|control|policy-none-hides-urns", "under policy none the context walk of the twins is identical on every URN-bearing path although their URNs differ", witness(nil))
		}
	}
}
