// Package p19 is the runtime monitor for C19 — "Redacted URNs are invisible to expressions".
//
// Oracle = non-interference by twin sessions: two executions of the same scenario (assets, flows, trigger,
// history, clock / UUID / random sources) whose contacts and messages differ ONLY in URN path and display must be
// indistinguishable through the expression context when the environment's redaction policy is "urns".
package p19

import (
	"fmt"
	"regexp"
	"sort"
	"strings"

	"verif/internal/fw"
	"verif/internal/gen"
)

var reLang = regexp.MustCompile(`\.translations\.[a-z]{3}\.`)

type c19 struct{}

func init() { fw.Register(&c19{}) }

func (p *c19) ID() string { return "C19" }

func (p *c19) Rule() string {
	return "case = one twin pair: a scenario in which the twins' contacts / messages differ only in URN path and display. 60% 'constant' cases: gen.Scen (deterministic templates, no random routers; 1-4 flows with sub-flows, msg/manual/flow_action triggers with parent summaries, " +
		"0-6 resumes incl. refreshed contacts) with policy urns forced into every environment, ~40% of the action templates and ~30% of the switch operands replaced by URN-derived ones (@contact.urn, @urns.tel, format_urn, urn_parts, foreach, json(contact), " +
		"@parent.contact.urn, @child.contact.urns ...); the same pair is re-run under policy none as a control (walks must differ). 40% 'policy history' cases: the redaction policy CHANGES during the session — the trigger's environment starts with none or urns " +
		"(none written explicitly or by leaving the key out) and every resume carries, relative to the environment in force, no environment (34%) / a copy differing ONLY in the policy (34%) / policy flipped plus one other setting (14%) / same policy, other setting (9%) / an identical copy (9%), " +
		"alone or together with a refreshed contact; before 30% of the resumes the session is marshalled and read back (ReadSession). 65% of the histories use a looping flow (wait -> actions -> optional sub-flow with its own wait -> wait, 2-6 resumes all consumed; half of them 'quiet' = the flows never touch URNs), the rest gen.Scen. " +
		"The monitor labels every sprint with the policy the scenario says is in force (its own model: the policy of the last applied environment). Sprints labelled urns: full comparison (below) as long as no URN-derived value was stored while the URNs were visible " +
		"(decided by comparing the twins' masked session JSON + source positions after every sprint under none); afterwards only URN-bearing leaves (contact.urn(s), urns.*, input.urn, run/parent/child.contact.*) and the shown-by-id clause. Sprints labelled none: every run context must tell the twins apart on a URN-bearing leaf. " +
		"In all generated cases contact identities are varied: id in {as generated, 0, absent from the JSON, 1, 2^31, 2^53+1, -1} x name {as generated, key absent, empty text} for the session contact, its refreshed versions and the parent run summary's contact, x 0-4 URNs. " +
		"URN-valued query groups are rewritten to presence checks (the host parses group queries with the redacted environment). Twin A keeps the generated URNs (or a re-lettering " +
		"when they collide with a literal of the scenario), twin B re-letters path and display of every URN in trigger contact, trigger msg, call, run_summary contact, resume msgs and refreshed contacts (bijective digit/letter rotation; " +
		"tel keeps all but the last 4 digits, same country). Each twin runs to completion from a fresh drive.Load with the same seed; after every sprint, for every run, NewXObject(run.RootContext(MergedEnvironment())) is walked " +
		"(every property, __default__, array element, depth<=8; text, Format, JSON) and 12 (quick) / 24 (thorough) templates built from the walked paths x wrappers are evaluated through run.EvaluateTemplate; walks, template outputs " +
		"and masked event JSON must be equal; a contact without a name must render as its id in every rendering (default / object, text / Format) and so must @run / @parent / @child. 12 generated ContactQL URN conditions per case are parsed under both policies: " +
		"property spelled as scheme (all 20 schemes) / urn / urns.<scheme> in any letter case x comparator {=, !=, ~, >, >=, <, <=, HAS, IS in any letter case} x quoted / bare value x 0-3 layers of AND / OR / implicit AND / parentheses (10% with a second URN condition); a condition that under none parses to a valued URN condition must be rejected (or re-read without URN) under urns. " +
		"Widened classes (independent random streams): 15% of the generated cases repeat a URN (same scheme + path; same / no / other query, other display) inside the URN list of the trigger contact, the parent summary contact or a refreshed contact — twin A keeps the repetition, twin B is re-lettered position-dependently (the k-th repetition of an identity gets another rotation) and has distinct URNs there; " +
		"35% of the environments of a policy history and 30% of the none-controls that say 'none' say it as the empty string (80%) or null (20%), which ReadEnvironment admits and the monitor's model reads as no policy; 3 implicit query literals per case shaped like URN paths (email 40%, handle, numeric id, phone, scheme-prefixed; bare / quoted; 0-3 nesting layers): whatever ParseQuery returns under policy urns must hold no valued URN condition (stated without reference to the parse under none). " +
		"Non-trivial = the twins' URN lists differ textually AND the walk in sprints under policy urns visited >= 1 non-null URN-bearing leaf (path *.urn, *.urns[i], urns.<scheme>) in >= 1 run (counter nontrivial.two_runs: in >= 2 distinct runs); " +
		"distinct = SHA of (twin A scenario incl. its environments, re-lettering of B, restart points)."
}

func (p *c19) Directed() []string { return directedNames() }

func (p *c19) NumGenerated(tier string) int {
	if tier == "thorough" {
		return 20000
	}
	return 2000
}

func (p *c19) BatchSize(tier string) int {
	if tier == "thorough" {
		return 400
	}
	return 50
}

func (p *c19) CaseTimeoutS() int { return 120 }

func (p *c19) Floors(tier string) []string {
	return []string{"clause.walk_equal", "clause.templates_equal", "clause.events_equal", "clause.unnamed_by_id", "clause.unnamed_run_by_id", "clause.query_rejected", "control.none_differs",
		"control.query_sees_urn_under_none", "nontrivial.two_runs", "seen.parent_urn", "seen.child_urn", "seen.input_urn", "seen.result_from_urn_template", "walk.urn_leaves", "events.masked_raw_urn",
		// policy histories
		"switch.none_to_urns", "switch.urns_to_none", "switch.after_restart", "resume_env.policy-only", "resume_env.policy+other", "resume_env.policy-only+contact", "resume_env.identical", "resume_env.after_restart",
		"clause.walk_equal.after_switch_to_urns", "clause.templates_equal.after_switch_to_urns", "clause.walk_equal.after_restart", "clause.urn_leaves_equal_after_taint", "clause.none_sees_urns.after_switch_to_none",
		// shown by id: boundary ids, with URNs to fall back to, for the contact and for run summaries
		"clause.unnamed_by_id.id_zero_with_urns", "clause.unnamed_by_id.id_beyond_int32_with_urns", "clause.unnamed_by_id.id_negative", "clause.unnamed_by_id.summary_contact_id_zero", "clause.unnamed_run_by_id.id_zero",
		// query rejection: comparator spellings and nesting
		"clause.query_rejected.operator_alias", "clause.query_rejected.operator_symbolic", "clause.query_rejected.operator_implicit", "clause.query_rejected.nested_deep",
		"clause.query_rejected.scheme", "clause.query_rejected.urn-attribute", "clause.query_rejected.urns-prefix",
		// widened classes: a URN held twice vs distinct URNs; implicit literals shaped like URN paths; "no policy" written as "" / null
		"repeats.cases", "clause.walk_equal.repeated_vs_distinct_urns", "clause.query_no_urn_condition_under_urns", "query.implicit_literal.email", "clause.none_sees_urns.empty_string_or_null_policy"}
}

func tplsPerRun(tier string) int {
	if tier == "thorough" {
		return 24
	}
	return 12
}

func (p *c19) Run(c fw.Case) fw.Result {
	res := fw.Result{}
	var r *fw.Rand
	seed := c.Seed
	if c.Directed != "" {
		r = fw.NewRand(19, "C19:"+c.Directed, 0) // directed cases are seed independent
		seed = 1
	} else {
		r = fw.NewRand(c.Seed, "C19", c.Index)
	}

	if c.Directed == "contactql-urn-conditions" || c.Directed == "contactql-operator-grid" || c.Directed == "contactql-implicit-literals" {
		qs := directedURNQueries
		switch c.Directed {
		case "contactql-operator-grid":
			qs = operatorGrid()
		case "contactql-implicit-literals":
			qs = implicitLiteralGrid()
		}
		res.Fingerprint = c.Directed
		checkQueries(&res, r, qs)
		res.NonTrivial = true
		res.Sample = map[string]any{"queries": len(qs)}
		return res
	}

	// history = the redaction policy is part of the scenario (it may change from resume to resume) instead of being
	// forced to "urns" everywhere
	var scen *gen.Scenario
	history, looping, quiet := false, false, false
	var restarts map[int]bool
	switch {
	case c.Directed != "" && historyCase(c.Directed) != nil:
		history, looping = true, true
		scen, restarts = buildHistory(historyCase(c.Directed))
	case c.Directed != "":
		scen = directedScenario(c.Directed)
	default:
		history = r.Chance(0.4)
		if history && r.Chance(0.65) {
			looping = true
			scen, quiet = historyScenario(r)
		} else {
			o := gen.ScenOpts{URNPolicy: "urns", Deterministic: true, NoRandom: true, NoHostileTpl: r.Chance(0.7), MaxNodes: r.Range(3, 8), MaxResumes: r.Range(2, 6),
				LoopHeavy: r.Chance(0.35), ContactChanges: r.Chance(0.3), Localized: r.Chance(0.2), QueryGroups: r.Chance(0.3)}
			if history {
				o.RefreshP = 0.25
			}
			scen = gen.Scen(r, o)
		}
	}
	base, err := cloneScenario(scen)
	if err != nil {
		res.Discarded = "scenario not JSON-able: " + err.Error()
		return res
	}
	if c.Directed == "" && r.Chance(0.35) {
		res.Count("assets.urn_query_groups_planted", int64(plantURNGroups(r.Fork("urn-groups"), base)))
	}
	res.Count("assets.urn_query_groups_neutralised", int64(neutraliseURNGroups(base)))
	if c.Directed == "" {
		shapeContacts(r.Fork("contact-shapes"), base, &res)
		if history {
			pr := r.Fork("policies")
			planPolicies(pr, base)
			restarts = restartPlan(pr, len(base.Resumes), 0.3)
		}
	}
	if c.Directed == "" {
		// widened classes, drawn from streams of their own (cases that do not draw them stay as they were)
		if rr := fw.NewRand(c.Seed, "C19/repeated-urns", c.Index); rr.Chance(0.15) {
			res.Count("repeats.planted", int64(plantRepeats(rr, base)))
		}
		if history {
			e, n := respellNone(fw.NewRand(c.Seed, "C19/none-spellings", c.Index), base, 0.35)
			res.Count("env.none_written_as_empty_string", int64(e))
			res.Count("env.none_written_as_null", int64(n))
		}
	}
	if scenarioRepeats(base) > 0 {
		res.Count("repeats.cases", 1)
		res.Count("repeats.list_entries", int64(scenarioRepeats(base)))
	}
	if history {
		res.Count("history.cases", 1)
		if looping {
			res.Count("history.looping_scenarios", 1)
		}
		if quiet {
			res.Count("history.quiet_flows", 1)
		}
	}

	ra, rb, ok := pickRots(r, base)
	if !ok {
		res.Fingerprint = base.Fingerprint()
		res.Discarded = "no collision-free re-lettering of the URNs found"
		return res
	}
	orig := scenarioURNs(base)
	var urnsA, urnsB []string
	for _, u := range orig {
		urnsA = append(urnsA, ra.urn(u))
		urnsB = append(urnsB, rb.urn(u))
	}
	if c.Directed == "" && !looping {
		res.Count("templates_planted", int64(plantTemplates(r, base, urnsA)))
	}
	forced := "urns"
	if history {
		forced = "" // keep the scenario's own policies
	}
	twinA, twinB := twinOf(base, ra, forced), twinOf(base, rb, forced)
	res.Fingerprint = twinA.Fingerprint() + fmt.Sprint(rb, sortedKeys(restarts))
	twinsDiffer := strings.Join(urnsA, " ") != strings.Join(urnsB, " ")
	if !ra.identity() {
		res.Count("twin_a_relettered", 1)
	}
	for _, u := range orig {
		s, _, _, _, _ := splitURN(u)
		res.Seen("urn_schemes", s)
	}

	witness := func(extra map[string]any) map[string]any {
		w := map[string]any{"scenario": twinA, "twin_b": map[string]any{"trigger": twinB.Trigger, "resumes": twinB.Resumes}, "urns_a": urnsA, "urns_b": urnsB, "policy": "urns"}
		if history {
			w["policy"] = "as written in the environments of the trigger and the resumes"
			w["restart_before_resumes"] = sortedKeys(restarts)
		}
		for k, v := range extra {
			w[k] = v
		}
		return w
	}

	// --- twin A, then twin B, each from a fresh Load with the same seed
	tpls := map[[2]int][]tplSpec{}
	tr := r.Fork("templates")
	k := tplsPerRun(c.Tier)
	oo := obsOpts{withEvents: true, restarts: restarts, digest: history}
	obsA, err := observeTwin(twinA, seed, tpls, func(si, ri int, nodes []wnode) []tplSpec { return genTemplates(tr, nodes, k) }, oo)
	if err != nil {
		res.Discarded = "unloadable: " + errClass(err.Error())
		return res
	}
	if obsA.unreadable != "" {
		res.Discarded = "unreadable trigger: " + obsA.unreadable
		return res
	}
	obsB, err := observeTwin(twinB, seed, tpls, nil, oo)
	if err != nil {
		// same assets: cannot happen unless loading depends on the URNs
		res.Violate("C19|twins-diverge|assets-load", "twin B does not load although twin A does: "+err.Error(), witness(nil))
		return res
	}
	res.Count("twin_pairs", 1)
	res.Seen("trigger_types", fmt.Sprint(base.Trigger["type"]))

	runsWithURN := compareTwins(&res, obsA, obsB, tpls, witness)
	if res.Discarded != "" {
		return res
	}
	if len(runsWithURN) >= 1 && twinsDiffer {
		res.NonTrivial = true
		res.Count("nontrivial.one_run", 1)
	}
	if len(runsWithURN) >= 2 && twinsDiffer {
		res.Count("nontrivial.two_runs", 1)
	}

	// --- control: the same pair without redaction must be told apart by the same walk (a policy history is its own
	// control: its sprints under policy none are checked one by one in compareTwins)
	if !history {
		cA, cB := twinOf(base, ra, "none"), twinOf(base, rb, "none")
		spelled := "none"
		if c.Directed == "" {
			// "no policy" as ReadEnvironment also admits it: the empty string / null (30% of the controls)
			if sr := fw.NewRand(c.Seed, "C19/control-spelling", c.Index); sr.Chance(0.3) {
				// the same stream for both twins: they get the same spelling
				ea, na := respellNone(fw.NewRand(c.Seed, "C19/control-spelling/env", c.Index), cA, 1)
				respellNone(fw.NewRand(c.Seed, "C19/control-spelling/env", c.Index), cB, 1)
				if ea+na > 0 {
					spelled = "empty-or-null"
				}
			}
		}
		ctlA, errA := observeTwin(cA, seed, nil, nil, obsOpts{})
		ctlB, errB := observeTwin(cB, seed, nil, nil, obsOpts{})
		if errA == nil && errB == nil {
			control(&res, ctlA, ctlB, contactURNsDiffer(twinA, twinB), spelled, func(extra map[string]any) map[string]any {
				w := witness(extra)
				w["policy"] = "none"
				if spelled != "none" {
					w["policy"] = "none, written as " + fmt.Sprint(cA.Trigger["environment"].(map[string]any)["redaction_policy"]) + " (empty string / null)"
				}
				return w
			})
		}
	}

	// --- contact queries on URNs
	qr := r.Fork("queries")
	var qs []urnQuery
	for i := 0; i < 12; i++ {
		qs = append(qs, genURNQuery(qr))
	}
	checkQueries(&res, qr, qs)
	// … and implicit conditions: literals that look like the path of a URN
	lr := fw.NewRand(c.Seed, "C19/implicit-literals", c.Index)
	var ls []urnQuery
	for i := 0; i < 3; i++ {
		ls = append(ls, genImplicitLiteral(lr))
	}
	checkQueries(&res, lr, ls)

	if res.NonTrivial {
		var paths []string
		for p := range runsWithURN {
			paths = append(paths, p)
		}
		sort.Strings(paths)
		res.Sample = map[string]any{"trigger": base.Trigger["type"], "engine_calls": len(obsA.sprints), "runs_with_urn_leaves": len(runsWithURN), "urns_a": urnsA, "urns_b": urnsB, "flows": len(base.Flows())}
	}
	return res
}

// compareTwins checks clause by clause that the two observations are equal. It returns the set of runs in which
// a non-null URN-bearing leaf was visited.
func compareTwins(res *fw.Result, A, B *twinObs, tpls map[[2]int][]tplSpec, witness func(map[string]any) map[string]any) map[string]bool {
	runsWithURN := map[string]bool{}
	// One root cause shows in many places (the context, every template over it, every event text built from it).
	// Per case only the finding closest to the source is reported: a context difference (URN-bearing leaf nearest to
	// the root) before a template difference before an event difference before a mere divergence of the executions.
	type finding struct {
		prio, rank int
		sig, what  string
		wit        map[string]any
	}
	var found []finding
	add := func(prio, rank int, sig, what string, wit map[string]any) {
		found = append(found, finding{prio, rank, sig, what, wit})
	}
	defer func() {
		if res.Discarded != "" || len(found) == 0 {
			return
		}
		best := found[0]
		for _, f := range found[1:] {
			if f.prio < best.prio || (f.prio == best.prio && f.rank < best.rank) {
				best = f
			}
		}
		best.wit["other_differences_in_this_case"] = len(found) - 1
		res.Violate(best.sig, best.what, best.wit)
	}()
	n := len(A.sprints)
	if len(B.sprints) < n {
		n = len(B.sprints)
	}
	// tainted: during a stretch of history under policy none the twins stored something that was derived from their
	// URNs (a result, a field, a name, a message text kept in the run's events) or took different routes. From then on
	// the statement still demands that the URNs themselves are hidden whenever the policy is urns, but not that
	// copies made while they were visible disappear: only URN-bearing leaves and the "shown by id" clause are checked.
	tainted := false
	flowChangedURNs := false // a contact_urns_changed event was seen in either twin (add_contact_urn: set semantics)
	prev := ""
	sinceSwitch := "" // "urns": some earlier sprint ran under none and the policy is urns now; "none": the reverse
	for i := 0; i < n; i++ {
		a, b := A.sprints[i], B.sprints[i]
		where := map[string]any{"sprint": i, "call": a.kind}
		res.Count("engine_calls", 1)
		res.Count("engine_calls."+a.kind, 1)
		if a.err != "" {
			res.Count("engine_calls.failed", 1)
			res.Seen("engine_error_kinds", a.err)
		}
		res.Seen("session_status_after_call", a.status)
		policy := a.policy
		if a.policy != b.policy {
			policy = "unknown"
		}
		applied := a.err == "" && b.err == "" && len(a.runs) > 0
		if applied {
			res.Count("sprints.policy_"+policy, 1)
			if a.restarted {
				res.Count("sprints.after_restart", 1)
			}
			if a.envKind != "" && a.envKind == b.envKind {
				res.Count("resume_env."+a.envKind, 1)
				if a.restarted {
					res.Count("resume_env.after_restart", 1)
				}
			}
			if prev != "" && policy != prev && (policy == "urns" || policy == "none") {
				res.Count("switch."+prev+"_to_"+policy, 1)
				if a.restarted {
					res.Count("switch.after_restart", 1)
				}
				sinceSwitch = policy
			}
			prev = policy
		}
		for _, e := range a.events {
			if eventType(e) == "contact_urns_changed" {
				flowChangedURNs = true
			}
		}
		for _, e := range b.events {
			if eventType(e) == "contact_urns_changed" {
				flowChangedURNs = true
			}
		}
		if a.urnShape != b.urnShape && !flowChangedURNs && !tainted && policy == "urns" {
			// no flow has touched the URNs: both contacts are as they were read from JSON lists of the same schemes and
			// queries, yet the lists differ in shape. Not set semantics of an added URN — compared like everything else
			// (the walk reports contact.urns)
			res.Count("walk.urn_shape_differs_without_flow_change", 1)
		} else if a.urnShape != b.urnShape {
			if tainted || policy != "urns" {
				// while the URNs are (or were) visible the flows may add a URN that one twin already has
				res.Count("skipped.diverged_after_taint", 1)
				tainted = true
				break
			}
			// a URN added by the flow was already present in one twin only (identity collision): set semantics, not redaction
			res.Count("skipped.urn_shape_diverged", 1)
			res.Discarded = "twin URN lists diverged in shape (identity collision with a URN added by the flow)"
			return runsWithURN
		}

		if policy != "urns" || tainted {
			// ---------- sprints that are not fully comparable
			switch {
			case policy == "none" && applied:
				noneSprint(res, a, b, i, sinceSwitch == "none", witness)
			case policy == "urns" && applied:
				m := len(a.runs)
				if len(b.runs) < m {
					m = len(b.runs)
				}
				for j := 0; j < m; j++ {
					x, y := a.runs[j], b.runs[j]
					if x.ctxPanic != "" || y.ctxPanic != "" || x.uuid != y.uuid || x.flow != y.flow {
						continue
					}
					rw := map[string]any{"sprint": i, "call": a.kind, "run": j, "flow": x.flow, "run_status": x.status, "after_policy_none_left_urn_derived_state": true}
					if x.urnLeaves > 0 {
						runsWithURN[x.uuid] = true
					}
					observePaths(res, x.nodes)
					if dd := diffURNLeaves(res, x.nodes, y.nodes); dd != nil {
						add(0, dd.rank, "C19|context-differs|"+sigPath(dd.path)+"|"+dd.aspect,
							fmt.Sprintf("under policy urns (in force since an earlier resume) the context of run %d (%s) after sprint %d differs between the twins at %s (%s): %q vs %q", j, x.flow, i, dd.path, dd.aspect, trunc(dd.a, 120), trunc(dd.b, 120)),
							witness(merge(rw, map[string]any{"path": dd.path, "aspect": dd.aspect, "twin_a": dd.a, "twin_b": dd.b})))
					}
					checkUnnamed(res, x.nodes, witness, rw)
					checkUnnamed(res, y.nodes, witness, rw)
				}
			}
			if !tainted && (policy != "none" || a.state != b.state || a.err != b.err || a.status != b.status || len(a.runs) != len(b.runs)) {
				tainted = true
				res.Count("history.tainted_from_here", 1)
			}
			continue
		}

		// ---------- policy urns, nothing URN-derived stored so far: the twins must be indistinguishable
		if sinceSwitch == "urns" {
			res.Count("clause.full_comparison_after_switch_to_urns", 1)
		}
		if a.err != b.err {
			add(3, 0, "C19|twins-diverge|engine-error", fmt.Sprintf("sprint %d: twin A: %q, twin B: %q", i, a.err, b.err), witness(where))
			continue
		}
		if a.status != b.status {
			add(3, 0, "C19|twins-diverge|session-status", fmt.Sprintf("sprint %d: session status %s vs %s", i, a.status, b.status), witness(where))
		}
		// events
		if len(a.events) != len(b.events) {
			add(2, 0, "C19|event-differs|number-of-events", fmt.Sprintf("sprint %d: %d events vs %d", i, len(a.events), len(b.events)), witness(map[string]any{"sprint": i, "events_a": a.events, "events_b": b.events}))
		} else {
			for j := range a.events {
				res.Count("clause.events_equal", 1)
				if strings.Contains(a.events[j], `:*`) {
					res.Count("events.masked_raw_urn", 1)
				}
				if a.events[j] != b.events[j] {
					ta, tb := eventType(a.events[j]), eventType(b.events[j])
					if ta != tb {
						add(2, 0, "C19|event-differs|event-type", fmt.Sprintf("sprint %d event %d: %s vs %s", i, j, ta, tb), witness(map[string]any{"sprint": i, "event_a": a.events[j], "event_b": b.events[j]}))
					} else {
						path := jsonDiffPath(a.events[j], b.events[j])
						add(2, 0, "C19|event-differs|"+ta+"|"+reLang.ReplaceAllString(genericPath(path), ".translations.<lang>."), fmt.Sprintf("sprint %d: %s event differs between the twins at %s", i, ta, path),
							witness(map[string]any{"sprint": i, "event_a": a.events[j], "event_b": b.events[j], "json_path": path}))
					}
					break
				}
			}
		}
		// runs
		if len(a.runs) != len(b.runs) {
			add(3, 0, "C19|twins-diverge|number-of-runs", fmt.Sprintf("sprint %d: %d runs vs %d", i, len(a.runs), len(b.runs)), witness(where))
			continue
		}
		for j := range a.runs {
			x, y := a.runs[j], b.runs[j]
			rw := map[string]any{"sprint": i, "call": a.kind, "run": j, "flow": x.flow, "run_status": x.status}
			if x.ctxPanic != "" || y.ctxPanic != "" {
				res.Count("walk.context_panics", 1)
				res.Seen("context_panic_kinds", x.ctxPanic+y.ctxPanic)
				if x.ctxPanic != y.ctxPanic {
					add(3, 0, "C19|twins-diverge|context-panic", fmt.Sprintf("building/walking the context panics in one twin only: %q vs %q", x.ctxPanic, y.ctxPanic), witness(rw))
				}
				continue
			}
			if x.status != y.status || x.flow != y.flow {
				add(3, 0, "C19|twins-diverge|run-status", fmt.Sprintf("sprint %d run %d: %s/%s vs %s/%s", i, j, x.flow, x.status, y.flow, y.status), witness(rw))
			}
			res.Count("walk.contexts", 1)
			res.Count("clause.walk_equal", int64(len(x.nodes)))
			if sinceSwitch == "urns" {
				res.Count("clause.walk_equal.after_switch_to_urns", int64(len(x.nodes)))
			}
			if a.restarted {
				res.Count("clause.walk_equal.after_restart", int64(len(x.nodes)))
			}
			res.Count("walk.urn_leaves", int64(x.urnLeaves))
			if ra, rb := repeatedIdentities(strings.Fields(a.urnRaw)), repeatedIdentities(strings.Fields(b.urnRaw)); ra != rb {
				// one twin's session contact holds a URN more than once where the other has distinct URNs
				res.Count("clause.walk_equal.repeated_vs_distinct_urns", 1)
			}
			if x.truncated || y.truncated {
				res.Count("walk.node_cap_reached", 1)
			}
			if x.deepest >= walkMaxDepth {
				res.Count("walk.depth_bound_reached", 1)
			}
			res.Count("walk.case_ambiguous_keys_skipped", int64(x.caseAmbiguous))
			if x.urnLeaves > 0 {
				runsWithURN[x.uuid] = true
			}
			observePaths(res, x.nodes)
			if dd := diffWalks(x.nodes, y.nodes); dd != nil {
				add(0, dd.rank, "C19|context-differs|"+sigPath(dd.path)+"|"+dd.aspect,
					fmt.Sprintf("under policy urns the context of run %d (%s) after sprint %d differs between the twins at %s (%s): %q vs %q", j, x.flow, i, dd.path, dd.aspect, trunc(dd.a, 120), trunc(dd.b, 120)),
					witness(map[string]any{"sprint": i, "run": j, "flow": x.flow, "path": dd.path, "aspect": dd.aspect, "twin_a": dd.a, "twin_b": dd.b}))
			}
			checkUnnamed(res, x.nodes, witness, rw)
			checkUnnamed(res, y.nodes, witness, rw)
			// templates
			specs := tpls[[2]int{i, j}]
			for t := range x.tplOut {
				if t >= len(y.tplOut) || t >= len(specs) {
					break
				}
				res.Count("clause.templates_equal", 1)
				if sinceSwitch == "urns" {
					res.Count("clause.templates_equal.after_switch_to_urns", 1)
				}
				res.Seen("template_wrappers", specs[t].Wrapper)
				if urnBearing(specs[t].Path) {
					res.Count("templates.over_urn_paths", 1)
				}
				if strings.HasPrefix(x.tplOut[t], "ok=true") {
					res.Count("templates.evaluated_without_error", 1)
				}
				if x.tplOut[t] != y.tplOut[t] {
					add(1, 0, "C19|template-differs|"+specs[t].Wrapper+"|"+sigPath(specs[t].Path),
						fmt.Sprintf("template %q evaluates differently in the twins: %s vs %s", specs[t].Tpl, trunc(x.tplOut[t], 200), trunc(y.tplOut[t], 200)),
						witness(map[string]any{"sprint": i, "run": j, "flow": x.flow, "template": specs[t], "twin_a": x.tplOut[t], "twin_b": y.tplOut[t]}))
				}
			}
		}
	}
	if !tainted && len(A.sprints) != len(B.sprints) {
		add(3, 0, "C19|twins-diverge|number-of-engine-calls", fmt.Sprintf("twin A made %d engine calls, twin B %d", len(A.sprints), len(B.sprints)), witness(nil))
	}
	return runsWithURN
}

// noneSprint: "without the policy the same expressions do see the URNs" for one sprint of a policy history that ran
// under policy none: wherever the session contact has URNs (textually different in the twins, same shape), every run's
// context must tell the twins apart on a URN-bearing leaf.
func noneSprint(res *fw.Result, a, b sprintObs, i int, afterSwitch bool, witness func(map[string]any) map[string]any) {
	if !a.hasURNs || a.urnRaw == b.urnRaw {
		res.Count("control.none_sprints_without_urns", 1)
		return
	}
	m := len(a.runs)
	if len(b.runs) < m {
		m = len(b.runs)
	}
	for j := 0; j < m; j++ {
		x, y := a.runs[j], b.runs[j]
		if x.ctxPanic != "" || y.ctxPanic != "" || x.uuid != y.uuid {
			continue
		}
		hasLeaf := false
		for _, n := range x.nodes {
			if n.path == "contact.urns[0]" && n.leaf && n.kind != "null" {
				hasLeaf = true
				break
			}
		}
		if !hasLeaf {
			continue
		}
		dn, du := countDiffs(x.nodes, y.nodes)
		res.Count("control.none_differing_nodes", int64(dn))
		res.Count("control.none_differing_urn_leaves", int64(du))
		res.Count("clause.none_sees_urns", 1)
		res.Count("control.none_differs", 1)
		if afterSwitch {
			res.Count("clause.none_sees_urns.after_switch_to_none", 1)
		}
		if a.spell == "empty" || a.spell == "null" {
			res.Count("clause.none_sees_urns.empty_string_or_null_policy", 1)
			res.Count("clause.none_sees_urns.policy_written_as_"+a.spell, 1)
		}
		if du == 0 {
			res.Violate("C19|control|policy-none-hides-urns", fmt.Sprintf("sprint %d ran under policy none, yet the context of run %d (%s) is identical in the twins on every URN-bearing path although their URNs differ", i, j, x.flow),
				witness(map[string]any{"sprint": i, "call": a.kind, "run": j, "flow": x.flow, "policy": "none (in force for this sprint, written as: " + a.spell + ")", "contact_urns_a": a.urnRaw, "contact_urns_b": b.urnRaw}))
			return
		}
	}
}

// urnRoots: the places of the context that are computed from URN values afresh on every evaluation.
var urnRoots = []string{"contact.", "urns.", "input.urn", "run.contact.", "parent.contact.", "parent.urns.", "child.contact.", "child.urns."}

func underURNRoot(path string) bool {
	for _, p := range urnRoots {
		if strings.HasPrefix(path, p) {
			return true
		}
	}
	return false
}

// diffURNLeaves compares only the URN-bearing leaves (matched by path) of two walks.
func diffURNLeaves(res *fw.Result, a, b []wnode) *walkDiff {
	byPath := make(map[string]*wnode, len(b))
	for i := range b {
		if b[i].leaf && urnBearing(b[i].path) {
			byPath[b[i].path] = &b[i]
		}
	}
	var best *walkDiff
	for i := range a {
		x := &a[i]
		if !x.leaf || !urnBearing(x.path) || !underURNRoot(x.path) {
			continue
		}
		y, ok := byPath[x.path]
		if !ok || x.kind != y.kind {
			continue
		}
		res.Count("clause.urn_leaves_equal_after_taint", 1)
		if x.hash == y.hash {
			continue
		}
		dd := &walkDiff{path: x.path, aspect: "text", a: x.render, b: y.render, rank: strings.Count(x.path, ".")}
		switch {
		case x.render != y.render:
		case x.format != y.format:
			dd.aspect, dd.a, dd.b = "format", x.format, y.format
		case x.json != y.json:
			dd.aspect, dd.a, dd.b = "json", x.json, y.json
		default:
			dd.aspect = "text-beyond-preview"
		}
		if best == nil || dd.rank < best.rank {
			best = dd
		}
	}
	return best
}

// observePaths records which URN-bearing places the walk really visited.
func observePaths(res *fw.Result, nodes []wnode) {
	for _, n := range nodes {
		if !n.leaf || n.kind == "null" {
			if n.kind == "null" && urnBearing(n.path) {
				res.Count("walk.urn_paths_null", 1)
			}
			continue
		}
		if urnBearing(n.path) && !liveURNLeaf(n) {
			res.Count("walk.urn_paths_empty_urn", 1) // input.urn of a message without URN
		}
		if liveURNLeaf(n) {
			sp := sigPath(n.path)
			res.Seen("urn_paths", sp)
			switch {
			case strings.HasPrefix(n.path, "parent."):
				res.Count("seen.parent_urn", 1)
			case strings.HasPrefix(n.path, "child."):
				res.Count("seen.child_urn", 1)
			case strings.HasPrefix(n.path, "input."):
				res.Count("seen.input_urn", 1)
			}
			if !strings.Contains(n.render, "********") {
				res.Count("walk.urn_leaf_without_mask", 1) // e.g. input.urn of a msg without URN; informational
			}
		}
		// a result / field whose value was produced by a URN template shows the mask
		if strings.Contains(n.render, "********") && (strings.HasPrefix(n.path, "results.") || strings.HasPrefix(n.path, "fields.")) {
			res.Count("seen.result_from_urn_template", 1)
		}
	}
}

// checkUnnamed: "contacts without a name are shown by id" — for every contact object in the context (contact,
// run.contact, parent.contact, child.contact) whose name is empty, the default (what @contact renders to) is the id;
// and the run / parent / child default, which is "<contact>@<flow>", starts with the id.
func checkUnnamed(res *fw.Result, nodes []wnode, witness func(map[string]any) map[string]any, where map[string]any) {
	name, id, def := map[string]string{}, map[string]string{}, map[string]*wnode{}
	self := map[string]*wnode{}
	hasURNs := map[string]bool{}
	for i := range nodes {
		n := &nodes[i]
		if n.path == "contact" || n.path == "run" || n.path == "parent" || n.path == "child" || strings.HasSuffix(n.path, ".contact") {
			self[n.path] = n
		}
		j := strings.LastIndexByte(n.path, '.')
		if j < 0 {
			continue
		}
		owner, prop := n.path[:j], n.path[j+1:]
		switch prop {
		case "name":
			name[owner] = n.render
		case "id":
			id[owner] = n.render
		case "__default__":
			def[owner] = n
		case "urns[0]":
			hasURNs[owner] = true
		}
	}
	idClass := func(idv string) string {
		switch {
		case idv == "0":
			return "id_zero"
		case strings.HasPrefix(idv, "-"):
			return "id_negative"
		case len(idv) > 9:
			return "id_beyond_int32"
		}
		return "id_positive"
	}
	var owners []string
	for owner := range name {
		owners = append(owners, owner)
	}
	sort.Strings(owners)
	for _, owner := range owners {
		nm := name[owner]
		if owner != "contact" && !strings.HasSuffix(owner, ".contact") {
			continue
		}
		idv, hasID := id[owner]
		dn, hasDef := def[owner]
		if !hasID || !hasDef {
			continue
		}
		if nm != "" {
			res.Count("walk.named_contacts", 1)
			continue
		}
		cls := idClass(idv)
		res.Count("clause.unnamed_by_id", 1)
		res.Count("clause.unnamed_by_id."+cls, 1)
		if hasURNs[owner] {
			res.Count("clause.unnamed_by_id.with_urns", 1)
			res.Count("clause.unnamed_by_id."+cls+"_with_urns", 1)
		}
		if owner != "contact" {
			res.Count("clause.unnamed_by_id.summary_contact", 1)
			res.Count("clause.unnamed_by_id.summary_contact_"+cls, 1)
		}
		// every rendering of the contact: its default as text and formatted, and the object itself (what a bare
		// @contact, text(contact) and format(contact) give)
		shown := []struct{ how, got string }{{"default as text", dn.render}, {"default formatted", dn.format}}
		if sn, ok := self[owner]; ok {
			shown = append(shown, struct{ how, got string }{"object as text", sn.render}, struct{ how, got string }{"object formatted", sn.format})
		}
		for _, sh := range shown {
			if sh.got != idv {
				res.Violate("C19|unnamed-contact-not-shown-by-id|contact", fmt.Sprintf("contact without a name at %s renders (%s) as %q, id is %q", owner, sh.how, sh.got, idv),
					witness(merge(where, map[string]any{"path": owner, "rendering": sh.how, "rendered": sh.got, "id": idv})))
				break
			}
		}
		// the run summary default
		runOwner := strings.TrimSuffix(owner, ".contact")
		if runOwner != owner && (runOwner == "run" || runOwner == "parent" || runOwner == "child") {
			if rd, ok := def[runOwner]; ok {
				res.Count("clause.unnamed_run_by_id", 1)
				res.Count("clause.unnamed_run_by_id."+cls, 1)
				res.Seen("unnamed_run_summaries", runOwner+":"+cls)
				shown := []struct{ how, got string }{{"default as text", rd.render}, {"default formatted", rd.format}}
				if sn, ok := self[runOwner]; ok {
					shown = append(shown, struct{ how, got string }{"object as text", sn.render})
				}
				for _, sh := range shown {
					if !strings.HasPrefix(sh.got, idv+"@") {
						res.Violate("C19|unnamed-contact-not-shown-by-id|run-summary", fmt.Sprintf("@%s renders (%s) as %q for a contact without a name whose id is %q", runOwner, sh.how, sh.got, idv),
							witness(merge(where, map[string]any{"path": runOwner, "rendering": sh.how, "rendered": sh.got, "id": idv})))
						break
					}
				}
			}
		}
	}
}

// contactURNsDiffer: the trigger contact has URNs and they are not textually the same in both twins.
func contactURNsDiffer(a, b *gen.Scenario) bool {
	get := func(s *gen.Scenario) string {
		c, _ := s.Trigger["contact"].(map[string]any)
		us, _ := c["urns"].([]any)
		return fmt.Sprint(us...)
	}
	ua, ub := get(a), get(b)
	return ua != "" && ua != ub
}

func merge(a, b map[string]any) map[string]any {
	out := map[string]any{}
	for k, v := range a {
		out[k] = v
	}
	for k, v := range b {
		out[k] = v
	}
	return out
}

// control: under policy none the walk must tell the twins apart wherever the contact has URNs.
func control(res *fw.Result, A, B *twinObs, contactDiffers bool, spelled string, witness func(map[string]any) map[string]any) {
	res.Count("control.pairs", 1)
	if spelled != "none" {
		res.Count("control.pairs.none_as_empty_string_or_null", 1)
	}
	n := len(A.sprints)
	if len(B.sprints) < n {
		n = len(B.sprints)
	}
	total, urnDiffs, demanded := 0, 0, false
	for i := 0; i < n; i++ {
		a, b := A.sprints[i], B.sprints[i]
		m := len(a.runs)
		if len(b.runs) < m {
			m = len(b.runs)
		}
		for j := 0; j < m; j++ {
			if a.runs[j].ctxPanic != "" || b.runs[j].ctxPanic != "" {
				continue
			}
			dn, du := countDiffs(a.runs[j].nodes, b.runs[j].nodes)
			total += dn
			urnDiffs += du
			if i == 0 && a.runs[j].urnLeaves > 0 && b.runs[j].urnLeaves > 0 {
				demanded = true // the trigger contact has URNs (contactDiffers): contact.urns[i] shows them to every run of the first sprint
			}
		}
		if a.status != b.status || len(a.runs) != len(b.runs) {
			res.Count("control.twins_took_different_paths", 1)
		}
	}
	if len(A.sprints) != len(B.sprints) {
		res.Count("control.twins_took_different_paths", 1)
	}
	res.Count("control.none_differing_nodes", int64(total))
	res.Count("control.none_differing_urn_leaves", int64(urnDiffs))
	if total > 0 {
		res.Count("control.none_differs", 1)
	}
	if demanded && contactDiffers {
		res.Count("clause.none_sees_urns", 1)
		if spelled != "none" {
			res.Count("clause.none_sees_urns.empty_string_or_null_policy", 1)
		}
		if urnDiffs == 0 {
			res.Violate("C19|control|policy-none-hides-urns", "under policy none the context walk of the twins is identical on every URN-bearing path although their URNs differ", witness(nil))
		}
	}
}
