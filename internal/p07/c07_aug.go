package p07

import (
	"strings"

	"verif/internal/fw"
	"verif/internal/gen"
)

// ---------------------------------------------------------------------------------------------
// Two input classes laid over the scenarios of genC07. They draw from a random stream of their own, so the
// scenario genC07 builds for an index is what it always was and only the overlay is new.
//
//  A. has_pattern patterns that differ from one another only in the case of letters, in a way that changes what
//     they mean: upper / lower escape classes (\d \D, \w \W, \s \S, \b \B, \pL \PL) and case-sensitive (?-i)
//     literals. They appear as the pattern of existing has_pattern cases, as a pair of neighbouring cases of one
//     router, and as the translation of a pattern.
//
//  B. resumes that bring an environment of their own (as a host does when the workspace settings were edited
//     between two messages): date format, number format, timezone, default country, allowed languages differ from
//     what was in force, and the text the contact sends is often one whose reading depends on those settings.
// ---------------------------------------------------------------------------------------------

var twinBases = []string{
	`\d+`, `^\d+$`, `^\D+$`, `^\w+$`, `\W`, `\s`, `^\S+$`, `\bred\b`, `\Byes`, `(\w+) (\w+)`, `(\w+)\s(\d+)`, `\d\D`, `[^\d]+`, `^[\W\d]+$`, `\pL+`, `^\PL*$`,
	`(?-i)yes`, `(?-i)RED`, `(?-i:Yes)`, `^(?-i)[a-z]+$`, ` \d+ `, `^y\w*`, `\w+@@\w+\.com`,
}

func flipASCII(c byte) byte {
	switch {
	case c >= 'a' && c <= 'z':
		return c - 32
	case c >= 'A' && c <= 'Z':
		return c + 32
	}
	return c
}

// caseTwin returns a pattern that differs from p only in letter case and means something else: behind (?-i every
// letter changes case, otherwise the letter of every escape class does.
func caseTwin(p string) string {
	b := []byte(p)
	if i := strings.Index(p, "(?-i"); i >= 0 {
		for j := i + 4; j < len(b); j++ {
			if j > 0 && b[j-1] == '\\' {
				continue
			}
			b[j] = flipASCII(b[j])
		}
		return string(b)
	}
	for j := 1; j < len(b); j++ {
		if b[j-1] == '\\' && (j < 2 || b[j-2] != '\\') && strings.IndexByte("dDwWsSbBpP", b[j]) >= 0 {
			b[j] = flipASCII(b[j])
		}
	}
	return string(b)
}

// texts whose reading depends on date format, number format, country or timezone
var envSensitiveTexts = []string{
	"01-02-2020", "my birthday is 01-02-2020 ok", "03-04-2021", "05-06-2019 23:30", "1.500", "1,5", "2.000,75", "17,5 kg", "0788383383", "call 0788383383",
	"2065551212", "2020-01-01 01:30", "si", "yes", "12/11/2019",
}

func augmentC07(r *fw.Rand, scen *gen.Scenario, meta *c07Meta) {
	augmentPatterns(r, scen, meta)
	augmentEnvironments(r, scen, meta)
}

func switchRouters(scen *gen.Scenario) (out []struct{ flow, router M }) {
	for _, f := range scen.Flows() {
		nodes, _ := f["nodes"].([]any)
		for _, n := range nodes {
			nm, _ := n.(M)
			rt, _ := nm["router"].(M)
			if rt != nil && rt["type"] == "switch" {
				out = append(out, struct{ flow, router M }{f, rt})
			}
		}
	}
	return out
}

func augmentPatterns(r *fw.Rand, scen *gen.Scenario, meta *c07Meta) {
	for _, fr := range switchRouters(scen) {
		cs, _ := fr.router["cases"].([]any)
		if len(cs) == 0 {
			continue
		}
		// a pair of neighbouring cases becomes two patterns that are each other's twin
		if len(cs) >= 2 && r.Chance(0.07) {
			k := r.Intn(len(cs) - 1)
			p := fw.Pick(r, twinBases)
			q := caseTwin(p)
			if r.Bool() {
				p, q = q, p
			}
			for j, pat := range []string{p, q} {
				c := cs[k+j].(M)
				c["type"] = "has_pattern"
				c["arguments"] = []string{pat}
			}
			meta.Injected = append(meta.Injected, "pattern-twin-pair")
		}
		for _, ci := range cs {
			c := ci.(M)
			if c["type"] != "has_pattern" {
				continue
			}
			args, _ := c["arguments"].([]string)
			if len(args) != 1 {
				continue
			}
			if r.Chance(0.5) {
				p := fw.Pick(r, twinBases)
				if r.Bool() {
					p = caseTwin(p)
				}
				args = []string{p}
				c["arguments"] = args
				meta.Injected = append(meta.Injected, "pattern-from-twin-pool")
			}
			// the translation of a pattern is its twin
			loc, _ := fr.flow["localization"].(M)
			for _, lang := range []string{"eng", "spa", "fra", "kin"} {
				lm, _ := loc[lang].(M)
				if lm == nil {
					continue
				}
				im, _ := lm[c["uuid"].(string)].(M)
				if im == nil {
					continue
				}
				if tr, ok := im["arguments"].([]string); ok && len(tr) == 1 && caseTwin(args[0]) != args[0] && r.Chance(0.4) {
					im["arguments"] = []string{caseTwin(args[0])}
					meta.Injected = append(meta.Injected, "pattern-twin-translation")
				}
			}
		}
	}
}

func copyM(m M) M {
	out := M{}
	for k, v := range m {
		out[k] = v
	}
	return out
}

// variedEnv changes one to three settings of env.
func variedEnv(r *fw.Rand, env M) M {
	out := copyM(env)
	other := func(cur any, all []string) string {
		for {
			v := fw.Pick(r, all)
			if v != cur {
				return v
			}
		}
	}
	n := r.Range(1, 3)
	for i := 0; i < n; i++ {
		switch r.Weighted([]int{30, 20, 15, 15, 20}) {
		case 0:
			out["date_format"] = other(out["date_format"], []string{"YYYY-MM-DD", "DD-MM-YYYY", "MM-DD-YYYY"})
		case 1:
			if _, has := out["number_format"]; has {
				delete(out, "number_format")
			} else {
				out["number_format"] = M{"decimal_symbol": ",", "digit_grouping_symbol": "."}
			}
		case 2:
			out["timezone"] = other(out["timezone"], []string{"UTC", "Africa/Kigali", "America/Guayaquil", "Asia/Kolkata"})
		case 3:
			if cur, has := out["default_country"]; has && r.Chance(0.2) {
				_ = cur
				delete(out, "default_country")
			} else {
				out["default_country"] = other(out["default_country"], []string{"US", "RW", "EC"})
			}
		default:
			out["allowed_languages"] = [][]string{{"eng", "spa"}, {"spa", "eng"}, {"spa"}, {}, {"fra", "spa", "eng"}, {"eng"}, {"kin", "fra"}, {"spa", "fra", "kin"}, {"fra"}}[r.Intn(9)]
		}
	}
	return out
}

func augmentEnvironments(r *fw.Rand, scen *gen.Scenario, meta *c07Meta) {
	if len(scen.Resumes) == 0 || !r.Chance(0.35) {
		return
	}
	base, _ := scen.Trigger["environment"].(M)
	if base == nil {
		return
	}
	cur := base
	forced := r.Intn(len(scen.Resumes))
	n := 0
	for i, m := range scen.Resumes {
		if i != forced && !r.Chance(0.3) {
			continue
		}
		switch {
		case n > 0 && r.Chance(0.2):
			cur = base // the settings are put back
		case n > 0 && r.Chance(0.15):
			// the host sends the environment along although nothing changed
		default:
			cur = variedEnv(r, cur)
		}
		m["environment"] = cur
		n++
		if msg, ok := m["msg"].(M); ok && r.Chance(0.5) {
			msg["text"] = fw.Pick(r, envSensitiveTexts)
		}
	}
	meta.Injected = append(meta.Injected, "resume-environment")
}
