package p07

// Directed corners of the localization grid (DESIGN.md appendix C).

func c18Cfg(base string, allowed []string, contact string, fill int) *c18Config {
	cfg := &c18Config{Base: base, Allowed: allowed, Contact: contact, L0: "spa", BaseAtt: 2, Country: "US"}
	for it := 0; it < numItems; it++ {
		cfg.States[it] = map[string]int{}
		for _, l := range nonBase(base) {
			cfg.States[it][l] = fill
		}
	}
	return cfg
}

func (c *c18Config) all(lang string, state int) *c18Config {
	for it := 0; it < numItems; it++ {
		c.States[it][lang] = state
	}
	return c
}

func (c *c18Config) set(it int, lang string, state int) *c18Config {
	c.States[it][lang] = state
	return c
}

func (c *c18Config) voice(textStates, audioStates map[string]int) *c18Config {
	c.Voice = true
	c.VStates = [2]map[string]int{{}, {}}
	for _, l := range nonBase(c.Base) {
		c.VStates[0][l], c.VStates[1][l] = textStates[l], audioStates[l]
	}
	return c
}

func (c *c18Config) revisit(lang2, from string) *c18Config {
	c.Revisit, c.Lang2, c.RevisitFrom = true, lang2, from
	return c
}

func (c *c18Config) tpl(urns []string, trans map[string][]string) *c18Config {
	c.Tpl = &c18Tpl{URNs: urns, Trans: trans, OnM1: true, OnM2: true}
	return c
}

// untranslatedCases: the case arguments are the base ones in every language, so that (with the selector in the base language)
// every visit of the routers gives the same category and value whatever the contact speaks
func (c *c18Config) untranslatedCases() *c18Config {
	c.L0 = c.Base
	for _, it := range []int{itR1Case1, itR1Case2, itR2Case1} {
		for _, l := range nonBase(c.Base) {
			c.States[it][l] = stAbsent
		}
	}
	return c
}

func c18DirectedConfig(name string) *c18Config {
	switch name {
	// histories: the flow changes the contact's language and goes through its items again; what is evaluated again follows the
	// new chain and the results saved again (same value and category) show the category localized for the new chain
	case "language-set-by-flow-then-everything-again":
		return c18Cfg("eng", []string{"spa", "fra"}, "spa", stSame).untranslatedCases().revisit("fra", "n1")
	case "language-set-by-flow-then-routers-again":
		c := c18Cfg("eng", []string{"fra", "spa"}, "", stSame).revisit("spa", "r1")
		c.L0 = "none"
		return c
	case "language-set-by-flow-to-one-not-allowed":
		return c18Cfg("kin", []string{"fra", "spa"}, "spa", stSame).untranslatedCases().revisit("eng", "n1")
	case "language-set-by-flow-before-environment-refresh":
		c := c18Cfg("eng", []string{"spa", "fra"}, "fra", stSame).untranslatedCases().revisit("spa", "n1")
		c.Phase2, c.Allowed2 = true, []string{"fra", "spa"}
		return c
	case "language-set-by-flow-voice":
		return c18Cfg("eng", []string{"spa", "fra"}, "spa", stSame).untranslatedCases().revisit("fra", "n1").voice(map[string]int{"spa": stSame, "fra": stSame}, map[string]int{"fra": stSame})
	// several destinations: a template translated for some of the contact's channels only, in a language that is not the one
	// the flow's text comes from
	case "template-for-first-destination-only":
		return c18Cfg("eng", []string{"spa", "fra"}, "spa", stSame).tpl([]string{"wa", "tel"}, map[string][]string{"wa": {"fra"}})
	case "template-between-flow-texts":
		return c18Cfg("eng", []string{"fra"}, "", stSame).tpl([]string{"tel", "wa", "tw"}, map[string][]string{"wa": {"kin-RW"}})
	case "template-before-text-less-message":
		return c18Cfg("eng", []string{"spa"}, "spa", stAbsent).set(itM1Text, "spa", stVariant).set(itM2Text, "spa", stVariant).set(itM2Att, "spa", stSame).set(itM2QR, "spa", stSame).
			tpl([]string{"tel", "tw"}, map[string][]string{"tel": {"fra", "kin"}})
	case "template-for-every-destination-but-the-last":
		return c18Cfg("spa", []string{"kin", "eng"}, "eng", stSame).tpl([]string{"tw", "wa", "tel"}, map[string][]string{"tw": {"eng-US", "fra"}, "wa": {"fra-RW"}})
	case "template-and-language-set-by-flow":
		return c18Cfg("eng", []string{"spa", "fra"}, "spa", stSame).untranslatedCases().revisit("fra", "n1").tpl([]string{"wa", "tel", "tw"}, map[string][]string{"wa": {"spa"}, "tel": {"eng"}})
	// the localization has a section for the flow's own base language: never used, wherever the base language stands in the chain
	case "base-section-contact-is-base":
		c := c18Cfg("eng", []string{"spa", "eng"}, "eng", stSame)
		c.BaseSection = true
		return c
	case "base-section-nothing-else-translated":
		c := c18Cfg("spa", []string{"eng", "fra"}, "fra", stAbsent)
		c.BaseSection = true
		return c
	case "base-section-base-is-default":
		c := c18Cfg("eng", []string{"eng", "spa"}, "", stSame)
		c.BaseSection = true
		return c
	// the allowed languages change while the session waits
	case "environment-refresh-drops-contact-language":
		c := c18Cfg("eng", []string{"spa", "fra"}, "spa", stSame)
		c.Phase2, c.Allowed2 = true, []string{"fra"}
		return c
	case "environment-refresh-allows-contact-language":
		c := c18Cfg("eng", []string{"fra"}, "spa", stSame)
		c.Phase2, c.Allowed2 = true, []string{"fra", "spa"}
		return c
	case "environment-refresh-changes-default":
		c := c18Cfg("eng", []string{"fra", "kin"}, "", stSame)
		c.Phase2, c.Allowed2 = true, []string{"kin", "fra"}
		return c
	// say_msg: text and recording translated in different languages
	case "voice-text-and-recording-in-different-languages":
		return c18Cfg("eng", []string{"fra", "spa"}, "spa", stSame).voice(map[string]int{"spa": stSame, "fra": stSame}, map[string]int{"fra": stSame})
	case "voice-recording-only-translated":
		return c18Cfg("eng", []string{"spa"}, "spa", stAbsent).voice(map[string]int{}, map[string]int{"spa": stSame})
	case "voice-text-only-translated":
		return c18Cfg("eng", []string{"spa"}, "spa", stAbsent).voice(map[string]int{"spa": stSame}, map[string]int{})
	case "voice-whitespace-text":
		c := c18Cfg("eng", []string{"fra", "spa"}, "spa", stSame).voice(map[string]int{"spa": stSpace}, map[string]int{"fra": stSame})
		c.BaseSection = true
		return c
	case "blank-translations":
		return c18Cfg("eng", []string{"spa", "eng"}, "spa", stSame).all("spa", stBlank)
	case "argument-list-lengths":
		return c18Cfg("eng", []string{"spa", "eng"}, "spa", stSame).set(itR1Case1, "spa", stLonger).set(itR1Case2, "spa", stSame).set(itR2Case1, "spa", stVariant).
			set(itM1Att, "spa", stVariant).set(itM1QR, "spa", stLonger).set(itM1Text, "spa", stLonger)
	case "contact-language-not-allowed":
		return c18Cfg("eng", []string{"fra", "eng"}, "kin", stAbsent).all("kin", stSame).set(itM1Text, "fra", stSame).set(itR1Case1, "fra", stSame)
	case "base-is-default":
		return c18Cfg("eng", []string{"eng", "spa"}, "", stSame)
	case "no-allowed-languages":
		return c18Cfg("eng", []string{}, "spa", stSame)
	case "contact-is-base-default-translated":
		return c18Cfg("eng", []string{"spa", "eng"}, "eng", stSame)
	case "text-less-attachments":
		return c18Cfg("eng", []string{"spa"}, "spa", stAbsent).set(itM1Text, "spa", stVariant).set(itM2Text, "spa", stVariant).set(itM2Att, "spa", stSame).set(itM2QR, "spa", stSame)
	case "text-less-quick-replies":
		return c18Cfg("eng", []string{"spa"}, "spa", stAbsent).set(itM1Text, "spa", stVariant).set(itM1Att, "spa", stEmpty).set(itM2Text, "spa", stVariant).set(itM2QR, "spa", stSame)
	case "text-less-empty":
		return c18Cfg("eng", []string{"spa"}, "spa", stAbsent).set(itM2Text, "spa", stVariant)
	case "nothing-translated":
		return c18Cfg("spa", []string{"eng", "fra"}, "fra", stAbsent)
	case "second-preference-wins":
		c := c18Cfg("eng", []string{"fra", "spa"}, "spa", stSame).all("spa", stAbsent)
		c.L0 = "fra"
		return c.set(itM1Text, "spa", stBlank).set(itM1Att, "spa", stEmpty).set(itR1Case1, "spa", stBlank)
	case "independent-properties":
		return c18Cfg("eng", []string{"fra", "spa"}, "spa", stAbsent).set(itM1Text, "spa", stSame).set(itM1Att, "fra", stSame).set(itSetCategory, "fra", stLonger).
			set(itR1Case1, "spa", stSame).set(itR1CatA, "fra", stSame).set(itR1CatA, "spa", stVariant)
	// multi-element / whitespace translations with empty elements: non-empty translations by the statement, so the first
	// preference (spa) wins everywhere although the second preference (fra) has a complete translation
	case "all-empty-pair-translations":
		c := c18Cfg("eng", []string{"fra", "spa"}, "spa", stSame).all("spa", stAllEmpty2)
		c.L0 = "fra"
		return c
	case "all-empty-triple-translations":
		c := c18Cfg("kin", []string{"fra", "spa"}, "spa", stSame).all("spa", stAllEmpty3)
		c.L0, c.BaseAtt = "fra", 1
		return c
	case "all-empty-before-base":
		c := c18Cfg("eng", []string{"spa"}, "spa", stAbsent).all("spa", stAllEmpty2).set(itR2Case1, "spa", stAllEmpty3).set(itM2QR, "spa", stAllEmpty3)
		c.L0 = "eng"
		return c
	case "first-element-empty-translations":
		return c18Cfg("eng", []string{"fra", "spa"}, "spa", stSame).all("spa", stEmptyFirst)
	case "last-element-empty-translations":
		return c18Cfg("eng", []string{"fra", "spa"}, "spa", stSame).all("spa", stEmptyLast)
	case "whitespace-translations":
		return c18Cfg("eng", []string{"fra", "spa"}, "spa", stSame).all("spa", stSpace)
	case "empty-and-whitespace-translations":
		return c18Cfg("eng", []string{"fra", "spa"}, "spa", stSame).all("spa", stSpaceMix)
	case "text-less-all-empty-lists":
		// text-less messages whose chosen attachments / quick replies are all dropped at evaluation
		return c18Cfg("eng", []string{"fra", "spa"}, "spa", stAbsent).set(itM1Text, "spa", stAllEmpty2).set(itM1Att, "spa", stAllEmpty2).set(itM1QR, "fra", stSame).
			set(itM2Text, "spa", stVariant).set(itM2QR, "spa", stAllEmpty2).set(itM2QR, "fra", stSame)
	case "mixed-empty-shapes":
		c := c18Cfg("spa", []string{"kin", "eng", "fra"}, "eng", stSame)
		c.L0 = "kin"
		for it := 0; it < numItems; it++ {
			c.set(it, "eng", c18NewStates[it%len(c18NewStates)]).set(it, "kin", c18NewStates[(it+3)%len(c18NewStates)])
		}
		return c
	}
	return c18Cfg("eng", []string{"eng"}, "", stAbsent)
}
