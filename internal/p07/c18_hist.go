package p07

import (
	"encoding/json"
	"strings"

	"github.com/nyaruka/goflow/flows"

	"verif/internal/drive"
	"verif/internal/fw"
	"verif/internal/gen"
)

// Two families of C18 scenarios that go beyond "every item is evaluated once for one contact language and one destination":
//
//  1. histories (Revisit): after the second router a guard on @contact.language sends a contact who does not yet speak Lang2
//     through a set_contact_language action and back to the start of the flow (n1) or to the first router (r1). The items
//     visited again are evaluated for ANOTHER preference chain, and the results saved again (same names) must show the
//     category localized for the chain of the LAST visit. The reference follows the contact's language along the run's path
//     from the definition we wrote (trusted: set_contact_language sets the language - cross-checked against the session's
//     contact at the end of the sprint, no verdict if they differ; has_only_phrase on @contact.language in the guard).
//
//  2. several destinations (Tpl): the send_msg actions have all_urns and a template; the contact has 2-3 URNs on different
//     channels and the template is translated for some of the channels only, in locales that are independent of the flow's
//     languages. Every destination gets its own message: a templated one (text = the template translation, marked with its
//     channel and locale) or the flow's own localized text. Each message is judged on its own: the flow-text messages by the
//     reference chain exactly like a single message, the templated ones only for "the locale names the language used for the
//     text" (the translation whose content is the text). Which destinations exist and which translation a channel gets is NOT
//     predicted (not part of the statement): a message is classified by its own "templating".

type c18Tpl struct {
	URNs  []string            `json:"contact_urns"`          // keys of c18URNs, in the contact's order (tel always among them)
	Trans map[string][]string `json:"template_translations"` // channel key -> locales the template is translated to for that channel
	OnM1  bool                `json:"on_m1"`
	OnM2  bool                `json:"on_m2"`
}

var c18URNKeys = []string{"tel", "tw", "wa"}

var c18URNs = map[string]string{"tel": "tel:+12065551212", "tw": "twitterid:54784326227#nyaruka", "wa": "whatsapp:250788123123"}

var c18TplLocales = []string{"eng", "spa", "fra", "kin", "eng-US", "spa-EC", "fra-RW", "kin-RW"}

func c18Channel(key string) M {
	switch key {
	case "tw":
		return M{"uuid": gen.NamedUUID("chan:twitter"), "name": "Twitter", "address": "nyaruka", "schemes": []string{"twitterid"}, "roles": []string{"send", "receive"}}
	case "wa":
		return M{"uuid": gen.NamedUUID("chan:whatsapp"), "name": "WhatsApp", "address": "250788000111", "schemes": []string{"whatsapp"}, "roles": []string{"send", "receive"}}
	}
	return M{"uuid": gen.NamedUUID("chan:android"), "name": "Android"}
}

func c18TplContent(ch, locale string) string { return "TPL-" + ch + "-" + locale }

// localeOfTemplateText: the locale of the template translation whose content is the given text ("" = none).
func (t *c18Tpl) localeOfTemplateText(text string) string {
	for _, ch := range c18URNKeys {
		for _, loc := range t.Trans[ch] {
			if c18TplContent(ch, loc) == text {
				return loc
			}
		}
	}
	return ""
}

func c18RandomTpl(r *fw.Rand) *c18Tpl {
	t := &c18Tpl{Trans: map[string][]string{}}
	keys := append([]string{}, c18URNKeys...)
	if r.Chance(0.4) { // two URNs: tel and one other
		keys = []string{"tel", fw.Pick(r, []string{"tw", "wa"})}
	}
	fw.Shuffle(r, keys)
	t.URNs = keys
	for _, ch := range c18URNKeys {
		if r.Chance(0.45) {
			continue // no translation for this channel: its message is the flow's own text
		}
		n := r.Range(1, 2)
		var locs []string
		for len(locs) < n {
			if l := fw.Pick(r, c18TplLocales); !contains(locs, l) {
				locs = append(locs, l)
			}
		}
		t.Trans[ch] = locs
	}
	switch r.Intn(4) {
	case 0:
		t.OnM1 = true
	case 1:
		t.OnM2 = true
	default:
		t.OnM1, t.OnM2 = true, true
	}
	return t
}

// c18RandomHistory adds the two families to a random point (drawn after everything else, so the rest of the point is what it
// was before the families existed).
func c18RandomHistory(cfg *c18Config, r *fw.Rand) {
	if r.Chance(0.25) {
		cfg.Revisit = true
		var allowedOthers, others []string
		for _, l := range langUniverse {
			if l != cfg.Contact {
				others = append(others, l)
				if contains(cfg.Allowed, l) {
					allowedOthers = append(allowedOthers, l)
				}
			}
		}
		if len(allowedOthers) > 0 && r.Chance(0.75) {
			cfg.Lang2 = fw.Pick(r, allowedOthers)
		} else {
			cfg.Lang2 = fw.Pick(r, others)
		}
		cfg.RevisitFrom = fw.Pick(r, []string{"n1", "n1", "r1"})
	}
	if r.Chance(0.2) {
		cfg.Tpl = c18RandomTpl(r)
	}
}

// applyTpl puts the channels, the template and the contact's URNs of the several-destinations family into the scenario.
func (t *c18Tpl) apply(assets M, contact M, m1, m2 M) {
	chans := assets["channels"].([]M)
	for _, k := range []string{"tw", "wa"} {
		chans = append(chans, c18Channel(k))
	}
	assets["channels"] = chans
	var trs []M
	for _, ch := range c18URNKeys {
		c := c18Channel(ch)
		for _, loc := range t.Trans[ch] {
			trs = append(trs, M{"channel": M{"uuid": c["uuid"], "name": c["name"]}, "locale": loc, "variables": []any{},
				"components": []M{{"name": "body", "type": "body/text", "content": c18TplContent(ch, loc), "variables": M{}}}})
		}
	}
	if trs == nil {
		trs = []M{}
	}
	ref := M{"uuid": gen.NamedUUID("template:greet"), "name": "greet"}
	assets["templates"] = []M{{"uuid": ref["uuid"], "name": "greet", "translations": trs}}
	var us []string
	for _, k := range t.URNs {
		us = append(us, c18URNs[k])
	}
	contact["urns"] = us
	for k, m := range []M{m1, m2} {
		if (k == 0 && t.OnM1) || (k == 1 && t.OnM2) {
			m["all_urns"] = true
			m["template"] = ref
		}
	}
}

// ---------------------------------------------------------------------------------------------
// what the monitor reads
// ---------------------------------------------------------------------------------------------

type c18Msg struct {
	Text         string          `json:"text"`
	Attachments  []string        `json:"attachments"`
	QuickReplies []string        `json:"quick_replies"`
	Locale       string          `json:"locale"`
	URN          string          `json:"urn"`
	Templating   json.RawMessage `json:"templating"`
}

func (m *c18Msg) templated() bool { return len(m.Templating) > 0 && string(m.Templating) != "null" }

type c18Event struct {
	Type     string  `json:"type"`
	StepUUID string  `json:"step_uuid"`
	Text     string  `json:"text"`
	Msg      *c18Msg `json:"msg"`
}

// c18MsgGroup: the messages one evaluation of a send_msg created (one per destination), with the error events of that evaluation.
type c18MsgGroup struct {
	Step           string
	Msgs           []*c18Msg
	AttErr, QRsErr int
}

func c18MsgGroups(rec *drive.CallRecord) []*c18MsgGroup {
	var out []*c18MsgGroup
	attErr, qrsErr := 0, 0
	for _, b := range rec.EventsJSON {
		var e c18Event
		json.Unmarshal(b, &e)
		switch {
		case e.Type == "error" && strings.Contains(e.Text, "attachment evaluated to invalid value"):
			attErr++
		case e.Type == "error" && strings.Contains(e.Text, "quick reply evaluated to empty string"):
			qrsErr++
		case e.Type == "msg_created" && e.Msg != nil:
			if n := len(out); n > 0 && out[n-1].Step == e.StepUUID && attErr == 0 && qrsErr == 0 {
				out[n-1].Msgs = append(out[n-1].Msgs, e.Msg)
			} else {
				out = append(out, &c18MsgGroup{Step: e.StepUUID, Msgs: []*c18Msg{e.Msg}, AttErr: attErr, QRsErr: qrsErr})
			}
			attErr, qrsErr = 0, 0
		}
	}
	return out
}

// c18Visit: one step of the run's path with the contact language the reference follows along the path.
type c18Visit struct {
	Step    string // step uuid
	Node    string // name of the node in the C18 flow ("" = not one of ours)
	Exit    string
	Contact string // contact language when the step was entered
}

var c18NodeNames = []string{"n1", "r1", "r2", "lr", "sl", "w", "n3"}

// c18Walk follows the contact's language along the path: it is the trigger's until a step at the node with the
// set_contact_language action (sl) has been passed, Lang2 afterwards. Returns the visits and the language at the end.
func c18Walk(run flows.Run, cfg *c18Config, triggerLang string) ([]c18Visit, string) {
	names := map[string]string{}
	for _, n := range c18NodeNames {
		names[gen.NamedUUID("node:"+n)] = n
	}
	lang := triggerLang
	var out []c18Visit
	for _, st := range run.Path() {
		v := c18Visit{Step: string(st.UUID()), Node: names[string(st.NodeUUID())], Exit: string(st.ExitUUID()), Contact: lang}
		out = append(out, v)
		if v.Node == "sl" && cfg.Revisit {
			lang = cfg.Lang2
		}
	}
	return out, lang
}
