package p07

import (
	"encoding/json"
	"fmt"
	"sort"
	"strings"
	"time"

	"github.com/nyaruka/goflow/envs"
	"github.com/nyaruka/goflow/excellent/types"
	"github.com/nyaruka/goflow/flows"
	"github.com/shopspring/decimal"

	"verif/internal/drive"
	"verif/internal/fw"
	"verif/internal/gen"
)

// C07 — routers take the exit their definition prescribes.

type c07 struct{}

func init() { fw.Register(&c07{}) }

func (p *c07) ID() string { return "C07" }

func (p *c07) Rule() string {
	return "case = one dedicated scenario `[setup] -> wait node -> [plain node] -> router under test -> one sink node per exit` (or the router carrying the wait itself, a router without any wait reached in the " +
		"start sprint, or a msg trigger with the router as first node so that its wait is skipped); in 20% of the cases that flow is entered from a parent flow whose switch router splits on @child.* when the child " +
		"returns (findResumeExit). 1-6 resumes (msg / wait_timeout / run_expiration); sinks are plain send_msg nodes that optionally lead back to the wait, so routers route again on later resumes. " +
		"Router under test: switch over all tests registered in cases.XTESTS (0-6 cases, arguments derived from the text the contact sends so that several cases match, arity / @(1/0) / broken-template / wrong-type " +
		"arguments, expression arguments, arguments localized per language in the states absent/same/[]/[\"\"]/shorter/longer, duplicate category names, categories sharing exits, with/without default, with/without " +
		"result_name, operands from input, fields, results, contact, urns, globals, trigger, child; MaxResultChars down to 0) or random (1-8 categories, draws planted on and next to category boundaries). " +
		"After every engine call each step that left a node in that sprint (every run of the session) is compared with a reference router working on our own parse of the generated JSON: operand and localized " +
		"arguments (reference language chain; a translation whose length differs from the base arguments is ignored) evaluated with Evaluator.TemplateValue on the run's root context rebuilt right after the sprint " +
		"(generated templates never reference anything a later step of the sprint changes: no run.*, node.*, own result, bare @results, rand(); the clock is frozen per engine call), tests called through cases.XTESTS " +
		"in definition order, first truthy non-error result wins, else default, else no category => the run must fail with 'failed to pick a category'. Timeout resume => the wait's timeout category; random => " +
		"floor(r*n) in exact decimal arithmetic on the recorded draw; no router => first exit. With a result name the stored result (and the run_result_changed event when present) must carry category name, value " +
		"(match text / operand text) and input (operand text), modulo truncation to MaxResultChars. " +
		"Overlay (own random stream, c07_aug.go): has_pattern patterns that differ only in letter case and mean something else (\\d/\\D, \\w/\\W, \\s/\\S, \\b/\\B, \\pL/\\PL, (?-i) literals) as single patterns, as neighbouring cases of one router and " +
		"as translations of one another; in 35% of the cases one or more resumes bring an environment of their own (date format, number format, timezone, default country, allowed languages changed, put back, or repeated) and often a text whose reading depends on it. " +
		"The environment of the reference is built from our own record of the history (the trigger's environment JSON, replaced by that of every accepted resume that carried one) with the contact's timezone/language/country merged in by our own code; " +
		"session.MergedEnvironment() is never asked. has_pattern is judged by our own use of package regexp (compiled anew every time), not by the registered test. " +
		"TRUSTED BASE: the Excellent evaluator and the test functions other than has_pattern (only the selection logic, result bookkeeping and exit mapping are under test), envs.ReadEnvironment, flows.NewAssetsEnvironment, package regexp. " +
		"Non-trivial = a checked router decision with >= 2 cases, or an erroring case, or a default / timeout / random / no-category decision; distinct = SHA of (assets, trigger, resumes, options)."
}

var c07Directed = []string{
	"every-test-first-of-three", "every-test-middle-of-three", "every-test-last-of-three",
	"erroring-first-case", "no-default-no-match", "duplicate-categories", "timeout-vs-default",
	"random-1", "random-2", "random-7", "localized-arguments", "no-router-first-exit", "result-truncation", "expiration", "subflow-split",
	"pattern-case-twins", "environment-from-resume",
}

func (p *c07) Directed() []string { return c07Directed }

func (p *c07) NumGenerated(tier string) int {
	if tier == "thorough" {
		return 600000
	}
	return 12000
}
func (p *c07) BatchSize(tier string) int {
	if tier == "thorough" {
		return 4000
	}
	return 400
}
func (p *c07) CaseTimeoutS() int { return 120 }

func (p *c07) Floors(tier string) []string {
	return []string{
		"clause.exit", "clause.no_category_fails_run", "clause.result_category", "clause.result_value", "clause.result_input", "clause.event_agrees", "clause.segment_exit",
		"decision.case", "decision.default", "decision.none", "decision.timeout", "decision.random", "decision.norouter",
		"seen.error_before_winner", "seen.multi_match", "seen.localized_args_used", "seen.args_length_mismatch", "seen.shared_exit", "seen.duplicate_category_name",
		"seen.result_unchanged_no_event", "seen.truncated_value", "winner.first", "winner.middle", "winner.last",
		"call.resume.msg", "call.resume.wait_timeout", "call.resume.run_expiration", "call.start",
		"directed.position_as_intended", "random.redraw_agrees", "random.exact_boundary_draw", "seen.router_after_child_returned", "seen.router_in_child_run",
		"pattern.judged_by_own_regexp", "seen.pattern_case_twin", "seen.pattern_twin_distinguishes",
		"call.resume.with_environment", "seen.env_changed_by_resume", "seen.router_after_env_change", "seen.decision_depends_on_env_change", "env.reference_from_own_record",
	}
}

func (p *c07) Run(c fw.Case) fw.Result {
	res := fw.Result{}
	if c.Directed != "" {
		scens := c07DirectedScens(c.Directed)
		var fps []string
		for _, ds := range scens {
			fps = append(fps, ds.scen.Fingerprint())
			p.runScenario(&res, ds.scen, ds.plants, c, ds.intent)
		}
		res.Fingerprint = strings.Join(fps, "\n")
		res.NonTrivial = true
		res.Sample = map[string]any{"directed": c.Directed, "scenarios": len(scens)}
		return res
	}
	r := fw.NewRand(c.Seed, "C07", c.Index)
	scen, meta := genC07(r)
	augmentC07(fw.NewRand(c.Seed, "C07/overlay", c.Index), scen, meta)
	res.Fingerprint = scen.Fingerprint()
	shape := meta.Shape + "/" + meta.Kind
	if meta.Parent {
		shape = "parent>" + shape
	}
	res.Seen("shapes", shape)
	res.Seen("operand_kinds", meta.OperandKind)
	for _, inj := range meta.Injected {
		res.Count("injected."+inj, 1)
	}
	nt := p.runScenario(&res, scen, meta.Plants, c, nil)
	if res.Discarded != "" {
		return res
	}
	res.NonTrivial = nt
	if nt {
		res.Sample = map[string]any{"shape": shape, "kind": meta.Kind, "operand_kind": meta.OperandKind, "tests": meta.Tests, "injected": meta.Injected,
			"resumes": resumeTypes(scen), "router": routerOf(scen)}
	}
	return res
}

func resumeTypes(scen *gen.Scenario) []string {
	var out []string
	for _, m := range scen.Resumes {
		out = append(out, fmt.Sprint(m["type"]))
	}
	return out
}

func routerOf(scen *gen.Scenario) any {
	for _, f := range scen.Flows() {
		for _, n := range f["nodes"].([]any) {
			if n.(M)["uuid"] == gen.NamedUUID("node:r") {
				return n.(M)["router"]
			}
		}
	}
	return nil
}

// intent: what a directed scenario is built to show (checked with counters, never a violation).
type c07Intent struct {
	winnerCase int // expected winning case index at node r, -1 = none
}

func (p *c07) runScenario(res *fw.Result, scen *gen.Scenario, plants []int64, c fw.Case, intent *c07Intent) (nonTrivial bool) {
	h, err := openHarness(scen, c.Seed, plants)
	if err != nil {
		if c.Directed != "" {
			res.Inconclusive = "directed scenario unloadable: " + err.Error()
			return false
		}
		res.Discarded = "unloadable: " + errClass(err.Error())
		return false
	}
	// our own record of the environment in force: the trigger's, replaced by that of every accepted resume carrying one
	track := &envTrack{cur: rawEnvOf(scen.Trigger)}
	plog := &patternLog{}
	h.run(func(rec *drive.CallRecord, pre plantState) {
		if rec.Kind == "unreadable" {
			res.Count("call.unreadable", 1)
			return
		}
		track.changed = false
		if rec.Kind == "resume" {
			var sent map[string]any
			json.Unmarshal(rec.ResumeJSON, &sent) // the resume as it was handed to the reader
			if raw := rawEnvOf(sent); raw != nil {
				res.Count("call.resume.with_environment", 1)
				// a resume the wait rejects (or that hits a session which cannot be resumed) changes nothing
				applied := rec.Panic == nil && !rec.Budget && (rec.Err == nil || strings.Contains(rec.Err.Error(), "error routing from node"))
				if applied && string(raw) != string(track.cur) {
					track.prev, track.cur, track.changed = track.cur, raw, true
					track.changes++
					res.Count("seen.env_changed_by_resume", 1)
				}
			}
		}
		if p.checkSprint(res, h, rec, pre, intent, track, plog) {
			nonTrivial = true
		}
	})
	if len(h.rn.Log) > 0 && h.rn.Log[0].Kind == "unreadable" {
		if c.Directed != "" {
			res.Inconclusive = "directed scenario has unreadable trigger: " + h.rn.Log[0].Err.Error()
			return false
		}
		res.Discarded = "unreadable trigger: " + errClass(h.rn.Log[0].Err.Error())
	}
	return nonTrivial
}

// checkSprint compares every step that left a node during this engine call with the reference.
func (p *c07) checkSprint(res *fw.Result, h *harness, rec *drive.CallRecord, pre plantState, intent *c07Intent, track *envTrack, plog *patternLog) (nonTrivial bool) {
	scen := h.scen
	entry := rec.Kind
	if rec.Kind == "resume" {
		entry += "." + rec.ResumeType
	}
	res.Count("call."+entry, 1)
	if rec.Panic != nil {
		panicViolation(res, "C07", scen, rec)
		return
	}
	if rec.Budget {
		res.Count("call.budget_exceeded", 1)
		return
	}
	s := rec.Session
	if s == nil || len(s.Runs()) == 0 {
		res.Count("call.no_session", 1)
		return
	}
	if rec.Err != nil {
		cls := errClass(rec.Err.Error())
		res.Count("call.error", 1)
		res.Seen("call_errors", cls)
		if !strings.Contains(rec.Err.Error(), "error routing from node") {
			return // e.g. a resume the wait rejects: nothing was routed
		}
	}
	sc := &sprintCheck{p: p, res: res, h: h, rec: rec, entry: entry, intent: intent, track: track, plog: plog}
	// the environment the routers of this sprint must have used: built from our own record of the history, never from
	// session.MergedEnvironment() (see c07_ref.go)
	sc.allowed = allowedOf(track.cur, h.trigger.Environment.AllowedLanguages)
	if env, base, ok := buildRefEnv(s, track.cur); ok && base.Equal(s.Environment()) {
		sc.env = env
		res.Count("env.reference_from_own_record", 1)
	} else {
		// no environment JSON of ours to go by (or the session's base environment is not the one we recorded, which is
		// not this property's business): merge over the session's plain base environment
		sc.env = mergedOver(s, s.Environment())
		sc.allowed = nil
		for _, l := range s.Environment().AllowedLanguages() {
			sc.allowed = append(sc.allowed, string(l))
		}
		res.Count("env.reference_from_session_base", 1)
	}
	if track.changed {
		if env, _, ok := buildRefEnv(s, track.prev); ok {
			sc.prevEnv, sc.prevAllowed = env, allowedOf(track.prev, nil)
		}
	}
	sc.maxResult = h.rn.Eng.Options().MaxResultChars
	sc.events = sprintEvents(rec)
	if rec.Sprint != nil {
		sc.segs = rec.Sprint.Segments()
	}
	sc.segUsed = make([]bool, len(sc.segs))
	sc.draws = h.redraw(pre, 12)
	if len(s.Runs()) > 1 {
		res.Count("seen.sessions_with_child_runs", 1)
	}
	for _, run := range s.Runs() {
		if snap, ok := rec.RunsBefore[run.UUID()]; ok && rec.Kind == "resume" {
			if snap.Status != flows.RunStatusActive && snap.Status != flows.RunStatusWaiting {
				continue // had ended before this call
			}
		}
		sc.checkRun(run)
	}
	return sc.nonTrivial
}

type sprintCheck struct {
	p          *c07
	res        *fw.Result
	h          *harness
	rec        *drive.CallRecord
	entry      string
	intent     *c07Intent
	env        envs.Environment
	maxResult  int
	events     []sprintEvent
	segs       []flows.Segment
	segUsed    []bool
	draws      []string
	nonTrivial bool

	track       *envTrack
	plog        *patternLog
	allowed     []string         // allowed languages of the environment in force
	prevEnv     envs.Environment // set when this call's resume changed the environment: the one in force before
	prevAllowed []string
}

func (sc *sprintCheck) viol(sig, what string, extra map[string]any) {
	extra["call_index"] = sc.rec.Index
	extra["entry"] = sc.entry
	sc.res.Violate("C07|"+sig, what, witnessOf(sc.h.scen, extra))
}

// segment finds the segment logged for leaving node n of flow f by exit (a segment is only logged when the exit
// leads to an existing node).
func (sc *sprintCheck) segment(f *defFlow, n *defNode, exit string) flows.Segment {
	hasDest := false
	for _, e := range n.Exits {
		if e.UUID == exit && e.Dest != "" && f.node(e.Dest) != nil {
			hasDest = true
		}
	}
	if !hasDest {
		return nil
	}
	for j, sg := range sc.segs {
		if !sc.segUsed[j] && string(sg.Node().UUID()) == n.UUID && string(sg.Flow().UUID()) == f.UUID {
			sc.segUsed[j] = true
			return sg
		}
	}
	return nil
}

func (sc *sprintCheck) checkRun(run flows.Run) {
	res, h, rec := sc.res, sc.h, sc.rec
	s := rec.Session
	flow := h.flows[string(run.FlowReference().UUID)]
	if flow == nil {
		return
	}
	viol := sc.viol

	// --- the context the routers of this run saw in this sprint (see Rule: nothing they may reference changes afterwards)
	env := sc.env
	var ctx *types.XObject
	func() {
		defer func() {
			if r := recover(); r != nil {
				ctx = nil
			}
		}()
		ctx = types.NewXObject(run.RootContext(env))
	}()
	if ctx == nil {
		res.Count("skip.no_context", 1)
		return
	}
	contactLang := ""
	if s.Contact() != nil {
		contactLang = string(s.Contact().Language())
	}
	chain := refChain(contactLang, sc.allowed, flow.Language)
	maxResult := sc.maxResult
	events := sc.events

	path := run.Path()
	start := 0
	wasWaiting := false
	if snap, ok := rec.RunsBefore[run.UUID()]; ok && rec.Kind == "resume" {
		if snap.PathLen > 0 {
			start = snap.PathLen - 1
		}
		wasWaiting = snap.Status == flows.RunStatusWaiting
	}
	if run.ParentInSession() != nil {
		res.Count("seen.child_run_checked", 1)
	}

	// result names written by nodes visited later in this sprint (the stored result is only attributable to its last writer)
	writesAfter := func(i int, name string) bool {
		for j := i + 1; j < len(path); j++ {
			n := flow.node(string(path[j].NodeUUID()))
			if n == nil {
				continue
			}
			for _, a := range n.Actions {
				if a.resultWritten() == name {
					return true
				}
			}
			if n.Router != nil && n.Router.ResultName == name && path[j].ExitUUID() != "" {
				return true
			}
		}
		return false
	}

	for i := start; i < len(path); i++ {
		step := path[i]
		node := flow.node(string(step.NodeUUID()))
		if node == nil {
			continue
		}
		last := i == len(path)-1
		observed := string(step.ExitUUID())
		if last && observed == "" && s.Status() == flows.SessionStatusWaiting && (run.Status() == flows.RunStatusWaiting || run.Status() == flows.RunStatusActive) {
			// waiting here, or paused here while a child run waits: not routed (yet)
			res.Count("step.parked", 1)
			continue
		}
		if i == start && wasWaiting && rec.ResumeType == "run_expiration" {
			// the run ends where it waited; no routing happens (the statement does not speak about it)
			res.Count("decision.expiration_no_routing", 1)
			if observed == "" {
				res.Count("expiration.step_not_left", 1)
			}
			continue
		}
		if rec.Err != nil && !last {
			continue
		}
		isTimeout := i == start && wasWaiting && rec.ResumeType == "wait_timeout"
		runFailedHere := last && run.Status() == flows.RunStatusFailed
		failedToPick, otherFailure := false, ""
		for _, e := range events {
			if e.Type == "failure" && e.StepUUID == string(step.UUID()) {
				if strings.Contains(e.Text, "failed to pick a category") {
					failedToPick = true
				} else {
					otherFailure = e.Text
				}
			}
		}
		if runFailedHere && !failedToPick {
			// the run failed at this step although its router was able to pick a category. The engine has three reasons of
			// its own to end a run where it stands (its child failed, the step limit, the flow asset is gone); then the
			// router never got to decide. Any other failure at a node whose definition prescribes an exit is the router
			// not taking it.
			if otherFailure == "" {
				// a failure logged without a step (a parent that is resumed when its child ends)
				before := 0
				if snap, ok := rec.RunsBefore[run.UUID()]; ok {
					before = snap.EventsLen
				}
				if evs := run.Events(); before <= len(evs) {
					for _, e := range evs[before:] {
						if e.Type() == "failure" {
							var m struct {
								Text string `json:"text"`
							}
							b, _ := json.Marshal(e)
							json.Unmarshal(b, &m)
							otherFailure = m.Text
						}
					}
				}
			}
			legit := false
			for _, k := range []string{"child run for flow", "maximum number of steps", "missing flow asset", "maximum number of resumes"} {
				if strings.Contains(otherFailure, k) {
					legit = true
				}
			}
			if legit {
				res.Count("skip.run_failed_for_other_reason", 1)
				res.Seen("other_failures", errClass(otherFailure))
				continue
			}
			if node.Router != nil {
				res.Count("clause.failed_at_router_node", 1)
				viol("run-failed-at-router|"+errClass(otherFailure), fmt.Sprintf("the run failed at a node whose router is defined to pick an exit: %s", otherFailure),
					map[string]any{"node": node.UUID, "step_index": i, "failure": otherFailure, "resume_type": rec.ResumeType})
				continue
			}
			res.Count("skip.run_failed_for_other_reason", 1)
			res.Seen("other_failures", errClass(otherFailure))
			continue
		}

		// ---------------- node without router: first exit
		if node.Router == nil {
			want := ""
			if len(node.Exits) > 0 {
				want = node.Exits[0].UUID
			}
			res.Count("decision.norouter", 1)
			res.Count("clause.exit", 1)
			res.Count(fmt.Sprintf("norouter.exits_%d", len(node.Exits)), 1)
			if observed != want {
				viol("decision-mismatch|no-router|expected=first-exit|observed="+classifyExit(node, nil, observed), fmt.Sprintf("node without router left by exit %q, its first exit is %q", observed, want),
					map[string]any{"node": node.UUID, "step_index": i, "expected_exit": want, "observed_exit": observed})
			}
			if seg := sc.segment(flow, node, observed); seg != nil && want != "" {
				res.Count("clause.segment_exit", 1)
				if string(seg.Exit().UUID()) != want {
					viol("segment-exit-mismatch|no-router", "segment logged for a node without router names another exit than the first", map[string]any{"node": node.UUID, "expected_exit": want, "segment_exit": string(seg.Exit().UUID())})
				}
			}
			continue
		}

		rt := node.Router
		var want *defCat
		var d decision
		kind := ""
		switch {
		case isTimeout:
			kind = "timeout"
			if rt.Wait == nil || rt.Wait.Timeout == nil {
				res.Count("skip.timeout_without_timeout", 1)
				continue
			}
			want = rt.cat(rt.Wait.Timeout.CategoryUUID)
			if want == nil {
				res.Count("skip.timeout_category_unknown", 1)
				continue
			}
		case rt.Type == "random":
			kind = "random"
		case rt.Type == "switch":
			d = refSwitch07(h.ev, env, ctx, flow, chain, rt, sc.plog, refObs{
				test: func(test, outcome string) { res.Count("test."+test+"."+outcome, 1) },
				pattern: func(twin, disagrees bool) {
					res.Count("pattern.judged_by_own_regexp", 1)
					if twin {
						res.Count("seen.pattern_case_twin", 1)
					}
					if disagrees {
						res.Count("seen.pattern_twin_distinguishes", 1)
					}
				},
			})
			if d.Skip == "" && sc.prevEnv != nil {
				// evidence: would the environment that was in force before this resume have prescribed something else?
				res.Count("seen.router_after_env_change", 1)
				func() {
					defer func() { recover() }()
					pctx := types.NewXObject(run.RootContext(sc.prevEnv))
					pd := refSwitch07(h.ev, sc.prevEnv, pctx, flow, refChain(contactLang, sc.prevAllowed, flow.Language), rt, nil, refObs{})
					if !sameDecision(d, pd) {
						res.Count("seen.decision_depends_on_env_change", 1)
					}
				}()
			} else if d.Skip == "" && sc.track.changes > 0 {
				res.Count("seen.router_in_later_sprint_after_env_change", 1)
			}
			if d.Skip != "" {
				res.Count("skip.reference_undecided", 1)
				res.Seen("reference_skips", d.Skip)
				continue
			}
			kind, want = d.Kind, d.Cat
		default:
			continue
		}
		if run.ParentInSession() != nil {
			res.Count("seen.router_in_child_run", 1)
		} else if kind != "timeout" && !wasWaitingStep(i, start, wasWaiting) && hasEnterFlow(node) {
			res.Count("seen.router_after_child_returned", 1)
		}

		seg := sc.segment(flow, node, observed)

		// ---------------- random router: category floor(r*n) for its draw r
		if kind == "random" {
			var stored *flows.Result
			if rt.ResultName != "" && !writesAfter(i, rt.ResultName) {
				stored = storedResult(run, rt.ResultName)
			}
			rStr, src := "", ""
			if seg != nil {
				rStr, src = seg.Operand(), "segment"
			} else if stored != nil && maxResult >= 30 {
				rStr, src = stored.Input, "result"
			}
			if rStr == "" {
				res.Count("skip.random_draw_not_observable", 1)
				continue
			}
			if contains(sc.draws, rStr) {
				res.Count("random.redraw_agrees", 1) // the recorded draw is what the random source produced in this call
			} else {
				res.Count("random.redraw_differs", 1)
			}
			rv, err := decimal.NewFromString(rStr)
			if err != nil {
				viol("random|draw-not-a-number", fmt.Sprintf("random router recorded operand %q which is not a number", rStr), map[string]any{"node": node.UUID, "operand": rStr, "from": src})
				continue
			}
			n := len(rt.Categories)
			scaled := rv.Mul(decimal.New(int64(n), 0))
			idx := int(scaled.Floor().IntPart())
			res.Count("decision.random", 1)
			res.Count(fmt.Sprintf("random.categories_%d", n), 1)
			sc.nonTrivial = true
			if scaled.Sub(scaled.Round(0)).Abs().LessThan(decimal.New(1, -9)) {
				res.Count("random.boundary_draw", 1)
				if scaled.Equal(scaled.Round(0)) {
					res.Count("random.exact_boundary_draw", 1)
					res.Seen("random_exact_boundaries", fmt.Sprintf("%s*%d", rStr, n))
				}
			}
			if idx < 0 || idx >= n {
				viol("random|draw-out-of-range", fmt.Sprintf("random draw %s is outside [0,1)", rStr), map[string]any{"node": node.UUID, "draw": rStr})
				continue
			}
			want = &rt.Categories[idx]
			res.Count("clause.exit", 1)
			if observed != want.ExitUUID {
				viol("decision-mismatch|random|expected=floor(r*n)|observed="+classifyExit(node, rt, observed),
					fmt.Sprintf("random router with draw %s over %d categories left by %s, floor(r*n)=%d is category %q", rStr, n, classifyExit(node, rt, observed), idx, want.Name),
					map[string]any{"node": node.UUID, "draw": rStr, "n": n, "expected_index": idx, "expected_exit": want.ExitUUID, "observed_exit": observed})
			}
			if seg != nil {
				res.Count("clause.segment_exit", 1)
				if string(seg.Exit().UUID()) != want.ExitUUID {
					viol("segment-exit-mismatch|random", "segment of a random router names another exit than floor(r*n)", map[string]any{"node": node.UUID, "draw": rStr, "expected_exit": want.ExitUUID, "segment_exit": string(seg.Exit().UUID())})
				}
			}
			if stored != nil {
				res.Count("clause.result_category", 1)
				if stored.Category != want.Name {
					viol("result-mismatch|category|random", fmt.Sprintf("random router saved category %q, floor(r*n) is %q", stored.Category, want.Name), map[string]any{"node": node.UUID, "draw": rStr, "stored": stored})
				}
				res.Count("clause.result_input", 1)
				if stored.Input != truncRunes(rStr, maxResult) {
					viol("result-mismatch|input|random", fmt.Sprintf("random router saved input %q but its operand (the draw) is %q", stored.Input, rStr), map[string]any{"node": node.UUID, "draw": rStr, "stored": stored})
				}
				if stored.Value == truncRunes(fmt.Sprint(idx), maxResult) {
					res.Count("random.value_is_index", 1)
				} else {
					res.Count("random.value_is_not_index", 1)
				}
			} else if rt.ResultName != "" && !writesAfter(i, rt.ResultName) {
				viol("result-missing|random", "random router with a result name left no stored result", map[string]any{"node": node.UUID})
			}
			continue
		}

		// ---------------- switch router / timeout
		res.Count("decision."+kind, 1)
		res.Count(fmt.Sprintf("switch.cases_%d", len(rt.Cases)), 1)
		if kind != "timeout" {
			if len(rt.Cases) >= 2 || len(d.ErrBefore) > 0 || kind != "case" {
				sc.nonTrivial = true
			}
			if len(d.ErrBefore) > 0 {
				res.Count("seen.error_before_winner", 1)
			}
			if len(d.Matching) >= 2 {
				res.Count("seen.multi_match", 1)
			}
			if d.LenMismatch > 0 {
				res.Count("seen.args_length_mismatch", int64(d.LenMismatch))
			}
			if kind == "case" {
				if d.WinnerLang != flow.Language {
					res.Count("seen.localized_args_used", 1)
				}
				switch {
				case len(rt.Cases) >= 3 && d.CaseIdx == 0:
					res.Count("winner.first", 1)
				case len(rt.Cases) >= 3 && d.CaseIdx == len(rt.Cases)-1:
					res.Count("winner.last", 1)
				case len(rt.Cases) >= 3:
					res.Count("winner.middle", 1)
				}
				res.Count("winner.test."+rt.Cases[d.CaseIdx].Type, 1)
			}
			if sc.intent != nil && node.UUID == gen.NamedUUID("node:r") {
				if d.CaseIdx == sc.intent.winnerCase {
					res.Count("directed.position_as_intended", 1)
				} else {
					res.Count("directed.position_not_as_intended", 1)
					res.Seen("directed_not_as_intended", fmt.Sprintf("%v want case %d got %s/%d", testsOf(rt), sc.intent.winnerCase, kind, d.CaseIdx))
				}
			}
		} else {
			sc.nonTrivial = true
		}
		noteShape(res, rt)

		if rec.Err != nil {
			viol("route-error|expected="+kind+"|"+errClass(rec.Err.Error()), fmt.Sprintf("the reference router decides %q but routing returned an error: %v", kind, rec.Err), map[string]any{"node": node.UUID, "error": rec.Err.Error(), "reference": refWitness(d, want)})
			continue
		}
		if runFailedHere && !failedToPick {
			viol("run-failed|expected="+kind+"|"+errClass(otherFailure), fmt.Sprintf("the reference router decides %q but the run failed while routing: %s", kind, otherFailure), map[string]any{"node": node.UUID, "failure": otherFailure, "reference": refWitness(d, want)})
			continue
		}

		if want == nil { // kind == "none"
			res.Count("clause.no_category_fails_run", 1)
			if observed != "" || !runFailedHere || !failedToPick {
				obs := classifyExit(node, rt, observed)
				if observed == "" {
					obs = "run-not-failed"
				}
				viol("decision-mismatch|switch|expected=none|observed="+obs,
					fmt.Sprintf("no case matches and there is no default category, so the run must fail; observed exit %q (%s), run status %s, failure event %v", observed, obs, run.Status(), failedToPick),
					map[string]any{"node": node.UUID, "step_index": i, "observed_exit": observed, "run_status": run.Status(), "reference": refWitness(d, want)})
			}
			continue
		}

		res.Count("clause.exit", 1)
		if observed != want.ExitUUID {
			obs := classifyObserved(node, rt, &d, observed)
			viol("decision-mismatch|switch|expected="+kind+"|observed="+obs,
				fmt.Sprintf("router left by %s (exit %q); the reference router decides %s → category %q exit %q (operand %q)", obs, observed, kind, want.Name, want.ExitUUID, d.Operand),
				map[string]any{"node": node.UUID, "step_index": i, "observed_exit": observed, "expected_exit": want.ExitUUID, "reference": refWitness(d, want), "router": rt})
		}
		if seg != nil {
			res.Count("clause.segment_exit", 1)
			if string(seg.Exit().UUID()) != want.ExitUUID {
				viol("segment-exit-mismatch|switch|expected="+kind, "the segment logged for the router names another exit than the reference decision", map[string]any{"node": node.UUID, "expected_exit": want.ExitUUID, "segment_exit": string(seg.Exit().UUID()), "reference": refWitness(d, want)})
			}
			if kind != "timeout" {
				if seg.Operand() == d.Operand {
					res.Count("segment.operand_agrees", 1)
				} else {
					res.Count("segment.operand_differs", 1)
				}
			}
		}

		// ---------------- saved result
		if rt.ResultName == "" {
			continue
		}
		if writesAfter(i, rt.ResultName) {
			res.Count("skip.result_overwritten_later", 1)
			continue
		}
		stored := storedResult(run, rt.ResultName)
		if stored == nil {
			viol("result-missing|"+kind, fmt.Sprintf("router with result name %q chose category %q but no result is stored", rt.ResultName, want.Name), map[string]any{"node": node.UUID, "reference": refWitness(d, want)})
			continue
		}
		res.Count("clause.result_category", 1)
		if stored.Category != want.Name {
			viol("result-mismatch|category|"+kind, fmt.Sprintf("stored result %q has category %q, the chosen category is %q", rt.ResultName, stored.Category, want.Name),
				map[string]any{"node": node.UUID, "stored": stored, "reference": refWitness(d, want), "router": rt})
		}
		if kind == "timeout" {
			// value/input of a timeout are not in the statement: count what the code does
			if stored.Input == "" {
				res.Count("timeout.input_empty", 1)
			} else {
				res.Count("timeout.input_not_empty", 1)
			}
			sc.noteTimeoutValue(run, stored.Value)
		} else {
			wantValue, wantInput := truncRunes(d.Value, maxResult), truncRunes(d.Operand, maxResult)
			if wantValue != d.Value || wantInput != d.Operand {
				res.Count("seen.truncated_value", 1)
			}
			res.Count("clause.result_value", 1)
			if stored.Value != wantValue {
				viol("result-mismatch|value|"+kind, fmt.Sprintf("stored result %q has value %q, expected %q (match of the winning test / operand for default)", rt.ResultName, stored.Value, wantValue),
					map[string]any{"node": node.UUID, "stored": stored, "reference": refWitness(d, want), "router": rt})
			}
			res.Count("clause.result_input", 1)
			if stored.Input != wantInput {
				viol("result-mismatch|input|"+kind, fmt.Sprintf("stored result %q has input %q, the operand is %q", rt.ResultName, stored.Input, wantInput),
					map[string]any{"node": node.UUID, "stored": stored, "reference": refWitness(d, want), "router": rt})
			}
		}
		if string(stored.NodeUUID) == node.UUID {
			res.Count("result.node_uuid_is_router", 1)
		} else {
			res.Count("result.node_uuid_differs", 1)
		}
		// the run_result_changed event, when present, must agree
		found := false
		for _, e := range events {
			if e.Type == "run_result_changed" && e.Name == rt.ResultName && e.StepUUID == string(step.UUID()) {
				found = true
				res.Count("clause.event_agrees", 1)
				if e.Category != want.Name || (kind != "timeout" && e.Value != truncRunes(d.Value, maxResult)) {
					viol("event-mismatch|run_result_changed|"+kind, fmt.Sprintf("run_result_changed says value %q category %q, the reference says value %q category %q", e.Value, e.Category, d.Value, want.Name),
						map[string]any{"node": node.UUID, "event": e, "reference": refWitness(d, want)})
				}
			}
		}
		if !found {
			res.Count("seen.result_unchanged_no_event", 1)
		}
	}
}

func wasWaitingStep(i, start int, wasWaiting bool) bool { return i == start && wasWaiting }

func hasEnterFlow(n *defNode) bool {
	for _, a := range n.Actions {
		if a.Type == "enter_flow" {
			return true
		}
	}
	return false
}

// noteTimeoutValue records (counters only; the statement is silent) which wait_timed_out event the value of a
// timeout result is the time of.
func (sc *sprintCheck) noteTimeoutValue(run flows.Run, value string) {
	var times []time.Time
	for _, e := range run.Events() {
		if e.Type() == "wait_timed_out" {
			times = append(times, e.CreatedOn())
		}
	}
	v, err := time.Parse(time.RFC3339Nano, value)
	switch {
	case err != nil || len(times) == 0:
		sc.res.Count("timeout.value_other", 1)
	case v.Equal(times[len(times)-1].Truncate(time.Microsecond)) || v.Equal(times[len(times)-1]):
		sc.res.Count("timeout.value_is_time_of_latest_timeout", 1)
	case v.Equal(times[0].Truncate(time.Microsecond)) || v.Equal(times[0]):
		sc.res.Count("timeout.value_is_time_of_first_timeout_of_run", 1)
	default:
		sc.res.Count("timeout.value_other", 1)
	}
}

func testsOf(rt *defRouter) []string {
	var out []string
	for _, c := range rt.Cases {
		out = append(out, c.Type)
	}
	return out
}

// noteShape records structural features of a checked router.
func noteShape(res *fw.Result, rt *defRouter) {
	names := map[string]int{}
	exits := map[string]int{}
	for _, c := range rt.Categories {
		names[c.Name]++
		exits[c.ExitUUID]++
	}
	for _, n := range names {
		if n > 1 {
			res.Count("seen.duplicate_category_name", 1)
			break
		}
	}
	for _, n := range exits {
		if n > 1 {
			res.Count("seen.shared_exit", 1)
			break
		}
	}
	if rt.DefaultCategoryUUID == "" {
		res.Count("seen.no_default", 1)
	}
	if rt.Wait != nil {
		res.Count("seen.router_with_wait", 1)
	} else {
		res.Count("seen.router_without_wait", 1)
	}
}

func refWitness(d decision, want *defCat) map[string]any {
	w := map[string]any{"kind": d.Kind, "case_index": d.CaseIdx, "operand_text": d.Operand, "value": d.Value, "matching_cases": d.Matching, "erroring_before": d.ErrBefore, "argument_languages": d.ArgLangs}
	if want != nil {
		w["category"] = want.Name
		w["exit"] = want.ExitUUID
	}
	return w
}

// classifyExit names an observed exit structurally (for signatures): none / first-exit / exit-of-default / other-exit / unknown.
func classifyExit(node *defNode, rt *defRouter, exit string) string {
	if exit == "" {
		return "none"
	}
	if rt != nil {
		if c := rt.cat(rt.DefaultCategoryUUID); c != nil && c.ExitUUID == exit {
			return "exit-of-default"
		}
		if rt.Wait != nil && rt.Wait.Timeout != nil {
			if c := rt.cat(rt.Wait.Timeout.CategoryUUID); c != nil && c.ExitUUID == exit {
				return "exit-of-timeout-category"
			}
		}
	}
	for i, e := range node.Exits {
		if e.UUID == exit {
			if i == 0 {
				return "first-exit"
			}
			return "other-exit"
		}
	}
	return "unknown-exit"
}

// classifyObserved relates the observed exit to the reference's view of the cases.
func classifyObserved(node *defNode, rt *defRouter, d *decision, exit string) string {
	if exit == "" {
		return "none"
	}
	var kinds []string
	for _, i := range d.Matching {
		if i != d.CaseIdx {
			if c := rt.cat(rt.Cases[i].CategoryUUID); c != nil && c.ExitUUID == exit {
				kinds = append(kinds, "later-matching-case")
				break
			}
		}
	}
	for _, i := range d.ErrBefore {
		if c := rt.cat(rt.Cases[i].CategoryUUID); c != nil && c.ExitUUID == exit {
			kinds = append(kinds, "erroring-case")
			break
		}
	}
	if len(kinds) == 0 {
		return classifyExit(node, rt, exit)
	}
	sort.Strings(kinds)
	return strings.Join(kinds, "+")
}
