package p07

import (
	"verif/internal/gen"
)

// Directed cases for the two classes of c07_aug.go.

// twinRow: a pattern, a text only the pattern matches, a text only its case twin matches.
type twinRow struct {
	pattern, onlyPattern, onlyTwin string
}

var twinRows = []twinRow{
	{`^\d+$`, "2024", "hello"},
	{`^\w+$`, "hello", "?!"},
	{`a\sb`, "a b", "a-b"},
	{`\bfox`, "a fox", "afox"},
	{`^\pL+$`, "hello", "1234"},
	{`(?-i)^yes$`, "yes", "YES"},
}

// directedPatternTwins: routers whose has_pattern cases differ only in letter case, in both orders, in one router, in
// two routers of one flow, and as the translation of one case.
func directedPatternTwins() []c07DirectedScen {
	d := dsl
	var out []c07DirectedScen
	cA, cB, cC, cO := d.Cat("A", "ea"), d.Cat("B", "eb"), d.Cat("C", "ec"), d.Cat("Other", "eo")
	four := []M{cA, cB, cC, cO}
	fourExits := []string{"ea", "eb", "ec", "eo"}
	for _, row := range twinRows {
		p, q := row.pattern, caseTwin(row.pattern)
		// one router, both orders
		for _, pair := range [][2]string{{p, q}, {q, p}} {
			cs := []M{mkCase(0, M{"type": "has_pattern", "arguments": []string{pair[0]}}, cA), mkCase(1, M{"type": "has_pattern", "arguments": []string{pair[1]}}, cB)}
			router := d.Switch("@input.text", four, cO, cs, nil, "Answer")
			out = append(out, c07DirectedScen{scen: &gen.Scenario{Assets: d.BaseAssets(stdFlow(router, fourExits, false)), Trigger: d.Manual("R", nil),
				Resumes: []M{d.MsgResume(0, row.onlyPattern), d.MsgResume(1, row.onlyTwin), d.MsgResume(2, row.onlyPattern), d.MsgResume(3, "")}}})
		}
		// two routers: q (pattern) leads into r (twin) whatever it decides
		qa, qo := d.Cat("QA", "q:a"), d.Cat("QOther", "q:o")
		qcs := []M{M{"uuid": gen.NamedUUID("case:q:0"), "type": "has_pattern", "arguments": []string{p}, "category_uuid": qa["uuid"]}}
		qr := d.Switch("@input.text", []M{qa, qo}, qo, qcs, nil, "First")
		rcs := []M{mkCase(0, M{"type": "has_pattern", "arguments": []string{q}}, cA)}
		rr := d.Switch("@input.text", four, cO, rcs, nil, "Answer")
		fl := d.Flow("R", "messaging",
			d.WaitNode("w", "q", nil),
			d.Node("q", nil, qr, d.Exit("q:a", "r"), d.Exit("q:o", "r")),
			d.Node("r", nil, rr, d.Exit("ea", "s"), d.Exit("eb", "s"), d.Exit("ec", "s"), d.Exit("eo", "s")),
			d.Node("s", []any{d.SendMsg("ms", "routed")}, nil, d.Exit("s:x", "w")))
		out = append(out, c07DirectedScen{scen: &gen.Scenario{Assets: d.BaseAssets(fl), Trigger: d.Manual("R", nil),
			Resumes: []M{d.MsgResume(0, row.onlyTwin), d.MsgResume(1, row.onlyPattern), d.MsgResume(2, row.onlyTwin)}}})
		// the twin is the Spanish translation of the pattern; a second case holds the twin in the base language
		cs := []M{mkCase(0, M{"type": "has_pattern", "arguments": []string{p}}, cA), mkCase(1, M{"type": "has_pattern", "arguments": []string{q}}, cB)}
		router := d.Switch("@input.text", four, cO, cs, nil, "Answer")
		lf := stdFlow(router, fourExits, false)
		loc := M{}
		setLoc(loc, "spa", cs[0]["uuid"].(string), "arguments", []string{q})
		setLoc(loc, "spa", cs[1]["uuid"].(string), "arguments", []string{p})
		lf["localization"] = loc
		ct := d.Contact()
		ct["language"] = "spa"
		out = append(out, c07DirectedScen{scen: &gen.Scenario{Assets: d.BaseAssets(lf), Trigger: d.Manual("R", ct),
			Resumes: []M{d.MsgResume(0, row.onlyPattern), d.MsgResume(1, row.onlyTwin)}}})
	}
	return out
}

// envRow: two environments and a router whose decision on text depends on which of them is in force.
type envRow struct {
	name   string
	first  M // settings laid over the standard environment at the trigger
	second M // settings laid over it by the resume
	cases  []M
	text   string
	loc    func(cs []M) M
	lang   string
}

func envRows() []envRow {
	return []envRow{
		{name: "date_format", first: M{"date_format": "DD-MM-YYYY"}, second: M{"date_format": "MM-DD-YYYY"},
			cases: []M{{"type": "has_date_lt", "arguments": []string{"2024-06-01"}}, {"type": "has_date_gt", "arguments": []string{"2024-06-01"}}}, text: "03-08-2024"},
		{name: "number_format", first: M{}, second: M{"number_format": M{"decimal_symbol": ",", "digit_grouping_symbol": "."}},
			cases: []M{{"type": "has_number_gt", "arguments": []string{"100"}}, {"type": "has_number_lte", "arguments": []string{"100"}}}, text: "1.500"},
		{name: "timezone", first: M{"timezone": "UTC"}, second: M{"timezone": "America/Guayaquil"},
			// only the dates are compared, each seen in the environment's timezone: 03:00Z is still the day before in Guayaquil
			cases: []M{{"type": "has_date_eq", "arguments": []string{"2024-01-01T03:00:00Z"}}, {"type": "has_date_gt", "arguments": []string{"2024-01-01T03:00:00Z"}}}, text: "2024-01-01"},
		{name: "default_country", first: M{"default_country": "US"}, second: M{"default_country": "RW"},
			cases: []M{{"type": "has_phone"}}, text: "0788383383"},
		{name: "allowed_languages", first: M{"allowed_languages": []string{"eng"}}, second: M{"allowed_languages": []string{"spa", "eng"}},
			cases: []M{{"type": "has_any_word", "arguments": []string{"yes"}}, {"type": "has_any_word", "arguments": []string{"no"}}}, text: "si", lang: "spa",
			loc: func(cs []M) M {
				loc := M{}
				setLoc(loc, "spa", cs[0]["uuid"].(string), "arguments", []string{"si"})
				setLoc(loc, "spa", cs[1]["uuid"].(string), "arguments", []string{"nunca"})
				return loc
			}},
	}
}

// directedEnvironments: the session is started in one environment, a first message is routed in it, then resumes
// bring another environment (msg and wait_timeout resumes), keep it (a resume without environment), repeat it and
// put the first one back.
func directedEnvironments() []c07DirectedScen {
	d := dsl
	var out []c07DirectedScen
	cA, cB, cC, cO := d.Cat("A", "ea"), d.Cat("B", "eb"), d.Cat("C", "ec"), d.Cat("Other", "eo")
	four := []M{cA, cB, cC, cO}
	fourExits := []string{"ea", "eb", "ec", "eo"}
	lay := func(over M) M {
		e := copyM(d.Manual("R", nil)["environment"].(M))
		for k, v := range over {
			e[k] = v
		}
		return e
	}
	withEnv := func(m M, env M) M {
		m["environment"] = env
		return m
	}
	for _, row := range envRows() {
		for _, shape := range []string{"wait-then-router", "router-with-wait"} {
			var cs []M
			for i, c := range row.cases {
				cs = append(cs, mkCase(i, c, four[i]))
			}
			var fl M
			if shape == "wait-then-router" {
				fl = stdFlow(d.Switch("@input.text", four, cO, cs, nil, "Answer"), fourExits, true)
			} else {
				wr := d.Switch("@input.text", four, cO, cs, M{"type": "msg", "timeout": M{"seconds": 60, "category_uuid": cC["uuid"]}}, "Answer")
				fl = d.Flow("R", "messaging", d.Node("r", []any{d.SendMsg("ask", "Born @(format_date(\"2000-02-03\")), owing @(format_number(1234.5))?")}, wr, d.Exit("ea", "s"), d.Exit("eb", "s"), d.Exit("ec", "s"), d.Exit("eo", "s")),
					d.Node("s", []any{d.SendMsg("ms", "routed")}, nil, d.Exit("s:x", "r")))
			}
			if row.loc != nil {
				fl["localization"] = row.loc(cs)
			}
			ct := d.Contact()
			if row.lang != "" {
				ct["language"] = row.lang
			}
			if row.name == "default_country" {
				ct["urns"] = []string{"twitterid:54784326227#nyaruka"} // no channel whose country would take precedence
			}
			e1, e2 := lay(row.first), lay(row.second)
			tr := d.Manual("R", ct)
			tr["environment"] = e1
			mk := func(i int) M {
				m := d.MsgResume(i, row.text)
				if row.name == "default_country" {
					m["msg"].(M)["urn"] = "twitterid:54784326227"
					delete(m["msg"].(M), "channel")
				}
				return m
			}
			resumes := []M{
				mk(0),                           // routed in the first environment
				withEnv(mk(1), e2),              // the second environment arrives with the message
				mk(2),                           // and stays
				withEnv(d.Timeout(3), e1),       // the first one is put back by a timeout resume
				mk(4),                           //
				withEnv(mk(5), e1),              // sent along unchanged
				withEnv(mk(6), lay(row.second)), // and changed once more
			}
			out = append(out, c07DirectedScen{scen: &gen.Scenario{Assets: d.BaseAssets(fl), Trigger: tr, Resumes: resumes}})
		}
	}
	return out
}
