// Package p07 holds the runtime-monitoring checks for C07 (routers take the exit their definition
// prescribes) and C18 (localized text is chosen by the documented language fallback).
//
// Both checks run the real engine on dedicated scenarios and compare what it did with an independent
// reference that works on *our own parse of the definition JSON we generated* (never on goflow's parsed
// router objects): a reference language chain and a reference router (selection logic only; the Excellent
// evaluator and the test functions in cases.XTESTS are the trusted base).
package p07

import (
	"encoding/json"
	"fmt"
	"math/rand"
	"strings"
	"time"

	"github.com/nyaruka/gocommon/dates"
	"github.com/nyaruka/gocommon/random"
	"github.com/nyaruka/goflow/envs"
	"github.com/nyaruka/goflow/excellent"
	"github.com/nyaruka/goflow/excellent/types"
	"github.com/nyaruka/goflow/flows"
	"github.com/nyaruka/goflow/flows/routers/cases"

	"verif/internal/drive"
	"verif/internal/fw"
	"verif/internal/gen"
)

var dsl = gen.D{}

type M = gen.M

// ---------------------------------------------------------------------------------------------
// Definition model: our own reading of the flow JSON (independent of goflow's readers)
// ---------------------------------------------------------------------------------------------

type defExit struct {
	UUID string `json:"uuid"`
	Dest string `json:"destination_uuid"`
}

type defCat struct {
	UUID     string `json:"uuid"`
	Name     string `json:"name"`
	ExitUUID string `json:"exit_uuid"`
}

type defCase struct {
	UUID         string   `json:"uuid"`
	Type         string   `json:"type"`
	Arguments    []string `json:"arguments"`
	CategoryUUID string   `json:"category_uuid"`
}

type defTimeout struct {
	Seconds      int    `json:"seconds"`
	CategoryUUID string `json:"category_uuid"`
}

type defWait struct {
	Type    string      `json:"type"`
	Timeout *defTimeout `json:"timeout"`
}

type defRouter struct {
	Type                string    `json:"type"`
	Operand             string    `json:"operand"`
	Cases               []defCase `json:"cases"`
	Categories          []defCat  `json:"categories"`
	DefaultCategoryUUID string    `json:"default_category_uuid"`
	Wait                *defWait  `json:"wait"`
	ResultName          string    `json:"result_name"`
}

func (r *defRouter) cat(uuid string) *defCat {
	for i := range r.Categories {
		if r.Categories[i].UUID == uuid {
			return &r.Categories[i]
		}
	}
	return nil
}

type defAction struct {
	UUID         string   `json:"uuid"`
	Type         string   `json:"type"`
	Name         string   `json:"name"`
	ResultName   string   `json:"result_name"`
	Text         string   `json:"text"`
	Attachments  []string `json:"attachments"`
	QuickReplies []string `json:"quick_replies"`
	Category     string   `json:"category"`
	Value        string   `json:"value"`
}

// resultWritten is the result name an action saves ("" if none).
func (a *defAction) resultWritten() string {
	if a.Type == "set_run_result" {
		return a.Name
	}
	return a.ResultName
}

type defNode struct {
	UUID    string      `json:"uuid"`
	Actions []defAction `json:"actions"`
	Router  *defRouter  `json:"router"`
	Exits   []defExit   `json:"exits"`
}

type defFlow struct {
	UUID         string                                    `json:"uuid"`
	Name         string                                    `json:"name"`
	Language     string                                    `json:"language"`
	Nodes        []defNode                                 `json:"nodes"`
	Localization map[string]map[string]map[string][]string `json:"localization"`
}

func (f *defFlow) node(uuid string) *defNode {
	for i := range f.Nodes {
		if f.Nodes[i].UUID == uuid {
			return &f.Nodes[i]
		}
	}
	return nil
}

func parseFlow(m M) (*defFlow, error) {
	b, err := json.Marshal(m)
	if err != nil {
		return nil, err
	}
	f := &defFlow{}
	if err := json.Unmarshal(b, f); err != nil {
		return nil, err
	}
	return f, nil
}

type defTrigger struct {
	Environment struct {
		AllowedLanguages []string `json:"allowed_languages"`
		DefaultCountry   string   `json:"default_country"`
	} `json:"environment"`
	Contact struct {
		Language string `json:"language"`
	} `json:"contact"`
}

// ---------------------------------------------------------------------------------------------
// Reference language chain (the statement of C18, literally)
// ---------------------------------------------------------------------------------------------

// refChain: the contact's language if it is one of the environment's allowed languages, then the
// environment's default language (the first allowed one, if any), then the flow's base language.
func refChain(contactLang string, allowed []string, base string) []string {
	var ch []string
	if contactLang != "" {
		for _, a := range allowed {
			if a == contactLang {
				ch = append(ch, contactLang)
				break
			}
		}
	}
	if len(allowed) > 0 && allowed[0] != "" {
		ch = append(ch, allowed[0])
	}
	return append(ch, base)
}

func emptyTranslation(tr []string) bool {
	return len(tr) == 0 || (len(tr) == 1 && tr[0] == "")
}

// resolve: the first language of the chain that is the base language or has a non-empty translation
// (absent, [] and [""] are empty) for the item/property wins, otherwise the base text.
func (f *defFlow) resolve(chain []string, uuid, prop string, native []string) ([]string, string) {
	for _, l := range chain {
		if l == f.Language {
			return native, l
		}
		tr := f.Localization[l][uuid][prop]
		if emptyTranslation(tr) {
			continue
		}
		return tr, l
	}
	return native, f.Language
}

// ---------------------------------------------------------------------------------------------
// Reference router
// ---------------------------------------------------------------------------------------------

type decision struct {
	Kind        string // case | default | none
	CaseIdx     int
	Cat         *defCat
	Value       string // expected result value (match text / operand text)
	Operand     string // operand as text
	Skip        string // non-empty: the reference cannot decide (reason); no verdict for this step
	Matching    []int  // every case that would match (winner first)
	ErrBefore   []int  // erroring cases before the winner (or all erroring ones if no winner)
	LenMismatch int    // cases whose translation was ignored because its length differs from the base
	WinnerLang  string // language the winner's arguments were taken from
	ArgLangs    []string
}

// refSwitch is the independent selection logic: operand and localized arguments are evaluated with the real
// evaluator on ctx, tests are called in definition order, the first truthy non-error result wins, an error
// result means "no match, continue"; otherwise the default category; otherwise no category.
func refSwitch(ev *excellent.Evaluator, env envs.Environment, ctx *types.XObject, f *defFlow, chain []string, rt *defRouter, observe func(test, outcome string)) (d decision) {
	d.CaseIdx = -1
	defer func() {
		if rec := recover(); rec != nil {
			d.Skip = fmt.Sprintf("reference panicked: %v", rec)
		}
	}()
	operand, _, _ := ev.TemplateValue(env, ctx, rt.Operand)
	if t, _ := types.ToXText(env, operand); t != nil {
		d.Operand = t.Native()
	}

	evalCase := func(c *defCase) (matched bool, isErr bool, matchText string, lang string, skip string) {
		fn := cases.XTESTS[c.Type]
		if fn == nil {
			return false, false, "", "", "test not registered: " + c.Type
		}
		largs, lang := f.resolve(chain, c.UUID, "arguments", c.Arguments)
		if len(largs) != len(c.Arguments) {
			largs, lang = c.Arguments, f.Language
			d.LenMismatch++
		}
		args := []types.XValue{operand}
		for _, a := range largs {
			v, _, _ := ev.TemplateValue(env, ctx, a)
			args = append(args, v)
		}
		switch typed := fn.Call(env, args).(type) {
		case *types.XError:
			return false, true, "", lang, ""
		case *types.XObject:
			if !typed.Truthy() {
				return false, false, "", lang, ""
			}
			m, _ := typed.Get("match")
			mt, xerr := types.ToXText(env, m)
			if xerr != nil {
				return true, false, "", lang, "match is not convertible to text"
			}
			return true, false, mt.Native(), lang, ""
		default:
			return false, false, "", lang, "test returned neither error nor object"
		}
	}

	for i := range rt.Cases {
		c := &rt.Cases[i]
		matched, isErr, mt, lang, skip := evalCase(c)
		d.ArgLangs = append(d.ArgLangs, lang)
		if skip != "" {
			d.Skip = skip
			return d
		}
		switch {
		case isErr:
			observe(c.Type, "error")
			d.ErrBefore = append(d.ErrBefore, i)
		case matched:
			observe(c.Type, "match")
			d.Kind, d.CaseIdx, d.Value, d.WinnerLang = "case", i, mt, lang
			d.Cat = rt.cat(c.CategoryUUID)
			d.Matching = append(d.Matching, i)
		default:
			observe(c.Type, "false")
		}
		if d.Kind == "case" {
			break
		}
	}
	if d.Kind == "case" {
		if d.Cat == nil {
			d.Skip = "case category not among the categories"
			return d
		}
		// statistics only: which later cases would also have matched
		func() {
			defer func() { recover() }()
			for i := d.CaseIdx + 1; i < len(rt.Cases); i++ {
				if matched, _, _, _, skip := evalCase(&rt.Cases[i]); matched && skip == "" {
					d.Matching = append(d.Matching, i)
				}
			}
		}()
		return d
	}
	if rt.DefaultCategoryUUID != "" {
		d.Kind, d.Value = "default", d.Operand
		d.Cat = rt.cat(rt.DefaultCategoryUUID)
		if d.Cat == nil {
			d.Skip = "default category not among the categories"
		}
		return d
	}
	d.Kind = "none"
	return d
}

// ---------------------------------------------------------------------------------------------
// Controlled sources on top of drive.Sources
// ---------------------------------------------------------------------------------------------

// frozenClock returns one instant for a whole engine call (and for the reference evaluation that follows it),
// so that values which read the clock (time filling in has_date*, now(), today()) are the same for the
// router and for the reference. Every read still goes through the driver's virtual clock, which keeps the
// logical step budget (hang watchdog) working.
type frozenClock struct {
	src *drive.Sources
	t   time.Time
}

func (c *frozenClock) Now() time.Time { c.src.Now(); return c.t }
func (c *frozenClock) advance()       { c.t = c.t.Add(time.Hour + 7*time.Minute + 3*time.Second) }

// plantSource is a rand.Source whose first values can be planted (to put random draws on category
// boundaries); afterwards it is a splitmix stream.
type plantSource struct {
	plants []int64
	pos    int
	s      uint64
}

type plantState struct {
	pos int
	s   uint64
}

func (p *plantSource) Int63() int64 {
	if p.pos < len(p.plants) {
		v := p.plants[p.pos]
		p.pos++
		return v
	}
	p.s += 0x9E3779B97F4A7C15
	z := p.s
	z = (z ^ (z >> 30)) * 0xBF58476D1CE4E5B9
	z = (z ^ (z >> 27)) * 0x94D049BB133111EB
	return int64((z ^ (z >> 31)) >> 1)
}
func (p *plantSource) Seed(int64)            {}
func (p *plantSource) snap() plantState      { return plantState{p.pos, p.s} }
func (p *plantSource) restore(st plantState) { p.pos, p.s = st.pos, st.s }

// ---------------------------------------------------------------------------------------------
// Harness: one scenario through the real engine
// ---------------------------------------------------------------------------------------------

type harness struct {
	scen    *gen.Scenario
	rn      *drive.Runner
	clk     *frozenClock
	rnd     *plantSource
	flows   map[string]*defFlow
	trigger defTrigger
	ev      *excellent.Evaluator
}

func openHarness(scen *gen.Scenario, seed int64, plants []int64) (*harness, error) {
	h := &harness{scen: scen, flows: map[string]*defFlow{}}
	for _, fm := range scen.Flows() {
		f, err := parseFlow(fm)
		if err != nil {
			return nil, fmt.Errorf("own parse of flow: %w", err)
		}
		h.flows[f.UUID] = f
	}
	json.Unmarshal(scen.TriggerJSON(), &h.trigger)
	rn, err := drive.Load(scen, seed)
	if err != nil {
		return nil, err
	}
	h.rn = rn
	h.clk = &frozenClock{src: rn.Src, t: time.Date(2018, 7, 6, 12, 30, 0, 123456789, time.UTC)}
	dates.SetNowFunc(h.clk.Now)
	h.rnd = &plantSource{plants: plants, s: uint64(seed)*0x9E3779B97F4A7C15 ^ fw.Hash64(scen.Fingerprint())}
	random.SetGenerator(rand.New(h.rnd))
	h.ev = rn.Eng.Evaluator()
	return h, nil
}

// run starts the session and applies the resumes while the session is waiting.
func (h *harness) run(after func(rec *drive.CallRecord, pre plantState)) {
	pre := h.rnd.snap()
	fw.SetDetail("engine start")
	rec := h.rn.Start()
	after(rec, pre)
	if !rec.OK() {
		return
	}
	for i, m := range h.scen.Resumes {
		if !h.rn.Waiting() {
			return
		}
		h.clk.advance()
		pre := h.rnd.snap()
		fw.SetDetail(fmt.Sprintf("engine resume %d (%v)", i, m["type"]))
		rec := h.rn.Resume(m)
		after(rec, pre)
		if rec.Panic != nil || rec.Budget {
			return
		}
	}
}

// redraw replays the random source from pre and returns the first n draws of random.Decimal().
func (h *harness) redraw(pre plantState, n int) []string {
	post := h.rnd.snap()
	h.rnd.restore(pre)
	var out []string
	for i := 0; i < n; i++ {
		out = append(out, random.Decimal().String())
	}
	h.rnd.restore(post)
	return out
}

// sprintEvent is what the monitors read of an event.
type sprintEvent struct {
	Type     string `json:"type"`
	StepUUID string `json:"step_uuid"`
	Text     string `json:"text"`
	Name     string `json:"name"`
	Value    string `json:"value"`
	Category string `json:"category"`
	Msg      *struct {
		Text         string   `json:"text"`
		Attachments  []string `json:"attachments"`
		QuickReplies []string `json:"quick_replies"`
		Locale       string   `json:"locale"`
	} `json:"msg"`
}

func sprintEvents(rec *drive.CallRecord) []sprintEvent {
	out := make([]sprintEvent, len(rec.EventsJSON))
	for i, b := range rec.EventsJSON {
		json.Unmarshal(b, &out[i])
	}
	return out
}

// storedResult finds a run result by its name.
func storedResult(run flows.Run, name string) *flows.Result {
	for _, r := range run.Results() {
		if r.Name == name {
			return r
		}
	}
	return nil
}

func truncRunes(s string, n int) string {
	rs := []rune(s)
	if len(rs) <= n {
		return s
	}
	if n < 0 {
		n = 0
	}
	return string(rs[:n])
}

// ---------------------------------------------------------------------------------------------
// small helpers copied from package props
// ---------------------------------------------------------------------------------------------

func witnessOf(scen *gen.Scenario, extra map[string]any) map[string]any {
	w := map[string]any{"scenario": scen}
	for k, v := range extra {
		w[k] = v
	}
	return w
}

func errClass(msg string) string {
	var b strings.Builder
	skip := false
	for _, r := range msg {
		switch {
		case r == '\'' || r == '"':
			skip = !skip
		case skip:
		case r >= '0' && r <= '9':
		default:
			b.WriteRune(r)
		}
		if b.Len() > 90 {
			break
		}
	}
	return strings.Join(strings.Fields(b.String()), " ")
}

func panicViolation(res *fw.Result, prop string, scen *gen.Scenario, rec *drive.CallRecord) {
	res.Count("engine_panics", 1)
	res.Violate(prop+"|"+fw.PanicSignature("engine:"+rec.Kind, rec.Panic, rec.PanicStack),
		fmt.Sprintf("engine call panicked: %v", rec.Panic),
		witnessOf(scen, map[string]any{"call_index": rec.Index, "panic": fmt.Sprint(rec.Panic), "stack": fw.TrimStack(rec.PanicStack)}))
}

func contains(xs []string, x string) bool {
	for _, v := range xs {
		if v == x {
			return true
		}
	}
	return false
}

func eqStrings(a, b []string) bool {
	if len(a) != len(b) {
		return false
	}
	for i := range a {
		if a[i] != b[i] {
			return false
		}
	}
	return true
}
